(* M refines S in ISOLATED mode on the fragment wf_prog_pass = wf_prog + PASS-THROUGH SLOTS (Core/Mech.v): slot tags and
   component_vars.is_filled reads written inside the body of a component tag (fill content, implicit default content).
   S resolves them in the closure's `owner` (the instance whose template contains the component tag); M renders fill
   content on the outer Context snapshot of the filled instance, where _DJC_COMPONENT_CTX / component_vars are the
   owner's - so a slot tag there looks up component_context_cache under the OWNER's id.
   New w.r.t. Core/MechProofs.v section 3: a ghost map theta : render id -> S instance.  The relation between an S closure
   and M's slot function says where its owner lives (id under the outer snapshot's key, theta of that id = the owner);
   the invariant INV says every id in theta has a cache entry whose fills are related to the instance's closures.  This
   replaces a mutually recursive relation over S's inst/closure values by a one-level one. *)
From DJC Require Import Lib.Base Core.Syntax Core.Sem Core.Proofs Core.Mech Core.MechProofs Core.MechDjango Core.MechIsoProv.
From DJC Require Core.CtxStack.
From Coq Require Import String.
Local Open Scope string_scope.
Local Open Scope list_scope.

Lemma all_same_nil_or (l : list str) : all_same l = true -> forall a b, In a l -> In b l -> a = b.
Proof. apply all_same_prop. Qed.

Section Pass.
  Variable lib : list (str * cdef).
  Hypothesis Hlib : forall cn cd, slookup cn lib = Some cd -> wf_cdef_q cd = true.

  (* the names of all `default`-flagged slot tags written in the template of component cn *)
  Definition dln (cn : str) : list str :=
    match slookup cn lib with Some cd => sdall_l (c_tpl cd) | None => [] end.

  Lemma dln_same cn : forall a b, In a (dln cn) -> In b (dln cn) -> a = b.
  Proof.
    unfold dln. destruct (slookup cn lib) as [cd|] eqn:E; [|intros a b []].
    apply all_same_prop. pose proof (Hlib _ _ E) as H. unfold wf_cdef_q in H. apply andb_true_iff in H as [_ H]. exact H.
  Qed.

  Definition theta := N -> option inst.
  Definition inames (i : inst) : list str := map (fun kc => escape_name (fst kc)) (inst_fills i).
  Definition iname (i : inst) : str := match i with Inst cn _ _ => cn end.

  (* where the instance `cur` lives in a layer list *)
  Definition orel (th : theta) (ds : list layer) (cur : option inst) : Prop :=
    match cur with
    | None => cget KEY ds = None /\ cget CVARS ds = None
    | Some i => exists rid, cget KEY ds = Some (CId rid) /\ cget CVARS ds = Some (CVars (inames i)) /\ th rid = Some i
    end.

  Definition frelT (th : theta) (ds0 : list layer) (a : str * slotfn) (b : str * closure) : Prop :=
    fst a = fst b /\
    match snd b with
    | Clo body btw cloc cout dv defv owner cprov =>
        sf_body (snd a) = body /\ sf_dvar (snd a) = dv /\ sf_defvar (snd a) = None /\ defv = None /\ cout = [] /\ cprov = [] /\
        (forall x, slookup x (match sf_extra (snd a) with Some e => e | None => [] end) = option_map CVal (slookup x btw)) /\
        (exists loc0 Gb, cloc = btw ++ loc0 /\ vrel ds0 loc0 /\
          wf_lq (match dv with Some x => x :: Gb | None => Gb end) body = true /\
          incl (map fst (btw ++ loc0)) Gb /\
          (forall x, dv = Some x -> ~ In x Gb /\ binder_ok x = true) /\
          (forall x, In x (map fst btw) -> ~ In x (map fst loc0) /\ uname x = true)) /\
        orel th ds0 owner /\
        (forall i, owner = Some i -> incl (sdall_l body) (dln (iname i)))
    end.

  Definition entry_ok (g : gstate) (th : theta) (rid : N) (i : inst) : Prop :=
    match i with
    | Inst cn fills iso =>
        iso = true /\ (rid < g_next g)%N /\
        exists ci O, alookup rid (g_cctx g) = Some ci /\ ci_name ci = cn /\ ci_outer ci = Some O /\ clean (dicts O) /\
                     Forall2 (frelT th (dicts O)) (ci_fills ci) fills /\ dflt_ok (dln cn) ci
    end.

  Definition INV (g : gstate) (th : theta) : Prop := forall rid i, th rid = Some i -> entry_ok g th rid i.

  Definition gext2 (g g' : gstate) : Prop :=
    (g_next g <= g_next g')%N /\
    forall j, (j < g_next g)%N -> forall ci, alookup j (g_cctx g) = Some ci ->
      exists ci', alookup j (g_cctx g') = Some ci' /\ ci_name ci' = ci_name ci /\ ci_fills ci' = ci_fills ci /\
                  ci_outer ci' = ci_outer ci /\ (dflt_ok (dln (ci_name ci)) ci -> dflt_ok (dln (ci_name ci)) ci').

  Lemma gext2_refl g : gext2 g g.
  Proof. split; [lia|]. intros j _ ci H. exists ci. auto. Qed.

  Lemma gext2_trans g1 g2 g3 : gext2 g1 g2 -> gext2 g2 g3 -> gext2 g1 g3.
  Proof.
    intros [H1 H2] [H3 H4]. split; [lia|]. intros j Hj ci Ha.
    destruct (H2 j Hj ci Ha) as [ci' [Ha' [Hn [Hf [Ho Hd]]]]].
    destruct (H4 j ltac:(lia) ci' Ha') as [ci'' [Ha'' [Hn' [Hf' [Ho' Hd']]]]].
    exists ci''. repeat split; try congruence. intro H. rewrite Hn in Hd'. apply Hd', Hd, H.
  Qed.

  Lemma gext2_same_cctx g g' : (g_next g <= g_next g')%N -> g_cctx g' = g_cctx g -> gext2 g g'.
  Proof. intros Hn Hc. split; [exact Hn|]. intros j _ ci H. rewrite Hc. exists ci. auto. Qed.

  Lemma INV_mono g g' th : INV g th -> gext2 g g' -> INV g' th.
  Proof.
    intros HI [Hn Hj] rid i Ht. specialize (HI rid i Ht). destruct i as [cn fills iso].
    destruct HI as [Hiso [Hlt [ci [O [Ha [Hnm [Ho [Hc [Hf Hd]]]]]]]]].
    destruct (Hj rid Hlt ci Ha) as [ci' [Ha' [Hn' [Hf' [Ho' Hd']]]]].
    split; [exact Hiso|]. split; [lia|]. exists ci', O. rewrite Hf', Ho', Hn'. repeat split; auto; try apply Hc.
    rewrite Hnm in Hd'. apply Hd', Hd.
  Qed.

  Definition th_le (th th' : theta) : Prop := forall rid i, th rid = Some i -> th' rid = Some i.

  Lemma orel_le th th' ds cur : th_le th th' -> orel th ds cur -> orel th' ds cur.
  Proof. intros Hl. destruct cur as [i|]; [|auto]. intros [rid [H1 [H2 H3]]]. exists rid. auto. Qed.

  Lemma frelT_le th th' ds0 a b : th_le th th' -> frelT th ds0 a b -> frelT th' ds0 a b.
  Proof.
    intros Hl [Hn H]. split; [exact Hn|]. destruct (snd b) as [body btw cloc cout dv defv owner cprov].
    destruct H as [H1 [H2 [H3 [H4 [H5 [H6 [H7 [H8 [H9 H10]]]]]]]]]. repeat (split; [assumption|]).
    split; [eapply orel_le; eassumption|exact H10].
  Qed.

  Lemma Forall2_frelT_le th th' ds0 fm fs : th_le th th' -> Forall2 (frelT th ds0) fm fs -> Forall2 (frelT th' ds0) fm fs.
  Proof.
    intros Hl H. induction H as [|a b fm fs Hab _ IH].
    - constructor.
    - constructor; [eapply frelT_le; eassumption|exact IH].
  Qed.

  Lemma entry_ok_le g th th' rid i : th_le th th' -> entry_ok g th rid i -> entry_ok g th' rid i.
  Proof.
    intros Hl. destruct i as [cn fills iso]. intros [Hiso [Hlt [ci [O [Ha [Hnm [Ho [Hc [Hf Hd]]]]]]]]].
    split; [exact Hiso|]. split; [exact Hlt|]. exists ci, O. repeat (split; [assumption|]). split; [|exact Hd].
    clear -Hf Hl. induction Hf; constructor; [eapply frelT_le; eassumption|assumption].
  Qed.

  Lemma Forall2_frelT_names th ds0 fm fs : Forall2 (frelT th ds0) fm fs -> map fst fm = map fst fs.
  Proof. induction 1 as [|a b fm fs [Hn _] _ IH]; [reflexivity|]. cbn [map]. rewrite Hn, IH. reflexivity. Qed.

  Lemma slookup_frelT th ds0 fm fs : Forall2 (frelT th ds0) fm fs -> forall k,
    match slookup k fm, slookup k fs with
    | Some sf, Some cl => frelT th ds0 (k, sf) (k, cl)
    | None, None => True
    | _, _ => False
    end.
  Proof.
    induction 1 as [|[n sf] [n' cl] fm fs [Hn Hr] _ IH]; intro k; [exact I|].
    cbn [fst] in Hn. subst n'. cbn [slookup]. destruct (str_eqb k n) eqn:E; [|apply IH].
    apply str_eqb_eq in E. subst k. split; [reflexivity|exact Hr].
  Qed.

  Lemma smem_frelT th ds0 fm fs k : Forall2 (frelT th ds0) fm fs -> smem k fm = smem k fs.
  Proof.
    intro F. pose proof (slookup_frelT _ _ _ _ F k) as H. unfold smem.
    destruct (slookup k fm), (slookup k fs); try reflexivity; contradiction.
  Qed.

  (* is_filled reads *)
  Lemma orel_efilled th ds st : orel th ds (cur st) -> forall s, crel (meval (EFilled s) ds) (eval (EFilled s) st).
  Proof.
    intros H s. cbn [meval eval]. destruct (cur st) as [i|].
    - destruct H as [rid [_ [Hcv _]]]. rewrite Hcv. unfold inames. rewrite existsb_map_escape. constructor.
    - destruct H as [_ Hcv]. rewrite Hcv. constructor.
  Qed.

  Lemma orel_same th ds ds' cur : cget KEY ds' = cget KEY ds -> cget CVARS ds' = cget CVARS ds -> orel th ds cur -> orel th ds' cur.
  Proof. intros H1 H2. unfold orel. rewrite H1, H2. auto. Qed.

  (* ---------- fill discovery ---------- *)
  Lemma efilled_push (ds : list layer) st x v v' : uname x = true ->
    (forall s, crel (meval (EFilled s) ds) (eval (EFilled s) st)) ->
    forall s, crel (meval (EFilled s) (cpush [(x, v)] ds)) (eval (EFilled s) (bind_loc x v' st)).
  Proof.
    intros Hu H s. specialize (H s). cbn [meval eval bind_loc cur] in *. unfold cpush. rewrite cget_snoc. cbn [slookup].
    rewrite str_eqb_neq; [exact H|]. intro E. rewrite <- E in Hu. discriminate.
  Qed.

  Section ExSimT.
    Variable rec : gstate -> ctxt -> tpl -> mres R.
    Variable th : theta.
    Variable ds0 : list layer.
    Variable cur0 : option inst.
    Variable n : N.
    Hypothesis Hor : orel th ds0 cur0.

    Definition exPt (t : tpl) : Prop :=
      forall G st btw loc0 g c old,
        wf_tq G t = true -> xrel c st btw loc0 n G -> vrel ds0 loc0 -> cur st = cur0 ->
        (forall s, crel (meval (EFilled s) (dicts c)) (eval (EFilled s) st)) ->
        (forall i, cur0 = Some i -> incl (sdall_t t) (dln (iname i))) ->
        alookup n (g_collect g) = Some old ->
        match extract [] st btw t with
        | Ok (s, cl) => exists g' fl, mex rec g c t = MOk (s, g', c) /\ xstep n old fl g g' /\ Forall2 (frelT th ds0) fl cl
        | Err k => mex rec g c t = MErr k
        | OutOfFuel => False
        end.
    Definition exQt (ts : list tpl) : Prop :=
      forall G st btw loc0 g c old,
        wf_lq G ts = true -> xrel c st btw loc0 n G -> vrel ds0 loc0 -> cur st = cur0 ->
        (forall s, crel (meval (EFilled s) (dicts c)) (eval (EFilled s) st)) ->
        (forall i, cur0 = Some i -> incl (sdall_l ts) (dln (iname i))) ->
        alookup n (g_collect g) = Some old ->
        match extract_list [] st btw ts with
        | Ok (s, cl) => exists g' fl, mexl rec ts g c = MOk (s, g', c) /\ xstep n old fl g g' /\ Forall2 (frelT th ds0) fl cl
        | Err k => mexl rec ts g c = MErr k
        | OutOfFuel => False
        end.

    Lemma xmeval c st btw loc0 G e :
      xrel c st btw loc0 n G -> (forall s, crel (meval (EFilled s) (dicts c)) (eval (EFilled s) st)) ->
      expr_okq e = true -> crel (meval e (dicts c)) (eval e st).
    Proof.
      intros X Hef He. apply (meval_relL _ _ false); [|intros _; exact Hef|exact He].
      apply vrelL_of_vrel; [exact (xr_out _ _ _ _ _ _ X)|exact (xr_vars _ _ _ _ _ _ X)].
    Qed.

    Lemma xkwargs c st btw loc0 G kw :
      xrel c st btw loc0 n G -> (forall s, crel (meval (EFilled s) (dicts c)) (eval (EFilled s) st)) ->
      kw_okq kw = true -> mkwargs kw (dicts c) = Some (eval_kwargs kw st).
    Proof.
      intros X Hef He. apply (mkwargs_relL _ _ false); [|intros _; exact Hef|exact He].
      apply vrelL_of_vrel; [exact (xr_out _ _ _ _ _ _ X)|exact (xr_vars _ _ _ _ _ _ X)].
    Qed.

    Lemma ex_simT_all : (forall t, exPt t) /\ (forall ts, exQt ts).
    Proof.
      assert (Hrefl : forall old g, alookup n (g_collect g) = Some old -> xstep n old [] g g).
      { intros old g H. repeat split; try reflexivity. rewrite app_nil_r. exact H. }
      assert (Hnil : exQt []).
      { intros G st btw loc0 g c old _ X Hv _ _ _ Ho. cbn. exists g, []. split; [reflexivity|]. split; [apply Hrefl; exact Ho|constructor]. }
      assert (Hcons : forall t r, exPt t -> exQt r -> exQt (t :: r)).
      { intros t r Ht Hr G st btw loc0 g c old Hw X Hv Hc Hef Hdl Ho. cbn [wf_lq] in Hw. apply andb_true_iff in Hw as [Hw1 Hw2].
        assert (Hdl1 : forall i, cur0 = Some i -> incl (sdall_t t) (dln (iname i))).
        { intros i E z Hz. apply (Hdl i E). cbn [sdall_l]. apply in_or_app. left. exact Hz. }
        assert (Hdl2 : forall i, cur0 = Some i -> incl (sdall_l r) (dln (iname i))).
        { intros i E z Hz. apply (Hdl i E). cbn [sdall_l]. apply in_or_app. right. exact Hz. }
        cbn [extract_list mexl]. specialize (Ht G st btw loc0 g c old Hw1 X Hv Hc Hef Hdl1 Ho).
        destruct (extract [] st btw t) as [[s1 cl1]|k|]; cbn [bind]; [|rewrite Ht; reflexivity|exact Ht].
        destruct Ht as [g1 [fl1 [E1 [[Hn1 [Hc1 [Hp1 Hl1]]] F1]]]]. rewrite E1. cbn [mbind].
        specialize (Hr G st btw loc0 g1 c (old ++ fl1) Hw2 X Hv Hc Hef Hdl2 Hl1).
        destruct (extract_list [] st btw r) as [[s2 cl2]|k|]; cbn [bind fst snd]; [|rewrite Hr; reflexivity|exact Hr].
        destruct Hr as [g2 [fl2 [E2 [[Hn2 [Hc2 [Hp2 Hl2]]] F2]]]]. rewrite E2. cbn [mbind].
        exists g2, (fl1 ++ fl2). split; [reflexivity|]. split.
        - repeat split; try congruence. rewrite Hl2, app_assoc. reflexivity.
        - apply Forall2_app; assumption. }
      assert (HText : forall s, exPt (TText s)).
      { intros s G st btw loc0 g c old _ X Hv _ _ _ Ho. cbn. exists g, []. split; [reflexivity|]. split; [apply Hrefl; exact Ho|constructor]. }
      assert (HOut : forall e, exPt (TOut e)).
      { intros e G st btw loc0 g c old Hw X Hv _ Hef _ Ho. cbn [wf_tq] in Hw. cbn [extract mex].
        pose proof (xmeval _ _ _ _ _ _ X Hef Hw) as Hr.
        unfold mout. remember (meval e (dicts c)) as cv. remember (eval e st) as xv.
        destruct Hr; (exists g, []; split; [reflexivity|split; [apply Hrefl; exact Ho|constructor]]). }
      assert (HIf : forall cnd a b, exQt a -> exQt b -> exPt (TIf cnd a b)).
      { intros cnd a b Ha Hb G st btw loc0 g c old Hw X Hv Hc Hef Hdl Ho. cbn [wf_tq] in Hw.
        apply andb_true_iff in Hw as [Hw Hwb]. apply andb_true_iff in Hw as [Hwc Hwa].
        cbn [extract mex]. rewrite !ex_list_eq.
        rewrite (crel_truthy _ _ (xmeval _ _ _ _ _ _ X Hef Hwc)).
        destruct (truthy (eval cnd st)).
        - apply (Ha G st btw loc0 g c old Hwa X Hv Hc Hef); [|exact Ho].
          intros i E z Hz. apply (Hdl i E). cbn [sdall_t]. apply in_or_app. left. exact Hz.
        - apply (Hb G st btw loc0 g c old Hwb X Hv Hc Hef); [|exact Ho].
          intros i E z Hz. apply (Hdl i E). cbn [sdall_t]. apply in_or_app. right. exact Hz. }
      assert (HFor : forall x e body, exQt body -> exPt (TFor x e body)).
      { intros x e body _ G st btw loc0 g c old Hw. discriminate Hw. }
      assert (HWith : forall x e body, exQt body -> exPt (TWith x e body)).
      { intros x e body Hb G st btw loc0 g c old Hw X Hv Hc Hef Hdl Ho. cbn [wf_tq] in Hw.
        apply andb_true_iff in Hw as [Hw Hwb]. apply andb_true_iff in Hw as [Hw Hnin]. apply andb_true_iff in Hw as [Hwe Hbx].
        apply negb_true_iff in Hnin. apply smemb_notin in Hnin.
        cbn [extract]. rewrite ex_list_eq.
        change (mex rec g c (TWith x e body)) with (mwith x (meval e (dicts c)) (mexl rec body) g c).
        rewrite (meval_val_rel_b _ _ _ (xr_out _ _ _ _ _ _ X) (xr_vars _ _ _ _ _ _ X) Hwe).
        unfold mwith.
        pose proof (xrel_push _ _ _ _ _ _ x (to_value (eval e st)) X Hbx Hnin) as X'.
        assert (Hu : uname x = true) by (apply andb_true_iff in Hbx as [_ Hu]; exact Hu).
        specialize (Hb (x :: G) (bind_loc x (to_value (eval e st)) st) ((x, to_value (eval e st)) :: btw) loc0 g
                       (with_dicts c (cpush [(x, CVal (to_value (eval e st)))] (dicts c))) old Hwb X' Hv Hc
                       (efilled_push _ _ _ _ _ Hu Hef) Hdl Ho).
        destruct (extract_list [] (bind_loc x (to_value (eval e st)) st) ((x, to_value (eval e st)) :: btw) body) as [[s cl]|k|];
          [|rewrite Hb; reflexivity|exact Hb].
        destruct Hb as [g' [fl [E [Hx F]]]]. rewrite E. cbn [mbind]. rewrite push_pop_id. exists g', fl. auto. }
      assert (HSlot : forall nm d r data body, exQt body -> exPt (TSlot nm d r data body)).
      { intros nm d r data body _ G st btw loc0 g c old Hw X Hv _ Hef _ Ho. cbn [wf_tq] in Hw. apply andb_true_iff in Hw as [Hkw _].
        cbn [extract mex]. rewrite (xkwargs _ _ _ _ _ _ X Hef Hkw).
        exists g, []. split; [reflexivity|]. split; [apply Hrefl; exact Ho|constructor]. }
      assert (HFill : forall nm dv df body, exQt body -> exPt (TFill nm dv df body)).
      { intros nm dv df body _ G st btw loc0 g c old Hw X Hv Hc Hef Hdl Ho. cbn [wf_tq] in Hw.
        apply andb_true_iff in Hw as [Hw Hwb]. apply andb_true_iff in Hw as [Hwn Hdf].
        destruct df as [df|]; [discriminate|].
        cbn [extract mex]. unfold mfill.
        pose proof (xmeval _ _ _ _ _ _ X Hef Hwn) as Hr.
        inversion Hr as [v E1 E2|b E1 E2]; [|reflexivity].
        destruct v as [s|l|fs]; try reflexivity.
        assert (Hid : negb (opt_ident_ok dv) || negb (opt_ident_ok None) = false).
        { destruct dv as [x|]; [|reflexivity]. cbn. apply andb_true_iff in Hwb as [Hwb _]. apply andb_true_iff in Hwb as [Hwb _].
          apply andb_true_iff in Hwb as [Hwb _]. rewrite Hwb. reflexivity. }
        rewrite Hid.
        assert (Hsame : match dv with Some _ | _ => false end = false) by (destruct dv; reflexivity).
        rewrite Hsame. rewrite (xr_gen _ _ _ _ _ _ X), Ho.
        eexists. exists [(s, {| sf_body := body; sf_dvar := dv; sf_defvar := None; sf_extra := Some (capture_extra (dicts c)) |})].
        split; [reflexivity|]. split.
        - repeat split; try reflexivity. cbn [g_collect set_collect]. apply alookup_aset_same.
        - constructor; [|constructor]. split; [reflexivity|]. cbn [snd fst sf_body sf_dvar sf_defvar sf_extra].
          split; [reflexivity|]. split; [reflexivity|]. split; [reflexivity|]. split; [reflexivity|].
          split; [exact (xr_out _ _ _ _ _ _ X)|]. split; [reflexivity|]. split; [exact (xr_cap _ _ _ _ _ _ X)|].
          split.
          + exists loc0, G. split; [exact (xr_loc _ _ _ _ _ _ X)|]. split; [exact Hv|].
            split; [destruct dv as [x|]; [apply andb_true_iff in Hwb as [_ Hwb]|]; exact Hwb|].
            split; [rewrite <- (xr_loc _ _ _ _ _ _ X); exact (xr_incl _ _ _ _ _ _ X)|].
            split; [|exact (xr_disj _ _ _ _ _ _ X)].
            intros x ->. apply andb_true_iff in Hwb as [Hwb _]. apply andb_true_iff in Hwb as [Hbx Hnin].
            apply negb_true_iff in Hnin. apply smemb_notin in Hnin. auto.
          + rewrite Hc. split; [exact Hor|]. intros i E. exact (Hdl i E). }
      assert (HComp : forall cn kw o body, exQt body -> exPt (TComp cn kw o body)).
      { intros cn kw o body _ G st btw loc0 g c old Hw X Hv _ Hef _ Ho. cbn [wf_tq] in Hw. apply andb_true_iff in Hw as [Hkw _].
        cbn [extract mex]. rewrite (xkwargs _ _ _ _ _ _ X Hef Hkw).
        exists g, []. split; [reflexivity|]. split; [apply Hrefl; exact Ho|constructor]. }
      assert (HProvide : forall k kw body, exQt body -> exPt (TProvide k kw body)).
      { intros k kw body _ G st btw loc0 g c old Hw. discriminate Hw. }
      split.
      - exact (tpl_ind3 exPt exQt Hnil Hcons HText HOut HIf HFor HWith HSlot HFill HComp HProvide).
      - exact (tpls_ind3 exPt exQt Hnil Hcons HText HOut HIf HFor HWith HSlot HFill HComp HProvide).
    Qed.
  End ExSimT.

  (* ---------- resolve_fills ---------- *)
  Lemma resolve_simT rec th g c st G body :
    out st = [] -> prov st = [] -> vrel (dicts c) (loc st) -> incl (map fst (loc st)) G -> clean (dicts c) ->
    orel th (dicts c) (cur st) -> wf_lq G body = true ->
    (forall i, cur st = Some i -> incl (sdall_l body) (dln (iname i))) ->
    match resolve_fills st body with
    | Ok fills => exists g' fm, m_resolve_fills rec g c body = MOk (fm, g', c) /\ g_cctx g' = g_cctx g /\
                                (g_next g <= g_next g')%N /\ Forall2 (frelT th (dicts c)) fm fills
    | Err k => m_resolve_fills rec g c body = MErr k
    | OutOfFuel => False
    end.
  Proof.
    intros Ho Hp Hv Hi [Hcg Hcf] Hor Hw Hdl. unfold resolve_fills, m_resolve_fills.
    destruct body as [|t r]; [exists g, []; repeat split; [lia|constructor]|].
    set (body := t :: r) in *. rewrite Hp.
    destruct (fresh g) as [n g1] eqn:Ef. unfold fresh in Ef. inversion Ef; subst n g1. clear Ef.
    set (g1 := {| g_next := N.succ (g_next g); g_cctx := g_cctx g; g_collect := g_collect g; g_prov := g_prov g |}).
    set (g2 := set_collect g1 (aset (g_next g) [] (g_collect g1))).
    set (c1 := with_dicts c (cpush [(GEN_FILL, CCollect (g_next g))] (dicts c))).
    assert (X : xrel c1 st [] (loc st) (g_next g) G).
    { constructor; cbn [dicts with_dicts c1]; unfold cpush.
      - exact Ho.
      - reflexivity.
      - intros x Hx. rewrite cget_snoc. cbn [slookup]. rewrite str_eqb_neq; [apply Hv; exact Hx|].
        intro E. rewrite E in Hx. discriminate.
      - exact Hi.
      - rewrite cget_snoc. cbn [slookup]. rewrite str_eqb_refl. reflexivity.
      - exists (List.length (dicts c)). apply get_last_index_snoc_true. unfold has_key, smem. cbn [slookup]. rewrite str_eqb_refl. reflexivity.
      - intros d Hd. apply in_app_or in Hd as [Hd|[<-|[]]]; [|reflexivity].
        unfold has_key, smem. rewrite (cget_none_layers _ _ Hcf d Hd). reflexivity.
      - intros x. rewrite (capture_extra_eq _ (List.length (dicts c))).
        + rewrite skipn_app, skipn_all, Nat.sub_diag. reflexivity.
        + apply get_last_index_snoc_true. unfold has_key, smem. cbn [slookup]. rewrite str_eqb_refl. reflexivity.
        + intros d Hd. apply in_app_or in Hd as [Hd|[<-|[]]]; [|reflexivity].
          unfold has_key, smem. rewrite (cget_none_layers _ _ Hcf d Hd). reflexivity.
      - intros x []. }
    assert (Hef : forall s, crel (meval (EFilled s) (dicts c1)) (eval (EFilled s) st)).
    { intros s. pose proof (orel_efilled th _ st Hor s) as H. cbn [meval] in *. unfold c1. cbn [dicts with_dicts]. unfold cpush.
      rewrite cget_snoc. cbn [slookup]. rewrite str_eqb_neq by discriminate. exact H. }
    pose proof (proj2 (ex_simT_all rec th (dicts c) (cur st) (g_next g) Hor) body G st [] (loc st) g2 c1 [] Hw X Hv eq_refl Hef Hdl
                  (alookup_aset_same (g_next g) [] (g_collect g1))) as Hs.
    destruct (extract_list [] st [] body) as [[content cl]|k|]; cbn [bind]; [|rewrite Hs; reflexivity|exact Hs].
    destruct Hs as [g3 [fl [E [[Hn3 [Hc3 [Hp3 Hl3]]] F]]]]. rewrite E. cbn [mbind].
    unfold c1. rewrite push_pop_id. rewrite Hl3. cbn [app].
    assert (Hnext : (g_next g <= g_next g3)%N) by (rewrite Hn3; cbn; lia).
    assert (Hcc : g_cctx g3 = g_cctx g) by (rewrite Hc3; reflexivity).
    destruct F as [|a b fl' cl' Hab F'].
    - destruct (body_is_empty body).
      + exists g3, []. repeat split; auto.
      + eexists g3, _. split; [reflexivity|]. split; [exact Hcc|]. split; [exact Hnext|].
        constructor; [|constructor]. split; [reflexivity|]. cbn [snd fst sf_body sf_dvar sf_defvar sf_extra].
        split; [reflexivity|]. split; [reflexivity|]. split; [reflexivity|]. split; [reflexivity|].
        split; [exact Ho|]. split; [reflexivity|]. split; [intro x; reflexivity|].
        split; [exists (loc st), G; repeat split; auto; try discriminate; contradiction|].
        split; [exact Hor|exact Hdl].
    - pose proof (Forall2_frelT_names _ _ _ _ (Forall2_cons _ _ Hab F')) as Hnames.
      destruct (negb (all_space content)); [reflexivity|]. rewrite Hnames.
      destruct (has_dup (map fst (b :: cl'))); [reflexivity|].
      exists g3, (a :: fl'). repeat split; auto.
  Qed.

  (* ---------- the simulation relation ---------- *)
  Definition srelQ (g : gstate) (th : theta) (c : ctxt) (st : state) (G : list str) : Prop :=
    out st = [] /\ prov st = [] /\ vrel (dicts c) (loc st) /\ incl (map fst (loc st)) G /\ clean (dicts c) /\
    orel th (dicts c) (cur st) /\ INV g th.

  Lemma srelQ_gext g g' th c st G : srelQ g th c st G -> gext2 g g' -> srelQ g' th c st G.
  Proof. intros [H1 [H2 [H3 [H4 [H5 [H6 H7]]]]]] He. repeat (split; [assumption|]). eapply INV_mono; eassumption. Qed.

  Lemma srelQ_vrelL g th c st G : srelQ g th c st G -> vrelL (dicts c) st.
  Proof. intros [Ho [_ [Hv _]]]. apply vrelL_of_vrel; assumption. Qed.

  Lemma srelQ_meval g th c st G e : srelQ g th c st G -> expr_okq e = true -> crel (meval e (dicts c)) (eval e st).
  Proof.
    intros Hs He. apply (meval_relL _ _ false); [eapply srelQ_vrelL; exact Hs| |exact He].
    intros _. destruct Hs as [_ [_ [_ [_ [_ [Hor _]]]]]]. eapply orel_efilled; exact Hor.
  Qed.

  Lemma srelQ_kwargs g th c st G kw : srelQ g th c st G -> kw_okq kw = true -> mkwargs kw (dicts c) = Some (eval_kwargs kw st).
  Proof.
    intros Hs He. apply (mkwargs_relL _ _ false); [eapply srelQ_vrelL; exact Hs| |exact He].
    intros _. destruct Hs as [_ [_ [_ [_ [_ [Hor _]]]]]]. eapply orel_efilled; exact Hor.
  Qed.

  Lemma srelQ_same g th c c' st G :
    (forall k, relevant k -> cget k (dicts c') = cget k (dicts c)) -> srelQ g th c st G -> srelQ g th c' st G.
  Proof.
    intros Hk [H1 [H2 [H3 [H4 [[H5 H5'] [H6 H7]]]]]].
    split; [exact H1|]. split; [exact H2|]. split; [intros x Hx; rewrite Hk by (left; exact Hx); apply H3; exact Hx|].
    split; [exact H4|]. split; [split; rewrite Hk; try assumption; unfold relevant; auto 6|].
    split; [|exact H7]. apply (orel_same th (dicts c)); [apply Hk|apply Hk|exact H6]; unfold relevant; auto.
  Qed.

  Lemma srelQ_push g th c st G x v :
    srelQ g th c st G -> binder_ok x = true -> ~ In x G ->
    srelQ g th (with_dicts c (cpush [(x, CVal v)] (dicts c))) (bind_loc x v st) (x :: G).
  Proof.
    intros [H1 [H2 [H3 [H4 [[H5 H5'] [H6 H7]]]]]] Hb Hn. pose proof Hb as Hb'. apply andb_true_iff in Hb' as [_ Hu].
    assert (Hother : forall k, uname k = false -> cget k (cpush [(x, CVal v)] (dicts c)) = cget k (dicts c)).
    { intros k Hk. unfold cpush. rewrite cget_snoc. cbn [slookup]. rewrite str_eqb_neq; [reflexivity|].
      intro E. subst. congruence. }
    split; [exact H1|]. split; [exact H2|]. cbn [dicts with_dicts bind_loc loc cur]. split.
    { intros y Hy. unfold cpush. rewrite cget_snoc. cbn [slookup]. destruct (str_eqb y x); [reflexivity|apply H3; exact Hy]. }
    split. { cbn [map fst]. intros y [<-|Hy]; [left; reflexivity|right; apply H4; exact Hy]. }
    split. { split; rewrite Hother; auto. }
    split; [|exact H7]. apply (orel_same th (dicts c)); [apply Hother; reflexivity|apply Hother; reflexivity|exact H6].
  Qed.

  Lemma slot_default_check_ok2 rid ci name isd g :
    alookup rid (g_cctx g) = Some ci -> (rid < g_next g)%N -> dflt_ok (dln (ci_name ci)) ci ->
    (isd = true -> In name (dln (ci_name ci))) ->
    exists g1, slot_default_check rid ci name isd g = MOk g1 /\ gext2 g g1.
  Proof.
    intros Ha Hlt Hd Hin. unfold slot_default_check. destruct isd; [|exists g; split; [reflexivity|apply gext2_refl]].
    specialize (Hin eq_refl). unfold dflt_ok in Hd. destruct (ci_default ci) as [d|] eqn:Ed.
    - rewrite (Hd name Hin), str_eqb_refl. cbn [negb]. exists g. split; [reflexivity|apply gext2_refl].
    - eexists. split; [reflexivity|]. split; [cbn; lia|]. intros j Hj cj Hcj. cbn [g_cctx set_cctx].
      destruct (N.eqb j rid) eqn:E.
      + apply N.eqb_eq in E. subst j. rewrite Ha in Hcj. inversion Hcj; subst cj. rewrite alookup_aset_same. eexists. split; [reflexivity|].
        cbn [ci_name ci_fills ci_outer]. repeat split. intros _. unfold dflt_ok. cbn [ci_default]. intros m Hm. apply (dln_same (ci_name ci)); assumption.
      + rewrite alookup_aset_other by (intro E2; subst; rewrite N.eqb_refl in E; discriminate). exists cj. auto.
  Qed.

  Lemma rf_dicts_other (ds0 : list layer) sf sdata sref (extra : layer) k :
    sf_defvar sf = None -> (forall d, sf_dvar sf = Some d -> d <> k) -> slookup k extra = None ->
    slookup k (match sf_extra sf with Some e => e | None => [] end) = None ->
    cget k (rf_dicts sf sdata sref (cpush extra ds0)) = cget k ds0.
  Proof.
    intros Hdf Hdv He Hfe. unfold rf_dicts. rewrite Hdf. cbn zeta. rewrite cget_insert by exact Hfe.
    unfold cpush. destruct (sf_dvar sf) as [d|].
    - rewrite cget_cset. rewrite str_eqb_neq by (intro E; apply (Hdv d eq_refl); symmetry; exact E).
      rewrite cget_snoc, He. reflexivity.
    - rewrite cget_snoc, He. reflexivity.
  Qed.

  (* ---------- the simulation ---------- *)
  Definition simQ (rec : state -> tpl -> res str) (mrec : gstate -> ctxt -> tpl -> mres R) : Prop :=
    forall t th G st g c, srelQ g th c st G -> wf_tq G t = true ->
      (forall i, cur st = Some i -> incl (sdall_t t) (dln (iname i))) ->
      match rec st t with
      | Ok a => exists g', mrec g c t = MOk (a, g', c) /\ gext2 g g'
      | Err k => mrec g c t = MErr k
      | OutOfFuel => mrec g c t = MFuel
      end.

  Section StepQ.
    Variable rec : state -> tpl -> res str.
    Variable mrec : gstate -> ctxt -> tpl -> mres R.
    Hypothesis IH : simQ rec mrec.

    Lemma sim_listQ : forall ts th G st g c, srelQ g th c st G -> wf_lq G ts = true ->
      (forall i, cur st = Some i -> incl (sdall_l ts) (dln (iname i))) ->
      match rl rec st ts with
      | Ok a => exists g', mrl mrec g c ts = MOk (a, g', c) /\ gext2 g g'
      | Err k => mrl mrec g c ts = MErr k
      | OutOfFuel => mrl mrec g c ts = MFuel
      end.
    Proof.
      induction ts as [|t r IHr]; intros th G st g c Hs Hw Hd; cbn [rl mrl].
      - exists g. split; [reflexivity|apply gext2_refl].
      - cbn [wf_lq] in Hw. apply andb_true_iff in Hw as [Hw1 Hw2].
        assert (Hd1 : forall i, cur st = Some i -> incl (sdall_t t) (dln (iname i))).
        { intros i E z Hz. apply (Hd i E). cbn [sdall_l]. apply in_or_app. left. exact Hz. }
        assert (Hd2 : forall i, cur st = Some i -> incl (sdall_l r) (dln (iname i))).
        { intros i E z Hz. apply (Hd i E). cbn [sdall_l]. apply in_or_app. right. exact Hz. }
        pose proof (IH t th G st g c Hs Hw1 Hd1) as H1.
        destruct (rec st t) as [a| |]; cbn [bind]; [|rewrite H1; reflexivity|rewrite H1; reflexivity].
        destruct H1 as [g1 [E1 X1]]. rewrite E1. cbn [mbind].
        pose proof (IHr th G st g1 c (srelQ_gext _ _ _ _ _ _ Hs X1) Hw2 Hd2) as H2.
        destruct (rl rec st r) as [b| |]; cbn [bind]; [|rewrite H2; reflexivity|rewrite H2; reflexivity].
        destruct H2 as [g2 [E2 X2]]. rewrite E2. cbn [mbind]. exists g2. split; [reflexivity|eapply gext2_trans; eassumption].
    Qed.

    Lemma sim_stepQ : simQ (render_step Isolated lib rec) (mstep Isolated lib mrec).
    Proof.
      intros t th G st g c Hs Hw Hd.
      destruct t as [s|e|cnd x y|x e body|x e body|name isd isr data body|nm dv defv body|cname kw only body|key kw body];
        cbn [render_step mstep].
      - exists g. split; [reflexivity|apply gext2_refl].
      - cbn [wf_tq] in Hw. pose proof (srelQ_meval _ _ _ _ _ _ Hs Hw) as Hr. unfold mout.
        remember (meval e (dicts c)) as cv. remember (eval e st) as xv.
        destruct Hr; (exists g; split; [reflexivity|apply gext2_refl]).
      - cbn [wf_tq] in Hw. apply andb_true_iff in Hw as [Hw Hwy]. apply andb_true_iff in Hw as [Hwc Hwx].
        rewrite (crel_truthy _ _ (srelQ_meval _ _ _ _ _ _ Hs Hwc)).
        destruct (truthy (eval cnd st)).
        + apply (sim_listQ x th G st g c Hs Hwx). intros i E z Hz. apply (Hd i E). cbn [sdall_t]. apply in_or_app. left. exact Hz.
        + apply (sim_listQ y th G st g c Hs Hwy). intros i E z Hz. apply (Hd i E). cbn [sdall_t]. apply in_or_app. right. exact Hz.
      - discriminate Hw.
      - (* with *)
        cbn [wf_tq] in Hw.
        apply andb_true_iff in Hw as [Hw Hwb]. apply andb_true_iff in Hw as [Hw Hnin]. apply andb_true_iff in Hw as [Hwe Hbx].
        apply negb_true_iff in Hnin. apply smemb_notin in Hnin.
        rewrite (meval_val_relL _ _ _ (srelQ_vrelL _ _ _ _ _ Hs) Hwe). unfold mwith.
        pose proof (srelQ_push _ _ _ _ _ x (to_value (eval e st)) Hs Hbx Hnin) as Hs'.
        pose proof (sim_listQ body th (x :: G) _ g _ Hs' Hwb Hd) as H.
        destruct (rl rec (bind_loc x (to_value (eval e st)) st) body) as [a| |]; [|rewrite H; reflexivity|rewrite H; reflexivity].
        destruct H as [g' [E X]]. rewrite E. cbn [mbind]. rewrite push_pop_id. exists g'. auto.
      - (* slot: in a template, or passed through inside the body of a component tag *)
        cbn [wf_tq] in Hw. apply andb_true_iff in Hw as [Hkw Hwb].
        pose proof (srelQ_kwargs _ _ _ _ _ _ Hs Hkw) as Ekw.
        pose proof Hs as [Ho [Hp [Hv [Hincl [[Hcg Hcf] [Hor HI]]]]]].
        assert (Hex : is_extracting (dicts c) = false) by (unfold is_extracting; rewrite Hcg; reflexivity).
        destruct (cur st) as [[cn fills iso]|] eqn:Hc; cbn [orel] in Hor.
        2:{ destruct Hor as [Hk _]. unfold mslot. rewrite Ekw, Hex, Hk. reflexivity. }
        destruct Hor as [rid [Hk [Hcv Hth]]].
        pose proof (HI _ _ Hth) as [Hiso [Hlt [ci [O [Ha [Hnm [HO [[HOg HOf] [HF Hdf]]]]]]]]]. subst iso.
        pose proof (Hd _ eq_refl) as Hdin. cbn [iname] in Hdin.
        destruct (slot_default_check_ok2 rid ci name isd g Ha Hlt) as [g1 [Eg1 Xg1]].
        { rewrite Hnm. exact Hdf. }
        { intros ->. rewrite Hnm. apply Hdin. cbn [sdall_t]. left. reflexivity. }
        assert (Hs1 : srelQ g1 th c st G) by (eapply srelQ_gext; eassumption).
        unfold double_filled. rewrite <- (smem_frelT _ _ _ _ name HF), <- (smem_frelT _ _ _ _ default_key HF).
        destruct (isd && negb (str_eqb name default_key) && smem name (ci_fills ci) && smem default_key (ci_fills ci)) eqn:Edf.
        { unfold mslot. rewrite Ekw, Hex, Hk, Ha, Eg1. cbn [mbind]. rewrite Edf. reflexivity. }
        unfold fill_name_of. rewrite <- (smem_frelT _ _ _ _ default_key HF).
        set (fname := if isd && smem default_key (ci_fills ci) then default_key else name).
        pose proof (slookup_frelT _ _ _ _ HF fname) as Hf.
        set (sdata := VRec (eval_kwargs data st)).
        destruct (slot_extra_isolated_ok ci (match slookup fname (ci_fills ci) with Some _ => true | None => false end) (dicts c)) as [extra Eex].
        assert (Hexk : forall k, relevant k -> slookup k extra = None).
        { intros k Hr. eapply slot_extra_isolated; [exact Eex|apply relevant_not_inj; exact Hr]. }
        destruct (slookup fname (ci_fills ci)) as [sf|] eqn:Em, (slookup fname fills) as [cl|] eqn:Es; try contradiction.
        + (* filled: the fill body on the filled instance's outer Context, in the OWNER's instance *)
          rewrite (mslot_filled_lemma Isolated mrec name isd isr data body g c _ rid ci g1 sf Ekw Hex Hk Ha Eg1 Edf Em).
          destruct cl as [fbody btw cloc cout fdv fdefv owner cprov].
          destruct Hf as [_ [Hb [Hdv [Hdfv [-> [-> [-> [Hfe [[loc0 [Gb [-> [Hv0 [Hwfb [Hinb [Hdvb Hdisj]]]]]]] [Hown Hodl]]]]]]]]]].
          cbn [clo_defvar clo_dvar clo_body bind fst snd] in *.
          rewrite Eex, HO. cbn [mbind is_django app].
          set (sref := CSlotRef body (oid c) (oid O) (dicts c) (slot_rvars (dicts c))).
          destruct (fill_ctx_vrel (dicts O) sf btw loc0 Gb fdv sdata sref extra Hdv Hdfv Hfe Hv0 (conj HOg HOf) Hinb Hdvb Hdisj Hexk)
            as [Hvb Hcb].
          set (c0 := with_dicts O (cpush extra (dicts O))).
          set (cb := with_dicts c0 (rf_dicts sf sdata sref (dicts c0))).
          set (stb := fill_state true st (match fdv with Some x0 => [(x0, sdata)] | None => [] end)
                        (Clo fbody btw (btw ++ loc0) [] fdv None owner [])).
          assert (Hother : forall k, uname k = false -> relevant k ->
                    cget k (rf_dicts sf sdata sref (cpush extra (dicts O))) = cget k (dicts O)).
          { intros k Hku Hkr. apply rf_dicts_other; [exact Hdfv| |apply Hexk; exact Hkr|].
            - intros d Ed E. subst k. rewrite Hdv in Ed. destruct (Hdvb d Ed) as [_ Hbd]. apply andb_true_iff in Hbd as [_ Hud]. congruence.
            - rewrite Hfe. rewrite (slookup_none_btw btw k); [reflexivity| |exact Hku]. intros z Hz. apply Hdisj. exact Hz. }
          assert (Hsb : srelQ g1 th cb stb (match fdv with Some x0 => x0 :: Gb | None => Gb end)).
          { unfold stb. cbn [fill_state]. split; [reflexivity|]. split; [cbn; rewrite Hp; reflexivity|].
            cbn [loc cur]. split; [exact Hvb|]. split.
            - rewrite !map_app. intros z Hz. apply in_app_or in Hz as [Hz|Hz].
              + destruct fdv as [d|]; [|destruct Hz]. destruct Hz as [<-|[]]. left. reflexivity.
              + assert (Hz' : In z Gb).
                { apply Hinb. rewrite map_app. apply in_app_or in Hz as [Hz|Hz]; [apply in_or_app; left; exact Hz|].
                  rewrite <- map_app in Hz. rewrite <- map_app. exact Hz. }
                destruct fdv; [right|]; exact Hz'.
            - split; [exact Hcb|]. split; [|eapply INV_mono; eassumption].
              apply (orel_same th (dicts O)); [| |exact Hown]; unfold cb, c0; cbn [dicts with_dicts];
                apply Hother; try reflexivity; unfold relevant; auto. }
          assert (Hwb' : wf_lq (match fdv with Some x0 => x0 :: Gb | None => Gb end) (sf_body sf) = true) by (rewrite Hb; exact Hwfb).
          assert (Hdb : forall i, cur stb = Some i -> incl (sdall_l (sf_body sf)) (dln (iname i))).
          { unfold stb. cbn [fill_state cur]. rewrite Hb. exact Hodl. }
          pose proof (sim_listQ (sf_body sf) th _ stb g1 cb Hsb Hwb' Hdb) as Hbody.
          pose proof (m_render_func_run mrec sf sdata sref g1 O extra) as Hrun. cbn zeta in Hrun. fold c0 cb in Hrun.
          rewrite Hb in Hbody. revert Hbody. unfold stb.
          destruct (rl rec _ fbody) as [a| |]; intro Hbody.
          * destruct Hbody as [g3 [E3 X3]]. rewrite Hb, E3 in Hrun. destruct (Hrun eq_refl) as [c2 [E2 _]].
            fold c0. fold sdata sref. rewrite E2. cbn [mbind]. exists g3. split; [reflexivity|eapply gext2_trans; eassumption].
          * rewrite Hb, Hbody in Hrun. fold c0. fold sdata sref. rewrite Hrun. reflexivity.
          * rewrite Hb, Hbody in Hrun. fold c0. fold sdata sref. rewrite Hrun. reflexivity.
        + (* unfilled: its own default content, same instance, same scope *)
          destruct (mslot_unfilled_lemma Isolated mrec name isd data body g c _ rid ci g1 Ekw Hex Hk Ha Eg1 Edf Em) as [Er Eu].
          destruct isr; [rewrite Er; reflexivity|]. rewrite Eu. clear Er Eu. rewrite Eex. cbn [mbind].
          set (sref := CSlotRef body (oid c) (oid c) (dicts c) (slot_rvars (dicts c))).
          set (c0 := with_dicts c (cpush extra (dicts c))).
          set (cb := with_dicts c0 (rf_dicts (unfilled_fn body) sdata sref (dicts c0))).
          assert (Hsb : srelQ g1 th cb st G).
          { apply (srelQ_same g1 th c); [|exact Hs1]. intros k Hr. unfold cb, c0. cbn [dicts with_dicts].
            apply rf_dicts_unfilled. apply Hexk. exact Hr. }
          assert (Hd' : forall i, cur st = Some i -> incl (sdall_l body) (dln (iname i))).
          { intros i E z Hz. rewrite Hc in E. apply (Hd i E). cbn [sdall_t]. apply in_or_app. right. exact Hz. }
          pose proof (sim_listQ body th G st g1 cb Hsb Hwb Hd') as Hbody.
          pose proof (m_render_func_run mrec (unfilled_fn body) sdata sref g1 c extra) as Hrun. cbn zeta in Hrun.
          fold c0 cb in Hrun. cbn [sf_body unfilled_fn] in Hrun.
          destruct (rl rec st body) as [a| |].
          * destruct Hbody as [g3 [E3 X3]]. rewrite E3 in Hrun. destruct (Hrun eq_refl) as [c2 [E2 Hc2]].
            fold c0. fold sdata sref. rewrite E2. cbn [mbind]. rewrite Hc2. exists g3. split; [reflexivity|eapply gext2_trans; eassumption].
          * rewrite Hbody in Hrun. fold c0. fold sdata sref. rewrite Hrun. reflexivity.
          * rewrite Hbody in Hrun. fold c0. fold sdata sref. rewrite Hrun. reflexivity.
      - destruct Hs as [_ [_ [_ [_ [[Hcg _] _]]]]]. unfold is_extracting. rewrite Hcg. reflexivity.
      - (* component *)
        cbn [wf_tq] in Hw. apply andb_true_iff in Hw as [Hkw Hwb]. unfold mcomp.
        rewrite (srelQ_kwargs _ _ _ _ _ _ Hs Hkw).
        pose proof Hs as [Ho [Hp [Hv [Hincl [[Hcg Hcf] [Hor HI]]]]]].
        unfold is_extracting. rewrite Hcg.
        destruct (slookup cname lib) as [cd|] eqn:El; [|reflexivity].
        pose proof (Hlib _ _ El) as Hcd. unfold wf_cdef_q in Hcd.
        apply andb_true_iff in Hcd as [Hcd Hsame]. apply andb_true_iff in Hcd as [Hdata Hwt].
        pose proof (resolve_simT mrec th g c st G body Ho Hp Hv Hincl (conj Hcg Hcf) Hor Hwb Hd) as Hres.
        destruct (resolve_fills st body) as [fills| |]; cbn [bind]; [|rewrite Hres; reflexivity|contradiction].
        destruct Hres as [g1 [fm [Eres [Hcc1 [Hn1 HF]]]]]. rewrite Eres. cbn [mbind].
        cbn [is_django negb]. rewrite orb_true_r.
        destruct (isolated_copy_shape g1 c Hcf) as [L [o [Ecopy HL]]]. rewrite Ecopy.
        unfold fresh, snapshot. cbn [g_next g_cctx g_collect g_prov fresh].
        destruct (eval_data_sim (c_data cd) (eval_kwargs kw st) (prov st)
                    {| g_next := N.succ (N.succ (N.succ (g_next g1))); g_cctx := g_cctx g1; g_collect := g_collect g1; g_prov := g_prov g1 |}
                    [L] Hdata) as [data [Ed [Em Hdincl]]].
        rewrite Ed. cbn [bind]. cbn [dicts oid with_dicts]. rewrite Em. cbn [mbind].
        cbn [g_next g_cctx g_collect g_prov set_cctx].
        set (rid := N.succ (g_next g1)).
        set (dataM := map (fun kv => (fst kv, CVal (snd kv))) data).
        set (keyl := [(KEY, CId rid); (CVARS, CVars (map (fun kf => escape_name (fst kf)) fm))]).
        set (snap := {| oid := N.succ (N.succ (N.succ (g_next g1))); dicts := cpush keyl (cpush dataM [L]) |}).
        set (osnap := {| oid := N.succ (N.succ (g_next g1)); dicts := dicts c |}).
        set (entry := {| ci_name := cname; ci_fills := fm; ci_default := None; ci_outer := Some osnap |}).
        set (g6 := {| g_next := N.succ (N.succ (N.succ (N.succ (g_next g1)))); g_cctx := aset rid entry (g_cctx g1);
                      g_collect := g_collect g1; g_prov := g_prov g1 |}).
        set (newi := Inst cname fills true).
        set (th' := fun j : N => if N.eqb j rid then Some newi else th j).
        set (st' := comp_state st cname fills data (is_isolated Isolated only)).
        assert (Hiso : is_isolated Isolated only = true) by (unfold is_isolated; apply orb_true_r).
        assert (Hthr : th rid = None).
        { destruct (th rid) as [i0|] eqn:E; [|reflexivity]. pose proof (HI _ _ E) as H0. destruct i0 as [a0 b0 c1].
          destruct H0 as [_ [Hlt0 _]]. unfold rid in Hlt0. lia. }
        assert (Hle : th_le th th').
        { intros j i Hj. unfold th'. destruct (N.eqb j rid) eqn:E; [apply N.eqb_eq in E; subst j; congruence|exact Hj]. }
        assert (Hx6 : gext2 g g6).
        { split; [unfold g6; cbn [g_next]; lia|]. intros j Hj cj Hcj. unfold g6. cbn [g_cctx].
          rewrite alookup_aset_other by (unfold rid; lia). rewrite Hcc1. exists cj. auto. }
        assert (HI6 : INV g6 th').
        { intros j i Hj. unfold th' in Hj. destruct (N.eqb j rid) eqn:E.
          - apply N.eqb_eq in E. subst j. inversion Hj; subst i. unfold newi. split; [reflexivity|].
            split; [unfold g6, rid; cbn [g_next]; lia|]. exists entry, osnap.
            split; [unfold g6; cbn [g_cctx]; apply alookup_aset_same|]. split; [reflexivity|]. split; [reflexivity|].
            split; [split; assumption|]. split; [|exact I].
            change (Forall2 (frelT th' (dicts c)) fm fills).
            exact (Forall2_frelT_le _ _ _ _ _ Hle HF).
          - apply (entry_ok_le g6 th th' j i Hle). apply (INV_mono g g6 th HI Hx6). exact Hj. }
        assert (Hs' : srelQ g6 th' snap st' (map fst (c_data cd))).
        { unfold st', comp_state. rewrite Hiso. split; [reflexivity|]. split; [exact Hp|]. cbn [loc cur dicts snap].
          assert (Hlook : forall k, l0_ok k -> k <> KEY -> k <> CVARS ->
                    cget k (cpush keyl (cpush dataM [L])) = slookup k dataM).
          { intros k Hk H1 H2. unfold cpush. rewrite cget_snoc. unfold keyl. cbn [slookup].
            rewrite (str_eqb_neq _ _ H1), (str_eqb_neq _ _ H2). rewrite cget_snoc. cbn [cget]. rewrite (HL k Hk).
            destruct (slookup k dataM); reflexivity. }
          assert (Hdk : forall k, uname k = false -> slookup k dataM = None).
          { intros k Hk. unfold dataM. rewrite slookup_map_cval.
            rewrite (slookup_notin k data); [reflexivity|]. intro Hin. apply Hdincl in Hin.
            rewrite forallb_forall in Hdata. apply in_map_iff in Hin as [[x d] [E Hin]]. cbn in E. subst x.
            specialize (Hdata _ Hin). cbn in Hdata. apply andb_true_iff in Hdata as [Hb _]. apply andb_true_iff in Hb as [_ Hb]. congruence. }
          split.
          { intros x Hx. rewrite Hlook; [apply slookup_map_cval|apply uname_l0_ok; exact Hx| |]; intro E; subst; discriminate. }
          split; [exact Hdincl|]. split.
          { split; (rewrite Hlook; [apply Hdk; reflexivity|repeat split; try reflexivity; intro E; discriminate E|intro E; discriminate E|intro E; discriminate E]). }
          split; [|exact HI6].
          exists rid. split; [unfold cpush; rewrite cget_snoc; reflexivity|].
          split. { unfold cpush. rewrite cget_snoc. unfold keyl. cbn [slookup].
                   rewrite (str_eqb_neq CVARS KEY) by discriminate. rewrite str_eqb_refl. unfold inames, newi. cbn [inst_fills].
                   rewrite (map_escape_names _ _ (Forall2_frelT_names _ _ _ _ HF)). reflexivity. }
          unfold th'. rewrite N.eqb_refl. reflexivity. }
        assert (Hd' : forall i, cur st' = Some i -> incl (sdall_l (c_tpl cd)) (dln (iname i))).
        { unfold st', comp_state. cbn [cur]. intros i E. inversion E; subst i. cbn [iname]. unfold dln. rewrite El. apply incl_refl. }
        pose proof (sim_listQ (c_tpl cd) th' _ st' g6 snap Hs' Hwt Hd') as Htpl.
        fold rid keyl dataM.
        match goal with |- context [mrl mrec ?a ?b (c_tpl cd)] => change (mrl mrec a b (c_tpl cd)) with (mrl mrec g6 snap (c_tpl cd)) end.
        destruct (rl rec st' (c_tpl cd)) as [a| |]; [|rewrite Htpl; reflexivity|rewrite Htpl; reflexivity].
        destruct Htpl as [g7 [E7 [Hn7 X7]]]. rewrite E7. cbn [mbind]. eexists. split; [reflexivity|].
        destruct Hx6 as [Hn6 X6].
        split; [cbn [g_next set_cctx]; lia|].
        intros j Hj cj Hcj. cbn [g_cctx set_cctx].
        assert (Hjr : j <> rid) by (unfold rid; lia).
        rewrite alookup_aremove_other by exact Hjr.
        destruct (X6 j Hj cj Hcj) as [c6 [Hc6 [Hnm6 [Hf6 [Ho6 Hd6]]]]].
        destruct (X7 j ltac:(lia) c6 Hc6) as [c7 [Hc7 [Hnm7 [Hf7 [Ho7 Hd7]]]]].
        exists c7. repeat split; try congruence. intro H. rewrite Hnm6 in Hd7. apply Hd7, Hd6, H.
      - discriminate Hw.
    Qed.
  End StepQ.

  Lemma sim_renderQ fuel : simQ (render Isolated lib fuel) (mrender Isolated lib fuel).
  Proof.
    induction fuel as [|f IHf].
    - intros t th G st g c _ _ _. reflexivity.
    - cbn [render mrender]. apply sim_stepQ. exact IHf.
  Qed.
End Pass.

Theorem mech_refines_sem_isolated_passthrough_lemma : forall p fuel,
  wf_prog_pass p = true -> mout_of (mrender_prog fuel p) = embed (render_prog fuel p).
Proof.
  intros p fuel Hwf. unfold wf_prog_pass in Hwf.
  apply andb_true_iff in Hwf as [Hwf Hpage]. apply andb_true_iff in Hwf as [Hwf Hctx].
  apply andb_true_iff in Hwf as [Hmode Hlibb].
  unfold mrender_prog, render_prog, mrender_list, render_list.
  destruct (p_mode p); [|discriminate]. clear Hmode.
  assert (Hlib : forall cn cd, slookup cn (p_lib p) = Some cd -> wf_cdef_q cd = true).
  { intros cn cd H. apply slookup_In_lib in H. rewrite forallb_forall in Hlibb. exact (Hlibb _ H). }
  set (st0 := {| loc := p_ctx p; out := []; cur := None; prov := [] |}).
  assert (Hs : srelQ (p_lib p) g0 (fun _ => None) (page_ctxt p) st0 (map fst (p_ctx p))).
  { assert (Hint : forall k, uname k = false -> slookup k builtins = None -> cget k (dicts (page_ctxt p)) = None).
    { intros k Hk Hb. unfold page_ctxt. cbn [dicts]. rewrite page_lookup, (not_uname_notin_ctx _ _ Hctx Hk). exact Hb. }
    split; [reflexivity|]. split; [reflexivity|]. split.
    { intros x Hx. unfold page_ctxt. cbn [dicts st0 loc]. rewrite page_lookup. destruct (slookup x (p_ctx p)); [reflexivity|].
      destruct (uname_l0_ok x Hx) as [_ [_ [H1 [H2 H3]]]]. unfold builtins. cbn [slookup].
      rewrite !str_eqb_neq by assumption. reflexivity. }
    split; [apply incl_refl|]. split; [split; apply Hint; reflexivity|].
    split; [split; apply Hint; reflexivity|]. intros rid i H. discriminate H. }
  pose proof (sim_listQ (p_lib p) _ _ (sim_renderQ (p_lib p) Hlib fuel) (p_page p) _ _ st0 g0 (page_ctxt p) Hs Hpage
                ltac:(intros i E; discriminate E)) as H.
  fold st0. destruct (rl (render Isolated (p_lib p) fuel) st0 (p_page p)) as [a| |].
  - destruct H as [g' [E _]]. rewrite E. reflexivity.
  - rewrite H. reflexivity.
  - rewrite H. reflexivity.
Qed.
