(* Proofs about the dependency pipeline model (property C04). *)
From DJC Require Import Lib.Base Deps.Model.
From DJC Require Gen.C04.
Import Coq.Strings.String.StringSyntax.
Local Delimit Scope string_scope with string.
Local Open Scope N_scope.

(* ---------- anchors: the hand matchers were written for exactly these source patterns ---------- *)
Example comment_regex_anchor :
  Gen.C04.comment_regex = s2n "<!--\s+_RENDERED\s+(?P<data>[^\s>]+?)\s+-->"%string /\ Gen.C04.comment_regex_flags = 0.
Proof. split; reflexivity. Qed.
Example script_name_regex_anchor :
  Gen.C04.script_name_regex = s2n "^(?P<comp_cls_hash>[^\s,>]+?),(?P<id>[\w]+?),(?P<js>[0-9a-f]*?),(?P<css>[0-9a-f]*?)$"%string
  /\ Gen.C04.script_name_regex_flags = 0.
Proof. split; reflexivity. Qed.
Example placeholder_regex_anchor :
  Gen.C04.placeholder_regex =
    s2n "<link name=""CSS_PLACEHOLDER""(?: data-djc-(?:id|css)-\w{6}="""")*/?>|<script name=""JS_PLACEHOLDER""(?: data-djc-(?:id|css)-\w{6}="""")*></script>"%string
  /\ Gen.C04.placeholder_regex_flags = 0.
Proof. split; reflexivity. Qed.
Example deps_comment_anchor : forall d, emit_raw d = s2n "<!-- _RENDERED "%string ++ d ++ s2n " -->"%string
  /\ Gen.C04.deps_comment = s2n "<!-- _RENDERED {data} -->"%string.
Proof. intro d. split; reflexivity. Qed.
Example placeholders_anchor :
  Gen.C04.css_placeholder = emit_placeholder KCss [] false /\ Gen.C04.js_placeholder = emit_placeholder KJs [] false.
Proof. split; reflexivity. Qed.
Example end_tag_regex_anchor : Gen.C04.end_tag_regex = s2n "<\/(?:head|body)\s*>"%string /\ Gen.C04.end_tag_regex_flags = 48.
Proof. split; reflexivity. Qed.

Example url_patterns_anchor :
  Gen.C04.src_pattern = s2n "(?<![\w-])src=""([^""]+)"""%string /\ Gen.C04.src_pattern_flags = 32 /\
  Gen.C04.href_pattern = s2n "(?<![\w-])href=""([^""]+)"""%string /\ Gen.C04.href_pattern_flags = 32.
Proof. repeat split; reflexivity. Qed.

(* ================================================================================================ *)
(* generic list facts                                                                               *)
(* ================================================================================================ *)
Lemma filter_filter {A} (p q : A -> bool) l :
  filter p (filter q l) = filter (fun x => p x && q x) l.
Proof.
  induction l as [|x l IH]; cbn [filter]; [reflexivity|].
  destruct (q x); cbn [filter]; rewrite ?andb_true_r, ?andb_false_r; destruct (p x); rewrite IH; reflexivity.
Qed.

Lemma filter_true {A} (p : A -> bool) l : (forall x, In x l -> p x = true) -> filter p l = l.
Proof.
  induction l as [|x l IH]; intro H; cbn [filter]; [reflexivity|].
  rewrite (H x (or_introl eq_refl)). f_equal. apply IH. intros y Hy. apply H. right. exact Hy.
Qed.

Lemma str_eqb_sym a b : str_eqb a b = str_eqb b a.
Proof.
  destruct (str_eqb a b) eqn:E.
  - apply str_eqb_eq in E. subst. symmetry. apply str_eqb_refl.
  - destruct (str_eqb b a) eqn:E'; [|reflexivity]. apply str_eqb_eq in E'. subst.
    rewrite str_eqb_refl in E. discriminate.
Qed.

Lemma str_eqb_neq a b : str_eqb a b = false <-> a <> b.
Proof.
  split.
  - intros E H. subst. rewrite str_eqb_refl in E. discriminate.
  - intro H. destruct (str_eqb a b) eqn:E; [|reflexivity]. apply str_eqb_eq in E. contradiction.
Qed.

(* ================================================================================================ *)
(* "first appearance, once": the loop refines the specification                                      *)
(* ================================================================================================ *)
Section DedupeProofs.
  Context {A K : Type} (keq : K -> K -> bool) (key : A -> K).
  Hypothesis keq_spec : forall a b, keq a b = true <-> a = b.

  Lemma keq_refl a : keq a a = true.
  Proof. apply keq_spec. reflexivity. Qed.

  Lemma keq_sym a b : keq a b = keq b a.
  Proof.
    destruct (keq a b) eqn:E.
    - apply keq_spec in E. subst. symmetry. apply keq_refl.
    - destruct (keq b a) eqn:E'; [|reflexivity]. apply keq_spec in E'. subst. rewrite keq_refl in E. discriminate.
  Qed.

  Lemma kmem_In k l : kmem keq k l = true <-> In k l.
  Proof.
    unfold kmem. rewrite existsb_exists. split.
    - intros [x [Hx E]]. apply keq_spec in E. subst. exact Hx.
    - intro H. exists k. split; [exact H|apply keq_refl].
  Qed.

  Lemma kmem_false k l : kmem keq k l = false <-> ~ In k l.
  Proof.
    rewrite <- kmem_In. destruct (kmem keq k l); split; intro H; try reflexivity; try discriminate.
    exfalso. apply H. reflexivity.
  Qed.

  Notation notin seen := (fun y => negb (kmem keq (key y) seen)).

  Lemma dedupe_loop_spec l : forall seen out,
    dedupe_loop keq key l seen out = out ++ filter (notin seen) (first_by keq key l).
  Proof.
    induction l as [|x r IH]; intros seen out; cbn [dedupe_loop first_by filter].
    - rewrite app_nil_r. reflexivity.
    - destruct (kmem keq (key x) seen) eqn:E; cbn [negb].
      + rewrite IH. f_equal. rewrite filter_filter. apply filter_ext. intro y.
        destruct (keq (key x) (key y)) eqn:E2; cbn [negb]; rewrite ?andb_true_r; [|reflexivity].
        apply keq_spec in E2. rewrite <- E2, E. reflexivity.
      + rewrite IH, <- app_assoc. cbn [app]. do 2 f_equal. rewrite filter_filter. apply filter_ext. intro y.
        unfold kmem. cbn [existsb]. fold (kmem keq (key y) seen). rewrite (keq_sym (key y) (key x)).
        destruct (keq (key x) (key y)); destruct (kmem keq (key y) seen); reflexivity.
  Qed.

  (* the loop the code runs computes the specification *)
  Lemma dedupe_first_by l : dedupe keq key l = first_by keq key l.
  Proof.
    unfold dedupe. rewrite dedupe_loop_spec. cbn [app]. apply filter_true. intros; reflexivity.
  Qed.

  Lemma first_by_incl l x : In x (first_by keq key l) -> In x l.
  Proof.
    induction l as [|a r IH]; cbn [first_by]; [tauto|].
    intros [H|H]; [left; exact H|]. apply filter_In in H. right. apply IH. tauto.
  Qed.

  Lemma first_by_keys l k : In k (map key (first_by keq key l)) <-> In k (map key l).
  Proof.
    induction l as [|a r IH]; cbn [first_by map]; [tauto|].
    split.
    - intros [H|H]; [left; exact H|]. right. apply IH. apply in_map_iff in H as [y [Hy Hin]].
      apply filter_In in Hin. apply in_map_iff. exists y. tauto.
    - intros [H|H]; [left; exact H|].
      destruct (keq (key a) k) eqn:E.
      + left. apply keq_spec. exact E.
      + right. apply IH in H. apply in_map_iff in H as [y [Hy Hin]]. apply in_map_iff. exists y.
        split; [exact Hy|]. apply filter_In. split; [exact Hin|]. rewrite Hy, E. reflexivity.
  Qed.

  Lemma NoDup_map_filter (p : A -> bool) l : NoDup (map key l) -> NoDup (map key (filter p l)).
  Proof.
    induction l as [|a r IH]; cbn [map filter]; intro H; [constructor|].
    inversion H as [|? ? Hn Hr]; subst. destruct (p a); cbn [map]; [|apply IH; exact Hr].
    constructor; [|apply IH; exact Hr]. intro Hin. apply Hn. apply in_map_iff in Hin as [y [Hy Hin]].
    apply filter_In in Hin. apply in_map_iff. exists y. tauto.
  Qed.

  Lemma first_by_NoDup l : NoDup (map key (first_by keq key l)).
  Proof.
    induction l as [|a r IH]; cbn [first_by map]; constructor.
    - intro Hin. apply in_map_iff in Hin as [y [Hy Hin]]. apply filter_In in Hin as [_ Hf].
      rewrite <- Hy, keq_refl in Hf. discriminate.
    - apply NoDup_map_filter. exact IH.
  Qed.

  Lemma first_by_app l1 l2 :
    first_by keq key (l1 ++ l2) =
    first_by keq key l1 ++ filter (notin (map key l1)) (first_by keq key l2).
  Proof.
    induction l1 as [|a r IH]; cbn [app first_by map filter].
    - symmetry. apply filter_true. intros; reflexivity.
    - f_equal. rewrite IH, filter_app. f_equal. rewrite filter_filter. apply filter_ext. intro y.
      unfold kmem. cbn [existsb]. rewrite (keq_sym (key y) (key a)).
      destruct (keq (key a) (key y)); cbn [negb orb andb]; rewrite ?andb_true_r, ?andb_false_r; reflexivity.
  Qed.
End DedupeProofs.

(* ================================================================================================ *)
(* first_occ                                                                                         *)
(* ================================================================================================ *)
Lemma map_filter_key {A} (key : A -> str) (x : str) l :
  map key (filter (fun y => negb (str_eqb x (key y))) l) = filter (fun k => negb (str_eqb x k)) (map key l).
Proof.
  induction l as [|a r IH]; cbn [filter map]; [reflexivity|].
  destruct (str_eqb x (key a)); cbn [negb map]; rewrite IH; reflexivity.
Qed.

Lemma first_by_map {A} (key : A -> str) l : map key (first_by str_eqb key l) = first_occ (map key l).
Proof.
  unfold first_occ. induction l as [|a r IH]; cbn [first_by map]; [reflexivity|].
  f_equal. rewrite map_filter_key, IH. reflexivity.
Qed.

Lemma first_occ_NoDup l : NoDup (first_occ l).
Proof.
  unfold first_occ. rewrite <- (map_id (first_by str_eqb (fun x => x) l)).
  apply (first_by_NoDup str_eqb (fun x : str => x) str_eqb_eq).
Qed.

Lemma first_occ_In l x : In x (first_occ l) <-> In x l.
Proof.
  unfold first_occ. pose proof (first_by_keys str_eqb (fun x : str => x) str_eqb_eq l x) as H.
  rewrite !map_id in H. exact H.
Qed.

(* position of x in the result: after exactly the distinct elements seen before x's first occurrence,
   before only elements whose first occurrence comes later *)
Lemma first_occ_order l1 x l2 : ~ In x l1 ->
  exists after, first_occ (l1 ++ x :: l2) = first_occ l1 ++ x :: after /\
    (forall y, In y after -> In y l2 /\ ~ In y l1 /\ y <> x).
Proof.
  intro Hx. unfold first_occ. rewrite (first_by_app str_eqb (fun x : str => x) str_eqb_eq). cbn [first_by filter].
  rewrite map_id.
  assert (E : kmem str_eqb x l1 = false) by (apply (kmem_false str_eqb str_eqb_eq); exact Hx).
  rewrite E. cbn [negb]. eexists. split; [reflexivity|].
  intros y Hy. apply filter_In in Hy as [Hy H1]. apply filter_In in Hy as [Hy H2].
  split; [|split].
  - apply (first_occ_In l2 y). exact Hy.
  - apply (kmem_false str_eqb str_eqb_eq). destruct (kmem str_eqb y l1); [discriminate|reflexivity].
  - intro; subst y. rewrite str_eqb_refl in H2. discriminate.
Qed.

(* ================================================================================================ *)
(* the `for part in all_parts` loop                                                                  *)
(* ================================================================================================ *)
Definition cd_of (p : str * str * str * str) : list (str * kind * option str) :=
  [(p_hash p, KJs, None); (p_hash p, KCss, None)].
Definition id_of (p : str * str * str * str) : list (str * kind * option str) :=
  let '(h, _, js, css) := p in
  (match opt_hash js with Some i => [(h, KJs, Some i)] | None => [] end)
  ++ (match opt_hash css with Some i => [(h, KCss, Some i)] | None => [] end).

Lemma loop_spec ps : forall seen hashes cdata idata,
  fold_left loop_step ps (seen, hashes, cdata, idata) =
  let kept := filter (fun p => negb (kmem str_eqb (p_hash p) seen)) (first_by str_eqb p_hash ps) in
  (rev (map p_hash kept) ++ seen, hashes ++ map p_hash kept,
   cdata ++ flat_map cd_of kept, idata ++ flat_map id_of kept).
Proof.
  induction ps as [|p r IH]; intros seen hashes cdata idata; cbn [fold_left first_by filter].
  - cbn. rewrite !app_nil_r. reflexivity.
  - destruct p as [[[h id] js] css]. cbn [loop_step].
    change (p_hash (h, id, js, css)) with h.
    destruct (kmem str_eqb h seen) eqn:E; cbn [negb].
    + rewrite IH. cbv zeta. rewrite filter_filter.
      assert (F : forall l, filter (fun x : str * str * str * str =>
                    negb (kmem str_eqb (p_hash x) seen) && negb (str_eqb h (p_hash x))) l
                  = filter (fun p => negb (kmem str_eqb (p_hash p) seen)) l).
      { intro l. apply filter_ext. intro y.
        destruct (str_eqb h (p_hash y)) eqn:E2; cbn [negb]; rewrite ?andb_true_r; [|reflexivity].
        apply str_eqb_eq in E2. rewrite <- E2, E. reflexivity. }
      rewrite F. reflexivity.
    + rewrite IH. cbv zeta. rewrite filter_filter.
      assert (F : forall l, filter (fun x : str * str * str * str =>
                    negb (kmem str_eqb (p_hash x) seen) && negb (str_eqb h (p_hash x))) l
                  = filter (fun p => negb (kmem str_eqb (p_hash p) (h :: seen))) l).
      { intro l. apply filter_ext. intro y.
        unfold kmem. cbn [existsb]. rewrite (str_eqb_sym (p_hash y) h).
        destruct (str_eqb h (p_hash y)); destruct (existsb (str_eqb (p_hash y)) seen); reflexivity. }
      rewrite F. cbn [map rev flat_map]. change (p_hash (h, id, js, css)) with h.
      unfold cd_of at 2, id_of at 2. change (p_hash (h, id, js, css)) with h.
      rewrite <- !app_assoc. cbn [app]. reflexivity.
Qed.

Lemma run_loop_spec ps :
  let fp := first_by str_eqb p_hash ps in
  run_loop ps = (rev (map p_hash fp), rendered ps, flat_map cd_of fp, flat_map id_of fp).
Proof.
  unfold run_loop, rendered. rewrite loop_spec. cbv zeta. cbn [app].
  rewrite filter_true by (intros; reflexivity). rewrite app_nil_r, first_by_map. reflexivity.
Qed.

(* ================================================================================================ *)
(* _prepare_tags_and_urls, Media gathering, _postprocess_media_tags                                  *)
(* ================================================================================================ *)
Lemma rbind_ok {A B} (r : res A) (f : A -> res B) b :
  rbind r f = Ok b -> exists a, r = Ok a /\ f a = Ok b.
Proof. destruct r; cbn [rbind]; intro H; try discriminate. eexists. split; [reflexivity|exact H]. Qed.

Lemma prepare_agree tbl1 tbl2 t k data :
  (forall e, In e data -> tlookup (fst (fst e)) tbl1 = tlookup (fst (fst e)) tbl2) ->
  prepare tbl1 t k data = prepare tbl2 t k data.
Proof.
  induction data as [|[[h k'] inp] r IH]; intro H; cbn [prepare]; [reflexivity|].
  pose proof (H (h, k', inp) (or_introl eq_refl)) as Hh. cbn [fst] in Hh. rewrite Hh.
  rewrite IH; [reflexivity|]. intros e He. apply H. right. exact He.
Qed.

Lemma class_medias_agree tbl1 tbl2 k hs :
  (forall h, In h hs -> tlookup h tbl1 = tlookup h tbl2) ->
  class_medias tbl1 k hs = class_medias tbl2 k hs.
Proof.
  induction hs as [|h r IH]; intro H; cbn [class_medias]; [reflexivity|].
  rewrite (H h (or_introl eq_refl)). rewrite IH; [reflexivity|]. intros x Hx. apply H. right. exact Hx.
Qed.

(* fragment mode schedules for loading exactly what document mode inlines and marks as loaded *)
Lemma prepare_doc_frag tbl k data : forall pd, prepare tbl Document k data = Ok pd ->
  exists pf, prepare tbl Fragment k data = Ok pf /\ to_load pf = loaded pd /\
             inlined pf = [] /\ loaded pf = [] /\ to_load pd = [].
Proof.
  induction data as [|[[h k'] inp] r IH]; intros pd H; cbn [prepare] in *.
  - inversion H; subst. eexists. repeat split.
  - destruct (tlookup h tbl) as [c|]; [|discriminate].
    destruct (prepare tbl Document k r) as [p0| | |] eqn:E; try discriminate.
    destruct (IH p0 eq_refl) as [pf [Ef [H1 [H2 [H3 H4]]]]]. rewrite Ef.
    destruct (kind_eqb k k'); [destruct (ci_inline k c)|]; inversion H; subst; eexists;
      (split; [reflexivity|]); cbn; repeat split; try assumption; f_equal; assumption.
Qed.

Lemma prepare_frag_doc tbl k data : forall pf, prepare tbl Fragment k data = Ok pf ->
  exists pd, prepare tbl Document k data = Ok pd.
Proof.
  induction data as [|[[h k'] inp] r IH]; intros pf H; cbn [prepare] in *.
  - eexists; reflexivity.
  - destruct (tlookup h tbl) as [c|]; [|discriminate].
    destruct (prepare tbl Fragment k r) as [p0| | |] eqn:E; try discriminate.
    destruct (IH p0 eq_refl) as [pd Ed]. rewrite Ed.
    destruct (kind_eqb k k'); [destruct (ci_inline k c)|]; eexists; reflexivity.
Qed.

Lemma prepare_cdata_doc tbl k fp : forall p, prepare tbl Document k (flat_map cd_of fp) = Ok p ->
  inlined p = flat_map (class_inline tbl k) (map p_hash fp) /\
  loaded p = flat_map (fun h => map (fun _ => UCache h k None) (class_inline tbl k h)) (map p_hash fp).
Proof.
  induction fp as [|a r IH]; intros p H.
  - cbn in H. inversion H; subst. split; reflexivity.
  - cbn [flat_map cd_of app map] in *. cbn [prepare] in H. unfold class_inline at 1 3.
    destruct (tlookup (p_hash a) tbl) as [c|]; [|discriminate].
    destruct (prepare tbl Document k (flat_map cd_of r)) as [p0| | |] eqn:E; try discriminate.
    destruct (IH p0 eq_refl) as [I1 I2].
    destruct k; cbn [kind_eqb ci_inline] in *.
    + destruct (ci_js c); inversion H; subst; cbn; rewrite I1, I2; split; reflexivity.
    + destruct (ci_css c); inversion H; subst; cbn; rewrite I1, I2; split; reflexivity.
Qed.

Lemma prepare_inputs_stub tbl t k data :
  Forall (fun e : str * kind * option str => snd e <> None) data ->
  forall p, prepare tbl t k data = Ok p -> Forall (fun s => s = []) (inlined p).
Proof.
  induction data as [|[[h k'] inp] r IH]; intros HF p H; cbn [prepare] in *.
  - inversion H; subst. constructor.
  - inversion HF as [|? ? Hi Hr]; subst. cbn [snd] in Hi.
    destruct (tlookup h tbl) as [c|]; [|discriminate].
    destruct (prepare tbl t k r) as [p0| | |] eqn:E; try discriminate.
    specialize (IH Hr p0 eq_refl).
    destruct (kind_eqb k k'); [destruct (ci_inline k c)|]; [destruct t| |]; inversion H; subst; cbn; try assumption.
    constructor; [|assumption]. destruct inp; [reflexivity|contradiction].
Qed.

Lemma id_of_some fp : Forall (fun e : str * kind * option str => snd e <> None) (flat_map id_of fp).
Proof.
  induction fp as [|[[[h id] js] css] r IH]; cbn [flat_map]; [constructor|].
  apply Forall_app. split; [|exact IH]. unfold id_of.
  destruct (opt_hash js); destruct (opt_hash css); cbn; repeat constructor; cbn; discriminate.
Qed.

Lemma id_of_no_inputs ps : no_inputs ps -> flat_map id_of (first_by str_eqb p_hash ps) = [].
Proof.
  intro H. assert (G : forall l, (forall x, In x l -> In x ps) -> flat_map id_of l = []).
  { induction l as [|[[[h id] js] css] r IH]; intro Hl; cbn [flat_map]; [reflexivity|].
    destruct (H h id js css (Hl _ (or_introl eq_refl))) as [-> ->]. cbn.
    apply IH. intros x Hx. apply Hl. right. exact Hx. }
  apply G. intros x Hx. eapply first_by_incl. exact Hx.
Qed.

Lemma class_medias_spec tbl k hs : forall l, class_medias tbl k hs = Ok l ->
  forall t, In t l <-> exists h c, In h hs /\ tlookup h tbl = Some c /\ In t (ci_media k c).
Proof.
  induction hs as [|h r IH]; intros l H t; cbn [class_medias] in H.
  - inversion H; subst. split; [intros []|intros [? [? [[] _]]]].
  - destruct (tlookup h tbl) as [c|] eqn:E; [|discriminate].
    destruct (class_medias tbl k r) as [l0| | |] eqn:E2; try discriminate.
    inversion H; subst. rewrite in_app_iff, (IH l0 eq_refl t). unfold ci_media. split.
    + intros [Hin|[h' [c' [H1 [H2 H3]]]]].
      * exists h, c. split; [left; reflexivity|split; [exact E|exact Hin]].
      * exists h', c'. split; [right; exact H1|split; assumption].
    + intros [h' [c' [[->|H1] [H2 H3]]]].
      * left. rewrite E in H2. inversion H2; subst. exact H3.
      * right. exists h', c'. repeat split; assumption.
Qed.

Lemma kind_eqb_eq a b : kind_eqb a b = true <-> a = b.
Proof. destruct a, b; cbn; split; intro; try reflexivity; try discriminate. Qed.

Lemma option_str_eqb_eq (a b : option str) : option_eqb str_eqb a b = true <-> a = b.
Proof.
  destruct a, b; cbn; split; intro H; try reflexivity; try discriminate.
  - apply str_eqb_eq in H. congruence.
  - inversion H; subst. apply str_eqb_refl.
Qed.

Lemma url_eqb_eq a b : url_eqb a b = true <-> a = b.
Proof.
  destruct a as [h k i|u], b as [h' k' i'|u']; cbn [url_eqb]; split; intro H; try discriminate.
  - apply andb_true_iff in H as [H H3]. apply andb_true_iff in H as [H1 H2].
    apply str_eqb_eq in H1. apply kind_eqb_eq in H2. apply option_str_eqb_eq in H3. congruence.
  - inversion H; subst. rewrite str_eqb_refl. cbn.
    rewrite (proj2 (kind_eqb_eq k' k') eq_refl), (proj2 (option_str_eqb_eq i' i') eq_refl). reflexivity.
  - apply str_eqb_eq in H. congruence.
  - inversion H; subst. apply str_eqb_refl.
Qed.

Lemma tag_url_eqb_eq a b : tag_url_eqb a b = true <-> a = b.
Proof.
  unfold tag_url_eqb. destruct a, b; cbn; split; intro H; try reflexivity; try discriminate.
  - apply url_eqb_eq in H. congruence.
  - inversion H; subst. apply url_eqb_eq. reflexivity.
Qed.

Lemma tag_urls_map l :
  forallb (fun t : option url * str => match fst t with Some _ => true | None => false end) l = true ->
  map Some (tag_urls l) = map fst l.
Proof.
  induction l as [|[[u|] s] r IH]; cbn; intro H; try discriminate; [reflexivity|].
  unfold tag_urls in IH. rewrite IH by exact H. reflexivity.
Qed.

Lemma tag_urls_In l u : In u (tag_urls l) <-> In (Some u) (map fst l).
Proof.
  unfold tag_urls. rewrite in_flat_map, in_map_iff. split.
  - intros [[o s] [Hin Hu]]. cbn [fst] in Hu. destruct o; [|destruct Hu].
    destruct Hu as [->|[]]. exists (Some u, s). split; [reflexivity|exact Hin].
  - intros [[o s] [Ho Hin]]. cbn [fst] in Ho. subst o. exists (Some u, s). split; [exact Hin|left; reflexivity].
Qed.

(* the tags that survive _postprocess_media_tags: one per URL, every URL kept *)
Lemma postprocess_spec tags out : postprocess tags = Ok out ->
  out = first_by tag_url_eqb (fun t : option url * str => fst t) tags /\
  NoDup (tag_urls out) /\ (forall u, In u (tag_urls out) <-> In u (tag_urls tags)).
Proof.
  unfold postprocess. destruct (forallb _ tags) eqn:E; [|discriminate]. intro H. inversion H; subst. clear H.
  rewrite (dedupe_first_by tag_url_eqb _ tag_url_eqb_eq). split; [reflexivity|]. split.
  - apply (NoDup_map_inv Some). rewrite tag_urls_map.
    + apply (first_by_NoDup tag_url_eqb _ tag_url_eqb_eq).
    + apply forallb_forall. intros x Hx. apply (first_by_incl tag_url_eqb) in Hx.
      rewrite forallb_forall in E. apply E. exact Hx.
  - intro u. rewrite !tag_urls_In. apply (first_by_keys tag_url_eqb _ tag_url_eqb_eq).
Qed.

(* ================================================================================================ *)
(* _process_dep_declarations                                                                         *)
(* ================================================================================================ *)
Lemma process_shape tbl t ps d : process_parts tbl t ps = Ok d ->
  let fp := first_by str_eqb p_hash ps in
  exists ijs icss cjs ccss mcss mjs css_tags js_tags,
    prepare tbl t KJs (flat_map id_of fp) = Ok ijs /\
    prepare tbl t KCss (flat_map id_of fp) = Ok icss /\
    prepare tbl t KJs (flat_map cd_of fp) = Ok cjs /\
    prepare tbl t KCss (flat_map cd_of fp) = Ok ccss /\
    class_medias tbl KCss (rendered ps) = Ok mcss /\
    class_medias tbl KJs (rendered ps) = Ok mjs /\
    postprocess (mcss ++ cache_tags KCss (to_load ccss ++ to_load icss)) = Ok css_tags /\
    postprocess (mjs ++ cache_tags KJs (to_load cjs ++ to_load ijs)) = Ok js_tags /\
    d = build_deps t (rendered ps) ijs icss cjs ccss css_tags js_tags.
Proof.
  unfold process_parts. rewrite run_loop_spec. cbv zeta. intro H.
  apply rbind_ok in H as [ijs [H1 H]]. apply rbind_ok in H as [icss [H2 H]].
  apply rbind_ok in H as [cjs [H3 H]]. apply rbind_ok in H as [ccss [H4 H]].
  apply rbind_ok in H as [mcss [H5 H]]. apply rbind_ok in H as [mjs [H6 H]].
  apply rbind_ok in H as [css_tags [H7 H]]. apply rbind_ok in H as [js_tags [H8 H]].
  inversion H; subst. exists ijs, icss, cjs, ccss, mcss, mjs, css_tags, js_tags.
  repeat (split; [assumption|]). reflexivity.
Qed.

Lemma inline_of_app k a b : inline_of k (a ++ b) = inline_of k a ++ inline_of k b.
Proof. unfold inline_of. apply flat_map_app. Qed.
Lemma media_of_app k a b : media_of k (a ++ b) = media_of k a ++ media_of k b.
Proof. unfold media_of. apply flat_map_app. Qed.
Lemma inline_of_inline k l : inline_of k (map (TInline k) l) = l.
Proof.
  unfold inline_of. induction l as [|x r IH]; cbn; [reflexivity|].
  rewrite (proj2 (kind_eqb_eq k k) eq_refl). cbn. f_equal. exact IH.
Qed.
Lemma inline_of_inline_other k k' l : k <> k' -> inline_of k (map (TInline k') l) = [].
Proof.
  intro Hk. unfold inline_of. induction l as [|x r IH]; cbn; [reflexivity|].
  destruct (kind_eqb k k') eqn:E; [apply kind_eqb_eq in E; contradiction|]. exact IH.
Qed.
Lemma inline_of_media k k' l : inline_of k (map (TMedia k') l) = [].
Proof. unfold inline_of. induction l as [|x r IH]; cbn; [reflexivity|exact IH]. Qed.
Lemma media_of_media k l : media_of k (map (TMedia k) l) = l.
Proof.
  unfold media_of. induction l as [|x r IH]; cbn; [reflexivity|].
  rewrite (proj2 (kind_eqb_eq k k) eq_refl). cbn. f_equal. exact IH.
Qed.
Lemma media_of_inline k k' l : media_of k (map (TInline k') l) = [].
Proof. unfold media_of. induction l as [|x r IH]; cbn; [reflexivity|exact IH]. Qed.

Lemma stubs_repeat (l : list str) : Forall (fun s => s = []) l -> l = repeat [] (length l).
Proof. induction 1 as [|x r Hx _ IH]; cbn; [reflexivity|]. subst x. f_equal. exact IH. Qed.

(* document mode: the inline scripts / styles of the output, in order *)
Lemma doc_inline_lemma tbl ps d : process_parts tbl Document ps = Ok d ->
  (exists n, inline_of KJs (d_js d) = repeat [] n ++ flat_map (class_inline tbl KJs) (rendered ps)) /\
  (exists n, inline_of KCss (d_css d) = flat_map (class_inline tbl KCss) (rendered ps) ++ repeat [] n) /\
  inline_of KCss (d_js d) = [] /\ inline_of KJs (d_css d) = [] /\
  (no_inputs ps -> inline_of KJs (d_js d) = flat_map (class_inline tbl KJs) (rendered ps) /\
                   inline_of KCss (d_css d) = flat_map (class_inline tbl KCss) (rendered ps)).
Proof.
  intro H. apply process_shape in H. cbv zeta in H.
  destruct H as [ijs [icss [cjs [ccss [mcss [mjs [css_tags [js_tags [H1 [H2 [H3 [H4 [H5 [H6 [H7 [H8 ->]]]]]]]]]]]]]]]].
  destruct (prepare_cdata_doc _ _ _ _ H3) as [I3 _]. destruct (prepare_cdata_doc _ _ _ _ H4) as [I4 _].
  rewrite first_by_map in I3, I4. fold (rendered ps) in I3, I4.
  pose proof (prepare_inputs_stub _ _ _ _ (id_of_some _) _ H1) as S1.
  pose proof (prepare_inputs_stub _ _ _ _ (id_of_some _) _ H2) as S2.
  unfold build_deps. cbn [d_js d_css is_doc].
  assert (EJ : forall x, inline_of KJs ([TCore] ++ x ++ map (TMedia KJs) js_tags
                 ++ map (TInline KJs) (inlined ijs) ++ map (TInline KJs) (inlined cjs))
               = inline_of KJs x ++ inlined ijs ++ inlined cjs).
  { intro x. rewrite !inline_of_app, inline_of_media, !inline_of_inline. reflexivity. }
  assert (EC : forall x, inline_of KCss ([TCore] ++ x ++ map (TMedia KJs) js_tags
                 ++ map (TInline KJs) (inlined ijs) ++ map (TInline KJs) (inlined cjs))
               = inline_of KCss x).
  { intro x. rewrite !inline_of_app, inline_of_media, !inline_of_inline_other by discriminate.
    rewrite !app_nil_r. reflexivity. }
  assert (X : forall k (b : bool) x, inline_of k (if b then [TExec x] else []) = []) by (intros k [] x; reflexivity).
  rewrite EJ, EC, !X. cbn [app].
  rewrite !inline_of_app, !inline_of_media, !inline_of_inline, !inline_of_inline_other by discriminate.
  rewrite !app_nil_r. cbn [app]. rewrite I3, I4.
  split; [|split; [|split; [|split]]].
  - exists (length (inlined ijs)). rewrite <- (stubs_repeat _ S1). reflexivity.
  - exists (length (inlined icss)). rewrite <- (stubs_repeat _ S2). reflexivity.
  - reflexivity.
  - reflexivity.
  - intro Hn. rewrite (id_of_no_inputs ps Hn) in H1, H2. cbn in H1, H2. inversion H1; inversion H2; subst.
    cbn. rewrite app_nil_r. split; reflexivity.
Qed.

(* ---------- Media files ---------- *)
Lemma media_of_exec k (b : bool) x : media_of k (if b then [TExec x] else []) = [].
Proof. destruct b; reflexivity. Qed.

Lemma media_of_build t hs ijs icss cjs ccss css_tags js_tags :
  media_of KJs (d_js (build_deps t hs ijs icss cjs ccss css_tags js_tags)) = (if is_doc t then js_tags else []) /\
  media_of KCss (d_css (build_deps t hs ijs icss cjs ccss css_tags js_tags)) = css_tags.
Proof.
  unfold build_deps. cbn [d_js d_css]. rewrite !media_of_app, !media_of_inline, media_of_exec, media_of_media.
  rewrite !app_nil_r. split; [|reflexivity].
  destruct t; cbn [is_doc]; [apply media_of_media|reflexivity].
Qed.

Lemma cache_tags_urls k us : tag_urls (cache_tags k us) = us.
Proof. unfold tag_urls, cache_tags. induction us as [|u r IH]; cbn; [reflexivity|]. f_equal. exact IH. Qed.

Lemma tag_urls_app a b : tag_urls (a ++ b) = tag_urls a ++ tag_urls b.
Proof. unfold tag_urls. apply flat_map_app. Qed.

Lemma rendered_In ps h : In h (rendered ps) <-> In h (map p_hash ps).
Proof. apply first_occ_In. Qed.

Lemma doc_media_lemma tbl ps d : process_parts tbl Document ps = Ok d ->
  forall k, let urls := tag_urls (media_of k (match k with KJs => d_js d | KCss => d_css d end)) in
  NoDup urls /\
  forall u, In u urls <->
            exists h c, In h (map p_hash ps) /\ tlookup h tbl = Some c /\ In (Some u) (map fst (ci_media k c)).
Proof.
  intros H k. apply process_shape in H. cbv zeta in H.
  destruct H as [ijs [icss [cjs [ccss [mcss [mjs [css_tags [js_tags [H1 [H2 [H3 [H4 [H5 [H6 [H7 [H8 ->]]]]]]]]]]]]]]]].
  destruct (prepare_doc_frag _ _ _ _ H1) as [_ [_ [_ [_ [_ T1]]]]].
  destruct (prepare_doc_frag _ _ _ _ H2) as [_ [_ [_ [_ [_ T2]]]]].
  destruct (prepare_doc_frag _ _ _ _ H3) as [_ [_ [_ [_ [_ T3]]]]].
  destruct (prepare_doc_frag _ _ _ _ H4) as [_ [_ [_ [_ [_ T4]]]]].
  rewrite T1, T3 in H8. rewrite T2, T4 in H7. cbn [app cache_tags map] in H7, H8. rewrite app_nil_r in H7, H8.
  destruct (media_of_build Document (rendered ps) ijs icss cjs ccss css_tags js_tags) as [MJ MC].
  cbn [is_doc] in MJ.
  assert (G : forall tags out m, postprocess m = Ok out -> class_medias tbl k (rendered ps) = Ok m -> tags = out ->
            NoDup (tag_urls tags) /\ forall u, In u (tag_urls tags) <->
              exists h c, In h (map p_hash ps) /\ tlookup h tbl = Some c /\ In (Some u) (map fst (ci_media k c))).
  { intros tags out m Hp Hm ->. destruct (postprocess_spec _ _ Hp) as [_ [ND HI]]. split; [exact ND|].
    intro u. rewrite HI, tag_urls_In, in_map_iff. split.
    - intros [t [Ht Hin]]. apply (class_medias_spec _ _ _ _ Hm) in Hin as [h [c [Hh [Hc Hin]]]].
      exists h, c. rewrite <- rendered_In. repeat split; try assumption. apply in_map_iff. exists t. tauto.
    - intros [h [c [Hh [Hc Hin]]]]. apply in_map_iff in Hin as [t [Ht Hin]]. exists t. split; [exact Ht|].
      apply (class_medias_spec _ _ _ _ Hm). exists h, c. rewrite rendered_In. tauto. }
  destruct k; cbv zeta.
  - apply (G _ _ _ H8 H6). exact MJ.
  - apply (G _ _ _ H7 H5). exact MC.
Qed.

(* ---------- classes that were not rendered contribute nothing ---------- *)
Lemma id_of_hash fp e : In e (flat_map id_of fp) -> In (fst (fst e)) (map p_hash fp).
Proof.
  induction fp as [|[[[h id] js] css] r IH]; cbn [flat_map map]; [tauto|].
  rewrite in_app_iff. intros [H|H]; [left|right; apply IH; exact H].
  unfold id_of in H. destruct (opt_hash js); destruct (opt_hash css); cbn in H;
    repeat (destruct H as [H|H]; [subst e; reflexivity|]); destruct H.
Qed.

Lemma cd_of_hash fp e : In e (flat_map cd_of fp) -> In (fst (fst e)) (map p_hash fp).
Proof.
  induction fp as [|a r IH]; cbn [flat_map map]; [tauto|].
  rewrite in_app_iff. intros [H|H]; [left|right; apply IH; exact H].
  cbn in H. repeat (destruct H as [H|H]; [subst e; reflexivity|]). destruct H.
Qed.

Lemma unrendered_lemma tbl1 tbl2 t ps :
  (forall h, In h (map p_hash ps) -> tlookup h tbl1 = tlookup h tbl2) ->
  process_parts tbl1 t ps = process_parts tbl2 t ps.
Proof.
  intro H. unfold process_parts. rewrite run_loop_spec. cbv zeta.
  assert (Hfp : forall h, In h (map p_hash (first_by str_eqb p_hash ps)) -> tlookup h tbl1 = tlookup h tbl2).
  { intros h Hh. apply H. apply in_map_iff in Hh as [p [Hp Hin]]. apply in_map_iff. exists p.
    split; [exact Hp|]. eapply first_by_incl. exact Hin. }
  assert (A1 : forall k, prepare tbl1 t k (flat_map id_of (first_by str_eqb p_hash ps))
                       = prepare tbl2 t k (flat_map id_of (first_by str_eqb p_hash ps))).
  { intro k. apply prepare_agree. intros e He. apply Hfp. apply id_of_hash. exact He. }
  assert (A2 : forall k, prepare tbl1 t k (flat_map cd_of (first_by str_eqb p_hash ps))
                       = prepare tbl2 t k (flat_map cd_of (first_by str_eqb p_hash ps))).
  { intro k. apply prepare_agree. intros e He. apply Hfp. apply cd_of_hash. exact He. }
  assert (A3 : forall k, class_medias tbl1 k (rendered ps) = class_medias tbl2 k (rendered ps)).
  { intro k. apply class_medias_agree. intros h Hh. apply H. apply rendered_In. exact Hh. }
  rewrite !A1, !A2, !A3. reflexivity.
Qed.

(* ---------- fragment mode declares what document mode delivers ---------- *)
Lemma nonempty_false {A} (l : list A) : nonempty l = false -> l = [].
Proof. destruct l; [reflexivity|discriminate]. Qed.

Lemma exec_of_notexec l : (forall t, In t l -> match t with TExec _ => False | _ => True end) ->
  flat_map (fun t => match t with TExec e => [e] | _ => [] end) l = [].
Proof.
  induction l as [|a r IH]; intro H; cbn; [reflexivity|].
  pose proof (H a (or_introl eq_refl)) as Ha. destruct a; try contradiction; cbn; apply IH;
    intros t' Ht; apply H; right; exact Ht.
Qed.

Lemma declared_build t hs ijs icss cjs ccss css_tags js_tags :
  declared (d_js (build_deps t hs ijs icss cjs ccss css_tags js_tags)) =
  {| x_loaded_css := loaded ccss ++ loaded icss ++ (if is_doc t then tag_urls css_tags else []);
     x_loaded_js := loaded cjs ++ loaded ijs ++ (if is_doc t then tag_urls js_tags else []);
     x_toload_css := if is_doc t then [] else css_tags;
     x_toload_js := if is_doc t then [] else js_tags |}.
Proof.
  unfold declared, exec_of, build_deps. cbn [d_js x_toload_js x_toload_css].
  set (x := {| x_loaded_css := _ |}).
  set (rest := (if is_doc t then map (TMedia KJs) js_tags else []) ++
               map (TInline KJs) (inlined ijs) ++ map (TInline KJs) (inlined cjs)).
  assert (R : flat_map (fun t => match t with TExec e => [e] | _ => [] end) rest = []).
  { apply exec_of_notexec. intros t0 Ht. unfold rest in Ht. rewrite !in_app_iff in Ht.
    destruct Ht as [Ht|[Ht|Ht]].
    - destruct (is_doc t); [|destruct Ht]. apply in_map_iff in Ht as [? [<- _]]. exact I.
    - apply in_map_iff in Ht as [? [<- _]]. exact I.
    - apply in_map_iff in Ht as [? [<- _]]. exact I. }
  rewrite !flat_map_app, R.
  assert (C : flat_map (fun t => match t with TExec e => [e] | _ => [] end) (if is_doc t then [TCore] else []) = [])
    by (destruct (is_doc t); reflexivity).
  rewrite C. cbn [app].
  match goal with |- context [if ?b then [TExec x] else []] => destruct b eqn:E end.
  - reflexivity.
  - cbn. apply orb_false_iff in E as [E E4]. apply orb_false_iff in E as [E E3]. apply orb_false_iff in E as [E1 E2].
    apply nonempty_false in E1, E2, E3, E4. unfold x. cbn in E1, E2. rewrite E1, E2, E3, E4. reflexivity.
Qed.

Lemma postprocess_ok_app a k us out : postprocess a = Ok out -> exists out', postprocess (a ++ cache_tags k us) = Ok out'.
Proof.
  unfold postprocess. destruct (forallb _ a) eqn:E; [|discriminate]. intros _.
  rewrite forallb_app, E. cbn [andb].
  assert (F : forallb (fun t : option url * str => match fst t with Some _ => true | None => false end) (cache_tags k us) = true).
  { unfold cache_tags. induction us; cbn; [reflexivity|assumption]. }
  rewrite F. eexists. reflexivity.
Qed.

Lemma fragment_lemma tbl ps dd : process_parts tbl Document ps = Ok dd ->
  exists df, process_parts tbl Fragment ps = Ok df /\
    (d_js df = [] \/ exists x, d_js df = [TExec x]) /\
    let xf := declared (d_js df) in let xd := declared (d_js dd) in
    x_loaded_js xf = [] /\ x_loaded_css xf = [] /\
    x_toload_js xd = [] /\ x_toload_css xd = [] /\
    NoDup (tag_urls (x_toload_js xf)) /\ NoDup (tag_urls (x_toload_css xf)) /\
    (forall u, In u (tag_urls (x_toload_js xf)) <-> In u (x_loaded_js xd)) /\
    (forall u, In u (tag_urls (x_toload_css xf)) <-> In u (x_loaded_css xd)).
Proof.
  intro H. apply process_shape in H. cbv zeta in H.
  destruct H as [ijs [icss [cjs [ccss [mcss [mjs [css_tags [js_tags [H1 [H2 [H3 [H4 [H5 [H6 [H7 [H8 ->]]]]]]]]]]]]]]]].
  destruct (prepare_doc_frag _ _ _ _ H1) as [ijs' [F1 [L1 [N1 [M1 T1]]]]].
  destruct (prepare_doc_frag _ _ _ _ H2) as [icss' [F2 [L2 [N2 [M2 T2]]]]].
  destruct (prepare_doc_frag _ _ _ _ H3) as [cjs' [F3 [L3 [N3 [M3 T3]]]]].
  destruct (prepare_doc_frag _ _ _ _ H4) as [ccss' [F4 [L4 [N4 [M4 T4]]]]].
  rewrite T1, T3 in H8. rewrite T2, T4 in H7. cbn [app cache_tags map] in H7, H8. rewrite app_nil_r in H7, H8.
  destruct (postprocess_ok_app _ KCss (to_load ccss' ++ to_load icss') _ H7) as [css_tags' P7].
  destruct (postprocess_ok_app _ KJs (to_load cjs' ++ to_load ijs') _ H8) as [js_tags' P8].
  exists (build_deps Fragment (rendered ps) ijs' icss' cjs' ccss' css_tags' js_tags').
  split.
  { unfold process_parts. rewrite run_loop_spec. cbv zeta.
    rewrite F1. cbn [rbind]. rewrite F2. cbn [rbind]. rewrite F3. cbn [rbind]. rewrite F4. cbn [rbind].
    rewrite H5. cbn [rbind]. rewrite H6. cbn [rbind]. rewrite P7. cbn [rbind]. rewrite P8. cbn [rbind]. reflexivity. }
  split.
  { unfold build_deps. cbn [d_js is_doc]. rewrite N1, N3. cbn [map app]. rewrite app_nil_r.
    match goal with |- context [if ?b then _ else _] => destruct b end; [right; eexists; reflexivity|left; reflexivity]. }
  cbv zeta. rewrite !declared_build. cbn [is_doc x_loaded_js x_loaded_css x_toload_js x_toload_css].
  rewrite M1, M2, M3, M4. cbn [app].
  destruct (postprocess_spec _ _ H7) as [_ [_ D7]]. destruct (postprocess_spec _ _ H8) as [_ [_ D8]].
  destruct (postprocess_spec _ _ P7) as [_ [ND7 I7]]. destruct (postprocess_spec _ _ P8) as [_ [ND8 I8]].
  repeat (split; [first [reflexivity|assumption]|]).
  split.
  - intro u. rewrite I8, tag_urls_app, cache_tags_urls, L1, L3, !in_app_iff, D8. tauto.
  - intro u. rewrite I7, tag_urls_app, cache_tags_urls, L2, L4, !in_app_iff, D7. tauto.
Qed.

(* what document mode marks as loaded: the cached script of every class whose code it inlined, the
   variables scripts, and the Media files it wrote as tags *)
Lemma doc_loaded_lemma tbl ps d : process_parts tbl Document ps = Ok d ->
  forall k, exists inputs,
    (match k with KJs => x_loaded_js | KCss => x_loaded_css end) (declared (d_js d)) =
      flat_map (fun h => map (fun _ => UCache h k None) (class_inline tbl k h)) (rendered ps)
      ++ inputs ++ tag_urls (media_of k (match k with KJs => d_js d | KCss => d_css d end)).
Proof.
  intros H k. apply process_shape in H. cbv zeta in H.
  destruct H as [ijs [icss [cjs [ccss [mcss [mjs [css_tags [js_tags [H1 [H2 [H3 [H4 [H5 [H6 [H7 [H8 ->]]]]]]]]]]]]]]]].
  destruct (prepare_cdata_doc _ _ _ _ H3) as [_ I3]. destruct (prepare_cdata_doc _ _ _ _ H4) as [_ I4].
  rewrite first_by_map in I3, I4. fold (rendered ps) in I3, I4.
  destruct (media_of_build Document (rendered ps) ijs icss cjs ccss css_tags js_tags) as [MJ MC].
  rewrite declared_build. cbn [is_doc] in *. destruct k.
  - exists (loaded ijs). cbn [x_loaded_js]. rewrite MJ, I3. reflexivity.
  - exists (loaded icss). cbn [x_loaded_css]. rewrite MC, I4. reflexivity.
Qed.

(* ================================================================================================ *)
(* byte classes                                                                                      *)
(* ================================================================================================ *)
Ltac nbool1 :=
  rewrite ?andb_true_iff, ?orb_true_iff, ?negb_true_iff, ?negb_false_iff, ?andb_false_iff, ?orb_false_iff,
          ?N.eqb_eq, ?N.eqb_neq, ?N.leb_le, ?N.leb_gt, ?N.ltb_lt, ?N.ltb_ge in *.
Ltac nbool := repeat (progress nbool1).

Lemma word_hashb b : is_word b = true -> is_hashb b = true.
Proof. unfold is_hashb, is_data, is_space, is_word, is_digit. intro H. nbool. lia. Qed.
Lemma hex_word b : is_hex b = true -> is_word b = true.
Proof. unfold is_hex, is_word, is_digit. intro H. nbool. lia. Qed.
Lemma hashb_data b : is_hashb b = true -> is_data b = true.
Proof. unfold is_hashb. intro H. apply andb_true_iff in H. tauto. Qed.
Lemma hashb_nocomma b : is_hashb b = true -> (b =? 44) = false.
Proof. unfold is_hashb. intro H. apply andb_true_iff in H as [_ H]. apply negb_true_iff in H. exact H. Qed.
Lemma ge128_hashb b : 128 <= b -> is_hashb b = true.
Proof. unfold is_hashb, is_data, is_space. intro H. nbool. lia. Qed.
Lemma space_not_data b : is_space b = true -> is_data b = false.
Proof. unfold is_data. intro H. rewrite H. reflexivity. Qed.

Lemma forallb_impl {A} (p q : A -> bool) l : (forall x, p x = true -> q x = true) -> forallb p l = true -> forallb q l = true.
Proof.
  intros H. induction l as [|a r IH]; cbn; [reflexivity|]. intro E. apply andb_true_iff in E as [E1 E2].
  rewrite (H _ E1), (IH E2). reflexivity.
Qed.

Lemma le128_add a x : 128 <= a -> 128 <= a + x.
Proof. lia. Qed.

(* every Python identifier, whatever its letters, encodes to bytes the harvest accepts *)
Lemma utf8_cp_hashb c : ident_cp c = true -> forallb is_hashb (utf8_cp c) = true.
Proof.
  unfold ident_cp, utf8_cp. intro H.
  destruct (c <? 128) eqn:E1.
  - cbn [forallb]. rewrite andb_true_r. apply orb_true_iff in H as [H|H]; [apply word_hashb; exact H|].
    nbool. lia.
  - destruct (c <? 2048); [|destruct (c <? 65536)]; cbn [forallb];
      rewrite ?andb_true_iff; repeat split; apply ge128_hashb, le128_add; lia.
Qed.

Lemma utf8_hashb name : forallb ident_cp name = true -> forallb is_hashb (utf8 name) = true.
Proof.
  unfold utf8. induction name as [|c r IH]; cbn [flat_map forallb]; [reflexivity|].
  intro H. apply andb_true_iff in H as [H1 H2]. rewrite forallb_app, (utf8_cp_hashb c H1), (IH H2). reflexivity.
Qed.

Lemma class_hash_wf_lemma name digest :
  forallb ident_cp name = true -> forallb is_hex digest = true ->
  class_hash name digest <> [] /\ forallb is_hashb (class_hash name digest) = true.
Proof.
  intros Hn Hd. unfold class_hash. split.
  - destruct (utf8 name); discriminate.
  - rewrite !forallb_app, (utf8_hashb name Hn). cbn [forallb andb].
    rewrite (forallb_impl is_hex is_hashb digest); [reflexivity| |exact Hd].
    intros x Hx. apply word_hashb, hex_word. exact Hx.
Qed.

(* ================================================================================================ *)
(* string machinery                                                                                  *)
(* ================================================================================================ *)
Lemma span_app p a b :
  forallb p a = true -> match b with [] => True | c :: _ => p c = false end -> span p (a ++ b) = (a, b).
Proof.
  intros Ha Hb. induction a as [|x r IH]; cbn [app span].
  - destruct b as [|c b']; [reflexivity|]. cbn [span]. rewrite Hb. reflexivity.
  - cbn [forallb] in Ha. apply andb_true_iff in Ha as [H1 H2]. rewrite H1, (IH H2). reflexivity.
Qed.

Lemma span_spec p s a b : span p s = (a, b) -> s = a ++ b /\ forallb p a = true.
Proof.
  revert a b. induction s as [|c r IH]; intros a b H; cbn [span] in H.
  - inversion H; subst. split; reflexivity.
  - destruct (p c) eqn:E.
    + destruct (span p r) as [a' b'] eqn:E2. inversion H; subst. destruct (IH a' b eq_refl) as [-> Hf].
      split; [reflexivity|]. cbn. rewrite E, Hf. reflexivity.
    + inversion H; subst. split; reflexivity.
Qed.

Lemma strip_prefix_app p s : strip_prefix p (p ++ s) = Some s.
Proof. induction p as [|x r IH]; cbn; [destruct s; reflexivity|]. rewrite N.eqb_refl. exact IH. Qed.

Lemma strip_prefix_some p : forall s r, strip_prefix p s = Some r -> s = p ++ r.
Proof.
  induction p as [|x p' IH]; intros s r H.
  - destruct s; cbn in H; inversion H; reflexivity.
  - destruct s as [|y s']; cbn in H; [discriminate|]. destruct (x =? y) eqn:E; [|discriminate].
    apply N.eqb_eq in E. subst y. cbn. f_equal. apply IH. exact H.
Qed.

Lemma starts_with_app_l p s : starts_with p (p ++ s) = true.
Proof. induction p as [|x r IH]; cbn; [reflexivity|]. rewrite N.eqb_refl. exact IH. Qed.

Lemma starts_with_ext p a b : starts_with p a = true -> starts_with p (a ++ b) = true.
Proof.
  revert a. induction p as [|x r IH]; intros a H; [reflexivity|].
  destruct a as [|y a']; cbn in *; [discriminate|]. apply andb_true_iff in H as [H1 H2]. rewrite H1, (IH _ H2). reflexivity.
Qed.

(* a prefix of a ++ b lies inside a, or runs over the boundary and then b starts with one of its symbols *)
Lemma starts_with_cases p : forall a b, starts_with p (a ++ b) = true ->
  starts_with p a = true \/ exists x b', b = x :: b' /\ In x p.
Proof.
  induction p as [|x r IH]; intros a b H; [left; reflexivity|].
  destruct a as [|y a'].
  - right. cbn [app] in H. destruct b as [|z b']; cbn in H; [discriminate|].
    apply andb_true_iff in H as [H1 _]. apply N.eqb_eq in H1. subst z. exists x, b'. split; [reflexivity|left; reflexivity].
  - cbn in H. apply andb_true_iff in H as [H1 H2]. destruct (IH _ _ H2) as [L|[z [b' [-> Hin]]]].
    + left. cbn. rewrite H1, L. reflexivity.
    + right. exists z, b'. split; [reflexivity|right; exact Hin].
Qed.

Lemma contains_prefix x w : forall t, starts_with (x ++ w) t = true -> contains w t = true.
Proof.
  induction x as [|a r IH]; intros t H.
  - cbn [app] in H. destruct t; cbn [contains]; rewrite H; reflexivity.
  - destruct t as [|b t']; cbn in H; [discriminate|]. apply andb_true_iff in H as [_ H].
    cbn [contains]. rewrite (IH _ H). apply orb_true_r.
Qed.

Lemma contains_app_false w a b : contains w (a ++ b) = false -> contains w a = false /\ contains w b = false.
Proof.
  intro H. split.
  - destruct (contains w a) eqn:E; [|reflexivity]. rewrite <- H. symmetry.
    clear H. induction a as [|x r IH]; cbn [contains app] in *.
    + destruct w; cbn in E; [|discriminate]. destruct b; reflexivity.
    + apply orb_true_iff in E as [E|E];
        [pose proof (starts_with_ext _ _ b E) as E'; cbn [app] in E'; rewrite E'; reflexivity|].
      rewrite (IH E). apply orb_true_r.
  - destruct (contains w b) eqn:E; [|reflexivity]. rewrite <- H. symmetry.
    clear H. induction a as [|x r IH]; cbn [contains app]; [exact E|]. rewrite IH. apply orb_true_r.
Qed.

Lemma clean_tail c t : clean (c :: t) -> clean t.
Proof. unfold clean. cbn [contains]. intro H. apply orb_false_iff in H. tauto. Qed.

(* ================================================================================================ *)
(* the marker matcher and the scan                                                                   *)
(* ================================================================================================ *)
Lemma match_marker_prefix s d n : match_marker s = Some (d, n) ->
  exists w, forallb is_space w = true /\ starts_with (marker_open ++ w ++ marker_word) s = true.
Proof.
  unfold match_marker. destruct (strip_prefix marker_open s) as [s1|] eqn:E1; [|discriminate].
  destruct (span is_space s1) as [w1 s2] eqn:E2. destruct (nonempty w1); cbn [negb]; [|discriminate].
  destruct (strip_prefix marker_word s2) as [s3|] eqn:E3; [|discriminate]. intros _.
  apply strip_prefix_some in E1, E3. apply span_spec in E2 as [-> Hw]. subst. exists w1. split; [exact Hw|].
  rewrite !app_assoc. apply starts_with_app_l.
Qed.

Lemma match_marker_emit d rest : d <> [] -> forallb is_data d = true ->
  match_marker (emit_raw d ++ rest) = Some (d, length (emit_raw d)).
Proof.
  intros Hne Hd. destruct d as [|c d']; [contradiction|].
  assert (Hc : is_space c = false).
  { cbn [forallb] in Hd. apply andb_true_iff in Hd as [Hc _]. unfold is_data in Hc.
    apply andb_true_iff in Hc as [Hc _]. apply negb_true_iff in Hc. exact Hc. }
  unfold match_marker, emit_raw. rewrite <- !app_assoc. rewrite strip_prefix_app.
  rewrite (span_app is_space [32]) by reflexivity. cbn [nonempty negb].
  rewrite strip_prefix_app.
  rewrite (span_app is_space [32]) by (try reflexivity; exact Hc). cbn [nonempty negb].
  rewrite (span_app is_data (c :: d')) by (try reflexivity; exact Hd). cbn [nonempty negb].
  rewrite (span_app is_space [32]) by reflexivity. cbn [nonempty negb].
  rewrite strip_prefix_app. rewrite !app_length. cbn [length].
  change (length marker_open) with 4%nat. change (length marker_word) with 9%nat. change (length marker_close) with 3%nat.
  f_equal. f_equal. lia.
Qed.

Section ScanFacts.
  Context {A : Type} (m : str -> option (A * nat)).

  Lemma scan_skip a rest : scan m (a ++ rest) (length a) = scan m rest 0.
  Proof. induction a as [|c r IH]; cbn [app length]; [reflexivity|]. cbn [scan]. exact IH. Qed.

  Lemma scan_hit a rest x : a <> [] -> m (a ++ rest) = Some (x, length a) ->
    scan m (a ++ rest) 0 = Hit x :: scan m rest 0.
  Proof.
    intros Ha H. destruct a as [|c r]; [contradiction|]. cbn [app] in *. cbn [scan]. rewrite H. cbn [length pred].
    rewrite scan_skip. reflexivity.
  Qed.

  (* text in which no match starts is copied *)
  Lemma scan_text t rest : (forall a b, t = a ++ b -> b <> [] -> m (b ++ rest) = None) ->
    scan m (t ++ rest) 0 = map Ch t ++ scan m rest 0.
  Proof.
    induction t as [|c r IH]; intro H; cbn [app map]; [reflexivity|].
    cbn [scan]. assert (H0 : m ((c :: r) ++ rest) = None) by (apply (H [] (c :: r) eq_refl); discriminate).
    cbn [app] in H0. rewrite H0. f_equal. apply IH.
    intros a b -> Hb. apply (H (c :: a) b); [reflexivity|exact Hb].
  Qed.
End ScanFacts.

Lemma hits_app {A} (a b : list (item A)) : hits (a ++ b) = hits a ++ hits b.
Proof. induction a as [|[x|c] r IH]; cbn; rewrite ?IH; reflexivity. Qed.
Lemma chars_app {A} (a b : list (item A)) : chars (a ++ b) = chars a ++ chars b.
Proof. induction a as [|[x|c] r IH]; cbn; rewrite ?IH; reflexivity. Qed.
Lemma hits_text {A} t : hits (map (@Ch A) t) = [].
Proof. induction t; cbn; [reflexivity|assumption]. Qed.
Lemma chars_text {A} t : chars (map (@Ch A) t) = t.
Proof. induction t; cbn; [reflexivity|]. f_equal. assumption. Qed.

(* no marker match starts inside clean text that is followed by nothing or by a "<" *)
Lemma no_match_in_clean b rest : clean b -> b <> [] -> (rest = [] \/ exists r', rest = 60 :: r') ->
  match_marker (b ++ rest) = None.
Proof.
  intros Hc Hb Hr. destruct (match_marker (b ++ rest)) as [[d n]|] eqn:E; [|reflexivity]. exfalso.
  apply match_marker_prefix in E as [w [Hw Hs]].
  destruct b as [|c b']; [contradiction|]. cbn [app] in Hs.
  change (marker_open ++ w ++ marker_word) with (60 :: (33 :: 45 :: 45 :: w) ++ marker_word) in Hs.
  cbn [starts_with] in Hs. apply andb_true_iff in Hs as [_ Hs].
  destruct (starts_with_cases _ _ _ Hs) as [L|[x [r' [Hx Hin]]]].
  - apply contains_prefix in L. apply clean_tail in Hc. unfold clean in Hc. rewrite L in Hc. discriminate.
  - destruct Hr as [->|[r'' ->]]; [discriminate|]. inversion Hx; subst x r''.
    rewrite in_app_iff in Hin. destruct Hin as [Hin|Hin].
    + cbn [In] in Hin. destruct Hin as [Hin|[Hin|[Hin|Hin]]]; try discriminate.
      rewrite forallb_forall in Hw. specialize (Hw _ Hin). discriminate.
    + cbn in Hin. repeat (destruct Hin as [Hin|Hin]; [discriminate|]). destruct Hin.
Qed.

Lemma scan_clean_text t rest : clean t -> (rest = [] \/ exists r', rest = 60 :: r') ->
  scan match_marker (t ++ rest) 0 = map Ch t ++ scan match_marker rest 0.
Proof.
  intros Hc Hr. apply scan_text. intros a b -> Hb. apply no_match_in_clean; [|exact Hb|exact Hr].
  unfold clean in *. apply contains_app_false in Hc. tauto.
Qed.

(* markers are not mistaken for text: clean text, stripped once, stays as it is *)
Lemma strip_clean s : clean s -> strip_markers s = ([], s).
Proof.
  intro H. unfold strip_markers. rewrite <- (app_nil_r s) at 1 2.
  rewrite (scan_clean_text s [] H (or_introl eq_refl)). cbn [scan]. rewrite app_nil_r, hits_text, chars_text. reflexivity.
Qed.

(* ================================================================================================ *)
(* emit -> harvest round trip                                                                        *)
(* ================================================================================================ *)
Notation nocomma := (fun b : N => negb (b =? 44)).

Lemma split_on_app a r : forallb nocomma a = true -> split_on 44 (a ++ 44 :: r) = a :: split_on 44 r.
Proof.
  induction a as [|x a' IH]; intro H; cbn [app split_on].
  - rewrite N.eqb_refl. reflexivity.
  - cbn [forallb] in H. apply andb_true_iff in H as [H1 H2]. apply negb_true_iff in H1. rewrite H1, (IH H2). reflexivity.
Qed.

Lemma split_on_last a : forallb nocomma a = true -> split_on 44 a = [a].
Proof.
  induction a as [|x a' IH]; intro H; cbn [split_on]; [reflexivity|].
  cbn [forallb] in H. apply andb_true_iff in H as [H1 H2]. apply negb_true_iff in H1. rewrite H1, (IH H2). reflexivity.
Qed.

Lemma hex_to_end_hex s : forallb is_hex s = true -> hex_to_end s = Some s.
Proof.
  induction s as [|x r IH]; intro H; cbn [hex_to_end]; [reflexivity|].
  cbn [forallb] in H. apply andb_true_iff in H as [H1 H2]. rewrite H1, (IH H2). reflexivity.
Qed.

Lemma hashb_all_nocomma s : forallb is_hashb s = true -> forallb nocomma s = true.
Proof. apply forallb_impl. intros x Hx. rewrite (hashb_nocomma x Hx). reflexivity. Qed.
Lemma word_all_hashb s : forallb is_word s = true -> forallb is_hashb s = true.
Proof. apply forallb_impl. exact word_hashb. Qed.
Lemma hex_all_word s : forallb is_hex s = true -> forallb is_word s = true.
Proof. apply forallb_impl. exact hex_word. Qed.

Lemma parse_emit p : wf_part p -> parse_part (emit_data p) = Some p.
Proof.
  destruct p as [[[h id] js] css]. intros [Hh [Hh2 [Hi [Hi2 [Hj Hc]]]]].
  unfold parse_part, emit_data. cbn [app].
  rewrite (split_on_app h) by (apply hashb_all_nocomma; exact Hh2).
  rewrite (split_on_app id) by (apply hashb_all_nocomma, word_all_hashb; exact Hi2).
  rewrite (split_on_app js) by (apply hashb_all_nocomma, word_all_hashb, hex_all_word; exact Hj).
  rewrite (split_on_last css) by (apply hashb_all_nocomma, word_all_hashb, hex_all_word; exact Hc).
  rewrite Hh2, Hi2, Hj, (hex_to_end_hex css Hc).
  destruct h; [contradiction|]. destruct id; [contradiction|]. reflexivity.
Qed.

Lemma emit_data_ok p : wf_part p -> emit_data p <> [] /\ forallb is_data (emit_data p) = true.
Proof.
  destruct p as [[[h id] js] css]. intros [Hh [Hh2 [Hi [Hi2 [Hj Hc]]]]]. unfold emit_data. split.
  - destruct h; [contradiction|discriminate].
  - rewrite !forallb_app. cbn [forallb].
    rewrite (forallb_impl _ _ h hashb_data Hh2).
    rewrite (forallb_impl _ _ id hashb_data (word_all_hashb _ Hi2)).
    rewrite (forallb_impl _ _ js hashb_data (word_all_hashb _ (hex_all_word _ Hj))).
    rewrite (forallb_impl _ _ css hashb_data (word_all_hashb _ (hex_all_word _ Hc))). reflexivity.
Qed.

Lemma scan_doc d : forall tail,
  Forall (fun tp : str * (str * str * str * str) => clean (fst tp) /\ wf_part (snd tp)) d -> clean tail ->
  scan match_marker (doc_bytes d tail) 0 =
  flat_map (fun tp : str * (str * str * str * str) => map Ch (fst tp) ++ [Hit (emit_data (snd tp))]) d ++ map Ch tail.
Proof.
  induction d as [|[t p] r IH]; intros tail Hd Ht; cbn [doc_bytes flat_map app].
  - rewrite <- (app_nil_r tail) at 1. rewrite (scan_clean_text tail [] Ht (or_introl eq_refl)). cbn [scan].
    apply app_nil_r.
  - inversion Hd as [|? ? [Hc Hw] Hr]; subst. cbn [fst snd] in *.
    rewrite scan_clean_text; [|exact Hc|right; unfold emit, emit_raw; eexists; reflexivity].
    destruct (emit_data_ok p Hw) as [Hne Hdat].
    unfold emit. rewrite (scan_hit match_marker (emit_raw (emit_data p)) (doc_bytes r tail) (emit_data p)).
    + rewrite (IH tail Hr Ht), <- !app_assoc. reflexivity.
    + unfold emit_raw. discriminate.
    + apply match_marker_emit; assumption.
Qed.

Lemma clean_doc_pieces d : forall tail, clean (doc_text d tail) ->
  Forall (fun tp : str * (str * str * str * str) => clean (fst tp)) d /\ clean tail.
Proof.
  unfold doc_text. induction d as [|[t p] r IH]; intros tail H; cbn [map concat fst app] in *.
  - split; [constructor|exact H].
  - rewrite <- app_assoc in H. apply contains_app_false in H as [H1 H2].
    destruct (IH tail H2) as [F T]. split; [constructor; [exact H1|exact F]|exact T].
Qed.

(* harvest (emit document) = the parts that were emitted, in order, and the text without them *)
Lemma harvest_emit_lemma d tail :
  clean (doc_text d tail) -> Forall wf_part (doc_parts d) ->
  strip_markers (doc_bytes d tail) = (map emit_data (doc_parts d), doc_text d tail) /\
  parse_parts (map emit_data (doc_parts d)) = Ok (doc_parts d).
Proof.
  intros Hc Hw. destruct (clean_doc_pieces d tail Hc) as [Hcs Ht].
  assert (Hd : Forall (fun tp : str * (str * str * str * str) => clean (fst tp) /\ wf_part (snd tp)) d).
  { unfold doc_parts in Hw. rewrite Forall_map in Hw. rewrite Forall_forall in *. intros x Hx. split; auto. }
  split.
  - unfold strip_markers. rewrite (scan_doc d tail Hd Ht). rewrite hits_app, chars_app, hits_text, chars_text.
    unfold doc_parts, doc_text. rewrite app_nil_r. clear. f_equal.
    + induction d as [|[t p] r IH]; cbn [flat_map map snd]; [reflexivity|].
      rewrite !hits_app, hits_text. cbn [hits app]. f_equal. exact IH.
    + f_equal. induction d as [|[t p] r IH]; cbn [flat_map map fst concat]; [reflexivity|].
      rewrite !chars_app, chars_text. cbn [chars app]. rewrite app_nil_r. f_equal. exact IH.
  - clear Hc Hcs Ht Hd. induction (doc_parts d) as [|p r IH]; cbn [map parse_parts]; [reflexivity|].
    inversion Hw; subst. rewrite (parse_emit p) by assumption. rewrite IH by assumption. reflexivity.
Qed.

(* ... so _process_dep_declarations on the document sees exactly the rendered instances *)
Lemma process_doc_lemma tbl t d tail :
  clean (doc_text d tail) -> Forall wf_part (doc_parts d) ->
  process tbl t (doc_bytes d tail) = rbind (process_parts tbl t (doc_parts d)) (fun x => Ok (doc_text d tail, x)).
Proof.
  intros Hc Hw. unfold process. destruct (harvest_emit_lemma d tail Hc Hw) as [-> ->]. reflexivity.
Qed.

(* no marker is left behind (and a second pass would find nothing) *)
Lemma no_marker_survives_lemma tbl t d tail c x :
  clean (doc_text d tail) -> Forall wf_part (doc_parts d) ->
  process tbl t (doc_bytes d tail) = Ok (c, x) ->
  c = doc_text d tail /\ strip_markers c = ([], c) /\ contains marker_word c = false.
Proof.
  intros Hc Hw H. rewrite (process_doc_lemma tbl t d tail Hc Hw) in H.
  apply rbind_ok in H as [x' [_ H]]. inversion H; subst. split; [reflexivity|]. split; [apply strip_clean; exact Hc|exact Hc].
Qed.

(* ================================================================================================ *)
(* PLACEHOLDER_REGEX                                                                                 *)
(* ================================================================================================ *)
Lemma starts_with_prefix a : forall b t, starts_with (a ++ b) t = true -> starts_with a t = true.
Proof.
  induction a as [|x r IH]; intros b t H; [reflexivity|].
  destruct t as [|y t']; cbn in *; [discriminate|]. apply andb_true_iff in H as [H1 H2]. rewrite H1, (IH _ _ H2). reflexivity.
Qed.

Lemma strip_prefix_starts p s r : strip_prefix p s = Some r -> starts_with p s = true.
Proof. intro H. apply strip_prefix_some in H. subst. apply starts_with_app_l. Qed.

Lemma match_placeholder_prefix s x : match_placeholder s = Some x ->
  starts_with css_ph_open s = true \/ starts_with js_ph_open s = true.
Proof.
  unfold match_placeholder. destruct (strip_prefix css_ph_open s) eqn:E1.
  - intros _. left. eapply strip_prefix_starts. exact E1.
  - destruct (strip_prefix js_ph_open s) eqn:E2; [|discriminate]. intros _. right. eapply strip_prefix_starts. exact E2.
Qed.

Lemma ph_clean_tail c t : ph_clean (c :: t) -> ph_clean t.
Proof. unfold ph_clean. cbn [contains]. intro H. apply orb_false_iff in H. tauto. Qed.

Lemma no_ph_in_clean b rest : ph_clean b -> b <> [] -> (rest = [] \/ exists r', rest = 60 :: r') ->
  match_placeholder (b ++ rest) = None.
Proof.
  intros Hc Hb Hr. destruct (match_placeholder (b ++ rest)) as [x|] eqn:E; [|reflexivity]. exfalso.
  destruct b as [|c b']; [contradiction|]. apply ph_clean_tail in Hc. unfold ph_clean in Hc.
  assert (G : forall x y, ~ In 60 (x ++ ph_word ++ y) -> starts_with (60 :: x ++ ph_word ++ y) ((c :: b') ++ rest) = true -> False).
  { intros x0 y Hn Hs. cbn [app starts_with] in Hs. apply andb_true_iff in Hs as [_ Hs].
    destruct (starts_with_cases _ _ _ Hs) as [L|[z [r' [Hz Hin]]]].
    - rewrite app_assoc in L. apply starts_with_prefix in L. apply contains_prefix in L. rewrite L in Hc. discriminate.
    - destruct Hr as [->|[r'' ->]]; [discriminate|]. inversion Hz; subst. contradiction. }
  apply match_placeholder_prefix in E as [E|E].
  - apply (G (s2n "link name=""CSS"%string) [34]); [|exact E].
    cbn. intro H. repeat (destruct H as [H|H]; [discriminate|]). exact H.
  - apply (G (s2n "script name=""JS"%string) [34]); [|exact E].
    cbn. intro H. repeat (destruct H as [H|H]; [discriminate|]). exact H.
Qed.

Lemma strip_attr_ok pre id r : is_word6 id = true -> strip_attr pre (pre ++ id ++ attr_end ++ r) = Some r.
Proof.
  intro H. unfold strip_attr. rewrite strip_prefix_app.
  destruct id as [|a [|b [|c [|d [|e [|f [|g ?]]]]]]]; try discriminate. cbn [app]. cbn [is_word6] in H. rewrite H.
  apply strip_prefix_app.
Qed.

Notation attrs_ok attrs := (forallb (fun a : bool * str => is_word6 (snd a)) attrs = true).

Lemma word6_length id : is_word6 id = true -> length id = 6%nat.
Proof. destruct id as [|a [|b [|c [|d [|e [|f [|g ?]]]]]]]; try discriminate. reflexivity. Qed.

Lemma attr_bytes_length a : is_word6 (snd a) = true ->
  length (attr_bytes a) = (if fst a then attr_css_len else attr_len).
Proof.
  destruct a as [[|] v]; cbn [fst snd attr_bytes]; intro H; unfold css_attr, id_attr;
    rewrite !app_length, (word6_length v H); reflexivity.
Qed.

Lemma id_not_css v x : strip_attr attr_id (css_attr v ++ x) = None.
Proof. reflexivity. Qed.
Lemma css_not_id v x : strip_attr attr_css (id_attr v ++ x) = None.
Proof. reflexivity. Qed.

(* pattern "(?: data-djc-(?:id|css)-\w{6}="")*": every attribute of the list is consumed, whatever the order *)
Lemma strip_any_ok attrs : forall fuel r, (length attrs <= fuel)%nat -> attrs_ok attrs ->
  strip_attr attr_id r = None -> strip_attr attr_css r = None ->
  strip_any fuel (flat_map attr_bytes attrs ++ r) = (r, length (flat_map attr_bytes attrs)).
Proof.
  induction attrs as [|[b v] attrs' IH]; intros fuel r Hf Hw Hr Hr2; cbn [flat_map app length].
  - destruct fuel; cbn [strip_any]; [reflexivity|]. rewrite Hr, Hr2. reflexivity.
  - destruct fuel as [|f]; [cbn in Hf; lia|]. cbn [strip_any]. cbn [forallb snd] in Hw. apply andb_true_iff in Hw as [H1 H2].
    rewrite app_length, (attr_bytes_length (b, v) H1). cbn [fst]. rewrite <- app_assoc. destruct b; cbn [attr_bytes fst snd].
    + rewrite id_not_css. unfold css_attr. rewrite <- !app_assoc. rewrite (strip_attr_ok attr_css v _ H1).
      rewrite IH; [reflexivity|cbn in Hf; lia|exact H2|exact Hr|exact Hr2].
    + unfold id_attr. rewrite <- !app_assoc. rewrite (strip_attr_ok attr_id v _ H1).
      rewrite IH; [reflexivity|cbn in Hf; lia|exact H2|exact Hr|exact Hr2].
Qed.

Lemma attrs_length_le (attrs : list (bool * str)) r : (length attrs <= length (flat_map attr_bytes attrs ++ r))%nat.
Proof.
  rewrite app_length. induction attrs as [|[b v] attrs' IH]; cbn [flat_map length]; [lia|].
  rewrite app_length. assert (1 <= length (attr_bytes (b, v)))%nat; [|lia].
  destruct b; cbn [attr_bytes fst snd]; unfold css_attr, id_attr; rewrite !app_length; cbn; lia.
Qed.

(* the attribute part of an emitted placeholder is consumed entirely *)
Lemma ph_attrs_emit attrs r :
  attrs_ok attrs -> strip_attr attr_id r = None -> strip_attr attr_css r = None ->
  ph_attrs (flat_map attr_bytes attrs ++ r) = (r, length (flat_map attr_bytes attrs)).
Proof.
  intros Hw Hr Hr2. unfold ph_attrs. apply strip_any_ok; [apply attrs_length_le|exact Hw|exact Hr|exact Hr2].
Qed.

Lemma match_placeholder_emit k attrs slash post :
  attrs_ok attrs ->
  match_placeholder (emit_placeholder k attrs slash ++ post) = Some (k, length (emit_placeholder k attrs slash)).
Proof.
  intros Hw. unfold match_placeholder, emit_placeholder. destruct k.
  - assert (N : forall x, strip_prefix css_ph_open (js_ph_open ++ x) = None) by reflexivity.
    rewrite <- !app_assoc. rewrite N, strip_prefix_app.
    rewrite (ph_attrs_emit attrs (js_ph_close ++ post) Hw) by reflexivity.
    rewrite strip_prefix_app. rewrite !app_length. repeat f_equal; try lia.
  - rewrite <- !app_assoc. rewrite strip_prefix_app. destruct slash; cbn [app].
    + rewrite (ph_attrs_emit attrs (47 :: 62 :: post) Hw) by reflexivity.
      rewrite !app_length. cbn [length]. repeat f_equal; try lia.
    + rewrite (ph_attrs_emit attrs (62 :: post) Hw) by reflexivity.
      rewrite !app_length. cbn [length]. repeat f_equal; try lia.
Qed.

Lemma scan_ph_text t rest : ph_clean t -> (rest = [] \/ exists r', rest = 60 :: r') ->
  scan match_placeholder (t ++ rest) 0 = map Ch t ++ scan match_placeholder rest 0.
Proof.
  intros Hc Hr. apply scan_text. intros a b -> Hb. apply no_ph_in_clean; [|exact Hb|exact Hr].
  unfold ph_clean in *. apply contains_app_false in Hc. tauto.
Qed.
