(* Model of the JS/CSS dependency pipeline of django_components/dependencies.py (property C04).

   Strings are BYTE strings (list N, values < 256): render_dependencies encodes the HTML to UTF-8 and
   runs COMPONENT_COMMENT_REGEX / SCRIPT_NAME_REGEX / PLACEHOLDER_REGEX in bytes mode, where \s is
   [ \t\n\r\f\v] and \w is [A-Za-z0-9_].

   M-model (mechanism), function by function:
     emit               insert_component_dependencies_comment + COMPONENT_DEPS_COMMENT
     match_marker       COMPONENT_COMMENT_REGEX       (hand matcher, anchored to the pattern string)
     parse_part         SCRIPT_NAME_REGEX             (hand matcher, anchored)
     match_placeholder  PLACEHOLDER_REGEX             (hand matcher, anchored)
     scan               re.sub / finditer: leftmost, non-overlapping, single pass
     dedupe_loop        the `seen` set + ordered list loops (class hashes; tags by URL)
     prepare            _prepare_tags_and_urls
     process            _process_dep_declarations     (tags are structured tokens, JSON/base64 abstracted)
     render_deps        render_dependencies           (placeholder substitution, default locations, fragment)
   S-model (specification): first_by / first_occ = "first appearance order, once".
   Definitions only; proofs are in Deps/Proofs.v. *)
From DJC Require Import Lib.Base.
Import Coq.Strings.String.StringSyntax.
Local Delimit Scope string_scope with string.
Local Open Scope N_scope.

(* ---------------------------------------------------------------------------------------- *)
(* byte classes (bytes-mode regex classes)                                                   *)
(* ---------------------------------------------------------------------------------------- *)
Definition is_space (b : N) : bool := (b =? 32) || ((9 <=? b) && (b <=? 13)).
Definition is_digit (b : N) : bool := (48 <=? b) && (b <=? 57).
Definition is_word (b : N) : bool :=
  is_digit b || ((65 <=? b) && (b <=? 90)) || ((97 <=? b) && (b <=? 122)) || (b =? 95).
Definition is_hex (b : N) : bool := is_digit b || ((97 <=? b) && (b <=? 102)).
(* [^\s>] *)
Definition is_data (b : N) : bool := negb (is_space b) && negb (b =? 62).
(* [^\s,>] *)
Definition is_hashb (b : N) : bool := is_data b && negb (b =? 44).

(* ---------------------------------------------------------------------------------------- *)
(* UTF-8 (str.encode()) - what turns an arbitrary Python class name into marker bytes        *)
(* ---------------------------------------------------------------------------------------- *)
Definition utf8_cp (c : N) : list N :=
  if c <? 128 then [c]
  else if c <? 2048 then [192 + c / 64; 128 + c mod 64]
  else if c <? 65536 then [224 + c / 4096; 128 + (c / 64) mod 64; 128 + c mod 64]
  else [240 + c / 262144; 128 + (c / 4096) mod 64; 128 + (c / 64) mod 64; 128 + c mod 64].
Definition utf8 (s : str) : str := flat_map utf8_cp s.

(* A code point that may occur in a Python identifier: ASCII ones are [A-Za-z0-9_]; every non-ASCII
   code point is allowed here (a superset of XID_Continue - the theorem only gets stronger). *)
Definition ident_cp (c : N) : bool := is_word c || (128 <=? c).

(* util/misc.py hash_comp_cls: name + "_" + md5(import path)[0:6]; the digest is any 6 hex digits *)
Definition class_hash (name digest : str) : str := utf8 name ++ [95] ++ digest.

(* ---------------------------------------------------------------------------------------- *)
(* small string machinery                                                                    *)
(* ---------------------------------------------------------------------------------------- *)
Fixpoint span (p : N -> bool) (s : str) : str * str :=
  match s with
  | [] => ([], [])
  | c :: r => if p c then let '(a, b) := span p r in (c :: a, b) else ([], s)
  end.

Fixpoint strip_prefix (p s : str) : option str :=
  match p, s with
  | [], _ => Some s
  | x :: p', y :: s' => if x =? y then strip_prefix p' s' else None
  | _ :: _, [] => None
  end.

Definition nonempty {A} (l : list A) : bool := match l with [] => false | _ => true end.

(* Python's str.split(c) *)
Fixpoint split_on (c : N) (s : str) : list str :=
  match s with
  | [] => [[]]
  | x :: r => if x =? c then [] :: split_on c r
              else match split_on c r with
                   | h :: t => (x :: h) :: t
                   | [] => [[x]]
                   end
  end.

(* ---------------------------------------------------------------------------------------- *)
(* emit                                                                                      *)
(* ---------------------------------------------------------------------------------------- *)
Definition marker_open : str := s2n "<!--"%string.
Definition marker_word : str := s2n "_RENDERED"%string.
Definition marker_close : str := s2n "-->"%string.

(* (class hash, render id, js input hash or "", css input hash or "") *)
Notation part := (str * str * str * str)%type (only parsing).
Definition p_hash (p : part) : str := fst (fst (fst p)).

Definition emit_data (p : part) : str :=
  let '(h, id, js, css) := p in h ++ [44] ++ id ++ [44] ++ js ++ [44] ++ css.
(* COMPONENT_DEPS_COMMENT.format(data=...) *)
Definition emit_raw (d : str) : str := marker_open ++ [32] ++ marker_word ++ [32] ++ d ++ [32] ++ marker_close.
Definition emit (p : part) : str := emit_raw (emit_data p).

(* a rendered document before render_dependencies: text, marker, text, marker, ..., text *)
Fixpoint doc_bytes (d : list (str * part)) (tail : str) : str :=
  match d with
  | [] => tail
  | (t, p) :: r => t ++ emit p ++ doc_bytes r tail
  end.
Definition doc_text (d : list (str * part)) (tail : str) : str := concat (map fst d) ++ tail.
Definition doc_parts (d : list (str * part)) : list part := map snd d.

(* text that cannot be mistaken for a marker *)
Definition clean (s : str) : Prop := contains marker_word s = false.

(* what insert_component_dependencies_comment can be given: a class hash, a render id, input hashes *)
Definition wf_part (p : part) : Prop :=
  let '(h, id, js, css) := p in
  h <> [] /\ forallb is_hashb h = true /\ id <> [] /\ forallb is_word id = true /\
  forallb is_hex js = true /\ forallb is_hex css = true.

(* ---------------------------------------------------------------------------------------- *)
(* harvest: COMPONENT_COMMENT_REGEX  <!--\s+_RENDERED\s+(?P<data>[^\s>]+?)\s+-->            *)
(* ---------------------------------------------------------------------------------------- *)
(* result: the data group and the number of bytes matched.  Every quantifier of the pattern is
   followed by a byte outside its class, so backtracking never finds a second way to match. *)
Definition match_marker (s : str) : option (str * nat) :=
  match strip_prefix marker_open s with None => None | Some s1 =>
  let '(w1, s2) := span is_space s1 in
  if negb (nonempty w1) then None else
  match strip_prefix marker_word s2 with None => None | Some s3 =>
  let '(w2, s4) := span is_space s3 in
  if negb (nonempty w2) then None else
  let '(d, s5) := span is_data s4 in
  if negb (nonempty d) then None else
  let '(w3, s6) := span is_space s5 in
  if negb (nonempty w3) then None else
  match strip_prefix marker_close s6 with None => None | Some _ =>
  Some (d, (4 + length w1 + 9 + length w2 + length d + length w3 + 3)%nat)
  end end end.

(* re.sub / re.finditer with a matcher that never matches the empty string: leftmost match, then
   continue after it.  `skip` = bytes of the current match still to be consumed. *)
Inductive item (A : Type) := Hit (a : A) | Ch (c : N).
Arguments Hit {A} a.
Arguments Ch {A} c.

Section Scan.
  Context {A : Type} (m : str -> option (A * nat)).
  Fixpoint scan (s : str) (skip : nat) : list (item A) :=
    match s with
    | [] => []
    | c :: r =>
        match skip with
        | S k => scan r k
        | O => match m s with
               | Some (a, n) => Hit a :: scan r (pred n)
               | None => Ch c :: scan r 0
               end
        end
    end.
End Scan.

Fixpoint hits {A} (l : list (item A)) : list A :=
  match l with [] => [] | Hit a :: r => a :: hits r | Ch _ :: r => hits r end.
Fixpoint chars {A} (l : list (item A)) : str :=
  match l with [] => [] | Hit _ :: r => chars r | Ch c :: r => c :: chars r end.

(* COMPONENT_COMMENT_REGEX.sub(on_replace_match, content): (all_parts, content without markers) *)
Definition strip_markers (s : str) : list str * str :=
  let l := scan match_marker s 0 in (hits l, chars l).

(* SCRIPT_NAME_REGEX  ^(?P<comp_cls_hash>[^\s,>]+?),(?P<id>[\w]+?),(?P<js>[0-9a-f]*?),(?P<css>[0-9a-f]*?)$
   No class contains a comma, so the split at commas is the only candidate.  `$` also matches before a
   final newline. *)
Fixpoint hex_to_end (s : str) : option str :=
  match s with
  | [] => Some []
  | x :: r => if is_hex x then option_map (cons x) (hex_to_end r)
              else if (x =? 10) && negb (nonempty r) then Some [] else None
  end.

Definition parse_part (s : str) : option part :=
  match split_on 44 s with
  | [h; id; js; css] =>
      if nonempty h && forallb is_hashb h && nonempty id && forallb is_word id && forallb is_hex js
      then match hex_to_end css with Some css' => Some (h, id, js, css') | None => None end
      else None
  | _ => None
  end.

Inductive res (A : Type) :=
| Ok (a : A)
| ErrMalformed                 (* RuntimeError("Malformed dependencies data") *)
| ErrKeyError (h : str)        (* comp_hash_mapping[comp_cls_hash] *)
| ErrMissingUrl.               (* RuntimeError: Media tag without src / href *)
Arguments Ok {A} a.
Arguments ErrMalformed {A}.
Arguments ErrKeyError {A} h.
Arguments ErrMissingUrl {A}.

Fixpoint parse_parts (l : list str) : res (list part) :=
  match l with
  | [] => Ok []
  | d :: r => match parse_part d with
              | None => ErrMalformed
              | Some p => match parse_parts r with Ok ps => Ok (p :: ps) | e => e end
              end
  end.

(* ---------------------------------------------------------------------------------------- *)
(* "first appearance, once": specification and the loop the code runs                        *)
(* ---------------------------------------------------------------------------------------- *)
Section Dedupe.
  Context {A K : Type} (keq : K -> K -> bool) (key : A -> K).
  Definition kmem (k : K) (l : list K) : bool := existsb (keq k) l.

  (* S: keep an element iff no earlier element has its key *)
  Fixpoint first_by (l : list A) : list A :=
    match l with
    | [] => []
    | x :: r => x :: filter (fun y => negb (keq (key x) (key y))) (first_by r)
    end.

  (* M: `if key in seen: continue; out.append(x); seen.add(key)` *)
  Fixpoint dedupe_loop (l : list A) (seen : list K) (out : list A) : list A :=
    match l with
    | [] => out
    | x :: r => if kmem (key x) seen then dedupe_loop r seen out
                else dedupe_loop r (key x :: seen) (out ++ [x])
    end.
  Definition dedupe (l : list A) : list A := dedupe_loop l [] [].
End Dedupe.

Definition first_occ (l : list str) : list str := first_by str_eqb (fun x => x) l.

(* ---------------------------------------------------------------------------------------- *)
(* classes, URLs, tags                                                                       *)
(* ---------------------------------------------------------------------------------------- *)
Inductive kind := KJs | KCss.
Definition kind_eqb (a b : kind) : bool :=
  match a, b with KJs, KJs => true | KCss, KCss => true | _, _ => false end.

(* UCache = reverse("components_cached_script", hash, kind[, input hash]); UMedia = any other URL text *)
Inductive url := UCache (h : str) (k : kind) (inp : option str) | UMedia (u : str).
Definition url_eqb (a b : url) : bool :=
  match a, b with
  | UCache h k i, UCache h' k' i' => str_eqb h h' && kind_eqb k k' && option_eqb str_eqb i i'
  | UMedia u, UMedia u' => str_eqb u u'
  | _, _ => false
  end.

(* a <script src> / <link href> tag: the URL found by src_pattern / href_pattern (None: no such
   attribute) and the rest of the tag, opaque ("first tag wins") *)
Notation mtag := (option url * str)%type (only parsing).
Definition mtag_eqb (a b : mtag) : bool := pair_eqb (option_eqb url_eqb) str_eqb a b.

(* what the pipeline reads from a component class: Component.js / .css after .strip() (None when
   `is_nonempty_str` is false) and the rendered tags of `comp_cls().media` (inherited Media included
   by component_media.py - that composition is property C16) *)
Record cinfo := { ci_js : option str; ci_css : option str; ci_mjs : list mtag; ci_mcss : list mtag }.
Notation table := (list (str * cinfo))%type (only parsing).

Fixpoint tlookup (h : str) (t : table) : option cinfo :=
  match t with
  | [] => None
  | (h', c) :: r => if str_eqb h h' then Some c else tlookup h r
  end.

Definition ci_inline (k : kind) (c : cinfo) : option str :=
  match k with KJs => ci_js c | KCss => ci_css c end.

Inductive rtype := Document | Fragment.

(* ---------------------------------------------------------------------------------------- *)
(* _process_dep_declarations                                                                 *)
(* ---------------------------------------------------------------------------------------- *)
Notation dentry := (str * kind * option str)%type (only parsing).

Definition opt_hash (s : str) : option str := if nonempty s then Some s else None.

(* the `for part in all_parts` loop: state = (seen, comp_hashes, comp_data, inputs_data) *)
Definition loop_state := (list str * list str * list dentry * list dentry)%type.
Definition loop_step (st : loop_state) (p : part) : loop_state :=
  let '(seen, hashes, cdata, idata) := st in
  let '(h, _, js, css) := p in
  if kmem str_eqb h seen then st
  else (h :: seen, hashes ++ [h],
        cdata ++ [(h, KJs, None); (h, KCss, None)],
        idata ++ (match opt_hash js with Some i => [(h, KJs, Some i)] | None => [] end)
              ++ (match opt_hash css with Some i => [(h, KCss, Some i)] | None => [] end)).
Definition run_loop (ps : list part) : loop_state := fold_left loop_step ps ([], [], [], []).

(* result of _prepare_tags_and_urls, per script type *)
Record prep := { to_load : list url; inlined : list str; loaded : list url }.
Definition prep_nil : prep := {| to_load := []; inlined := []; loaded := [] |}.

(* content of the cached script: the class's js/css for the class entry, "" for a variables entry *)
Definition script_content (body : str) (inp : option str) : str :=
  match inp with None => body | Some _ => [] end.

Fixpoint prepare (tbl : table) (t : rtype) (k : kind) (data : list dentry) : res prep :=
  match data with
  | [] => Ok prep_nil
  | (h, k', inp) :: r =>
      match tlookup h tbl with
      | None => ErrKeyError h
      | Some c =>
          match prepare tbl t k r with
          | Ok p =>
              if kind_eqb k k' then
                match ci_inline k c with
                | None => Ok p
                | Some body =>
                    match t with
                    | Document => Ok {| to_load := to_load p;
                                        inlined := script_content body inp :: inlined p;
                                        loaded := UCache h k inp :: loaded p |}
                    | Fragment => Ok {| to_load := UCache h k inp :: to_load p;
                                        inlined := inlined p; loaded := loaded p |}
                    end
                end
              else Ok p
          | e => e
          end
      end
  end.

Fixpoint class_medias (tbl : table) (k : kind) (hashes : list str) : res (list mtag) :=
  match hashes with
  | [] => Ok []
  | h :: r => match tlookup h tbl with
              | None => ErrKeyError h
              | Some c => match class_medias tbl k r with
                          | Ok l => Ok ((match k with KJs => ci_mjs c | KCss => ci_mcss c end) ++ l)
                          | e => e
                          end
              end
  end.

(* Media(js=[urls]).render_js() / Media(css={"all": [urls]}).render_css(): Django's default tags;
   the rest-of-tag is "" for scripts and the medium for links *)
Definition default_rest (k : kind) : str := match k with KJs => [] | KCss => s2n "all"%string end.
Definition cache_tags (k : kind) (us : list url) : list mtag := map (fun u => (Some u, default_rest k)) us.

(* _postprocess_media_tags: RuntimeError on a tag without URL, else dedupe by URL, first tag wins *)
Definition tag_url_eqb (a b : option url) : bool := option_eqb url_eqb a b.
Definition postprocess (tags : list mtag) : res (list mtag) :=
  if forallb (fun t => match fst t with Some _ => true | None => false end) tags
  then Ok (dedupe tag_url_eqb (fun t : mtag => fst t) tags)
  else ErrMissingUrl.

Definition tag_urls (tags : list mtag) : list url :=
  flat_map (fun t : mtag => match fst t with Some u => [u] | None => [] end) tags.

(* src_pattern / href_pattern of _postprocess_media_tags:  (?<![\w-])src="([^"]+)"  /  (?<![\w-])href="([^"]+)"
   searched in the tag text (str mode: every non-ASCII byte is taken as a word character - exact for letters and
   digits).  First position where the attribute name starts a new attribute and a non-empty, closed value follows. *)
Definition is_attr_word (b : N) : bool := is_word b || (b =? 45) || (128 <=? b).
Definition attr_value (s : str) : option str :=
  let '(v, r) := span (fun c => negb (c =? 34)) s in
  match v, r with
  | _ :: _, 34 :: _ => Some v
  | _, _ => None
  end.
Fixpoint find_attr (name s : str) (prev_ok : bool) : option str :=
  match s with
  | [] => None
  | c :: r =>
      match (if prev_ok then strip_prefix name s else None) with
      | Some rest => match attr_value rest with
                     | Some v => Some v
                     | None => find_attr name r (negb (is_attr_word c))
                     end
      | None => find_attr name r (negb (is_attr_word c))
      end
  end.
Definition url_attr (k : kind) : str := match k with KJs => s2n "src="""%string | KCss => s2n "href="""%string end.
Definition find_url (k : kind) (tag : str) : option str := find_attr (url_attr k) tag true.

(* _gen_exec_script: the JSON record (lists before sorted(); compared up to permutation) *)
Record exec := { x_loaded_css : list url; x_loaded_js : list url;
                 x_toload_css : list mtag; x_toload_js : list mtag }.

Inductive tok :=
| TCore                                   (* <script src=static("django_components/django_components.min.js")> *)
| TExec (e : exec)                        (* <script type="application/json" data-djc>...</script> *)
| TMedia (k : kind) (t : mtag)            (* a <script src> / <link href> tag *)
| TInline (k : kind) (content : str).     (* <script>content</script> / <style>content</style> *)

Record deps := { d_hashes : list str;      (* comp_hashes *)
                 d_js : list tok;          (* final_script_tags *)
                 d_css : list tok }.       (* final_css_tags *)

Definition rbind {A B} (r : res A) (f : A -> res B) : res B :=
  match r with
  | Ok a => f a
  | ErrMalformed => ErrMalformed
  | ErrKeyError h => ErrKeyError h
  | ErrMissingUrl => ErrMissingUrl
  end.

Definition is_doc (t : rtype) : bool := match t with Document => true | Fragment => false end.

(* exec script, final_script_tags, final_css_tags *)
Definition build_deps (t : rtype) (hashes : list str) (ijs icss cjs ccss : prep) (css_tags js_tags : list mtag) : deps :=
  let loaded_css := loaded ccss ++ loaded icss ++ (if is_doc t then tag_urls css_tags else []) in
  let loaded_js := loaded cjs ++ loaded ijs ++ (if is_doc t then tag_urls js_tags else []) in
  let x := {| x_loaded_css := loaded_css; x_loaded_js := loaded_js;
              x_toload_css := if is_doc t then [] else css_tags;
              x_toload_js := if is_doc t then [] else js_tags |} in
  let has_exec := nonempty (x_toload_js x) || nonempty (x_toload_css x)
                  || nonempty loaded_css || nonempty loaded_js in
  {| d_hashes := hashes;
     d_js := (if is_doc t then [TCore] else [])
             ++ (if has_exec then [TExec x] else [])
             ++ (if is_doc t then map (TMedia KJs) js_tags else [])
             ++ map (TInline KJs) (inlined ijs) ++ map (TInline KJs) (inlined cjs);
     d_css := map (TInline KCss) (inlined ccss) ++ map (TInline KCss) (inlined icss)
              ++ map (TMedia KCss) css_tags |}.

Definition process_parts (tbl : table) (t : rtype) (ps : list part) : res deps :=
  let '(_, hashes, cdata, idata) := run_loop ps in
  rbind (prepare tbl t KJs idata) (fun ijs =>
  rbind (prepare tbl t KCss idata) (fun icss =>
  rbind (prepare tbl t KJs cdata) (fun cjs =>
  rbind (prepare tbl t KCss cdata) (fun ccss =>
  rbind (class_medias tbl KCss hashes) (fun mcss =>
  rbind (class_medias tbl KJs hashes) (fun mjs =>
  rbind (postprocess (mcss ++ cache_tags KCss (to_load ccss ++ to_load icss))) (fun css_tags =>
  rbind (postprocess (mjs ++ cache_tags KJs (to_load cjs ++ to_load ijs))) (fun js_tags =>
  Ok (build_deps t hashes ijs icss cjs ccss css_tags js_tags))))))))).

(* _process_dep_declarations(content, type) = (content without markers, js tags, css tags) *)
Definition process (tbl : table) (t : rtype) (content : str) : res (str * deps) :=
  let '(datas, content') := strip_markers content in
  rbind (parse_parts datas) (fun ps =>
  rbind (process_parts tbl t ps) (fun d => Ok (content', d))).

(* specification vocabulary: the classes rendered into a document, in order of first appearance, and
   what one class contributes *)
Definition rendered (ps : list part) : list str := first_occ (map p_hash ps).
Definition class_inline (tbl : table) (k : kind) (h : str) : list str :=
  match tlookup h tbl with
  | Some c => match ci_inline k c with Some b => [b] | None => [] end
  | None => []
  end.
Definition ci_media (k : kind) (c : cinfo) : list mtag := match k with KJs => ci_mjs c | KCss => ci_mcss c end.
Definition no_inputs (ps : list part) : Prop := forall h id js css, In (h, id, js, css) ps -> js = [] /\ css = [].

(* observations the theorems speak about *)
Definition inline_of (k : kind) (l : list tok) : list str :=
  flat_map (fun t => match t with TInline k' c => if kind_eqb k k' then [c] else [] | _ => [] end) l.
Definition media_of (k : kind) (l : list tok) : list mtag :=
  flat_map (fun t => match t with TMedia k' m => if kind_eqb k k' then [m] else [] | _ => [] end) l.
Definition exec_of (l : list tok) : option exec :=
  hd_error (flat_map (fun t => match t with TExec e => [e] | _ => [] end) l).
Definition empty_exec : exec := {| x_loaded_css := []; x_loaded_js := []; x_toload_css := []; x_toload_js := [] |}.
(* what the output tells the client-side loader (no loader script = nothing declared) *)
Definition declared (l : list tok) : exec := match exec_of l with Some x => x | None => empty_exec end.

(* ---------------------------------------------------------------------------------------- *)
(* PLACEHOLDER_REGEX (after fix be574c3: id and css attributes in any order)                  *)
(*  <link name="CSS_PLACEHOLDER"(?: data-djc-(?:id|css)-\w{6}="")*/?>                         *)
(* |<script name="JS_PLACEHOLDER"(?: data-djc-(?:id|css)-\w{6}="")*></script>                 *)
(* ---------------------------------------------------------------------------------------- *)
Definition css_ph_open : str := s2n "<link name=""CSS_PLACEHOLDER"""%string.
Definition js_ph_open : str := s2n "<script name=""JS_PLACEHOLDER"""%string.
Definition js_ph_close : str := s2n "></script>"%string.
Definition attr_css : str := s2n " data-djc-css-"%string.
Definition attr_id : str := s2n " data-djc-id-"%string.
Definition attr_end : str := s2n "="""""%string.

(* one ` data-djc-XX-\w{6}=""` attribute: the rest after it *)
Definition strip_attr (pre s : str) : option str :=
  match strip_prefix pre s with
  | Some (a :: b :: c :: d :: e :: f :: r) =>
      if is_word a && is_word b && is_word c && is_word d && is_word e && is_word f
      then strip_prefix attr_end r else None
  | _ => None
  end.

Definition attr_len : nat := 22.   (* length " data-djc-id-" + 6 + 3 *)
Definition attr_css_len : nat := 23.

(* (?: data-djc-(?:id|css)-\w{6}="")* greedy: the rest and the number of bytes matched.  fuel >= length s suffices. *)
Fixpoint strip_any (fuel : nat) (s : str) : str * nat :=
  match fuel with
  | O => (s, O)
  | S f => match strip_attr attr_id s with
           | Some r => let '(r', n) := strip_any f r in (r', (attr_len + n)%nat)
           | None => match strip_attr attr_css s with
                     | Some r => let '(r', n) := strip_any f r in (r', (attr_css_len + n)%nat)
                     | None => (s, O)
                     end
           end
  end.

(* the attribute part: the rest and the number of bytes matched *)
Definition ph_attrs (s1 : str) : str * nat := strip_any (length s1) s1.

Definition match_placeholder (s : str) : option (kind * nat) :=
  match strip_prefix css_ph_open s with
  | Some s1 =>
      let '(s3, n) := ph_attrs s1 in
      match s3 with
      | 47 :: 62 :: _ => Some (KCss, (length css_ph_open + n + 2)%nat)
      | 62 :: _ => Some (KCss, (length css_ph_open + n + 1)%nat)
      | _ => None
      end
  | None =>
      match strip_prefix js_ph_open s with
      | Some s1 =>
          let '(s3, n) := ph_attrs s1 in
          match strip_prefix js_ph_close s3 with
          | Some _ => Some (KJs, (length js_ph_open + n + length js_ph_close)%nat)
          | None => None
          end
      | None => None
      end
  end.

(* the placeholder as the template tags write it, with the attributes the HTML post-processing adds when the
   placeholder is a root element of components: (true, h) = data-djc-css-h, (false, i) = data-djc-id-i, in the
   order in which they stand in the document *)
Definition id_attr (id : str) : str := attr_id ++ id ++ attr_end.
Definition css_attr (id : str) : str := attr_css ++ id ++ attr_end.
Definition attr_bytes (a : bool * str) : str := if fst a then css_attr (snd a) else id_attr (snd a).
Definition emit_placeholder (k : kind) (attrs : list (bool * str)) (slash : bool) : str :=
  match k with
  | KCss => css_ph_open ++ flat_map attr_bytes attrs ++ (if slash then [47] else []) ++ [62]
  | KJs => js_ph_open ++ flat_map attr_bytes attrs ++ js_ph_close
  end.
(* a render id / css hash as the attribute regex wants it: \w{6} *)
Definition is_word6 (s : str) : bool :=
  match s with
  | [a; b; c; d; e; f] => is_word a && is_word b && is_word c && is_word d && is_word e && is_word f
  | _ => false
  end.
Definition ph_word : str := s2n "_PLACEHOLDER"%string.
(* text that cannot be mistaken for a placeholder *)
Definition ph_clean (s : str) : Prop := contains ph_word s = false.

(* ---------------------------------------------------------------------------------------- *)
(* render_dependencies                                                                       *)
(* ---------------------------------------------------------------------------------------- *)
(* </(?:head|body)\s*> in str mode: \s also matches \x1c-\x1f (non-ASCII white space is outside the model) *)
Definition is_space_u (b : N) : bool := is_space b || ((28 <=? b) && (b <=? 31)).
Inductive endtag := EHead | EBody.
Definition match_endtag (s : str) : option (endtag * nat) :=
  let close (e : endtag) (r : str) :=
    let '(w, r') := span is_space_u r in
    match r' with 62 :: _ => Some (e, (6 + length w + 1)%nat) | _ => None end in
  match strip_prefix (s2n "</head"%string) s with
  | Some r => close EHead r
  | None => match strip_prefix (s2n "</body"%string) s with
            | Some r => close EBody r
            | None => None
            end
  end.

(* scan for end tags but keep the matched bytes in place: positions are indices into the string *)
Fixpoint endtags (s : str) (i : nat) (fh lb : option nat) : option nat * option nat :=
  match s with
  | [] => (fh, lb)
  | _ :: r =>
      match match_endtag s with
      | Some (EHead, _) => endtags r (S i) (match fh with None => Some i | x => x end) lb
      | Some (EBody, _) => endtags r (S i) fh (Some i)
      | None => endtags r (S i) fh lb
      end
  end.

Definition insert_at (i : nat) (x s : str) : str := firstn i s ++ x ++ skipn i s.

(* _insert_js_css_to_default_locations (after fixes fa2cce9, b234f8a); None content = "do not insert".
   The end tags are searched in `search` (same length as `html`), the insertions are made in `html`. *)
Definition insert_default (search html : str) (js css : option str) : str :=
  let '(fh0, lb0) := endtags search 0 None None in
  let fh := match css with Some _ => fh0 | None => None end in
  let lb := match js with Some _ => lb0 | None => None end in
  let '(html1, off) := match css, fh with
                       | Some c, Some i => (insert_at i c html, length c)
                       | _, _ => (html, O)
                       end in
  match js, lb with
  | Some j, Some b =>
      let off' := match fh with
                  | None => O
                  | Some h => if Nat.ltb b h then O else off
                  end in
      insert_at (b + off') j html1
  | _, _ => html1
  end.

Definition block (k : kind) (js css : str) : str := match k with KJs => js | KCss => css end.

(* PLACEHOLDER_REGEX.sub(on_replace_match, content) on the scanned items, and the copy in which the
   inserted parts are blanked out (b"\x00" * len(replacement)) *)
Definition subst_items (l : list (item kind)) (js css : str) : str :=
  flat_map (fun it => match it with Ch c => [c] | Hit k => block k js css end) l.
Definition mask_items (l : list (item kind)) (js css : str) : str :=
  flat_map (fun it => match it with Ch c => [c] | Hit k => repeat 0 (length (block k js css)) end) l.
Definition has_hit (k : kind) (l : list (item kind)) : bool :=
  existsb (fun it => match it with Hit k' => kind_eqb k k' | Ch _ => false end) l.

Definition subst_placeholders (s js css : str) : str * bool * bool :=
  let l := scan match_placeholder s 0 in (subst_items l js css, has_hit KJs l, has_hit KCss l).

(* render_dependencies with the serialised tag strings given (js_b, css_b = the two byte strings
   _process_dep_declarations returns); content = the marker-free content *)
Definition assemble (t : rtype) (content js_b css_b : str) : str :=
  let l := scan match_placeholder content 0 in
  match t with
  | Document =>
      insert_default (mask_items l js_b css_b) (subst_items l js_b css_b)
                     (if has_hit KJs l then None else Some js_b) (if has_hit KCss l then None else Some css_b)
  | Fragment => subst_items l [] [] ++ js_b
  end.

(* render_dependencies as a whole, for a serialisation `ser` of the structured tags (Django's
   Media.render_*, wrap_component_js/css, json + base64 of the loader script are not modelled) *)
Definition ser_all (ser : tok -> str) (l : list tok) : str := concat (map ser l).
Definition render_deps (ser : tok -> str) (tbl : table) (t : rtype) (content : str) : res str :=
  rbind (process tbl t content) (fun cd => Ok (assemble t (fst cd) (ser_all ser (d_js (snd cd))) (ser_all ser (d_css (snd cd))))).

(* ---------------------------------------------------------------------------------------- *)
(* vocabulary of the theorems about the assembled output                                     *)
(* ---------------------------------------------------------------------------------------- *)
(* a placeholder as it reaches render_dependencies *)
Record phspec := { ph_kind : kind; ph_attrl : list (bool * str); ph_slash : bool }.
Definition ph_bytes (p : phspec) : str := emit_placeholder (ph_kind p) (ph_attrl p) (ph_slash p).
(* attribute values are \w{6} *)
Definition ph_wfb (p : phspec) : bool := forallb (fun a : bool * str => is_word6 (snd a)) (ph_attrl p).
Definition ph_wf (p : phspec) : Prop := ph_wfb p = true.

(* a marker-free document: text, placeholder, text, placeholder, ..., text *)
Fixpoint phdoc_bytes (d : list (str * phspec)) (tail : str) : str :=
  match d with
  | [] => tail
  | (t, p) :: r => t ++ ph_bytes p ++ phdoc_bytes r tail
  end.
Definition phdoc_text (d : list (str * phspec)) (tail : str) : str := concat (map fst d) ++ tail.
(* every text piece is free of "_PLACEHOLDER", every placeholder carries \w{6} attribute values *)
Definition ph_pieces_ok (d : list (str * phspec)) (tail : str) : Prop :=
  Forall (fun tp : str * phspec => ph_clean (fst tp) /\ ph_wf (snd tp)) d /\ ph_clean tail.

(* text pieces with a block after each *)
Fixpoint weave (d : list (str * str)) (tail : str) : str :=
  match d with
  | [] => tail
  | (t, b) :: r => t ++ b ++ weave r tail
  end.
Definition phdoc_blocks (d : list (str * phspec)) (js css : str) : list (str * str) :=
  map (fun tp : str * phspec => (fst tp, block (ph_kind (snd tp)) js css)) d.
Definition phdoc_subst (d : list (str * phspec)) (tail js css : str) : str := weave (phdoc_blocks d js css) tail.
Definition phdoc_mask (d : list (str * phspec)) (tail js css : str) : str :=
  weave (map (fun tp : str * phspec => (fst tp, repeat 0 (length (block (ph_kind (snd tp)) js css)))) d) tail.
Definition count_kind (k : kind) (d : list (str * phspec)) : nat :=
  length (filter (fun tp : str * phspec => kind_eqb k (ph_kind (snd tp))) d).
Definition has_kind (k : kind) (d : list (str * phspec)) : bool :=
  existsb (fun tp : str * phspec => kind_eqb k (ph_kind (snd tp))) d.

(* number of occurrences of the byte string x in s (x <> []) *)
Fixpoint occ (x s : str) : nat :=
  match s with
  | [] => O
  | _ :: r => ((if starts_with x s then 1 else 0) + occ x r)%nat
  end.

(* how many copies of the block of kind k document mode writes: one per placeholder of the kind; with
   no placeholder, one if the document has a </head> (CSS) / </body> (JS) end tag, else none *)
Definition found_endtag (k : kind) (search : str) : bool :=
  let '(fh, lb) := endtags search 0 None None in
  match k with
  | KCss => match fh with Some _ => true | None => false end
  | KJs => match lb with Some _ => true | None => false end
  end.
Definition copies (k : kind) (d : list (str * phspec)) (search : str) : nat :=
  match count_kind k d with
  | O => if found_endtag k search then 1%nat else O
  | n => n
  end.

(* a generated block: nothing, or a run of tags "<...>" *)
Definition tagged (b : str) : Prop := b = [] \/ exists m, b = 60 :: m ++ [62].
(* no occurrence of x can start inside b and run out of it: no proper non-empty prefix of x is a suffix of b *)
Definition right_free (x b : str) : Prop :=
  forall u v b', x = u ++ v -> u <> [] -> v <> [] -> b <> b' ++ u.
(* x has no "<" after its first byte: no occurrence of x can start before a "<" and run over it *)
Definition lt_free (x : str) : Prop := ~ In 60 (tl x).
(* what the occurrence count needs of a block: it is empty, or it starts with "<" and no occurrence of x runs out of it *)
Definition iso (x b : str) : Prop := b = [] \/ ((exists m, b = 60 :: m) /\ right_free x b).
(* decidable form of right_free *)
Fixpoint prefixes (x : str) : list str :=
  match x with [] => [[]] | c :: r => [] :: map (cons c) (prefixes r) end.
Definition right_freeb (x b : str) : bool :=
  forallb (fun u => negb (nonempty u) || str_eqb u x || negb (ends_with u b)) (prefixes x).

(* the searched text has an end tag of kind e somewhere *)
Definition has_tag (e : endtag) (s : str) : Prop := exists j n, match_endtag (skipn j s) = Some (e, n).
(* what the occurrence count needs of the serialisation of the tags: each tag starts with "<" and no
   occurrence of x runs out of a tag *)
Definition ser_ok (x : str) (ser : tok -> str) (toks : list tok) : Prop :=
  forall t, In t toks -> (exists m, ser t = 60 :: m) /\ right_free x (ser t).
Definition ser_okb (x : str) (ser : tok -> str) (toks : list tok) : bool :=
  forallb (fun t => match ser t with c :: _ => (c =? 60) && right_freeb x (ser t) | [] => false end) toks.

(* boolean forms of the hypotheses, for the correspondence run *)
Definition cleanb (s : str) : bool := negb (contains marker_word s).
Definition ph_cleanb (s : str) : bool := negb (contains ph_word s).
Definition wf_partb (p : part) : bool :=
  let '(h, id, js, css) := p in
  nonempty h && forallb is_hashb h && nonempty id && forallb is_word id && forallb is_hex js && forallb is_hex css.

(* ---------------------------------------------------------------------------------------- *)
(* correspondence cases                                                                      *)
(* ---------------------------------------------------------------------------------------- *)
Fixpoint remove_first {A} (eqb : A -> A -> bool) (x : A) (l : list A) : option (list A) :=
  match l with
  | [] => None
  | y :: r => if eqb x y then Some r else option_map (cons y) (remove_first eqb x r)
  end.
Fixpoint perm_eqb {A} (eqb : A -> A -> bool) (a b : list A) : bool :=
  match a with
  | [] => negb (nonempty b)
  | x :: r => match remove_first eqb x b with Some b' => perm_eqb eqb r b' | None => false end
  end.

Definition exec_eqb (a b : exec) : bool :=
  perm_eqb url_eqb (x_loaded_css a) (x_loaded_css b) && perm_eqb url_eqb (x_loaded_js a) (x_loaded_js b)
  && list_eqb mtag_eqb (x_toload_css a) (x_toload_css b) && list_eqb mtag_eqb (x_toload_js a) (x_toload_js b).

Definition tok_eqb (a b : tok) : bool :=
  match a, b with
  | TCore, TCore => true
  | TExec x, TExec y => exec_eqb x y
  | TMedia k t, TMedia k' t' => kind_eqb k k' && mtag_eqb t t'
  | TInline k c, TInline k' c' => kind_eqb k k' && str_eqb c c'
  | _, _ => false
  end.

(* 1. matcher-level differential: (bytes, data groups found by the regex, content after re.sub) *)
Definition marker_case := (str * list str * str)%type.
Definition check_marker (c : marker_case) : bool :=
  let '(s, ds, out) := c in
  let '(ds', out') := strip_markers s in list_eqb str_eqb ds ds' && str_eqb out out'.

(* (bytes, groups of SCRIPT_NAME_REGEX.match or None) *)
Definition part_case := (str * option (str * str * str * str))%type.
Definition part_eqb (a b : str * str * str * str) : bool :=
  let '(h, i, j, c) := a in let '(h', i', j', c') := b in
  str_eqb h h' && str_eqb i i' && str_eqb j j' && str_eqb c c'.
Definition check_part (c : part_case) : bool :=
  let '(s, r) := c in option_eqb part_eqb r (parse_part s).

(* (bytes, PLACEHOLDER_REGEX.sub with "J"/"C" stand-ins) *)
Definition ph_case := (str * str)%type.
Definition check_ph (c : ph_case) : bool :=
  let '(s, out) := c in
  let '(o, _, _) := subst_placeholders s [74] [67] in str_eqb out o.

(* (kind, tag text, what src_pattern / href_pattern .search found) *)
Definition url_case := (kind * str * option str)%type.
Definition check_url (c : url_case) : bool :=
  let '(k, tag, r) := c in option_eqb str_eqb r (find_url k tag).

(* 2. pipeline: outcome of _process_dep_declarations *)
Inductive outcome :=
| OOk (content : str) (js css : list tok)
| OMalformed | OKeyError (h : str) | OMissingUrl
| OOther.   (* any other exception: never a result of the model *)

Definition pipe_case := (rtype * list (str * cinfo) * str * outcome)%type.
Definition check_pipe (c : pipe_case) : bool :=
  let '(t, tbl, content, o) := c in
  match process tbl t content, o with
  | Ok (c', d), OOk c'' js css => str_eqb c' c'' && list_eqb tok_eqb js (d_js d) && list_eqb tok_eqb css (d_css d)
  | ErrMalformed, OMalformed => true
  | ErrKeyError h, OKeyError h' => str_eqb h h'
  | ErrMissingUrl, OMissingUrl => true
  | _, _ => false
  end.

(* 3. render_dependencies end to end: (type, marker-free content, js stand-in, css stand-in, final) *)
Definition asm_case := (rtype * str * str * str * str)%type.
Definition check_asm (c : asm_case) : bool :=
  let '(t, content, js_b, css_b, final) := c in str_eqb final (assemble t content js_b css_b).

(* 4. emit side: (content rendered by the implementation, expected class hashes of the instances in
   document order, as read from the visible text) *)
Definition emit_case := (str * list str)%type.
Definition check_emit (c : emit_case) : bool :=
  let '(content, hs) := c in
  match parse_parts (fst (strip_markers content)) with
  | Ok ps => list_eqb str_eqb hs (map p_hash ps)
  | _ => false
  end.

(* 5. hypotheses of the theorems on a rendered page.  (a) emit side: the content handed to
   render_dependencies IS text, marker, ..., text with the markers insert_component_dependencies_comment was
   called with (recorded by the harness, one call per rendered instance), text free of "_RENDERED", records
   well formed; (b) the marker-free text IS text, placeholder, ..., text with text free of "_PLACEHOLDER". *)
Definition doc_case := (str * list (str * (str * str * str * str)) * str)%type.
Definition check_doc (c : doc_case) : bool :=
  let '(content, d, tail) := c in
  str_eqb content (doc_bytes d tail) && cleanb (doc_text d tail) && forallb wf_partb (doc_parts d).
Definition phdoc_case := (str * list (str * phspec) * str)%type.
Definition check_phdoc (c : phdoc_case) : bool :=
  let '(content, d, tail) := c in
  str_eqb content (phdoc_bytes d tail) && ph_cleanb (phdoc_text d tail) && forallb ph_wfb (map snd d).

(* 6. one rendered page, all comparisons at once (the byte strings are given once): type, class table, the
   rendered content as text/marker pieces (cut at the recorded insert_component_dependencies_comment calls), the
   marker-free text as text/placeholder pieces (None: no placeholder in it), the tags
   _process_dep_declarations returned, and (JS stand-in, CSS stand-in, final bytes with the blocks replaced by the
   stand-ins).  page_diag = sum of the bits of the comparisons that FAIL:
     1 emit-side hypotheses (clean text, well-formed records)      2 placeholder hypotheses
     4 model process <> _process_dep_declarations                  8 model assemble <> render_dependencies *)
Definition page_case :=
  (rtype * list (str * cinfo) * (list (str * (str * str * str * str)) * str) * option (list (str * phspec) * str)
   * (list tok * list tok) * (str * str * str))%type.
Definition page_hyp_emit (d : list (str * (str * str * str * str))) (tail : str) : bool :=
  cleanb (doc_text d tail) && forallb wf_partb (doc_parts d).
Definition page_hyp_ph (text : str) (ph : option (list (str * phspec) * str)) : bool :=
  match ph with
  | None => ph_cleanb text
  | Some (pd, pt) => check_phdoc (text, pd, pt)
  end.
Definition page_diag (c : page_case) : N :=
  let '(t, tbl, (d, tail), ph, (js, css), (js_s, css_s, final)) := c in
  let text := doc_text d tail in
  (if page_hyp_emit d tail then 0 else 1)
  + (if page_hyp_ph text ph then 0 else 2)
  + (match process tbl t (doc_bytes d tail) with
     | Ok (c', dd) => if str_eqb c' text && list_eqb tok_eqb js (d_js dd) && list_eqb tok_eqb css (d_css dd) then 0 else 4
     | _ => 4
     end)
  + (if str_eqb final (assemble t text js_s css_s) then 0 else 8).
Definition check_page (c : page_case) : bool := page_diag c =? 0.
