(* Proofs about the ASSEMBLED output of render_dependencies (property C04): any number of placeholders of
   both kinds in one document, the default insertion with the masked end-tag search, and the number of
   occurrences of a byte string in the final bytes. *)
From DJC Require Import Lib.Base Deps.Model Deps.Proofs.
Import Coq.Strings.String.StringSyntax.
Local Delimit Scope string_scope with string.

(* ================================================================================================ *)
(* a document with any number of placeholders                                                        *)
(* ================================================================================================ *)
Notation ph_piece_ok := (fun tp : str * phspec => ph_clean (fst tp) /\ ph_wf (snd tp)).

Lemma ph_bytes_lt p : exists r, ph_bytes p = 60%N :: r.
Proof. unfold ph_bytes, emit_placeholder. destruct (ph_kind p); eexists; reflexivity. Qed.

Lemma scan_phdoc d : forall tail, Forall ph_piece_ok d -> ph_clean tail ->
  scan match_placeholder (phdoc_bytes d tail) 0 =
  flat_map (fun tp : str * phspec => map Ch (fst tp) ++ [Hit (ph_kind (snd tp))]) d ++ map Ch tail.
Proof.
  induction d as [|[t p] r IH]; intros tail Hd Ht; cbn [phdoc_bytes flat_map app].
  - rewrite <- (app_nil_r tail) at 1. rewrite (scan_ph_text tail [] Ht (or_introl eq_refl)). cbn [scan].
    apply app_nil_r.
  - inversion Hd as [|? ? [Hc Hw] Hr]; subst. cbn [fst snd] in *.
    rewrite scan_ph_text; [|exact Hc|right; destruct (ph_bytes_lt p) as [r0 ->]; eexists; reflexivity].
    rewrite (scan_hit match_placeholder (ph_bytes p) (phdoc_bytes r tail) (ph_kind p)).
    + rewrite (IH tail Hr Ht), <- !app_assoc. reflexivity.
    + destruct (ph_bytes_lt p) as [r0 ->]. discriminate.
    + unfold ph_bytes. apply match_placeholder_emit. exact Hw.
Qed.

Lemma subst_items_app a b js css : subst_items (a ++ b) js css = subst_items a js css ++ subst_items b js css.
Proof. unfold subst_items. apply flat_map_app. Qed.
Lemma mask_items_app a b js css : mask_items (a ++ b) js css = mask_items a js css ++ mask_items b js css.
Proof. unfold mask_items. apply flat_map_app. Qed.
Lemma has_hit_app k a b : has_hit k (a ++ b) = has_hit k a || has_hit k b.
Proof. unfold has_hit. apply existsb_app. Qed.
Lemma subst_items_text t js css : subst_items (map Ch t) js css = t.
Proof. unfold subst_items. induction t as [|c r IH]; cbn; [reflexivity|]. f_equal. exact IH. Qed.
Lemma mask_items_text t js css : mask_items (map Ch t) js css = t.
Proof. unfold mask_items. induction t as [|c r IH]; cbn; [reflexivity|]. f_equal. exact IH. Qed.
Lemma has_hit_text k t : has_hit k (map Ch t) = false.
Proof. unfold has_hit. induction t as [|c r IH]; cbn; [reflexivity|exact IH]. Qed.

Notation ph_items d tail :=
  (flat_map (fun tp : str * phspec => map Ch (fst tp) ++ [Hit (ph_kind (snd tp))]) d ++ map Ch tail).

Lemma subst_items_phdoc d tail js css : subst_items (ph_items d tail) js css = phdoc_subst d tail js css.
Proof.
  unfold phdoc_subst, phdoc_blocks. induction d as [|[t p] r IH]; cbn [flat_map map weave app fst snd].
  - apply subst_items_text.
  - rewrite <- !app_assoc, (subst_items_app (map Ch t)), subst_items_text.
    rewrite (subst_items_app [Hit (ph_kind p)]), IH.
    unfold subst_items at 1. cbn [flat_map]. rewrite app_nil_r. reflexivity.
Qed.

Lemma mask_items_phdoc d tail js css : mask_items (ph_items d tail) js css = phdoc_mask d tail js css.
Proof.
  unfold phdoc_mask. induction d as [|[t p] r IH]; cbn [flat_map map weave app fst snd].
  - apply mask_items_text.
  - rewrite <- !app_assoc, (mask_items_app (map Ch t)), mask_items_text.
    rewrite (mask_items_app [Hit (ph_kind p)]), IH.
    unfold mask_items at 1. cbn [flat_map]. rewrite app_nil_r. reflexivity.
Qed.

Lemma has_hit_phdoc k d tail : has_hit k (ph_items d tail) = has_kind k d.
Proof.
  unfold has_kind. induction d as [|[t p] r IH]; cbn [flat_map map app fst snd existsb].
  - apply has_hit_text.
  - rewrite <- !app_assoc, (has_hit_app k (map Ch t)), has_hit_text.
    rewrite (has_hit_app k [Hit (ph_kind p)]), IH. cbn [orb].
    unfold has_hit at 1. cbn [existsb]. rewrite orb_false_r. reflexivity.
Qed.

(* every placeholder of the document is replaced by the block of its kind; nothing else changes *)
Lemma placeholders_replaced_lemma d tail js css :
  Forall ph_piece_ok d -> ph_clean tail ->
  subst_placeholders (phdoc_bytes d tail) js css = (phdoc_subst d tail js css, has_kind KJs d, has_kind KCss d).
Proof.
  intros Hd Ht. unfold subst_placeholders. rewrite (scan_phdoc d tail Hd Ht).
  rewrite subst_items_phdoc, !has_hit_phdoc. reflexivity.
Qed.

Lemma has_kind_count k d : has_kind k d = false <-> count_kind k d = O.
Proof.
  unfold has_kind, count_kind. induction d as [|[t p] r IH]; cbn [existsb filter snd]; [tauto|].
  destruct (kind_eqb k (ph_kind p)); cbn [orb length]; [split; discriminate|exact IH].
Qed.

Lemma weave_nil_blocks (d : list (str * phspec)) tail :
  weave (map (fun tp : str * phspec => (fst tp, @nil N)) d) tail = phdoc_text d tail.
Proof.
  unfold phdoc_text. induction d as [|[t p] r IH]; cbn [map weave concat fst app]; [reflexivity|].
  rewrite IH, <- app_assoc. reflexivity.
Qed.

Lemma phdoc_subst_nil d tail : phdoc_subst d tail [] [] = phdoc_text d tail.
Proof.
  unfold phdoc_subst, phdoc_blocks. rewrite <- weave_nil_blocks. f_equal. apply map_ext. intros [t p]. cbn.
  destruct (ph_kind p); reflexivity.
Qed.

(* ================================================================================================ *)
(* occurrences of a byte string                                                                      *)
(* ================================================================================================ *)
Lemma occ_contains x s : x <> [] -> (occ x s = O <-> contains x s = false).
Proof.
  intro Hx. induction s as [|c r IH]; cbn [occ contains].
  - destruct x; [contradiction|]. cbn. tauto.
  - destruct (starts_with x (c :: r)); cbn [orb]; [split; [lia|discriminate]|]. cbn [Nat.add]. exact IH.
Qed.

Lemma starts_with_stable x c a s : (s = [] \/ exists z s', s = z :: s' /\ ~ In z (tl x)) ->
  starts_with x ((c :: a) ++ s) = starts_with x (c :: a).
Proof.
  intro H. destruct (starts_with x (c :: a)) eqn:E; [apply starts_with_ext; exact E|].
  destruct (starts_with x ((c :: a) ++ s)) eqn:E2; [exfalso|reflexivity].
  destruct x as [|x0 xr]; [discriminate|]. cbn [app starts_with] in E, E2.
  apply andb_true_iff in E2 as [H1 H2]. rewrite H1 in E. cbn [andb] in E.
  destruct (starts_with_cases _ _ _ H2) as [L|[z [s' [-> Hin]]]]; [rewrite L in E; discriminate|].
  destruct H as [H|[z' [s'' [Heq Hn]]]]; [discriminate|]. inversion Heq; subst. apply Hn. exact Hin.
Qed.

(* nothing that starts in `a` runs into `s` when s begins with a byte x has only (at most) in front *)
Lemma occ_app_l x a s : (s = [] \/ exists z s', s = z :: s' /\ ~ In z (tl x)) ->
  occ x (a ++ s) = (occ x a + occ x s)%nat.
Proof.
  intro H. induction a as [|c r IH]; [reflexivity|].
  change ((c :: r) ++ s) with (c :: (r ++ s)). cbn [occ].
  change (c :: (r ++ s)) with ((c :: r) ++ s). rewrite (starts_with_stable x c r s H), IH. lia.
Qed.

Lemma starts_with_split p : forall a b, starts_with p (a ++ b) = true ->
  starts_with p a = true \/ exists v, p = a ++ v /\ v <> [] /\ starts_with v b = true.
Proof.
  induction p as [|x r IH]; intros a b H; [left; reflexivity|].
  destruct a as [|y a'].
  - right. exists (x :: r). split; [reflexivity|]. split; [discriminate|exact H].
  - cbn [app starts_with] in H. apply andb_true_iff in H as [H1 H2].
    destruct (IH _ _ H2) as [L|[v [-> [Hv Hs]]]].
    + left. cbn. rewrite H1, L. reflexivity.
    + right. exists v. apply N.eqb_eq in H1. subst y. split; [reflexivity|]. split; assumption.
Qed.

Lemma occ_app_r_gen x c : forall b b', right_free x (b' ++ b) -> occ x (b ++ c) = (occ x b + occ x c)%nat.
Proof.
  induction b as [|y b2 IH]; intros b' H; [reflexivity|].
  change ((y :: b2) ++ c) with (y :: (b2 ++ c)). cbn [occ].
  rewrite (IH (b' ++ [y])) by (rewrite <- app_assoc; exact H).
  assert (E : starts_with x (y :: b2 ++ c) = starts_with x (y :: b2)).
  { destruct (starts_with x (y :: b2)) eqn:E1; [apply (starts_with_ext x (y :: b2) c E1)|].
    destruct (starts_with x (y :: b2 ++ c)) eqn:E2; [exfalso|reflexivity].
    change (y :: b2 ++ c) with ((y :: b2) ++ c) in E2.
    destruct (starts_with_split _ _ _ E2) as [L|[v [Hx [Hv _]]]]; [rewrite L in E1; discriminate|].
    apply (H (y :: b2) v b' Hx); [discriminate|exact Hv|reflexivity]. }
  rewrite E. lia.
Qed.

(* nothing that starts in `b` runs out of it *)
Lemma occ_app_r x b c : right_free x b -> occ x (b ++ c) = (occ x b + occ x c)%nat.
Proof. intro H. apply (occ_app_r_gen x c b []). exact H. Qed.

Notation sum_occ x d := (list_sum (map (fun tb : str * str => occ x (snd tb)) d)).

(* text pieces that do not contain x, with isolated blocks between them: the occurrences of x are those
   inside the blocks *)
Lemma occ_weave x : x <> [] -> lt_free x -> forall d tail pre,
  Forall (fun tb : str * str => iso x (snd tb)) d ->
  contains x (pre ++ concat (map fst d) ++ tail) = false ->
  occ x (pre ++ weave d tail) = sum_occ x d.
Proof.
  intros Hx Hlt. induction d as [|[t b] r IH]; intros tail pre Hd Hc; cbn [weave map concat list_sum fst snd] in *.
  - apply (occ_contains x _ Hx). exact Hc.
  - inversion Hd as [|? ? Hb Hr]; subst. cbn [snd] in Hb.
    assert (Hc' : contains x ((pre ++ t) ++ concat (map fst r) ++ tail) = false)
      by (rewrite <- !app_assoc in *; exact Hc).
    destruct Hb as [->|[[m ->] Hrf]].
    + cbn [app occ Nat.add]. rewrite app_assoc. apply IH; [exact Hr|exact Hc'].
    + rewrite app_assoc.
      rewrite (occ_app_l x (pre ++ t)) by (right; exists 60%N; eexists; split; [reflexivity|exact Hlt]).
      rewrite (occ_app_r x _ _ Hrf).
      apply contains_app_false in Hc' as [Hc1 Hc2].
      rewrite (proj2 (occ_contains x _ Hx) Hc1).
      specialize (IH tail [] Hr). cbn [app] in IH. rewrite IH; [unfold list_sum; cbn [fold_right]; lia|exact Hc2].
Qed.

Lemma sum_occ_phdoc x (d : list (str * phspec)) js css :
  sum_occ x (phdoc_blocks d js css) = (count_kind KJs d * occ x js + count_kind KCss d * occ x css)%nat.
Proof.
  unfold phdoc_blocks, count_kind, list_sum.
  induction d as [|[t p] r IH]; cbn [map fold_right filter fst snd]; [reflexivity|].
  rewrite IH. destruct (ph_kind p); cbn [kind_eqb block length]; lia.
Qed.

(* ================================================================================================ *)
(* the masked copy and the end-tag search                                                            *)
(* ================================================================================================ *)
(* m is c with some bytes blanked out *)
Inductive agree : str -> str -> Prop :=
| agree_nil : agree [] []
| agree_same z m c : agree m c -> agree (z :: m) (z :: c)
| agree_zero y m c : agree m c -> agree (0%N :: m) (y :: c).

Lemma agree_refl s : agree s s.
Proof. induction s; constructor; assumption. Qed.
Lemma agree_app m1 c1 m2 c2 : agree m1 c1 -> agree m2 c2 -> agree (m1 ++ m2) (c1 ++ c2).
Proof. induction 1; intro H2; cbn [app]; [exact H2|constructor; auto|constructor; auto]. Qed.
Lemma agree_zeros b : agree (repeat 0%N (length b)) b.
Proof. induction b; cbn; constructor; assumption. Qed.

Lemma agree_nth m c : agree m c -> forall i z, z <> 0%N -> nth_error m i = Some z -> nth_error c i = Some z.
Proof.
  induction 1 as [|z0 m c _ IH|y m c _ IH]; intros i z Hz Hn.
  - destruct i; discriminate.
  - destruct i; cbn in *; [exact Hn|apply IH; assumption].
  - destruct i; cbn in *; [inversion Hn; subst; contradiction|apply IH; assumption].
Qed.

Lemma agree_phdoc d tail js css : agree (phdoc_mask d tail js css) (phdoc_subst d tail js css).
Proof.
  unfold phdoc_mask, phdoc_subst, phdoc_blocks. induction d as [|[t p] r IH]; cbn [map weave fst snd].
  - apply agree_refl.
  - apply agree_app; [apply agree_refl|]. apply agree_app; [apply agree_zeros|exact IH].
Qed.

Lemma match_endtag_lt s x : match_endtag s = Some x -> exists r, s = 60%N :: r.
Proof.
  unfold match_endtag. destruct (strip_prefix (s2n "</head"%string) s) as [r|] eqn:E1.
  - intros _. apply strip_prefix_some in E1. subst. eexists. reflexivity.
  - destruct (strip_prefix (s2n "</body"%string) s) as [r|] eqn:E2; [|discriminate].
    intros _. apply strip_prefix_some in E2. subst. eexists. reflexivity.
Qed.

(* every position the end-tag search reports holds a "<" *)
Lemma endtags_pos s : forall i fh lb fh' lb', endtags s i fh lb = (fh', lb') ->
  (forall h, fh' = Some h -> fh = Some h \/ (i <= h /\ nth_error s (h - i) = Some 60%N)) /\
  (forall b, lb' = Some b -> lb = Some b \/ (i <= b /\ nth_error s (b - i) = Some 60%N)).
Proof.
  induction s as [|c r IH]; intros i fh lb fh' lb' H; cbn [endtags] in H.
  - inversion H; subst. split; intros; left; assumption.
  - assert (Shift : forall p, S i <= p -> nth_error r (p - S i) = Some 60%N -> i <= p /\ nth_error (c :: r) (p - i) = Some 60%N).
    { intros p Hp Hn. split; [lia|]. replace (p - i) with (S (p - S i)) by lia. exact Hn. }
    destruct (match_endtag (c :: r)) as [[e n]|] eqn:E.
    + destruct (match_endtag_lt _ _ E) as [r0 Hc]. inversion Hc; subst c r0.
      assert (Here : i <= i /\ nth_error (60%N :: r) (i - i) = Some 60%N) by (split; [lia|rewrite Nat.sub_diag; reflexivity]).
      destruct e.
      * destruct (IH _ _ _ _ _ H) as [A B]. split.
        -- intros h Hh. destruct (A h Hh) as [A1|[A1 A2]]; [|right; apply Shift; assumption].
           destruct fh as [h0|]; [left; exact A1|]. inversion A1; subst. right. exact Here.
        -- intros b Hb. destruct (B b Hb) as [B1|[B1 B2]]; [left; exact B1|right; apply Shift; assumption].
      * destruct (IH _ _ _ _ _ H) as [A B]. split.
        -- intros h Hh. destruct (A h Hh) as [A1|[A1 A2]]; [left; exact A1|right; apply Shift; assumption].
        -- intros b Hb. destruct (B b Hb) as [B1|[B1 B2]]; [|right; apply Shift; assumption].
           inversion B1; subst. right. exact Here.
    + destruct (IH _ _ _ _ _ H) as [A B]. split.
      * intros h Hh. destruct (A h Hh) as [A1|[A1 A2]]; [left; exact A1|right; apply Shift; assumption].
      * intros b Hb. destruct (B b Hb) as [B1|[B1 B2]]; [left; exact B1|right; apply Shift; assumption].
Qed.

(* ================================================================================================ *)
(* insertion at a position that holds "<"                                                            *)
(* ================================================================================================ *)
Lemma nth_error_skipn_cons {A} (s : list A) : forall i z, nth_error s i = Some z -> skipn i s = z :: skipn (S i) s.
Proof.
  induction s as [|c r IH]; intros i z H; destruct i; cbn in *; try discriminate.
  - inversion H; subst. reflexivity.
  - apply IH. exact H.
Qed.

Lemma nth_error_firstn_lt {A} (s : list A) : forall i h, i < h -> nth_error (firstn h s) i = nth_error s i.
Proof.
  induction s as [|c r IH]; intros i h H; destruct h; cbn; try lia; [destruct i; reflexivity|].
  destruct i; cbn; [reflexivity|]. apply IH. lia.
Qed.

Lemma nth_error_skipn_add {A} (s : list A) : forall h k, nth_error (skipn h s) k = nth_error s (h + k).
Proof.
  induction s as [|c r IH]; intros h k; destruct h; cbn; try reflexivity; [destruct k; reflexivity|apply IH].
Qed.

Lemma occ_insert_at x i b s : lt_free x -> iso x b -> nth_error s i = Some 60%N ->
  occ x (insert_at i b s) = (occ x s + occ x b)%nat.
Proof.
  intros Hlt Hb Hn. unfold insert_at.
  assert (Hs : skipn i s = [] \/ exists z s', skipn i s = z :: s' /\ ~ In z (tl x)).
  { right. exists 60%N. eexists. split; [apply nth_error_skipn_cons; exact Hn|exact Hlt]. }
  rewrite <- (firstn_skipn i s) at 3. rewrite (occ_app_l x (firstn i s) (skipn i s) Hs).
  destruct Hb as [->|[[m ->] Hrf]].
  - cbn [app occ]. rewrite (occ_app_l x (firstn i s) (skipn i s) Hs). lia.
  - rewrite (occ_app_l x (firstn i s)) by (right; exists 60%N; eexists; split; [reflexivity|exact Hlt]).
    rewrite (occ_app_r x _ _ Hrf). lia.
Qed.

Lemma nth_insert_before i h b s (z : N) : nth_error s i = Some z -> i < h -> nth_error (insert_at h b s) i = Some z.
Proof.
  intros Hn Hlt. unfold insert_at. rewrite nth_error_app1.
  - rewrite nth_error_firstn_lt by exact Hlt. exact Hn.
  - rewrite firstn_length. assert (i < length s) by (apply nth_error_Some; rewrite Hn; discriminate). lia.
Qed.

Lemma nth_insert_after i h b s (z : N) : nth_error s i = Some z -> h <= i ->
  nth_error (insert_at h b s) (i + length b) = Some z.
Proof.
  intros Hn Hle. unfold insert_at.
  assert (Hl : i < length s) by (apply nth_error_Some; rewrite Hn; discriminate).
  assert (Hf : length (firstn h s) = h) by (rewrite firstn_length; lia).
  rewrite nth_error_app2 by lia. rewrite nth_error_app2 by lia. rewrite Hf.
  replace (i + length b - h - length b) with (i - h) by lia.
  rewrite nth_error_skipn_add. replace (h + (i - h)) with i by lia. exact Hn.
Qed.

Definition opt_occ (want found : bool) (n : nat) : nat := if want && found then n else O.

(* _insert_js_css_to_default_locations adds to the occurrences of x exactly those of the inserted blocks *)
Lemma occ_insert_default x m c1 js css (wj wc : bool) :
  lt_free x -> iso x js -> iso x css -> agree m c1 ->
  occ x (insert_default m c1 (if wj then Some js else None) (if wc then Some css else None)) =
  (occ x c1 + opt_occ wc (found_endtag KCss m) (occ x css) + opt_occ wj (found_endtag KJs m) (occ x js))%nat.
Proof.
  intros Hlt Hj Hc Ha. unfold insert_default, found_endtag, opt_occ.
  destruct (endtags m 0 None None) as [fh0 lb0] eqn:E.
  destruct (endtags_pos _ _ _ _ _ _ E) as [PH PB].
  assert (P60 : forall p, nth_error m (p - 0) = Some 60%N -> nth_error c1 p = Some 60%N).
  { intros p Hp. rewrite Nat.sub_0_r in Hp. apply (agree_nth _ _ Ha); [discriminate|exact Hp]. }
  assert (QH : forall h, fh0 = Some h -> nth_error c1 h = Some 60%N).
  { intros h Hh. destruct (PH h Hh) as [X|[_ X]]; [discriminate|apply P60; exact X]. }
  assert (QB : forall b, lb0 = Some b -> nth_error c1 b = Some 60%N).
  { intros b Hb. destruct (PB b Hb) as [X|[_ X]]; [discriminate|apply P60; exact X]. }
  destruct wc, wj; cbn [andb]; destruct fh0 as [h|]; destruct lb0 as [b|];
    try (rewrite ?Nat.add_0_r; reflexivity).
  - (* css at h, js at b *)
    specialize (QH h eq_refl). specialize (QB b eq_refl).
    destruct (Nat.ltb b h) eqn:L.
    + apply Nat.ltb_lt in L. rewrite Nat.add_0_r.
      rewrite (occ_insert_at x b js _ Hlt Hj (nth_insert_before b h css c1 _ QB L)).
      rewrite (occ_insert_at x h css c1 Hlt Hc QH). lia.
    + apply Nat.ltb_ge in L.
      rewrite (occ_insert_at x (b + length css) js _ Hlt Hj (nth_insert_after b h css c1 _ QB L)).
      rewrite (occ_insert_at x h css c1 Hlt Hc QH). lia.
  - specialize (QH h eq_refl). rewrite (occ_insert_at x h css c1 Hlt Hc QH). lia.
  - specialize (QB b eq_refl). rewrite Nat.add_0_r. rewrite (occ_insert_at x b js c1 Hlt Hj QB). lia.
  - specialize (QH h eq_refl). rewrite (occ_insert_at x h css c1 Hlt Hc QH). lia.
  - specialize (QH h eq_refl). rewrite (occ_insert_at x h css c1 Hlt Hc QH). lia.
  - specialize (QB b eq_refl). rewrite Nat.add_0_r. rewrite (occ_insert_at x b js c1 Hlt Hj QB). lia.
  - specialize (QB b eq_refl). rewrite Nat.add_0_r. rewrite (occ_insert_at x b js c1 Hlt Hj QB). lia.
Qed.

(* ================================================================================================ *)
(* render_dependencies on a document with placeholders: occurrences in the final bytes               *)
(* ================================================================================================ *)
Lemma assemble_doc_phdoc d tail js css : ph_pieces_ok d tail ->
  assemble Document (phdoc_bytes d tail) js css =
  insert_default (phdoc_mask d tail js css) (phdoc_subst d tail js css)
                 (if has_kind KJs d then None else Some js) (if has_kind KCss d then None else Some css).
Proof.
  intros [Hd Ht]. unfold assemble. rewrite (scan_phdoc d tail Hd Ht).
  rewrite subst_items_phdoc, mask_items_phdoc, !has_hit_phdoc. reflexivity.
Qed.

Lemma assemble_frag_phdoc d tail js css : ph_pieces_ok d tail ->
  assemble Fragment (phdoc_bytes d tail) js css = phdoc_text d tail ++ js.
Proof.
  intros [Hd Ht]. unfold assemble. rewrite (scan_phdoc d tail Hd Ht).
  rewrite subst_items_phdoc, phdoc_subst_nil. reflexivity.
Qed.

Lemma iso_block x k js css : iso x js -> iso x css -> iso x (block k js css).
Proof. destruct k; cbn; tauto. Qed.

Lemma occ_phdoc_subst x d tail js css : x <> [] -> lt_free x -> iso x js -> iso x css ->
  contains x (phdoc_text d tail) = false ->
  occ x (phdoc_subst d tail js css) = (count_kind KJs d * occ x js + count_kind KCss d * occ x css)%nat.
Proof.
  intros Hx Hlt Hj Hc Hcl. unfold phdoc_subst.
  pose proof (occ_weave x Hx Hlt (phdoc_blocks d js css) tail []) as W. cbn [app] in W. rewrite W.
  - apply sum_occ_phdoc.
  - unfold phdoc_blocks. rewrite Forall_map. apply Forall_forall. intros tp _. cbn [snd]. apply iso_block; assumption.
  - unfold phdoc_blocks. rewrite map_map. cbn [fst]. exact Hcl.
Qed.

Lemma copies_arith k d m n :
  (count_kind k d * n + opt_occ (negb (has_kind k d)) (found_endtag k m) n = copies k d m * n)%nat.
Proof.
  unfold copies, opt_occ. destruct (has_kind k d) eqn:E; cbn [negb andb].
  - destruct (count_kind k d) eqn:C; [apply has_kind_count in C; congruence|lia].
  - apply has_kind_count in E. rewrite E. destruct (found_endtag k m); lia.
Qed.

Lemma assembled_occurrences_lemma x d tail js css :
  x <> [] -> lt_free x -> iso x js -> iso x css -> ph_pieces_ok d tail ->
  contains x (phdoc_text d tail) = false ->
  occ x (assemble Document (phdoc_bytes d tail) js css) =
  (copies KJs d (phdoc_mask d tail js css) * occ x js + copies KCss d (phdoc_mask d tail js css) * occ x css)%nat.
Proof.
  intros Hx Hlt Hj Hc Hp Hcl. rewrite (assemble_doc_phdoc d tail js css Hp).
  replace (if has_kind KJs d then None else Some js) with (if negb (has_kind KJs d) then Some js else None)
    by (destruct (has_kind KJs d); reflexivity).
  replace (if has_kind KCss d then None else Some css) with (if negb (has_kind KCss d) then Some css else None)
    by (destruct (has_kind KCss d); reflexivity).
  rewrite (occ_insert_default x _ _ js css _ _ Hlt Hj Hc (agree_phdoc d tail js css)).
  rewrite (occ_phdoc_subst x d tail js css Hx Hlt Hj Hc Hcl).
  rewrite <- (copies_arith KJs d (phdoc_mask d tail js css)), <- (copies_arith KCss d (phdoc_mask d tail js css)). lia.
Qed.

Lemma fragment_occurrences_lemma x d tail js css :
  x <> [] -> lt_free x -> iso x js -> ph_pieces_ok d tail ->
  contains x (phdoc_text d tail) = false ->
  occ x (assemble Fragment (phdoc_bytes d tail) js css) = occ x js.
Proof.
  intros Hx Hlt Hj Hp Hcl. rewrite (assemble_frag_phdoc d tail js css Hp).
  apply (occ_contains x _ Hx) in Hcl. destruct Hj as [->|[[m ->] _]].
  - rewrite app_nil_r. exact Hcl.
  - rewrite (occ_app_l x (phdoc_text d tail)) by (right; exists 60%N; eexists; split; [reflexivity|exact Hlt]). lia.
Qed.

(* ---------- the blocks are runs of serialised tags ---------- *)
Lemma right_free_app x a b : right_free x a -> right_free x b -> right_free x (a ++ b).
Proof.
  intros Ha Hb u v b' Hx Hu Hv E. apply app_eq_app in E as [l [[E1 E2]|[E1 E2]]].
  - (* a = b' ++ l, u = l ++ b *)
    destruct l as [|z l'].
    + cbn [app] in E2. subst u. apply (Hb b v [] Hx Hu Hv). reflexivity.
    + subst u. rewrite <- app_assoc in Hx. apply (Ha (z :: l') (b ++ v) b' Hx); [discriminate| |exact E1].
      destruct b; [exact Hv|discriminate].
  - (* b' = a ++ l, b = l ++ u *)
    apply (Hb u v l Hx Hu Hv). exact E2.
Qed.

Lemma iso_ser_all x ser toks :
  (forall t, In t toks -> (exists m, ser t = 60%N :: m) /\ right_free x (ser t)) -> iso x (ser_all ser toks).
Proof.
  unfold ser_all. induction toks as [|t r IH]; intro H; cbn [map concat]; [left; reflexivity|].
  destruct (H t (or_introl eq_refl)) as [[m Hm] Hr]. right. split.
  - rewrite Hm. eexists. reflexivity.
  - destruct (IH (fun t' Ht' => H t' (or_intror Ht'))) as [->|[_ Hr2]]; [rewrite app_nil_r; exact Hr|].
    apply right_free_app; assumption.
Qed.

Notation sum_ser x ser toks := (list_sum (map (fun t : tok => occ x (ser t)) toks)).

Lemma concat_nils {A} (l : list A) : concat (@map A str (fun _ : A => @nil N) l) = [].
Proof. induction l; cbn; auto. Qed.

Lemma occ_ser_all x ser toks : x <> [] -> lt_free x ->
  (forall t, In t toks -> (exists m, ser t = 60%N :: m) /\ right_free x (ser t)) ->
  occ x (ser_all ser toks) = sum_ser x ser toks.
Proof.
  intros Hx Hlt H.
  assert (W : ser_all ser toks = weave (map (fun t => ([], ser t)) toks) []).
  { unfold ser_all. induction toks as [|t r IH]; cbn [map concat weave app]; [reflexivity|]. rewrite IH; [reflexivity|].
    intros t' Ht'. apply H. right. exact Ht'. }
  rewrite W. pose proof (occ_weave x Hx Hlt (map (fun t => ([], ser t)) toks) [] []) as O. cbn [app] in O. rewrite O.
  - rewrite map_map. reflexivity.
  - rewrite Forall_map. apply Forall_forall. intros t Ht. cbn [snd]. right. apply H. exact Ht.
  - rewrite map_map. cbn [fst]. rewrite concat_nils. cbn [app]. destruct x; [contradiction|reflexivity].
Qed.

(* ---------- render_dependencies as a whole ---------- *)
Lemma render_deps_doc ser tbl t d tail dd :
  clean (doc_text d tail) -> Forall wf_part (doc_parts d) -> process_parts tbl t (doc_parts d) = Ok dd ->
  render_deps ser tbl t (doc_bytes d tail) =
  Ok (assemble t (doc_text d tail) (ser_all ser (d_js dd)) (ser_all ser (d_css dd))).
Proof.
  intros Hc Hw Hp. unfold render_deps. rewrite (process_doc_lemma tbl t d tail Hc Hw), Hp. reflexivity.
Qed.

Lemma final_counts_lemma ser tbl d tail pd ptail dd x :
  clean (doc_text d tail) -> Forall wf_part (doc_parts d) ->
  doc_text d tail = phdoc_bytes pd ptail -> ph_pieces_ok pd ptail ->
  process_parts tbl Document (doc_parts d) = Ok dd ->
  x <> [] -> lt_free x -> ser_ok x ser (d_js dd) -> ser_ok x ser (d_css dd) ->
  contains x (phdoc_text pd ptail) = false ->
  exists out, render_deps ser tbl Document (doc_bytes d tail) = Ok out /\
    let m := phdoc_mask pd ptail (ser_all ser (d_js dd)) (ser_all ser (d_css dd)) in
    occ x out = (copies KJs pd m * sum_ser x ser (d_js dd) + copies KCss pd m * sum_ser x ser (d_css dd))%nat.
Proof.
  intros Hc Hw Ht Hp Hpr Hx Hlt Sj Sc Hcl. eexists. split; [apply render_deps_doc; eassumption|].
  cbv zeta. rewrite Ht.
  rewrite (assembled_occurrences_lemma x pd ptail _ _ Hx Hlt (iso_ser_all x ser _ Sj) (iso_ser_all x ser _ Sc) Hp Hcl).
  rewrite (occ_ser_all x ser _ Hx Hlt Sj), (occ_ser_all x ser _ Hx Hlt Sc). reflexivity.
Qed.

Lemma final_counts_fragment_lemma ser tbl d tail pd ptail dd x :
  clean (doc_text d tail) -> Forall wf_part (doc_parts d) ->
  doc_text d tail = phdoc_bytes pd ptail -> ph_pieces_ok pd ptail ->
  process_parts tbl Fragment (doc_parts d) = Ok dd ->
  x <> [] -> lt_free x -> ser_ok x ser (d_js dd) ->
  contains x (phdoc_text pd ptail) = false ->
  exists out, render_deps ser tbl Fragment (doc_bytes d tail) = Ok out /\
    out = phdoc_text pd ptail ++ ser_all ser (d_js dd) /\ occ x out = sum_ser x ser (d_js dd).
Proof.
  intros Hc Hw Ht Hp Hpr Hx Hlt Sj Hcl. eexists. split; [apply render_deps_doc; eassumption|].
  rewrite Ht. split; [apply assemble_frag_phdoc; exact Hp|].
  rewrite (fragment_occurrences_lemma x pd ptail _ _ Hx Hlt (iso_ser_all x ser _ Sj) Hp Hcl).
  apply occ_ser_all; assumption.
Qed.

(* exactly one of the tags carries x, once *)
Lemma sum_single x (ser : tok -> str) l1 t0 l2 :
  occ x (ser t0) = 1 -> (forall t, In t (l1 ++ l2) -> occ x (ser t) = O) ->
  sum_ser x ser (l1 ++ t0 :: l2) = 1.
Proof.
  intros H1 H0.
  assert (Z : forall l, (forall t, In t l -> occ x (ser t) = O) -> sum_ser x ser l = O).
  { induction l as [|a r IH]; intro H; [reflexivity|]. unfold list_sum in *. cbn [map fold_right].
    rewrite (H a (or_introl eq_refl)), IH; [reflexivity|]. intros t Ht. apply H. right. exact Ht. }
  rewrite map_app, list_sum_app. cbn [map]. unfold list_sum at 2. cbn [fold_right]. fold (list_sum (map (fun t => occ x (ser t)) l2)).
  rewrite H1, (Z l1), (Z l2); [reflexivity| |]; intros t Ht; apply H0; apply in_or_app; tauto.
Qed.

(* ================================================================================================ *)
(* neither marker word nor placeholder word in the final bytes                                       *)
(* ================================================================================================ *)
Lemma tagged_iso x b : tagged b -> ~ In 62%N (removelast x) -> iso x b.
Proof.
  intros [->|[m ->]] Hn; [left; reflexivity|]. right. split; [eexists; reflexivity|].
  intros u v b' Hx Hu Hv E.
  rewrite (app_removelast_last 0%N Hu) in E. rewrite app_assoc in E.
  change (60%N :: m ++ [62%N]) with ((60%N :: m) ++ [62%N]) in E.
  apply app_inj_tail in E as [_ E]. apply Hn. rewrite Hx, (removelast_app u Hv). apply in_or_app. left.
  rewrite (app_removelast_last 0%N Hu), <- E. apply in_or_app. right. left. reflexivity.
Qed.

Lemma final_word_free_lemma w t d tail js css :
  w <> [] -> lt_free w -> ~ In 62%N (removelast w) ->
  ph_pieces_ok d tail -> tagged js -> tagged css ->
  contains w (phdoc_text d tail) = false -> contains w js = false -> contains w css = false ->
  contains w (assemble t (phdoc_bytes d tail) js css) = false.
Proof.
  intros Hw Hlt Hgt Hp Tj Tc Hcl Hj Hc. apply (occ_contains w _ Hw).
  apply (occ_contains w _ Hw) in Hj, Hc. destruct t.
  - rewrite (assembled_occurrences_lemma w d tail js css Hw Hlt (tagged_iso w js Tj Hgt) (tagged_iso w css Tc Hgt) Hp Hcl).
    rewrite Hj, Hc. lia.
  - rewrite (fragment_occurrences_lemma w d tail js css Hw Hlt (tagged_iso w js Tj Hgt) Hp Hcl). exact Hj.
Qed.

Lemma rescan_finds_nothing s js css : ph_clean s -> subst_placeholders s js css = (s, false, false).
Proof.
  intro H. unfold subst_placeholders. rewrite <- (app_nil_r s) at 1 2 3.
  rewrite (scan_ph_text s [] H (or_introl eq_refl)). cbn [scan]. rewrite app_nil_r.
  rewrite subst_items_text, !has_hit_text. reflexivity.
Qed.

(* ================================================================================================ *)
(* the boolean checks of the correspondence run establish the hypotheses                            *)
(* ================================================================================================ *)
Lemma wf_partb_spec p : wf_partb p = true -> wf_part p.
Proof.
  destruct p as [[[h id] js] css]. unfold wf_partb, wf_part. intro H.
  repeat (apply andb_true_iff in H as [H ?]).
  repeat split; try assumption.
  - destruct h; [discriminate|discriminate].
  - destruct id; [discriminate|discriminate].
Qed.

Lemma ph_pieces_of_whole d : forall tail, ph_clean (phdoc_text d tail) -> Forall ph_wf (map snd d) -> ph_pieces_ok d tail.
Proof.
  unfold phdoc_text, ph_pieces_ok. induction d as [|[t p] r IH]; intros tail H W; cbn [map concat fst snd app] in *.
  - split; [constructor|exact H].
  - unfold ph_clean in H. rewrite <- app_assoc in H. apply contains_app_false in H as [H1 H2].
    inversion W; subst. destruct (IH tail H2) as [F T]; [assumption|].
    split; [constructor; [split; assumption|exact F]|exact T].
Qed.

Lemma check_doc_sound content d tail : check_doc (content, d, tail) = true ->
  content = doc_bytes d tail /\ clean (doc_text d tail) /\ Forall wf_part (doc_parts d).
Proof.
  unfold check_doc, cleanb, clean. intro H. apply andb_true_iff in H as [H H3]. apply andb_true_iff in H as [H1 H2].
  split; [apply str_eqb_eq; exact H1|]. split; [apply negb_true_iff; exact H2|].
  apply Forall_forall. intros p Hp. apply wf_partb_spec. rewrite forallb_forall in H3. apply H3. exact Hp.
Qed.

Lemma check_phdoc_sound content d tail : check_phdoc (content, d, tail) = true ->
  content = phdoc_bytes d tail /\ ph_clean (phdoc_text d tail) /\ ph_pieces_ok d tail.
Proof.
  unfold check_phdoc, ph_cleanb. intro H. apply andb_true_iff in H as [H H3]. apply andb_true_iff in H as [H1 H2].
  apply negb_true_iff in H2.
  split; [apply str_eqb_eq; exact H1|]. split; [exact H2|]. apply ph_pieces_of_whole; [exact H2|].
  apply Forall_forall. intros p Hp. rewrite forallb_forall in H3. apply H3. exact Hp.
Qed.

(* right_freeb decides right_free *)
Lemma prefixes_In u : forall v, In u (prefixes (u ++ v)).
Proof.
  induction u as [|c r IH]; intro v; cbn [app prefixes].
  - destruct v; left; reflexivity.
  - right. apply in_map. apply IH.
Qed.

Lemma ends_with_aux_app u : forall b', ends_with_aux u (b' ++ u) (length b') = true.
Proof.
  induction b' as [|c r IH]; cbn [app length]; [|cbn [ends_with_aux]; exact IH].
  destruct u; cbn [ends_with_aux]; apply str_eqb_refl.
Qed.

Lemma ends_with_app u b' : ends_with u (b' ++ u) = true.
Proof.
  unfold ends_with. rewrite app_length.
  assert (E : Nat.leb (length u) (length b' + length u) = true) by (apply Nat.leb_le; lia). rewrite E.
  replace (length b' + length u - length u) with (length b') by lia. apply ends_with_aux_app.
Qed.

Lemma right_freeb_spec x b : right_freeb x b = true -> right_free x b.
Proof.
  unfold right_freeb. intros H u v b' Hx Hu Hv E. rewrite forallb_forall in H.
  specialize (H u). rewrite Hx in H. specialize (H (prefixes_In u v)).
  apply orb_true_iff in H as [H|H]; [apply orb_true_iff in H as [H|H]|].
  - destruct u; [contradiction|discriminate].
  - apply str_eqb_eq in H. rewrite <- (app_nil_r u) in H at 1. apply app_inv_head in H. subst v. contradiction.
  - rewrite E, ends_with_app in H. discriminate.
Qed.

(* ================================================================================================ *)
(* what `found_endtag` means: the searched text has an end tag of that kind somewhere                *)
(* ================================================================================================ *)
Lemma has_tag_cons e c r : has_tag e (c :: r) <-> (exists n, match_endtag (c :: r) = Some (e, n)) \/ has_tag e r.
Proof.
  unfold has_tag. split.
  - intros [j [n H]]. destruct j; [left; exists n; exact H|right; exists j, n; exact H].
  - intros [[n H]|[j [n H]]]; [exists 0, n; exact H|exists (S j), n; exact H].
Qed.

Lemma has_tag_nil e : ~ has_tag e [].
Proof. intros [j [n H]]. destruct j; discriminate. Qed.

Lemma endtags_found s : forall i fh lb,
  (fst (endtags s i fh lb) <> None <-> fh <> None \/ has_tag EHead s) /\
  (snd (endtags s i fh lb) <> None <-> lb <> None \/ has_tag EBody s).
Proof.
  induction s as [|c r IH]; intros i fh lb; cbn [endtags].
  - cbn [fst snd]. split; (split; [intro H; left; exact H|intros [H|H]; [exact H|destruct (has_tag_nil _ H)]]).
  - rewrite !has_tag_cons. destruct (match_endtag (c :: r)) as [[[|] n]|] eqn:E.
    + destruct (IH (S i) (match fh with None => Some i | x => x end) lb) as [A B]. split.
      * split; [intros _; right; left; exists n; reflexivity|]. intros _. apply A. left. destruct fh; discriminate.
      * rewrite B. split; (intros [H|H]; [left; exact H|right]).
        -- right. exact H.
        -- destruct H as [[n' H]|H]; [discriminate|exact H].
    + destruct (IH (S i) fh (Some i)) as [A B]. split.
      * rewrite A. split; (intros [H|H]; [left; exact H|right]).
        -- right. exact H.
        -- destruct H as [[n' H]|H]; [discriminate|exact H].
      * split; [intros _; right; left; exists n; reflexivity|]. intros _. apply B. left. discriminate.
    + destruct (IH (S i) fh lb) as [A B]. split.
      * rewrite A. split; (intros [H|H]; [left; exact H|right]).
        -- right. exact H.
        -- destruct H as [[n' H]|H]; [discriminate|exact H].
      * rewrite B. split; (intros [H|H]; [left; exact H|right]).
        -- right. exact H.
        -- destruct H as [[n' H]|H]; [discriminate|exact H].
Qed.

Lemma found_endtag_spec k s :
  found_endtag k s = true <-> has_tag (match k with KCss => EHead | KJs => EBody end) s.
Proof.
  unfold found_endtag. destruct (endtags_found s 0 None None) as [A B].
  destruct (endtags s 0 None None) as [fh lb]. cbn [fst snd] in A, B. destruct k.
  - destruct lb; split; intro H; try reflexivity; try discriminate.
    + destruct (proj1 B) as [X|X]; [discriminate|contradiction|exact X].
    + exfalso. apply (proj2 B); [right; exact H|reflexivity].
  - destruct fh; split; intro H; try reflexivity; try discriminate.
    + destruct (proj1 A) as [X|X]; [discriminate|contradiction|exact X].
    + exfalso. apply (proj2 A); [right; exact H|reflexivity].
Qed.

Lemma ser_okb_spec x ser toks : ser_okb x ser toks = true -> ser_ok x ser toks.
Proof.
  unfold ser_okb, ser_ok. intros H t Ht. rewrite forallb_forall in H. specialize (H t Ht).
  destruct (ser t) as [|c r] eqn:E; [discriminate|]. apply andb_true_iff in H as [H1 H2].
  apply N.eqb_eq in H1. subst c. split; [eexists; reflexivity|]. apply right_freeb_spec. exact H2.
Qed.

(* ================================================================================================ *)
(* statements as used in Props/C04.v                                                                 *)
(* ================================================================================================ *)
Lemma placeholders_all_replaced_lemma d tail js_b css_b :
  ph_pieces_ok d tail ->
  subst_placeholders (phdoc_bytes d tail) js_b css_b = (phdoc_subst d tail js_b css_b, has_kind KJs d, has_kind KCss d).
Proof. intros [Hd Ht]. apply placeholders_replaced_lemma; assumption. Qed.

Lemma fragment_occurrences_full_lemma x d tail js_b css_b :
  x <> [] -> lt_free x -> iso x js_b -> ph_pieces_ok d tail ->
  contains x (phdoc_text d tail) = false ->
  assemble Fragment (phdoc_bytes d tail) js_b css_b = phdoc_text d tail ++ js_b /\
  occ x (assemble Fragment (phdoc_bytes d tail) js_b css_b) = occ x js_b.
Proof.
  intros Hx Hlt Hj Hp Hc. split; [apply assemble_frag_phdoc; exact Hp|].
  apply fragment_occurrences_lemma; assumption.
Qed.

Lemma word_lt_free w : existsb (N.eqb 60%N) (tl w) = false -> lt_free w.
Proof.
  unfold lt_free. intros H Hin. assert (E : existsb (N.eqb 60%N) (tl w) = true).
  { apply existsb_exists. exists 60%N. split; [exact Hin|reflexivity]. }
  congruence.
Qed.
Lemma word_gt_free w : existsb (N.eqb 62%N) (removelast w) = false -> ~ In 62%N (removelast w).
Proof.
  intros H Hin. assert (E : existsb (N.eqb 62%N) (removelast w) = true).
  { apply existsb_exists. exists 62%N. split; [exact Hin|reflexivity]. }
  congruence.
Qed.

Lemma no_marker_word_lemma t d tail js_b css_b :
  ph_pieces_ok d tail -> tagged js_b -> tagged css_b ->
  clean (phdoc_text d tail) -> clean js_b -> clean css_b ->
  clean (assemble t (phdoc_bytes d tail) js_b css_b).
Proof.
  unfold clean. apply final_word_free_lemma; [discriminate|apply word_lt_free; reflexivity|apply word_gt_free; reflexivity].
Qed.

Lemma no_placeholder_lemma t d tail js_b css_b :
  ph_pieces_ok d tail -> tagged js_b -> tagged css_b ->
  ph_clean (phdoc_text d tail) -> ph_clean js_b -> ph_clean css_b ->
  let out := assemble t (phdoc_bytes d tail) js_b css_b in
  ph_clean out /\ forall j c, subst_placeholders out j c = (out, false, false).
Proof.
  intros Hp Tj Tc H1 H2 H3. cbv zeta.
  assert (C : ph_clean (assemble t (phdoc_bytes d tail) js_b css_b)).
  { unfold ph_clean in *. apply final_word_free_lemma; try assumption;
      [discriminate|apply word_lt_free; reflexivity|apply word_gt_free; reflexivity]. }
  split; [exact C|]. intros j c. apply rescan_finds_nothing. exact C.
Qed.

Lemma check_page_sound t tbl d tail ph toks fin :
  check_page (t, tbl, (d, tail), ph, toks, fin) = true ->
  clean (doc_text d tail) /\ Forall wf_part (doc_parts d) /\
  exists pd pt, doc_text d tail = phdoc_bytes pd pt /\ ph_clean (phdoc_text pd pt) /\ ph_pieces_ok pd pt.
Proof.
  unfold check_page, page_diag. destruct toks as [js css]. destruct fin as [[js_s css_s] final].
  destruct (page_hyp_emit d tail) eqn:E1; [|intro H; apply N.eqb_eq in H; exfalso; lia].
  destruct (page_hyp_ph (doc_text d tail) ph) eqn:E2; [|intro H; apply N.eqb_eq in H; exfalso; lia].
  intros _. unfold page_hyp_emit in E1. apply andb_true_iff in E1 as [E1 E1'].
  split; [unfold clean; apply negb_true_iff; exact E1|]. split.
  { apply Forall_forall. intros p Hp. apply wf_partb_spec. rewrite forallb_forall in E1'. apply E1'. exact Hp. }
  unfold page_hyp_ph in E2. destruct ph as [[pd pt]|].
  - exists pd, pt. apply check_phdoc_sound. exact E2.
  - exists [], (doc_text d tail). unfold ph_cleanb in E2. apply negb_true_iff in E2.
    split; [reflexivity|]. split; [exact E2|]. split; [constructor|exact E2].
Qed.
