(* Property C16, clause "template / js / css (or the _file forms) are taken from the nearest class in the MRO that defines
   either member of the pair" when PLAIN (non-component) classes of the MRO define such members.
   `_get_comp_cls_attr` skips every class without `_component_media`, so the code implements `nearest_defining`
   (component classes only).  The literal reading is `nearest_any`.  They agree exactly when no plain class of the MRO
   defines a member of the pair; otherwise the model of the current code is refuted by a 3-class witness
   (corpus/C16/plain-mixin-pair.json replays it on the real code; trigger c16-plain-mixin-pair-ignored). *)
From DJC Require Import Lib.Base Media.Model Media.Proofs.

Lemma nearest_any_spec t p : forall m cl, nearest_any t p m = Some cl ->
  exists m1 b m2, m = m1 ++ b :: m2 /\ nth_error t b = Some cl /\ pair_empty (get_pair p cl) = false /\
    forall x c, In x m1 -> nth_error t x = Some c -> pair_empty (get_pair p c) = true.
Proof.
  induction m as [|b m IH]; intros cl H; [discriminate|]. cbn [nearest_any] in H.
  destruct (nth_error t b) as [c|] eqn:E.
  - destruct (pair_empty (get_pair p c)) eqn:Ep; cbn [negb] in H.
    + destruct (IH cl H) as (m1 & b' & m2 & -> & Hn & Hp & Hall).
      exists (b :: m1), b', m2. split; [reflexivity|]. split; [exact Hn|]. split; [exact Hp|].
      intros x c0 [<- | Hx] Hx0; [rewrite E in Hx0; inversion Hx0; subst; exact Ep | exact (Hall x c0 Hx Hx0)].
    + inversion H; subst c. exists [], b, m. split; [reflexivity|]. split; [exact E|]. split; [exact Ep|]. intros x c0 [].
  - destruct (IH cl H) as (m1 & b' & m2 & -> & Hn & Hp & Hall).
    exists (b :: m1), b', m2. split; [reflexivity|]. split; [exact Hn|]. split; [exact Hp|].
    intros x c0 [<- | Hx] Hx0; [congruence | exact (Hall x c0 Hx Hx0)].
Qed.

(* no plain class of the MRO defines a member of the pair => the code's choice IS the nearest class of any kind *)
Lemma nearest_any_agrees t p : forall m,
  (forall b, In b m -> plain_definer t p b = false) -> nearest_defining t p m = nearest_any t p m.
Proof.
  induction m as [|b m IH]; intro H; [reflexivity|]. cbn [nearest_defining nearest_any].
  assert (Hm : forall x, In x m -> plain_definer t p x = false) by (intros x Hx; apply H; right; exact Hx).
  pose proof (H b (or_introl eq_refl)) as Hb. unfold plain_definer in Hb.
  destruct (nth_error t b) as [c|]; [|exact (IH Hm)].
  destruct (pair_empty (get_pair p c)); cbn [negb andb] in *.
  - rewrite andb_false_r. exact (IH Hm).
  - rewrite andb_true_r in *. apply negb_false_iff in Hb. rewrite Hb. reflexivity.
Qed.

(* the same under the weaker guard: no plain class defines a member BEFORE the class the code picks
   (plain definers after it do not matter) *)
Lemma nearest_any_agrees_walked t p : forall m,
  (forall b, In b (walked t p m) -> plain_definer t p b = false) -> nearest_defining t p m = nearest_any t p m.
Proof.
  induction m as [|b m IH]; intro H; [reflexivity|]. cbn [nearest_defining nearest_any walked] in *.
  unfold plain_definer in H at 1.
  destruct (nth_error t b) as [c|] eqn:E.
  - destruct (pair_empty (get_pair p c)) eqn:Ep; cbn [negb andb] in *.
    + rewrite andb_false_r in *. apply IH. intros x Hx. apply H. right. exact Hx.
    + rewrite andb_true_r in *. destruct (c_comp c) eqn:Ec; [reflexivity|].
      specialize (H b (or_introl eq_refl)). rewrite E, Ec, Ep in H. discriminate.
  - apply IH. intros x Hx. apply H. right. exact Hx.
Qed.

Lemma attr_nearest_any_guarded t c p fm m : mro_of t c = Some m ->
  (forall b, In b (walked t p m) -> plain_definer t p b = false) ->
  attr_spec t c p fm = match nearest_any t p m with Some cl => pair_value fm (get_pair p cl) | None => None end.
Proof. intros Hm H. unfold attr_spec. rewrite Hm, (nearest_any_agrees_walked t p m H). reflexivity. Qed.

(* the value every access returns (attr_spec, by access_order_independent) under that premise *)
Lemma attr_nearest_any_no_plain_definer t c p fm m : mro_of t c = Some m ->
  (forall b, In b m -> plain_definer t p b = false) ->
  attr_spec t c p fm = match nearest_any t p m with Some cl => pair_value fm (get_pair p cl) | None => None end.
Proof. intros Hm H. unfold attr_spec. rewrite Hm, (nearest_any_agrees t p m H). reflexivity. Qed.

(* conversely: the first plain definer that precedes every component definer is what the code skips *)
Lemma plain_definer_first_skipped t p : forall m b m2 cl,
  (forall x c, In x m -> nth_error t x = Some c -> pair_empty (get_pair p c) = true) ->
  nth_error t b = Some cl -> plain_definer t p b = true ->
  nearest_any t p (m ++ b :: m2) = Some cl /\ nearest_defining t p (m ++ b :: m2) = nearest_defining t p m2.
Proof.
  induction m as [|x m IH]; intros b m2 cl Hall Hb Hp.
  - cbn [app nearest_any nearest_defining]. unfold plain_definer in Hp. rewrite Hb in *.
    apply andb_true_iff in Hp as [Hc He]. rewrite He. apply negb_true_iff in Hc. rewrite Hc. split; reflexivity.
  - cbn [app nearest_any nearest_defining].
    assert (Hm : forall y c, In y m -> nth_error t y = Some c -> pair_empty (get_pair p c) = true)
      by (intros y c Hy; apply Hall; right; exact Hy).
    destruct (nth_error t x) as [c|] eqn:E; [|exact (IH b m2 cl Hm Hb Hp)].
    rewrite (Hall x c (or_introl eq_refl) E). cbn [negb]. rewrite andb_false_r. exact (IH b m2 cl Hm Hb Hp).
Qed.

(* the current code against the literal reading: class M: template = 1 (plain); class P(Component): template = 2;
   class C(M, P).  MRO of C = [C; M; P; Component; Generic; object]; nearest definer of any kind = M (value 1),
   every access C.template returns P's value 2. *)
Lemma attr_nearest_any_refuted : exists t c p fm m,
  wf t = true /\ create_error t = None /\ c < length t /\ mro_of t c = Some m /\
  attr_spec t c p fm <> match nearest_any t p m with Some cl => pair_value fm (get_pair p cl) | None => None end.
Proof.
  exists [Cls [] false None [] (None, None) (None, None) (None, None);
          Cls [0] false None [] (None, None) (None, None) (None, None);
          Cls [1] true None [] (None, None) (None, None) (None, None);
          Cls [0] false None [] (Some 1%N, None) (None, None) (None, None);
          Cls [2] true None [] (Some 2%N, None) (None, None) (None, None);
          Cls [3; 4] true None [] (None, None) (None, None) (None, None)], 5, PTpl, false, [5; 3; 4; 2; 1; 0].
  vm_compute. repeat split; try lia. intro H. discriminate.
Qed.
