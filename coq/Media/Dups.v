(* Property C16, order clause with DUPLICATES inside one declared list.
   Media.merge adds no edge between equal neighbours, so adjacent repeats are harmless: the order theorem holds for
   `wconsistent` lists (every list, with adjacent repeats squashed, is a subsequence of one duplicate-free list) and
   speaks about the squashed lists.  A repeat that is not adjacent (a, b, a) makes the list inconsistent with itself:
   `wconsistent` fails, Django warns and falls back to first-occurrence order (Examples at the end); the file-set
   theorem still applies. *)
From DJC Require Import Lib.Base Media.Model Media.Proofs Media.Complete.

Lemma squash_cons a r : exists r', squash (a :: r) = a :: r'.
Proof.
  revert a. induction r as [|b r IH]; intro a.
  - exists []. reflexivity.
  - cbn [squash]. destruct (N.eqb a b) eqn:E.
    + apply N.eqb_eq in E. subst b. exact (IH a).
    + eexists. reflexivity.
Qed.

Lemma squash_unfold a b r :
  squash (a :: b :: r) = if N.eqb a b then squash (b :: r) else a :: squash (b :: r).
Proof. reflexivity. Qed.

Lemma chain_edges_squash : forall l, chain_edges (squash l) = chain_edges l.
Proof.
  induction l as [|a l IH]; [reflexivity|]. destruct l as [|b r]; [reflexivity|].
  rewrite squash_unfold, chain_edges_unfold. destruct (N.eqb a b) eqn:E.
  - exact IH.
  - destruct (squash_cons b r) as (r' & Hr'). rewrite Hr' in *. rewrite chain_edges_unfold, E, IH. reflexivity.
Qed.

Lemma squash_In x : forall l, In x (squash l) <-> In x l.
Proof.
  induction l as [|a l IH]; [tauto|]. destruct l as [|b r]; [tauto|].
  rewrite squash_unfold. destruct (N.eqb a b) eqn:E.
  - apply N.eqb_eq in E. subst b. rewrite IH. cbn [In]. tauto.
  - cbn [In] in *. rewrite IH. tauto.
Qed.

Lemma squash_nil l : squash l = [] -> l = [].
Proof. destruct l as [|a r]; [reflexivity|]. destruct (squash_cons a r) as (r' & H). rewrite H. discriminate. Qed.

Lemma squash_NoDup_id : forall l, NoDup l -> squash l = l.
Proof.
  induction l as [|a l IH]; intro H; [reflexivity|]. destruct l as [|b r]; [reflexivity|].
  inversion H as [|? ? Ha Hl]; subst. rewrite squash_unfold.
  assert (E : N.eqb a b = false) by (apply N.eqb_neq; intro; subst; apply Ha; left; reflexivity).
  rewrite E, (IH Hl). reflexivity.
Qed.

(* the old premise is a special case of the new one *)
Lemma consistent_wconsistent ls : consistent ls -> wconsistent ls.
Proof.
  intros (r & Hr & Hall). exists r. split; [exact Hr|]. intros l Hl.
  rewrite squash_NoDup_id; [exact (Hall l Hl)|]. exact (subseqb_NoDup r l (Hall l Hl) Hr).
Qed.

(* a list with a non-adjacent repeat can never be part of a wconsistent family *)
Lemma wconsistent_squash_NoDup ls : wconsistent ls -> forall l, In l ls -> NoDup (squash l).
Proof. intros (r & Hr & Hall) l Hl. exact (subseqb_NoDup r _ (Hall l Hl) Hr). Qed.

(* Media.merge never warns on wconsistent lists *)
Lemma merge_complete_w ls : wconsistent ls -> snd (merge ls) = false.
Proof.
  intros (r & Hr & Hall). unfold merge.
  set (ls' := filter nonemptyb ls). set (nodes := dedupe (concat ls')). set (E := flat_map chain_edges ls').
  assert (Hends : forall u v, In (u, v) E -> In u nodes /\ In v nodes /\ pos u r < pos v r).
  { intros u v H. apply in_flat_map in H as (l & Hl & H). destruct (chain_edges_In l u v H) as [A B].
    split; [|split]; try (apply dedupe_In, in_concat; exists l; auto).
    apply filter_In in Hl as [Hl _]. rewrite <- chain_edges_squash in H.
    exact (edge_pos r (squash l) u v (Hall l Hl) Hr H). }
  rewrite (kahn_complete nodes E r); [rewrite Nat.eqb_refl; reflexivity | | | |apply dedupe_NoDup];
    intros u v H; destruct (Hends u v H) as (A & B & C); assumption.
Qed.

(* when merge did not warn, every list whose squashed form is duplicate-free keeps its (squashed) order *)
Lemma merge_order_squash ls : snd (merge ls) = false ->
  forall l, In l ls -> NoDup (squash l) -> subseqb (squash l) (fst (merge ls)) = true.
Proof.
  unfold merge. set (ls' := filter nonemptyb ls). set (nodes := dedupe (concat ls')).
  set (E := flat_map chain_edges ls').
  assert (Hnodes : forall u v, In (u, v) E -> In v nodes).
  { intros u v H. apply in_flat_map in H as (l & Hl & H). apply chain_edges_In in H as [_ H].
    apply dedupe_In, in_concat. exists l; auto. }
  destruct (kahn_inv nodes E Hnodes (dedupe_NoDup _)) as (K1 & K2 & K3).
  destruct (Nat.eqb (length (kahn nodes E)) (length nodes)) eqn:El; cbn [fst snd]; [|discriminate].
  apply Nat.eqb_eq in El.
  assert (K4 : incl nodes (kahn nodes E)) by (apply NoDup_length_incl; [exact K1 | lia | exact K2]).
  intros _ l Hl Hnd. destruct l as [|a l0] eqn:El0; [apply subseqb_nil|]. rewrite <- El0 in *.
  assert (Hl' : In l ls') by (apply filter_In; split; [exact Hl | subst l; reflexivity]).
  apply (chain_subseq E (kahn nodes E) [] (squash l) K3 K1); auto.
  - intros x Hx. apply (proj1 (squash_In x l)) in Hx. apply K4, dedupe_In, in_concat. exists l; auto.
  - apply chain_edges_chain; [exact Hnd|]. rewrite chain_edges_squash. intros e He. apply in_flat_map. exists l; auto.
Qed.

(* Order, full statement incl. duplicates, for the code as it is (individual lists kept): if the lists declared by
   the contributing classes are wconsistent, each of them - adjacent repeats squashed - is a subsequence of the result *)
Lemma order_consistent_dups eager t k c :
  wconsistent (map (declared eager t k) (contributors t c)) ->
  forall d, In d (contributors t c) ->
  subseqb (squash (declared eager t k d)) (observe (spec false eager t k c)) = true.
Proof.
  intros (r & Hr & Hall) d Hd. unfold observe, spec, contributors in *.
  set (v := spec_n false eager (S c) t k c) in *.
  assert (Hcons : wconsistent (fst v)).
  { exists r. split; [exact Hr|]. intros l Hl.
    apply (proj1 (spec_n_unflat_lists eager t k (S c) c l)) in Hl as [-> | (d' & Hd' & ->)]; [apply subseqb_nil|].
    apply Hall, in_map, Hd'. }
  destruct (proj2 (spec_n_unflat_lists eager t k (S c) c (declared eager t k d)) d Hd eq_refl) as [H | H].
  - rewrite H. apply subseqb_nil.
  - apply (merge_order_squash _ (merge_complete_w _ Hcons)); [exact H|].
    apply (subseqb_NoDup r); [|exact Hr]. apply Hall, in_map, Hd.
Qed.

(* ---------- what happens with a repeat that is not adjacent ---------- *)
(* one list [1;2;1]: cycle 1 -> 2 -> 1, Django warns and keeps first occurrences; adjacent repeats do not warn *)
Example dup_nonadjacent_warns : merge [[1; 2; 1]%N] = ([1; 2]%N, true).
Proof. reflexivity. Qed.
Example dup_adjacent_harmless : merge [[1; 1; 2]%N; [2; 2; 3]%N] = ([1; 2; 3]%N, false).
Proof. reflexivity. Qed.
(* the fallback may then break the order of ANOTHER, duplicate-free list: [3;1] is declared, the result has 1 before 3 *)
Example dup_nonadjacent_breaks_other :
  merge [[1; 2; 1]%N; [3; 1]%N] = ([1; 2; 3]%N, true) /\ subseqb [3; 1]%N [1; 2; 3]%N = false.
Proof. split; reflexivity. Qed.
(* premises of order_consistent_dups are satisfiable with real repeats *)
Example wconsistent_example : wconsistent [[1; 1; 2]%N; [2; 2; 3]%N; []].
Proof.
  exists [1; 2; 3]%N. split.
  - repeat constructor; cbn; intuition discriminate.
  - intros l H. repeat (destruct H as [<- | H]; [reflexivity|]). contradiction.
Qed.
