(* Property C16: source anchors.  coq/Gen/C16.v is regenerated from /repo's component_media.py on every run
   (harness/gen_c16.py); each Example below ties a name / constant / code shape the model is built on to the source by
   `reflexivity`, so that an edit of it breaks a proof obligation of Props/C16.v (which imports this file). *)
From Coq Require Import String.
From DJC Require Import Lib.Base Media.Model Media.Names Media.Forms.
From DJC Require Gen.C16.

(* every constant below could be read from the source in its expected shape (an unreadable one is a sentinel + an entry here) *)
Example generator_ok_anchor : Gen.C16.generator_errors = [].
Proof. reflexivity. Qed.

(* the attributes intercepted by the descriptors are exactly the model's access kinds: AMedia and AAttr p file_member *)
Example lazy_attrs_anchor : Gen.C16.lazy_attrs = access_names.
Proof. reflexivity. Qed.

Lemma access_name_lazy a : In (access_name a) Gen.C16.lazy_attrs.
Proof. rewrite lazy_attrs_anchor. destruct a as [c | c [] []]; cbn; tauto. Qed.

(* ComponentMedia holds the raw Media and the three inline/file pairs (the model's c_media, c_tpl, c_js, c_css),
   `resolved` starts False (init: s_resolved = []), every member defaults to None (pair_empty) *)
Example media_fields_anchor :
  Gen.C16.media_fields = s2n "comp_cls"%string :: s2n "resolved"%string :: s2n "Media"%string :: flat_map pair_names all_pairs
  /\ Gen.C16.media_field_defaults_ok = true.
Proof. split; reflexivity. Qed.

(* ComponentMedia.__post_init__ rejects `x` together with `x_file` for x in template, js, css (pair_both / class_error) *)
Example post_init_anchor :
  Gen.C16.post_init_inline_attrs = map pair_inline_name all_pairs /\ Gen.C16.post_init_file_suffix = file_suffix.
Proof. split; reflexivity. Qed.

(* ... by identity with None, not by truthiness: the empty string is a value (pair_both: Some _, Some _; Both.both_rejected_values) *)
Example post_init_test_anchor :
  Gen.C16.post_init_test = s2n "getattr(self, inlined_attr) is not None and getattr(self, file_attr) is not None"%string.
Proof. reflexivity. Qed.

(* _get_comp_cls_attr: for each pair, an access to either member stops at the first class where
   check_pair_empty(member, member_file) is false and returns that class's value (attr_walk / pair_empty / pair_value) *)
Example attr_rules_anchor :
  Gen.C16.attr_rules = map (fun p => (pair_names p, pair_names p)) [PJs; PCss; PTpl].
Proof. reflexivity. Qed.

(* check_pair_empty only READS the two members of the class being looked at (attr_walk changes nothing but the resolved set) *)
Example check_pair_empty_anchor :
  Gen.C16.check_pair_empty_body = [s2n "inline_attr_empty = getattr(comp_media, inline_attr, None) is None"%string;
                                   s2n "file_attr_empty = getattr(comp_media, file_attr, None) is None"%string;
                                   s2n "return inline_attr_empty and file_attr_empty"%string].
Proof. reflexivity. Qed.

(* _get_comp_cls_media: the class's OWN Media (c_media = cls.__dict__.get("Media"), fix 4205522) ... *)
Example media_lookup_anchor : Gen.C16.media_lookup_expr = s2n "curr_cls.__dict__.get('Media', None)"%string.
Proof. reflexivity. Qed.

(* ... `extend` defaults to True (default_extend = ExtAll; `selected`, Forms.selected_no_media) ... *)
Example extend_default_anchor :
  ext_of_literal Gen.C16.extend_default = Some default_extend /\ Gen.C16.declared_extend_default = true.
Proof. split; reflexivity. Qed.

(* ... True -> __bases__, False -> (), otherwise the listed classes (`select_by`) ... *)
Example extend_dispatch_anchor :
  Gen.C16.extend_dispatch = [(s2n "media_extend is True"%string, s2n "curr_cls.__bases__"%string);
                             (s2n "media_extend is False"%string, s2n "tuple()"%string);
                             (s2n "else"%string, s2n "media_extend"%string)].
Proof. reflexivity. Qed.

(* ... a Media without js / css contributes [] / {} (raw_list) ... *)
Example media_defaults_anchor : Gen.C16.js_default = s2n "[]"%string /\ Gen.C16.css_default = s2n "{}"%string.
Proof. split; reflexivity. Qed.

(* ... and each selected base is added with Media.__add__, keeping the individual lists (add_base with flatten = false,
   fix 488c746; no sharing of list objects with the cached base) *)
Example base_loop_anchor :
  Gen.C16.base_loop_assignments = [s2n "media = media_cls()"%string;
                                   s2n "media._css_lists = merged_media._css_lists"%string;
                                   s2n "media._js_lists = merged_media._js_lists"%string;
                                   s2n "merged_media = media + base_media"%string]
  /\ current_flatten = false.
Proof. split; reflexivity. Qed.

(* _normalize_media files the str / list forms of Media.css under the medium "all" (css_all) *)
Example css_medium_anchor : Gen.C16.css_list_medium = [css_all_name].
Proof. reflexivity. Qed.
