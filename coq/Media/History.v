(* Property C16: the two defects of the code BEFORE commits a5a18f6 / 488c746, kept as machine-checked lemmas about
   the old variants of the model (flatten = true, eager = false).  Their witnesses are corpus/C16/flatten-*.json and
   relpath-access-order.json, which must pass on the current tree. *)
From DJC Require Import Lib.Base Media.Model Media.Proofs.

(* Before a5a18f6: `Cls.media` read before / after `Cls.template` differed when a Media file lies beside the module
   (class 3 = class C(Component): template = "v1"; Media.js = ["f1.js", "f2.js"], f1.js exists beside the module). *)
Lemma old_access_order_dependence : exists t k h c,
  wf t = true /\ create_error t = None /\ c < length t /\
  result_after true false t k [] (AMedia c) = Some (RMedia [1; 2]%N) /\
  result_after true false t k h (AMedia c) = Some (RMedia [101; 2]%N).
Proof.
  exists [Cls [] false None [] (None, None) (None, None) (None, None);
          Cls [0] false None [] (None, None) (None, None) (None, None);
          Cls [1] true None [] (None, None) (None, None) (None, None);
          Cls [2] true (Some (MDecl ExtAll [(0%N, [1; 2]%N)])) [(1%N, 101%N)] (Some 1%N, None) (None, None) (None, None)],
         0%N, [AAttr 3 PTpl false], 3.
  vm_compute. repeat split; auto.
Qed.

(* ... for tables without such files the old code was history independent as well *)
Lemma old_access_order_independent_no_relative : forall t k h,
  wf t = true -> create_error t = None -> no_relative t = true ->
  (forall a, In a h -> cls_of a < length t) ->
  exists st, run true false t k init h = Some (st, map (ideal true false t k) h).
Proof. intros t k h Hwf Hok Hrel. exact (history_independent _ _ t k Hwf (or_intror Hrel) Hok h). Qed.

(* Before 488c746 (flatten after every base): A(Component): js=[1]; B(A): js=[2,3]; C(B): js=[3,1].  The declared
   lists are all subsequences of [2,3,1], but C.media._js = [3,1,2] broke B's [2,3] (B's level was flattened to
   [2,1,3], which conflicts with [3,1]; Django's merge then falls back to concatenation). *)
Lemma old_order_inconsistent : exists t k c d,
  wf t = true /\ create_error t = None /\ no_relative t = true /\
  consistent (map (declared false t k) (contributors t c)) /\
  In d (contributors t c) /\
  subseqb (declared false t k d) (observe (spec true false t k c)) = false.
Proof.
  exists [Cls [] false None [] (None, None) (None, None) (None, None);
          Cls [0] false None [] (None, None) (None, None) (None, None);
          Cls [1] true None [] (None, None) (None, None) (None, None);
          Cls [2] true (Some (MDecl ExtAll [(0%N, [1]%N)])) [] (None, None) (None, None) (None, None);
          Cls [3] true (Some (MDecl ExtAll [(0%N, [2; 3]%N)])) [] (None, None) (None, None) (None, None);
          Cls [4] true (Some (MDecl ExtAll [(0%N, [3; 1]%N)])) [] (None, None) (None, None) (None, None)],
         0%N, 5, 4.
  split; [reflexivity|]. split; [vm_compute; reflexivity|]. split; [reflexivity|]. split.
  - exists [2; 3; 1]%N. split.
    + repeat constructor; cbn; intuition discriminate.
    + vm_compute. intros l H. repeat (destruct H as [<- | H]; [reflexivity|]). contradiction.
  - split; [vm_compute; auto | vm_compute; reflexivity].
Qed.

(* What did hold for the flattening variant: declared orders were kept as long as no merge on the way warned. *)
Lemma old_order_when_no_conflict : forall eager t k c,
  snd (spec true eager t k c) = false -> snd (merge (fst (spec true eager t k c))) = false ->
  (forall d, In d (contributors t c) -> NoDup (declared eager t k d)) ->
  forall d, In d (contributors t c) ->
  subseqb (declared eager t k d) (observe (spec true eager t k c)) = true.
Proof. exact order_when_no_conflict. Qed.
