(* Lemmas for property C16 (model: Media/Model.v). *)
From DJC Require Import Lib.Base Media.Model.

(* ================= basic facts ================= *)
Lemma memN_In x l : memN x l = true <-> In x l.
Proof.
  unfold memN. rewrite existsb_exists. split.
  - intros [y [Hy He]]. apply N.eqb_eq in He. subst. exact Hy.
  - intro H. exists x. split; [exact H | apply N.eqb_refl].
Qed.

Lemma memnat_In x l : memnat x l = true <-> In x l.
Proof.
  unfold memnat. rewrite existsb_exists. split.
  - intros [y [Hy He]]. apply Nat.eqb_eq in He. subst. exact Hy.
  - intro H. exists x. split; [exact H | apply Nat.eqb_refl].
Qed.

Lemma cached_cons {V} (l : list (nat * V)) c d v :
  cached ((c, v) :: l) d = true <-> d = c \/ cached l d = true.
Proof.
  unfold cached. cbn [clookup]. destruct (Nat.eqb d c) eqn:E.
  - apply Nat.eqb_eq in E. split; auto.
  - apply Nat.eqb_neq in E. split; [auto | intros [H | H]; [contradiction | exact H]].
Qed.

Lemma filter_nil_all {A} (f : A -> bool) l : filter f l = [] -> forall x, In x l -> f x = false.
Proof.
  induction l as [|a l IH]; cbn; intros H x Hx; [contradiction|].
  destruct (f a) eqn:E; [discriminate|]. destruct Hx as [<- | Hx]; auto.
Qed.

Lemma nonemptyb_false {A} (l : list A) : nonemptyb l = false -> l = [].
Proof. destruct l; cbn; [reflexivity | discriminate]. Qed.

Lemma list_sum_filter_le {A} (w : A -> nat) (f : A -> bool) l :
  list_sum (map w (filter f l)) <= list_sum (map w l).
Proof. induction l as [|a l IH]; simpl in *; [lia|]. destruct (f a); simpl in *; lia. Qed.

Lemma fold_left_ext_in {A B} (f g : A -> B -> A) l :
  (forall a b, In b l -> f a b = g a b) -> forall a, fold_left f l a = fold_left g l a.
Proof.
  induction l as [|b l IH]; cbn; intros H a; [reflexivity|].
  rewrite H by (left; reflexivity). apply IH. intros; apply H; right; assumption.
Qed.

(* ================= well-formed tables ================= *)
Lemma wf_from_nth i t : wf_from i t = true ->
  forall c cl, nth_error t c = Some cl ->
  (forall b, In b (selected cl) -> b < i + c) /\ (forall b, In b (c_bases cl) -> b < i + c).
Proof.
  revert i. induction t as [|x t IH]; intros i H c cl Hn.
  - destruct c; discriminate.
  - cbn in H. apply andb_true_iff in H as [H H3]. apply andb_true_iff in H as [H1 H2].
    destruct c as [|c]; cbn in Hn.
    + inversion Hn; subst. rewrite forallb_forall in H1, H2. split; intros b Hb.
      * apply H2 in Hb. apply Nat.ltb_lt in Hb. lia.
      * apply H1 in Hb. apply Nat.ltb_lt in Hb. lia.
    + destruct (IH (S i) H3 c cl Hn) as [A B]. split; intros b Hb; [apply A in Hb | apply B in Hb]; lia.
Qed.

Lemma wf_selected t : wf t = true -> forall c cl, nth_error t c = Some cl ->
  forall b, In b (selected cl) -> b < c.
Proof. intros H c cl Hn b Hb. destruct (wf_from_nth 0 t H c cl Hn) as [A _]. apply A in Hb. lia. Qed.

(* ================= the S-model does not depend on its fuel ================= *)
Section Spec.
  Variables (flatten eager : bool) (t : list cls) (k : N).
  Hypothesis Hwf : wf t = true.

  Lemma spec_n_irrel : forall n m c, c < n -> c < m ->
    spec_n flatten eager n t k c = spec_n flatten eager m t k c.
  Proof.
    induction n as [|n IH]; intros m c Hn Hm; [lia|].
    destruct m as [|m]; [lia|]. cbn [spec_n].
    destruct (nth_error t c) as [cl|] eqn:E; [|reflexivity].
    apply fold_left_ext_in. intros a b Hb.
    pose proof (wf_selected t Hwf c cl E b Hb). rewrite (IH m b) by lia. reflexivity.
  Qed.

  Lemma spec_unfold c cl : nth_error t c = Some cl ->
    spec flatten eager t k c =
    fold_left (fun cur b => add_base flatten cur (spec flatten eager t k b)) (selected cl)
              ([own_list k eager cl], false).
  Proof.
    intro E. unfold spec at 1. cbn [spec_n]. rewrite E.
    apply fold_left_ext_in. intros a b Hb.
    pose proof (wf_selected t Hwf c cl E b Hb). unfold spec.
    rewrite (spec_n_irrel c (S b) b) by lia. reflexivity.
  Qed.
End Spec.

(* ================= the work-stack with the memo computes the S-model ================= *)
Section Resolve.
  Variables (flatten eager : bool) (t : list cls) (k : N).
  Hypothesis Hwf : wf t = true.
  (* either the class is resolved before its Media is read (candidate repair), or no Media path names
     a file lying beside the component module *)
  Hypothesis Hrel : eager = true \/ no_relative t = true.

  Lemma own_list_stable c cl b : nth_error t c = Some cl ->
    own_list k (eager || b) cl = own_list k eager cl.
  Proof.
    intro E. destruct Hrel as [-> | Hn]; [reflexivity|].
    unfold no_relative in Hn. rewrite forallb_forall in Hn.
    pose proof (Hn cl (nth_error_In _ _ E)) as H. apply negb_true_iff in H. apply nonemptyb_false in H.
    unfold own_list. rewrite H.
    assert (Hid : forall l, map (apply_rel []) l = l).
    { induction l as [|x l IHl]; cbn; [reflexivity|]. rewrite IHl. reflexivity. }
    rewrite Hid. destruct eager, b; reflexivity.
  Qed.

  Notation sp := (spec flatten eager t k).

  Definition good (cache : list (nat * entry)) : Prop :=
    forall c e, clookup c cache = Some e ->
      c < length t /\ forall res, entry_val eager t k res c e = sp c.

  Lemma compute_spec cache res own bases : good cache ->
    (forall b, In b bases -> cached cache b = true) ->
    compute flatten eager t k res cache own bases =
    fold_left (fun cur b => add_base flatten cur (sp b)) bases ([own], false).
  Proof.
    intros Hg Hc. unfold compute. apply fold_left_ext_in. intros a b Hb.
    specialize (Hc b Hb). unfold cached in Hc. destruct (clookup b cache) as [e|] eqn:E; [|discriminate].
    destruct (Hg b e E) as [_ Hv]. rewrite Hv. reflexivity.
  Qed.

  (* one uncached class whose selected bases are all cached: the new entry denotes the S-model value *)
  Lemma good_add cache res c cl : good cache -> nth_error t c = Some cl ->
    (forall b, In b (selected cl) -> cached cache b = true) ->
    good ((c, if negb (nonemptyb (selected cl)) && negb (N.eqb k 0) then EAlias
              else EVal (compute flatten eager t k res cache (own_list k (eager || memnat c res) cl) (selected cl)))
            :: cache).
  Proof.
    intros Hg E Hc d e Hd. cbn [clookup] in Hd. destruct (Nat.eqb d c) eqn:Edc.
    - apply Nat.eqb_eq in Edc. subst d. split; [apply nth_error_Some; congruence|]. intro res'.
      inversion Hd; subst e; clear Hd.
      rewrite (spec_unfold flatten eager t k Hwf c cl E).
      destruct (negb (nonemptyb (selected cl)) && negb (N.eqb k 0)) eqn:Ea.
      + apply andb_true_iff in Ea as [Ea _]. apply negb_true_iff in Ea. apply nonemptyb_false in Ea.
        rewrite Ea. cbn [entry_val fold_left]. rewrite E. rewrite (own_list_stable c cl _ E). reflexivity.
      + cbn [entry_val]. rewrite (compute_spec cache res _ _ Hg Hc).
        rewrite (own_list_stable c cl _ E). reflexivity.
    - exact (Hg d e Hd).
  Qed.

  Definition extends (c1 c2 : list (nat * entry)) : Prop :=
    forall d e, clookup d c1 = Some e -> clookup d c2 = Some e.

  Lemma extends_cached c1 c2 d : extends c1 c2 -> cached c1 d = true -> cached c2 d = true.
  Proof.
    intros H Hc. unfold cached in *. destruct (clookup d c1) as [e|] eqn:E; [|discriminate].
    rewrite (H d e E). reflexivity.
  Qed.

  Notation rs := (resolve flatten eager t k).

  (* resolving a class from any good memo: bounded number of loop iterations, the memo stays good, only grows,
     and only by classes <= c; afterwards the loop continues with the rest of the stack *)
  Definition one_ok (n c : nat) : Prop :=
    forall res cache, good cache ->
    exists j cache', 1 <= j <= weight n t c /\ good cache' /\ cached cache' c = true /\ extends cache cache' /\
      (forall d, cached cache' d = true -> cached cache d = true \/ d <= c) /\
      forall f rest, rs res (j + f) cache (c :: rest) = rs res f cache' rest.

  Lemma resolve_list n : (forall b, b < n -> b < length t -> one_ok n b) ->
    forall l, (forall b, In b l -> b < n /\ b < length t) ->
    forall res cache, good cache ->
    exists j cache', j <= list_sum (map (weight n t) l) /\ good cache' /\
      (forall b, In b l -> cached cache' b = true) /\ extends cache cache' /\
      (forall d, cached cache' d = true -> cached cache d = true \/ exists b, In b l /\ d <= b) /\
      forall f rest, rs res (j + f) cache (l ++ rest) = rs res f cache' rest.
  Proof.
    intros IH l. induction l as [|b l IHl]; intros Hl res cache Hg.
    - exists 0, cache. split; [cbn; lia|]. split; [exact Hg|]. split; [intros b []|].
      split; [intros d e H; exact H|]. split; [intros d Hd; left; exact Hd|]. reflexivity.
    - destruct (Hl b (or_introl eq_refl)) as [Hb1 Hb2].
      destruct (IH b Hb1 Hb2 res cache Hg) as (j1 & c1 & Hj1 & Hg1 & Hc1 & He1 & Hn1 & Hr1).
      destruct (IHl (fun x Hx => Hl x (or_intror Hx)) res c1 Hg1) as (j2 & c2 & Hj2 & Hg2 & Hc2 & He2 & Hn2 & Hr2).
      exists (j1 + j2), c2.
      split; [change (list_sum (map (weight n t) (b :: l))) with (weight n t b + list_sum (map (weight n t) l)); lia|]. split; [exact Hg2|]. split.
      { intros x [<- | Hx]; [exact (extends_cached _ _ _ He2 Hc1) | exact (Hc2 x Hx)]. }
      split. { intros d e H. apply He2, He1, H. }
      split.
      { intros d Hd. destruct (Hn2 d Hd) as [H | (x & Hx & Hle)].
        - destruct (Hn1 d H) as [H' | H']; [left; exact H' | right; exists b; split; [left; reflexivity | exact H']].
        - right. exists x. split; [right; exact Hx | exact Hle]. }
      intros f rest. cbn [app]. replace (j1 + j2 + f) with (j1 + (j2 + f)) by lia.
      rewrite Hr1. apply Hr2.
  Qed.

  Lemma resolve_one : forall n c, c < n -> c < length t -> one_ok n c.
  Proof.
    induction n as [|n IH]; intros c Hcn Hct; [lia|].
    intros res cache Hg.
    destruct (nth_error t c) as [cl|] eqn:E; [|apply nth_error_None in E; lia].
    assert (Hw : weight (S n) t c = 2 + list_sum (map (weight n t) (selected cl))) by (cbn [weight]; rewrite E; reflexivity).
    destruct (cached cache c) eqn:Ec.
    { exists 1, cache. split; [lia|]. split; [exact Hg|]. split; [exact Ec|]. split; [intros d e H; exact H|].
      split; [intros d Hd; left; exact Hd|]. intros f rest. cbn [plus resolve]. rewrite Ec. reflexivity. }
    set (unres := filter (fun b => negb (cached cache b)) (selected cl)).
    destruct (nonemptyb unres) eqn:Eu.
    - (* bases first, then the class again *)
      assert (Hsel : forall b, In b (selected cl) -> b < n /\ b < length t).
      { intros b Hb. pose proof (wf_selected t Hwf c cl E b Hb). lia. }
      assert (Hun : forall b, In b unres -> b < n /\ b < length t).
      { intros b Hb. apply filter_In in Hb as [Hb _]. auto. }
      assert (IH' : forall b, b < n -> b < length t -> one_ok n b) by (intros; apply IH; assumption).
      destruct (resolve_list n IH' unres Hun res cache Hg) as (j1 & c1 & Hj1 & Hg1 & Hc1 & He1 & Hn1 & Hr1).
      assert (Hall : forall b, In b (selected cl) -> cached c1 b = true).
      { intros b Hb. destruct (cached cache b) eqn:Eb; [exact (extends_cached _ _ _ He1 Eb)|].
        apply Hc1. apply filter_In. split; [exact Hb | rewrite Eb; reflexivity]. }
      assert (Hnc : cached c1 c = false).
      { destruct (cached c1 c) eqn:X; [|reflexivity]. destruct (Hn1 c X) as [H | (b & Hb & Hle)]; [congruence|].
        apply filter_In in Hb as [Hb _]. pose proof (wf_selected t Hwf c cl E b Hb). lia. }
      eexists (S (j1 + 1)), _. split.
      { pose proof (list_sum_filter_le (weight n t) (fun b => negb (cached cache b)) (selected cl)). fold unres in H. lia. }
      split; [exact (good_add c1 res c cl Hg1 E Hall)|].
      split; [apply cached_cons; left; reflexivity|].
      split. { intros d e H. cbn [clookup]. destruct (Nat.eqb d c) eqn:Edc.
               - apply Nat.eqb_eq in Edc. subst d. apply He1 in H. unfold cached in Hnc. rewrite H in Hnc. discriminate.
               - apply He1, H. }
      split. { intros d Hd. apply cached_cons in Hd as [-> | Hd]; [right; lia|].
               destruct (Hn1 d Hd) as [H | (b & Hb & Hle)]; [left; exact H|]. right.
               apply filter_In in Hb as [Hb _]. pose proof (wf_selected t Hwf c cl E b Hb). lia. }
      intros f rest. cbn [plus]. cbn [resolve]. rewrite Ec, E. fold unres. rewrite Eu.
      replace (j1 + 1 + f) with (j1 + S f) by lia. rewrite Hr1.
      cbn [resolve]. rewrite Hnc, E.
      assert (Hf : filter (fun b => negb (cached c1 b)) (selected cl) = []).
      { clear - Hall. induction (selected cl) as [|b l IHl]; cbn; [reflexivity|].
        rewrite (Hall b (or_introl eq_refl)). cbn. apply IHl. intros x Hx. apply Hall. right; exact Hx. }
      rewrite Hf. cbn [nonemptyb]. reflexivity.
    - (* all selected bases are cached: compute and store *)
      apply nonemptyb_false in Eu.
      assert (Hall : forall b, In b (selected cl) -> cached cache b = true).
      { intros b Hb. pose proof (filter_nil_all _ _ Eu b Hb) as H. apply negb_false_iff in H. exact H. }
      eexists 1, _. split; [lia|].
      split; [exact (good_add cache res c cl Hg E Hall)|].
      split; [apply cached_cons; left; reflexivity|].
      split. { intros d e H. cbn [clookup]. destruct (Nat.eqb d c) eqn:Edc; [|exact H].
               apply Nat.eqb_eq in Edc. subst d. unfold cached in Ec. rewrite H in Ec. discriminate. }
      split. { intros d Hd. apply cached_cons in Hd as [-> | Hd]; [right; lia | left; exact Hd]. }
      intros f rest. cbn [plus resolve]. rewrite Ec, E. fold unres. rewrite Eu. cbn [nonemptyb]. reflexivity.
  Qed.

  (* a `.media` access from any good memo returns the S-model value and leaves a good memo *)
  Lemma media_access st c : good (s_cache st) -> c < length t ->
    exists cache', step flatten eager t k st (AMedia c) =
                   Some (St cache' (s_resolved st), RMedia (observe (sp c))) /\ good cache'.
  Proof.
    intros Hg Hc.
    destruct (resolve_one (S c) c (Nat.lt_succ_diag_r c) Hc (s_resolved st) (s_cache st) Hg)
      as (j & c1 & Hj & Hg1 & Hc1 & _ & _ & Hr).
    exists c1. split; [|exact Hg1]. cbn [step]. unfold fuel_for.
    replace (S (weight (S c) t c)) with (j + S (weight (S c) t c - j)) by lia.
    rewrite Hr. cbn [resolve]. unfold cached in Hc1. destruct (clookup c c1) as [e|] eqn:E; [|discriminate].
    destruct (Hg1 c e E) as [_ Hv]. rewrite Hv. reflexivity.
  Qed.
End Resolve.

(* ================= class creation, attributes, histories ================= *)
Lemma first_error_none t : forall n i, first_error t i n = None ->
  forall j, i <= j < i + n -> class_error t j = None.
Proof.
  induction n as [|n IH]; intros i H j Hj; [lia|].
  cbn [first_error] in H. destruct (class_error t i) as [e|] eqn:E; [discriminate|].
  destruct (Nat.eq_dec i j) as [<- | Hne]; [exact E|]. apply (IH (S i) H). lia.
Qed.

Lemma create_ok_class t : create_error t = None -> forall c, c < length t -> class_error t c = None.
Proof. intros H c Hc. apply (first_error_none t (length t) 0 H). lia. Qed.

Lemma create_ok_mro t : create_error t = None -> forall c, c < length t -> exists m, mro_of t c = Some m.
Proof.
  intros H c Hc. pose proof (create_ok_class t H c Hc) as E. unfold class_error in E.
  destruct (nth_error t c) as [cl|] eqn:En; [|apply nth_error_None in En; lia].
  destruct (mro_of t c) as [m|]; [exists m; reflexivity | discriminate].
Qed.

Lemma attr_walk_fst t p fm : forall m res,
  fst (attr_walk t p fm m res) =
  match nearest_defining t p m with Some cl => pair_value fm (get_pair p cl) | None => None end.
Proof.
  induction m as [|b m IH]; intro res; cbn [attr_walk nearest_defining]; [reflexivity|].
  destruct (nth_error t b) as [c|]; [|apply IH].
  destruct (c_comp c); cbn [andb]; [|apply IH].
  destruct (pair_empty (get_pair p c)); cbn [negb]; [apply IH | reflexivity].
Qed.

Section History.
  Variables (flatten eager : bool) (t : list cls) (k : N).
  Hypothesis Hwf : wf t = true.
  Hypothesis Hrel : eager = true \/ no_relative t = true.
  Hypothesis Hok : create_error t = None.

  Lemma run_history : forall h st, good flatten eager t k (s_cache st) ->
    (forall a, In a h -> cls_of a < length t) ->
    exists st', run flatten eager t k st h = Some (st', map (ideal flatten eager t k) h).
  Proof.
    induction h as [|a h IH]; intros st Hg Hh.
    - exists st. reflexivity.
    - assert (Ha : cls_of a < length t) by (apply Hh; left; reflexivity).
      assert (Hh' : forall x, In x h -> cls_of x < length t) by (intros x Hx; apply Hh; right; exact Hx).
      destruct a as [c | c p fm]; cbn [cls_of] in Ha.
      + destruct (media_access flatten eager t k Hwf Hrel st c Hg Ha) as (c1 & Hs & Hg1).
        destruct (IH (St c1 (s_resolved st)) Hg1 Hh') as (st' & Hr).
        exists st'. cbn [run map]. rewrite Hs, Hr. reflexivity.
      + destruct (create_ok_mro t Hok c Ha) as (m & Hm).
        pose proof (attr_walk_fst t p fm m (s_resolved st)) as Hf.
        destruct (attr_walk t p fm m (s_resolved st)) as [v res'] eqn:Ew. cbn [fst] in Hf.
        destruct (IH (St (s_cache st) res') Hg Hh') as (st' & Hr).
        exists st'. cbn [run map step]. rewrite Hm, Ew, Hr. cbn [ideal]. unfold attr_spec. rewrite Hm, Hf. reflexivity.
  Qed.

  Lemma history_independent h : (forall a, In a h -> cls_of a < length t) ->
    exists st', run flatten eager t k init h = Some (st', map (ideal flatten eager t k) h).
  Proof. intro Hh. apply run_history; [|exact Hh]. intros c e H. discriminate. Qed.
End History.

Lemma nearest_defining_spec t p : forall m cl, nearest_defining t p m = Some cl ->
  exists m1 b m2, m = m1 ++ b :: m2 /\ nth_error t b = Some cl /\ c_comp cl = true /\
    pair_empty (get_pair p cl) = false /\
    forall x c, In x m1 -> nth_error t x = Some c -> c_comp c = false \/ pair_empty (get_pair p c) = true.
Proof.
  induction m as [|b m IH]; intros cl H; [discriminate|]. cbn [nearest_defining] in H.
  destruct (nth_error t b) as [c|] eqn:E.
  - destruct (c_comp c && negb (pair_empty (get_pair p c))) eqn:Ed.
    + inversion H; subst c. apply andb_true_iff in Ed as [Hc Hp]. apply negb_true_iff in Hp.
      exists [], b, m. split; [reflexivity|]. split; [exact E|]. split; [exact Hc|]. split; [exact Hp|]. intros x c0 [].
    + destruct (IH cl H) as (m1 & b' & m2 & -> & Hn & Hc & Hp & Hall).
      exists (b :: m1), b', m2. split; [reflexivity|]. split; [exact Hn|]. split; [exact Hc|]. split; [exact Hp|].
      intros x c0 [<- | Hx] Hx0.
      * rewrite E in Hx0. inversion Hx0; subst c0. apply andb_false_iff in Ed as [Ed | Ed]; [left; exact Ed|].
        right. apply negb_false_iff in Ed. exact Ed.
      * exact (Hall x c0 Hx Hx0).
  - destruct (IH cl H) as (m1 & b' & m2 & -> & Hn & Hc & Hp & Hall).
    exists (b :: m1), b', m2. split; [reflexivity|]. split; [exact Hn|]. split; [exact Hc|]. split; [exact Hp|].
    intros x c0 [<- | Hx] Hx0; [congruence|]. exact (Hall x c0 Hx Hx0).
Qed.

Lemma nearest_defining_none t p : forall m, nearest_defining t p m = None ->
  forall x c, In x m -> nth_error t x = Some c -> c_comp c = false \/ pair_empty (get_pair p c) = true.
Proof.
  induction m as [|b m IH]; intros H x c Hx Hc; [contradiction|]. cbn [nearest_defining] in H.
  destruct Hx as [<- | Hx].
  - rewrite Hc in H. destruct (c_comp c && negb (pair_empty (get_pair p c))) eqn:Ed; [discriminate|].
    apply andb_false_iff in Ed as [Ed | Ed]; [left; exact Ed|]. right. apply negb_false_iff in Ed. exact Ed.
  - destruct (nth_error t b) as [c'|]; [destruct (c_comp c' && negb (pair_empty (get_pair p c')))|];
      try discriminate; exact (IH H x c Hx Hc).
Qed.

Lemma both_rejected t i cl p : nth_error t i = Some cl -> c_comp cl = true ->
  pair_both (get_pair p cl) = true -> create_error t <> None.
Proof.
  intros Hn Hc Hb H. assert (Hi : i < length t) by (apply nth_error_Some; congruence).
  pose proof (create_ok_class t H i Hi) as E. unfold class_error in E. rewrite Hn in E.
  destruct (mro_of t i); [|discriminate]. rewrite Hc in E. cbn [andb] in E.
  destruct p; cbn [get_pair] in Hb; rewrite Hb in E; cbn in E;
    repeat rewrite orb_true_r in E; discriminate.
Qed.

(* ================= Media.merge: Kahn's algorithm in graphlib order ================= *)
Lemma dedupe_In x l : In x (dedupe l) <-> In x l.
Proof.
  induction l as [|a l IH]; cbn [dedupe]; [tauto|]. split.
  - intros [H | H]; [left; exact H|]. apply filter_In in H as [H _]. right. apply IH, H.
  - intros [H | H]; [left; exact H|]. destruct (N.eq_dec x a) as [-> | Hne]; [left; reflexivity|].
    right. apply filter_In. split; [apply IH, H|]. apply negb_true_iff, N.eqb_neq, Hne.
Qed.

Lemma dedupe_NoDup l : NoDup (dedupe l).
Proof.
  induction l as [|a l IH]; cbn [dedupe]; constructor.
  - intro H. apply filter_In in H as [_ H]. rewrite N.eqb_refl in H. discriminate.
  - apply NoDup_filter, IH.
Qed.

Lemma lastocc_In x l : In x (lastocc l) <-> In x l.
Proof.
  induction l as [|a l IH]; cbn [lastocc]; [tauto|]. destruct (memN a l) eqn:E.
  - rewrite IH. split; [right; assumption|]. intros [<- | H]; [apply memN_In, E | exact H].
  - cbn [In]. rewrite IH. tauto.
Qed.

Lemma lastocc_NoDup l : NoDup (lastocc l).
Proof.
  induction l as [|a l IH]; cbn [lastocc]; [constructor|]. destruct (memN a l) eqn:E; [exact IH|].
  constructor; [|exact IH]. rewrite lastocc_In. intro H. apply memN_In in H. congruence.
Qed.

Lemma NoDup_app_intro {A} (a b : list A) : NoDup a -> NoDup b -> (forall x, In x a -> ~ In x b) -> NoDup (a ++ b).
Proof.
  induction a as [|x a IH]; cbn; intros Ha Hb Hd; [exact Hb|]. inversion Ha; subst. constructor.
  - intro H. apply in_app_or in H as [H | H]; [contradiction | exact (Hd x (or_introl eq_refl) H)].
  - apply IH; auto.
Qed.

Lemma NoDup_app_l {A} (a b : list A) : NoDup (a ++ b) -> NoDup a.
Proof.
  induction a as [|x a IH]; cbn; intro H; [constructor|]. inversion H; subst. constructor.
  - intro Hx. apply H2. apply in_or_app. left; exact Hx.
  - apply IH, H3.
Qed.

Lemma preds_In E u v : In u (preds E v) <-> In (u, v) E.
Proof.
  unfold preds. rewrite in_map_iff. split.
  - intros [[a b] [H1 H2]]. apply filter_In in H2 as [H2 H3]. cbn in *. apply N.eqb_eq in H3. subst. exact H2.
  - intro H. exists (u, v). split; [reflexivity|]. apply filter_In. split; [exact H | apply N.eqb_refl].
Qed.

Lemma succs_In E u v : In v (succs E u) <-> In (u, v) E.
Proof.
  unfold succs. rewrite in_map_iff. split.
  - intros [[a b] [H1 H2]]. apply filter_In in H2 as [H2 H3]. cbn in *. apply N.eqb_eq in H3. subst. exact H2.
  - intro H. exists (u, v). split; [reflexivity|]. apply filter_In. split; [exact H | apply N.eqb_refl].
Qed.

(* `out` respects the edges: when a node is emitted all its predecessors have been emitted (or were seen) before *)
Fixpoint resp (E : list (N * N)) (seen out : list N) : Prop :=
  match out with
  | [] => True
  | v :: r => (forall u, In u (preds E v) -> In u seen) /\ resp E (v :: seen) r
  end.

Lemma resp_mono E out : forall s s', incl s s' -> resp E s out -> resp E s' out.
Proof.
  induction out as [|v out IH]; cbn [resp]; intros s s' Hi H; [exact I|]. destruct H as [H1 H2]. split.
  - intros u Hu. apply Hi, H1, Hu.
  - apply (IH (v :: s)); [|exact H2]. intros x [<- | Hx]; [left; reflexivity | right; apply Hi, Hx].
Qed.

Lemma resp_app E a : forall s b, resp E s a -> resp E (a ++ s) b -> resp E s (a ++ b).
Proof.
  induction a as [|v a IH]; cbn [resp app]; intros s b Ha Hb; [exact Hb|]. destruct Ha as [H1 H2]. split; [exact H1|].
  apply IH; [exact H2|]. apply (resp_mono E b (v :: a ++ s)); [|exact Hb].
  intros x [<- | Hx]; apply in_or_app.
  - right; left; reflexivity.
  - apply in_app_or in Hx as [Hx | Hx]; [left; exact Hx | right; right; exact Hx].
Qed.

Lemma resp_all E g : forall s, (forall v, In v g -> forall u, In u (preds E v) -> In u s) -> resp E s g.
Proof.
  induction g as [|v g IH]; cbn [resp]; intros s H; [exact I|]. split.
  - intros u Hu. exact (H v (or_introl eq_refl) u Hu).
  - apply IH. intros w Hw u Hu. right. exact (H w (or_intror Hw) u Hu).
Qed.

Section Kahn.
  Variables (nodes : list N) (E : list (N * N)).
  Hypothesis Hnodes : forall u v, In (u, v) E -> In v nodes.

  Definition J (done group : list N) : Prop :=
    NoDup (done ++ group) /\ incl (done ++ group) nodes /\ resp E [] done /\
    (forall v, In v group -> forall u, In u (preds E v) -> In u done).

  Lemma next_ready_spec done group s : In s (next_ready E done group) ->
    ~ In s (done ++ group) /\ (forall u, In u (preds E s) -> In u (done ++ group)) /\ In s nodes.
  Proof.
    unfold next_ready. intro H. apply filter_In in H as [H1 H2]. apply andb_true_iff in H2 as [H2 H3].
    split; [|split].
    - intro X. apply memN_In in X. rewrite X in H2. discriminate.
    - intros u Hu. rewrite forallb_forall in H3. apply memN_In, H3, Hu.
    - apply (proj1 (lastocc_In _ _)) in H1. apply in_flat_map in H1 as (g & _ & Hg). apply (proj1 (succs_In _ _ _)) in Hg. exact (Hnodes g s Hg).
  Qed.

  Lemma kahn_loop_inv : forall fuel done group, J done group ->
    NoDup (kahn_loop fuel E done group) /\ incl (kahn_loop fuel E done group) nodes /\
    resp E [] (kahn_loop fuel E done group).
  Proof.
    induction fuel as [|f IH]; intros done group (H1 & H2 & H3 & H4).
    - cbn [kahn_loop]. split; [exact (NoDup_app_l _ _ H1)|]. split; [|exact H3].
      intros x Hx. apply H2, in_or_app. left; exact Hx.
    - cbn [kahn_loop]. destruct group as [|g group'] eqn:Eg.
      + split; [exact (NoDup_app_l _ _ H1)|]. split; [|exact H3]. intros x Hx. apply H2, in_or_app. left; exact Hx.
      + rewrite <- Eg in *. apply IH. split; [|split; [|split]].
        * apply NoDup_app_intro; [exact H1 | apply NoDup_filter, lastocc_NoDup|].
          intros x Hx Hn. apply next_ready_spec in Hn as [Hn _]. contradiction.
        * intros x Hx. apply in_app_or in Hx as [Hx | Hx]; [apply H2, Hx|]. apply next_ready_spec in Hx as (_ & _ & Hx). exact Hx.
        * apply resp_app; [exact H3|]. apply resp_all. intros v Hv u Hu. apply in_or_app. left. exact (H4 v Hv u Hu).
        * intros v Hv u Hu. apply next_ready_spec in Hv as (_ & Hv & _). exact (Hv u Hu).
  Qed.

  Lemma kahn_inv : NoDup nodes ->
    NoDup (kahn nodes E) /\ incl (kahn nodes E) nodes /\ resp E [] (kahn nodes E).
  Proof.
    intro Hnd. unfold kahn. apply kahn_loop_inv. split; [|split; [|split]].
    - cbn [app]. apply NoDup_filter, Hnd.
    - cbn [app]. intros x Hx. apply filter_In in Hx as [Hx _]. exact Hx.
    - exact I.
    - intros v Hv u Hu. apply filter_In in Hv as [_ Hv]. apply negb_true_iff in Hv. apply nonemptyb_false in Hv.
      rewrite Hv in Hu. contradiction.
  Qed.
End Kahn.

(* a duplicate-free list whose consecutive pairs are edges *)
Fixpoint chain (E : list (N * N)) (l : list N) : Prop :=
  match l with
  | a :: r => match r with b :: _ => In a (preds E b) /\ chain E r | [] => True end
  | [] => True
  end.

Lemma chain_pred E : forall l x y, chain E (x :: l) -> In y l -> exists p, In p (x :: l) /\ In p (preds E y).
Proof.
  induction l as [|b l IH]; intros x y Hc Hy; [contradiction|]. cbn [chain] in Hc. destruct Hc as [Hxb Hc].
  destruct Hy as [<- | Hy].
  - exists x. split; [left; reflexivity | exact Hxb].
  - destruct (IH b y Hc Hy) as (p & Hp & Hpp). exists p. split; [right; exact Hp | exact Hpp].
Qed.

Lemma chain_tl E a l : chain E (a :: l) -> chain E l.
Proof. destruct l as [|b l]; cbn [chain]; [auto | intros [_ H]; exact H]. Qed.

Lemma chain_subseq E : forall out seen l, resp E seen out -> NoDup out ->
  (forall x, In x seen -> ~ In x out) -> NoDup l -> (forall x, In x l -> In x out) -> chain E l ->
  subseqb l out = true.
Proof.
  induction out as [|y o IH]; intros seen l Hr Hnd Hdis Hl Hin Hc.
  - destruct l as [|x l]; [reflexivity|]. exfalso. exact (Hin x (or_introl eq_refl)).
  - destruct l as [|x l']; [reflexivity|]. cbn [subseqb]. cbn [resp] in Hr. destruct Hr as [Hpy Hr].
    inversion Hnd as [|? ? Hyo Hndo]; subst.
    assert (Hdis' : forall z, In z (y :: seen) -> ~ In z o).
    { intros z [<- | Hz]; [exact Hyo|]. intro Hzo. apply (Hdis z Hz). right; exact Hzo. }
    destruct (N.eqb x y) eqn:Exy.
    + apply N.eqb_eq in Exy. subst x. inversion Hl as [|? ? Hyl Hl']; subst.
      apply (IH (y :: seen)); auto.
      * intros z Hz. destruct (Hin z (or_intror Hz)) as [<- | Hzo]; [contradiction | exact Hzo].
      * exact (chain_tl E y l' Hc).
    + apply N.eqb_neq in Exy. apply (IH (y :: seen)); auto.
      intros z Hz. destruct (Hin z Hz) as [<- | Hzo]; [|exact Hzo]. exfalso.
      destruct Hz as [Hz | Hz]; [congruence|].
      destruct (chain_pred E l' x y Hc Hz) as (p & Hp & Hpp).
      apply Hpy in Hpp. exact (Hdis p Hpp (Hin p Hp)).
Qed.

Lemma chain_edges_unfold a b r :
  chain_edges (a :: b :: r) = (if N.eqb a b then [] else [(a, b)]) ++ chain_edges (b :: r).
Proof. reflexivity. Qed.

Lemma chain_edges_In : forall l u v, In (u, v) (chain_edges l) -> In u l /\ In v l.
Proof.
  induction l as [|a l IH]; intros u v H; [contradiction|]. destruct l as [|b r]; [contradiction|].
  rewrite chain_edges_unfold in H. apply in_app_or in H as [H | H].
  - destruct (N.eqb a b); [contradiction|]. destruct H as [H | []]. inversion H; subst. split; [left | right; left]; reflexivity.
  - destruct (IH u v H) as [A B]. split; right; assumption.
Qed.

Lemma chain_edges_chain : forall l, NoDup l -> forall E, incl (chain_edges l) E -> chain E l.
Proof.
  induction l as [|a l IH]; intros Hnd E Hi; [exact I|]. destruct l as [|b r]; [exact I|].
  inversion Hnd as [|? ? Ha Hnd']; subst. rewrite chain_edges_unfold in Hi.
  assert (Hab : N.eqb a b = false) by (apply N.eqb_neq; intro; subst; apply Ha; left; reflexivity).
  rewrite Hab in Hi. cbn [chain]. split.
  - apply preds_In, Hi. left; reflexivity.
  - apply IH; [exact Hnd'|]. intros x Hx. apply Hi. right. exact Hx.
Qed.

Lemma subseqb_nil o : subseqb [] o = true.
Proof. destruct o; reflexivity. Qed.

Lemma concat_filter_nonempty x (ls : list (list N)) : In x (concat (filter nonemptyb ls)) <-> In x (concat ls).
Proof.
  rewrite !in_concat. split.
  - intros (l & Hl & Hx). apply filter_In in Hl as [Hl _]. exists l; auto.
  - intros (l & Hl & Hx). exists l. split; [|exact Hx]. apply filter_In. split; [exact Hl|]. destruct l; [contradiction | reflexivity].
Qed.

(* what the statement needs to know about Media.merge *)
Lemma merge_facts ls :
  NoDup (fst (merge ls)) /\ (forall x, In x (fst (merge ls)) <-> In x (concat ls)) /\
  (snd (merge ls) = false -> forall l, In l ls -> NoDup l -> subseqb l (fst (merge ls)) = true).
Proof.
  unfold merge. set (ls' := filter nonemptyb ls). set (nodes := dedupe (concat ls')).
  set (E := flat_map chain_edges ls').
  assert (Hnodes : forall u v, In (u, v) E -> In v nodes).
  { intros u v H. apply in_flat_map in H as (l & Hl & H). apply chain_edges_In in H as [_ H].
    apply dedupe_In, in_concat. exists l; auto. }
  destruct (kahn_inv nodes E Hnodes (dedupe_NoDup _)) as (K1 & K2 & K3).
  assert (Hn : forall x, In x nodes <-> In x (concat ls)).
  { intro x. unfold nodes. rewrite dedupe_In. apply concat_filter_nonempty. }
  destruct (Nat.eqb (length (kahn nodes E)) (length nodes)) eqn:El; cbn [fst snd].
  - apply Nat.eqb_eq in El.
    assert (K4 : incl nodes (kahn nodes E)).
    { apply NoDup_length_incl; [exact K1 | lia | exact K2]. }
    split; [exact K1|]. split.
    + intro x. rewrite <- Hn. split; [apply K2 | apply K4].
    + intros _ l Hl Hnd. destruct l as [|a l0] eqn:El0; [apply subseqb_nil|]. rewrite <- El0 in *.
      assert (Hl' : In l ls') by (apply filter_In; split; [exact Hl | subst l; reflexivity]).
      apply (chain_subseq E (kahn nodes E) [] l K3 K1); auto.
      * intros x Hx. apply K4, dedupe_In, in_concat. exists l; auto.
      * apply chain_edges_chain; [exact Hnd|]. intros e He. apply in_flat_map. exists l; auto.
  - split; [apply dedupe_NoDup|]. split; [exact Hn | discriminate].
Qed.

(* ================= files of the S-model = own + selected bases, each once ================= *)
Lemma mem_list_In l ls : mem_list l ls = true -> In l ls.
Proof.
  unfold mem_list. rewrite existsb_exists. intros (y & Hy & He).
  assert (forall a b : list N, list_eqb N.eqb a b = true -> a = b) as Heq.
  { induction a as [|x a IH]; intros [|z b] H; cbn in H; try discriminate; [reflexivity|].
    apply andb_true_iff in H as [H1 H2]. apply N.eqb_eq in H1. subst. f_equal. apply IH, H2. }
  apply Heq in He. subst. exact Hy.
Qed.

Lemma media_add_In x a b : In x (concat (media_add a b)) <-> In x (concat a) \/ In x (concat b).
Proof.
  unfold media_add. rewrite concat_app, in_app_iff. split.
  - intros [H | H]; [left; exact H|]. right. apply in_concat in H as (l & Hl & Hx). apply filter_In in Hl as [Hl _].
    apply in_concat. exists l; auto.
  - intros [H | H]; [left; exact H|]. apply in_concat in H as (l & Hl & Hx).
    destruct (mem_list l a) eqn:Em.
    + left. apply in_concat. exists l. split; [apply mem_list_In, Em | exact Hx].
    + right. apply in_concat. exists l. split; [|exact Hx]. apply filter_In. split; [exact Hl|].
      rewrite Em. destruct l; [contradiction | reflexivity].
Qed.

Lemma add_base_In flatten cur base x :
  In x (concat (fst (add_base flatten cur base))) <-> In x (concat (fst cur)) \/ In x (concat (fst base)).
Proof.
  unfold add_base. destruct flatten; cbn [fst].
  - cbn [concat]. rewrite app_nil_r. destruct (merge_facts (media_add (fst cur) (fst base))) as (_ & H & _).
    rewrite H. apply media_add_In.
  - apply media_add_In.
Qed.

Lemma fold_add_base_In flatten (g : nat -> list (list N) * bool) x : forall l init,
  In x (concat (fst (fold_left (fun cur b => add_base flatten cur (g b)) l init))) <->
  In x (concat (fst init)) \/ exists b, In b l /\ In x (concat (fst (g b))).
Proof.
  induction l as [|b l IH]; intro init; cbn [fold_left].
  - split; [left; assumption | intros [H | (b & [] & _)]; exact H].
  - rewrite IH, add_base_In. split.
    + intros [[H | H] | (b' & Hb & H)]; [left; exact H | right; exists b; split; [left; reflexivity | exact H] |
                                          right; exists b'; split; [right; exact Hb | exact H]].
    + intros [H | (b' & [<- | Hb] & H)]; [left; left; exact H | left; right; exact H | right; exists b'; auto].
Qed.

Lemma spec_n_files flatten eager t k x : forall n c,
  In x (concat (fst (spec_n flatten eager n t k c))) <->
  exists d, In d (contributors_n n t c) /\ In x (declared eager t k d).
Proof.
  induction n as [|n IH]; intro c; cbn [spec_n contributors_n].
  - cbn. split; [intros [] | intros (d & [] & _)].
  - destruct (nth_error t c) as [cl|] eqn:E.
    + rewrite fold_add_base_In. cbn [fst concat]. rewrite app_nil_r. split.
      * intros [H | (b & Hb & H)].
        -- exists c. split; [left; reflexivity|]. unfold declared. rewrite E. exact H.
        -- apply IH in H as (d & Hd & H). exists d. split; [|exact H]. right. apply in_flat_map. exists b; auto.
      * intros (d & [<- | Hd] & H).
        -- left. unfold declared in H. rewrite E in H. exact H.
        -- right. apply in_flat_map in Hd as (b & Hb & Hd). exists b. split; [exact Hb|]. apply IH. exists d; auto.
    + cbn. split; [intros [] | intros (d & [] & _)].
Qed.

(* ================= order ================= *)
Lemma subseqb_refl l : subseqb l l = true.
Proof. induction l as [|x l IH]; cbn [subseqb]; [reflexivity|]. rewrite N.eqb_refl. exact IH. Qed.

Lemma subseqb_nil_r a : subseqb a [] = true -> a = [].
Proof. destruct a; cbn; [reflexivity | discriminate]. Qed.

Lemma subseqb_tl_cons : forall o,
  (forall x a, subseqb (x :: a) o = true -> subseqb a o = true) /\
  (forall y a, subseqb a o = true -> subseqb a (y :: o) = true).
Proof.
  induction o as [|z o [IH1 IH2]].
  - split; [intros x a H; discriminate|]. intros y a H. apply subseqb_nil_r in H. subst. reflexivity.
  - assert (A : forall x a, subseqb (x :: a) (z :: o) = true -> subseqb a (z :: o) = true).
    { intros x a H. cbn [subseqb] in H. destruct (N.eqb x z); [apply IH2, H | apply IH2, (IH1 x a H)]. }
    split; [exact A|]. intros y a H. destruct a as [|x a']; [reflexivity|].
    change (subseqb (x :: a') (y :: z :: o)) with (if N.eqb x y then subseqb a' (z :: o) else subseqb (x :: a') (z :: o)).
    destruct (N.eqb x y); [exact (A x a' H) | exact H].
Qed.

Lemma subseqb_trans : forall c a b, subseqb a b = true -> subseqb b c = true -> subseqb a c = true.
Proof.
  induction c as [|z c IH]; intros a b Hab Hbc.
  - apply subseqb_nil_r in Hbc. subst b. apply subseqb_nil_r in Hab. subst a. reflexivity.
  - destruct b as [|y b']; [apply subseqb_nil_r in Hab; subst a; reflexivity|].
    destruct a as [|x a']; [reflexivity|].
    cbn [subseqb] in Hbc. cbn [subseqb].
    destruct (N.eqb y z) eqn:Eyz.
    + apply N.eqb_eq in Eyz. subst z. cbn [subseqb] in Hab. destruct (N.eqb x y); [exact (IH a' b' Hab Hbc) | exact (IH (x :: a') b' Hab Hbc)].
    + pose proof (IH (x :: a') (y :: b') Hab Hbc) as H. destruct (N.eqb x z); [|exact H].
      exact (proj1 (subseqb_tl_cons c) x a' H).
Qed.

Lemma fold_flatten_order (g : nat -> list (list N) * bool) : forall l Y w,
  snd (fold_left (fun cur b => add_base true cur (g b)) l ([Y], w)) = false -> NoDup Y ->
  (forall b, In b l -> snd (g b) = false -> exists Xb, fst (g b) = [Xb] /\ NoDup Xb) ->
  exists X, fst (fold_left (fun cur b => add_base true cur (g b)) l ([Y], w)) = [X] /\ NoDup X /\
            subseqb Y X = true /\ w = false /\
            forall b, In b l -> snd (g b) = false /\ forall Xb, fst (g b) = [Xb] -> subseqb Xb X = true.
Proof.
  induction l as [|b l IH]; intros Y w Hf HY Hg; cbn [fold_left] in *.
  - exists Y. cbn [fst snd] in *. repeat split; auto using subseqb_refl; contradiction.
  - unfold add_base at 2 in Hf. unfold add_base at 2. cbn [fst snd] in *.
    set (ls := media_add [Y] (fst (g b))) in *.
    destruct (merge_facts ls) as (M1 & _ & M3).
    destruct (IH (fst (merge ls)) (w || snd (g b) || snd (merge ls)) Hf M1 (fun x Hx => Hg x (or_intror Hx)))
      as (X & HX & HndX & HsX & Hw & Hall).
    apply orb_false_iff in Hw as [Hw Hm]. apply orb_false_iff in Hw as [Hw Hgb].
    assert (HYY : subseqb Y (fst (merge ls)) = true).
    { apply (M3 Hm); [|exact HY]. unfold ls, media_add. left; reflexivity. }
    exists X. split; [exact HX|]. split; [exact HndX|]. split; [exact (subseqb_trans _ _ _ HYY HsX)|]. split; [exact Hw|].
    intros x [<- | Hx]; [|exact (Hall x Hx)]. split; [exact Hgb|]. intros Xb HXb.
    destruct (Hg b (or_introl eq_refl) Hgb) as (Xb' & HXb' & HndXb). rewrite HXb in HXb'. inversion HXb'; subst Xb'.
    apply (subseqb_trans _ _ (fst (merge ls))); [|exact HsX].
    destruct (nonemptyb Xb && negb (mem_list Xb [Y])) eqn:Ek.
    + apply (M3 Hm); [|exact HndXb]. unfold ls, media_add. rewrite HXb. cbn [filter]. rewrite Ek. right; left; reflexivity.
    + apply andb_false_iff in Ek as [Ek | Ek].
      * apply nonemptyb_false in Ek. subst Xb. apply subseqb_nil.
      * apply negb_false_iff in Ek. apply mem_list_In in Ek. destruct Ek as [<- | []]. exact HYY.
Qed.

Lemma spec_n_order eager t k : forall n c,
  snd (spec_n true eager n t k c) = false ->
  (forall d, In d (contributors_n n t c) -> NoDup (declared eager t k d)) ->
  exists X, fst (spec_n true eager n t k c) = [X] /\ NoDup X /\
            forall d, In d (contributors_n n t c) -> subseqb (declared eager t k d) X = true.
Proof.
  induction n as [|n IH]; intros c Hf Hnd; cbn [spec_n contributors_n] in *.
  - exists []. repeat split; [constructor | contradiction].
  - destruct (nth_error t c) as [cl|] eqn:E.
    + assert (Hown : declared eager t k c = own_list k eager cl) by (unfold declared; rewrite E; reflexivity).
      assert (HY : NoDup (own_list k eager cl)) by (rewrite <- Hown; apply Hnd; left; reflexivity).
      destruct (fold_flatten_order (spec_n true eager n t k) (selected cl) _ _ Hf HY) as (X & HX & HndX & HsX & _ & Hall).
      { intros b Hb Hfb. destruct (IH b Hfb) as (Xb & H1 & H2 & _); [|exists Xb; auto].
        intros d Hd. apply Hnd. right. apply in_flat_map. exists b; auto. }
      exists X. split; [exact HX|]. split; [exact HndX|]. intros d [<- | Hd]; [rewrite Hown; exact HsX|].
      apply in_flat_map in Hd as (b & Hb & Hd). destruct (Hall b Hb) as [Hfb HXb].
      destruct (IH b Hfb) as (Xb & H1 & H2 & H3).
      { intros d' Hd'. apply Hnd. right. apply in_flat_map. exists b; auto. }
      exact (subseqb_trans _ _ _ (H3 d Hd) (HXb Xb H1)).
    + exists []. repeat split; [constructor | contradiction].
Qed.

(* the code as it is (flatten after every base): declared orders are kept as long as no merge on the way
   fell back to concatenation (= no MediaOrderConflictWarning was emitted) *)
Lemma order_when_no_conflict eager t k c :
  snd (spec true eager t k c) = false -> snd (merge (fst (spec true eager t k c))) = false ->
  (forall d, In d (contributors t c) -> NoDup (declared eager t k d)) ->
  forall d, In d (contributors t c) -> subseqb (declared eager t k d) (observe (spec true eager t k c)) = true.
Proof.
  unfold spec, contributors, observe. intros Hf Hm Hnd d Hd.
  destruct (spec_n_order eager t k (S c) c Hf Hnd) as (X & HX & HndX & Hall).
  destruct (merge_facts (fst (spec_n true eager (S c) t k c))) as (_ & _ & M3).
  apply (subseqb_trans _ _ X); [exact (Hall d Hd)|]. apply (M3 Hm); [|exact HndX]. rewrite HX. left; reflexivity.
Qed.

Lemma files_eq_spec flatten eager t k c :
  NoDup (observe (spec flatten eager t k c)) /\
  forall x, In x (observe (spec flatten eager t k c)) <->
            exists d, In d (contributors t c) /\ In x (declared eager t k d).
Proof.
  unfold observe. destruct (merge_facts (fst (spec flatten eager t k c))) as (M1 & M2 & _).
  split; [exact M1|]. intro x. rewrite M2. apply spec_n_files.
Qed.
