(* Property C16: the forms of Media.js / Media.css as written in a component's class body (str / bytes / list / tuple /
   dict, incl. their EMPTY values) and what `_normalize_media` makes of them (model: the norm_ functions of Media/Model.v). *)
From DJC Require Import Lib.Base Media.Model.

(* the list a class declares for media type k, from its raw Media *)
Definition raw_decl (k : N) (c : cls) (m : rawmedia) : list N := raw_list k (norm_cls (c, Some m)).

Lemma norm_js_files c m : raw_decl 0 c m = norm_files (r_js m).
Proof. reflexivity. Qed.

Lemma norm_css_key k c e j css : k <> 0%N ->
  raw_decl k c (RawMedia e j css) = match alookup k (norm_css css) with Some l => l | None => [] end.
Proof.
  intro Hk. unfold raw_decl, raw_list, norm_cls, norm_media. cbn [snd option_map c_media m_files r_js r_css alookup].
  apply N.eqb_neq in Hk. rewrite Hk. reflexivity.
Qed.

(* every empty value of the str / list forms of css - absent / None, empty str / bytes, empty list / tuple - declares no css file at all,
   for any medium (and never fails: the norm_ functions are total) *)
Lemma empty_css_forms_declare_nothing c e j r k : norm_files r = [] -> k <> 0%N ->
  raw_decl k c (RawMedia e j (CFiles r)) = [].
Proof. intros Hr Hk. rewrite (norm_css_key k c e j _ Hk). cbn [norm_css]. rewrite Hr. reflexivity. Qed.

Lemma empty_forms r : norm_files r = [] <-> r = RAbsent \/ r = RStr None \/ r = RList [].
Proof.
  split.
  - destruct r as [|[f|]|[|x l]]; cbn; intro H; try discriminate; auto.
  - intros [-> | [-> | ->]]; reflexivity.
Qed.

(* ... and so does an empty js *)
Lemma empty_js_forms_declare_nothing c e r css : norm_files r = [] -> raw_decl 0 c (RawMedia e r css) = [].
Proof. intro H. rewrite norm_js_files. exact H. Qed.

Lemma empty_forms_nothing c e j r k :
  r = RAbsent \/ r = RStr None \/ r = RList [] ->
  raw_decl k c (RawMedia e j (CFiles r)) = (if N.eqb k 0 then norm_files j else []) /\
  raw_decl 0 c (RawMedia e r (CFiles j)) = [].
Proof.
  intro H. apply empty_forms in H. split.
  - destruct (N.eqb k 0) eqn:E.
    + apply N.eqb_eq in E. subst k. apply norm_js_files.
    + apply N.eqb_neq in E. exact (empty_css_forms_declare_nothing c e j r k H E).
  - exact (empty_js_forms_declare_nothing c e r (CFiles j) H).
Qed.

(* a non-empty str / list form of css is the medium "all" and nothing else *)
Lemma css_list_form_is_all c e j r k : k <> 0%N ->
  raw_decl k c (RawMedia e j (CFiles r)) = if N.eqb k css_all then norm_files r else [].
Proof.
  intro Hk. rewrite (norm_css_key k c e j _ Hk). cbn [norm_css].
  destruct (norm_files r) as [|x l] eqn:E; [destruct (N.eqb k css_all); reflexivity|].
  cbn [alookup]. destruct (N.eqb k css_all); reflexivity.
Qed.

(* the four ways of writing ONE css file for all media are the same declaration; the same for js *)
Lemma css_forms_equivalent c e j f k :
  let d css := raw_decl k c (RawMedia e j css) in
  d (CFiles (RStr (Some f))) = d (CFiles (RList [f])) /\
  d (CFiles (RList [f])) = d (CDict [(css_all, DStr f)]) /\
  d (CDict [(css_all, DStr f)]) = d (CDict [(css_all, DList [f])]).
Proof. repeat split. Qed.

Lemma js_forms_equivalent c e css f k :
  raw_decl k c (RawMedia e (RStr (Some f)) css) = raw_decl k c (RawMedia e (RList [f]) css).
Proof. reflexivity. Qed.

(* normalisation touches nothing but the file lists: bases, selection, pairs, well-formedness, creation errors *)
Lemma norm_selected c rm :
  selected (norm_cls (c, rm)) = match rm with Some m => select_by (r_ext m) c | None => c_bases c end.
Proof. destruct rm as [m|]; [destruct m as [e j css]; destruct e|]; reflexivity. Qed.

(* a class without own Media selects what the default `extend` selects *)
Lemma selected_no_media c : c_media c = None -> selected c = select_by default_extend c.
Proof. unfold selected. intros ->. reflexivity. Qed.

(* non-vacuity / regression: the witness of c16-empty-css-list, js = ["f1.js"], css = [] *)
Example empty_css_list_witness :
  let t := map norm_cls
    [(Cls [] false None [] (None, None) (None, None) (None, None), None);
     (Cls [0] false None [] (None, None) (None, None) (None, None), None);
     (Cls [1] true None [] (None, None) (None, None) (None, None), None);
     (Cls [2] true None [] (None, None) (None, None) (None, None),
      Some (RawMedia ExtAll (RList [1%N]) (CFiles (RList []))))] in
  wf t = true /\ create_error t = None /\
  option_map snd (run current_flatten current_eager t 0%N init [AMedia 3]) = Some [RMedia [1%N]] /\
  option_map snd (run current_flatten current_eager t 1%N init [AMedia 3]) = Some [RMedia []].
Proof. vm_compute. repeat split. Qed.
