(* Property C16, order part for the code as it is now (the individual lists are kept, commit 488c746):
   completeness of Kahn's algorithm as graphlib runs it - lists that are jointly consistent never reach the
   CycleError fallback - and the resulting order theorem. *)
From DJC Require Import Lib.Base Media.Model Media.Proofs.

(* ---------- positions in the common linear order ---------- *)
Fixpoint pos (x : N) (r : list N) : nat :=
  match r with
  | [] => 0
  | y :: r' => if N.eqb x y then 0 else S (pos x r')
  end.

Lemma subseqb_In : forall r l, subseqb l r = true -> forall a, In a l -> In a r.
Proof.
  induction r as [|y r IH]; intros l H a Ha.
  - apply subseqb_nil_r in H. subst. contradiction.
  - destruct l as [|x l']; [contradiction|]. cbn [subseqb] in H. destruct (N.eqb x y) eqn:E.
    + apply N.eqb_eq in E. subst. destruct Ha as [<- | Ha]; [left; reflexivity | right; exact (IH l' H a Ha)].
    + right. exact (IH (x :: l') H a Ha).
Qed.

Lemma subseqb_NoDup : forall r l, subseqb l r = true -> NoDup r -> NoDup l.
Proof.
  induction r as [|y r IH]; intros l H Hr.
  - apply subseqb_nil_r in H. subst. constructor.
  - destruct l as [|x l']; [constructor|]. cbn [subseqb] in H. inversion Hr; subst. destruct (N.eqb x y) eqn:E.
    + apply N.eqb_eq in E. subst. constructor; [|exact (IH l' H H3)]. intro Hx. apply H2. exact (subseqb_In r l' H y Hx).
    + exact (IH (x :: l') H H3).
Qed.

Lemma pos_cons_neq a y r : a <> y -> pos a (y :: r) = S (pos a r).
Proof. intro H. cbn [pos]. apply N.eqb_neq in H. rewrite H. reflexivity. Qed.

(* consecutive elements of a subsequence of a duplicate-free list r are in r's order *)
Lemma edge_pos : forall r l a b, subseqb l r = true -> NoDup r -> In (a, b) (chain_edges l) -> pos a r < pos b r.
Proof.
  induction r as [|y r IH]; intros l a b H Hr Hin.
  - apply subseqb_nil_r in H. subst. contradiction.
  - destruct l as [|x l']; [contradiction|]. cbn [subseqb] in H. inversion Hr as [|? ? Hy Hr']; subst.
    assert (Hshift : forall l0, subseqb l0 r = true -> In (a, b) (chain_edges l0) -> pos a (y :: r) < pos b (y :: r)).
    { intros l0 H0 Hin0. pose proof (IH l0 a b H0 Hr' Hin0) as Hlt. destruct (chain_edges_In l0 a b Hin0) as [Ha Hb].
      rewrite !pos_cons_neq; [lia | |]; intro; subst; apply Hy; eapply subseqb_In; eauto. }
    destruct (N.eqb x y) eqn:E.
    + apply N.eqb_eq in E. subst x. destruct l' as [|b' l'']; [contradiction|].
      rewrite chain_edges_unfold in Hin. apply in_app_or in Hin as [Hin | Hin]; [|exact (Hshift _ H Hin)].
      destruct (N.eqb y b'); [contradiction|]. destruct Hin as [Hin | []]. inversion Hin; subst a b.
      cbn [pos]. rewrite N.eqb_refl.
      assert (b' <> y) by (intro; subst; apply Hy; exact (subseqb_In r _ H y (or_introl eq_refl))).
      apply N.eqb_neq in H0. rewrite H0. lia.
    + exact (Hshift _ H Hin).
Qed.

(* ---------- Kahn completeness ---------- *)
Section KahnComplete.
  Variables (nodes : list N) (E : list (N * N)) (r : list N).
  Hypothesis Hdst : forall u v, In (u, v) E -> In v nodes.
  Hypothesis Hsrc : forall u v, In (u, v) E -> In u nodes.
  Hypothesis Hpos : forall u v, In (u, v) E -> pos u r < pos v r.

  (* every node all of whose predecessors are done is done or ready *)
  Definition Cl (done group : list N) : Prop :=
    forall v, In v nodes -> (forall u, In u (preds E v) -> In u done) -> In v (done ++ group).

  Lemma J_step done group : J nodes E done group -> J nodes E (done ++ group) (next_ready E done group).
  Proof.
    intros (H1 & H2 & H3 & H4). split; [|split; [|split]].
    - apply NoDup_app_intro; [exact H1 | apply NoDup_filter, lastocc_NoDup|].
      intros x Hx Hn. apply (next_ready_spec nodes E Hdst) in Hn as [Hn _]. contradiction.
    - intros x Hx. apply in_app_or in Hx as [Hx | Hx]; [apply H2, Hx|].
      apply (next_ready_spec nodes E Hdst) in Hx as (_ & _ & Hx). exact Hx.
    - apply resp_app; [exact H3|]. apply resp_all. intros v Hv u Hu. apply in_or_app. left. exact (H4 v Hv u Hu).
    - intros v Hv u Hu. apply (next_ready_spec nodes E Hdst) in Hv as (_ & Hv & _). exact (Hv u Hu).
  Qed.

  Lemma Cl_step done group : Cl done group -> Cl (done ++ group) (next_ready E done group).
  Proof.
    intros HC v Hv Hp.
    destruct (memN v (done ++ group)) eqn:Em; [apply in_or_app; left; apply memN_In, Em|].
    apply in_or_app. right. unfold next_ready. apply filter_In. split.
    - apply lastocc_In.
      destruct (forallb (fun u => memN u done) (preds E v)) eqn:Ef.
      + exfalso. rewrite forallb_forall in Ef.
        assert (In v (done ++ group)) by (apply HC; [exact Hv | intros u Hu; apply memN_In, Ef, Hu]).
        apply memN_In in H. congruence.
      + assert (Hex : existsb (fun u => negb (memN u done)) (preds E v) = true).
        { clear - Ef. induction (preds E v) as [|u l IH]; cbn in *; [discriminate|].
          destruct (memN u done); cbn in *; [apply IH, Ef | reflexivity]. }
        apply existsb_exists in Hex as (u & Hu & Hnd). apply negb_true_iff in Hnd.
        apply in_flat_map. exists u. split.
        * specialize (Hp u Hu). apply in_app_or in Hp as [Hp | Hp]; [apply memN_In in Hp; congruence | exact Hp].
        * apply succs_In. apply preds_In. exact Hu.
    - rewrite Em. cbn [negb andb]. apply forallb_forall. intros u Hu. apply memN_In. exact (Hp u Hu).
  Qed.

  (* once nothing is ready, everything has been emitted: a missing node of least position would have all
     its predecessors done *)
  Lemma Cl_final done : Cl done [] -> forall n v, pos v r < n -> In v nodes -> In v done.
  Proof.
    intro HC. induction n as [|n IH]; intros v Hn Hv; [lia|].
    specialize (HC v Hv). rewrite app_nil_r in HC. apply HC. intros u Hu.
    apply preds_In in Hu. apply (IH u); [pose proof (Hpos u v Hu); lia | exact (Hsrc u v Hu)].
  Qed.

  Lemma kahn_loop_complete : forall fuel done group, J nodes E done group -> Cl done group ->
    fuel + length done > length nodes -> forall v, In v nodes -> In v (kahn_loop fuel E done group).
  Proof.
    induction fuel as [|f IH]; intros done group HJ HC Hf v Hv.
    - exfalso. destruct HJ as (H1 & H2 & _).
      pose proof (NoDup_incl_length (NoDup_app_l _ _ H1) (fun x Hx => H2 x (in_or_app _ _ x (or_introl Hx)))). lia.
    - cbn [kahn_loop]. destruct group as [|g group'] eqn:Eg.
      + exact (Cl_final done HC (S (pos v r)) v (Nat.lt_succ_diag_r _) Hv).
      + rewrite <- Eg in *. apply IH; [exact (J_step _ _ HJ) | exact (Cl_step _ _ HC) | | exact Hv].
        rewrite app_length. subst group. cbn [length]. lia.
  Qed.

  Lemma kahn_complete : NoDup nodes -> length (kahn nodes E) = length nodes.
  Proof.
    intro Hnd. destruct (kahn_inv nodes E Hdst Hnd) as (K1 & K2 & _).
    assert (K3 : incl nodes (kahn nodes E)).
    { intros v Hv. unfold kahn. apply kahn_loop_complete; [| |cbn; lia|exact Hv].
      - split; [|split; [|split]].
        + cbn [app]. apply NoDup_filter, Hnd.
        + cbn [app]. intros x Hx. apply filter_In in Hx as [Hx _]. exact Hx.
        + exact I.
        + intros w Hw u Hu. apply filter_In in Hw as [_ Hw]. apply negb_true_iff in Hw. apply nonemptyb_false in Hw.
          rewrite Hw in Hu. contradiction.
      - intros w Hw Hp. cbn [app]. apply filter_In. split; [exact Hw|]. apply negb_true_iff.
        destruct (preds E w) as [|u l]; [reflexivity|]. exfalso. exact (Hp u (or_introl eq_refl)). }
    apply Nat.le_antisymm; apply NoDup_incl_length; assumption.
  Qed.
End KahnComplete.

(* Media.merge never warns on mutually consistent lists *)
Lemma merge_complete ls : consistent ls -> snd (merge ls) = false.
Proof.
  intros (r & Hr & Hall). unfold merge.
  set (ls' := filter nonemptyb ls). set (nodes := dedupe (concat ls')). set (E := flat_map chain_edges ls').
  assert (Hends : forall u v, In (u, v) E -> In u nodes /\ In v nodes /\ pos u r < pos v r).
  { intros u v H. apply in_flat_map in H as (l & Hl & H). destruct (chain_edges_In l u v H) as [A B].
    split; [|split]; try (apply dedupe_In, in_concat; exists l; auto).
    apply filter_In in Hl as [Hl _]. exact (edge_pos r l u v (Hall l Hl) Hr H). }
  rewrite (kahn_complete nodes E r); [rewrite Nat.eqb_refl; reflexivity | | | |apply dedupe_NoDup];
    intros u v H; destruct (Hends u v H) as (A & B & C); assumption.
Qed.

(* ---------- the lists kept by the unflattened computation are the declared lists ---------- *)
Lemma media_add_lists a b x :
  (In x (media_add a b) -> In x a \/ In x b) /\ (In x a -> In x (media_add a b)) /\
  (In x b -> x = [] \/ In x (media_add a b)).
Proof.
  unfold media_add. split; [|split].
  - intro H. apply in_app_or in H as [H | H]; [left; exact H | right]. apply filter_In in H as [H _]. exact H.
  - intro H. apply in_or_app. left; exact H.
  - intro H. destruct x as [|y x']; [left; reflexivity|]. right. apply in_or_app.
    destruct (mem_list (y :: x') a) eqn:Em; [left; apply mem_list_In, Em|]. right. apply filter_In. split; [exact H|].
    rewrite Em. reflexivity.
Qed.

Lemma fold_unflat_lists (g : nat -> list (list N) * bool) x : forall l init,
  let res := fst (fold_left (fun cur b => add_base false cur (g b)) l init) in
  (In x res -> In x (fst init) \/ exists b, In b l /\ In x (fst (g b))) /\
  (In x (fst init) -> In x res) /\
  (forall b, In b l -> In x (fst (g b)) -> x = [] \/ In x res).
Proof.
  induction l as [|b l IH]; intro init; cbn [fold_left].
  - split; [intro H; left; exact H|]. split; [auto | intros b []].
  - destruct (IH (add_base false init (g b))) as (A & B & C). unfold add_base in A, B at 1. cbn [fst] in A, B.
    destruct (media_add_lists (fst init) (fst (g b)) x) as (M1 & M2 & M3).
    split; [|split].
    + intro H. apply A in H as [H | (b' & Hb & H)].
      * apply M1 in H as [H | H]; [left; exact H | right; exists b; split; [left; reflexivity | exact H]].
      * right. exists b'. split; [right; exact Hb | exact H].
    + intro H. apply B, M2, H.
    + intros b' [<- | Hb] H; [|exact (C b' Hb H)]. destruct (M3 H) as [-> | H']; [left; reflexivity | right; apply B, H'].
Qed.

Lemma spec_n_unflat_lists eager t k : forall n c x,
  (In x (fst (spec_n false eager n t k c)) ->
     x = [] \/ exists d, In d (contributors_n n t c) /\ x = declared eager t k d) /\
  (forall d, In d (contributors_n n t c) -> x = declared eager t k d ->
     x = [] \/ In x (fst (spec_n false eager n t k c))).
Proof.
  induction n as [|n IH]; intros c x; cbn [spec_n contributors_n].
  - cbn. split; [intros [<- | []]; left; reflexivity | intros d []].
  - destruct (nth_error t c) as [cl|] eqn:E.
    + destruct (fold_unflat_lists (spec_n false eager n t k) x (selected cl) ([own_list k eager cl], false)) as (A & B & C).
      cbn [fst] in A, B.
      assert (Hown : declared eager t k c = own_list k eager cl) by (unfold declared; rewrite E; reflexivity).
      split.
      * intro H. apply A in H as [[<- | []] | (b & Hb & H)].
        -- right. exists c. split; [left; reflexivity | symmetry; exact Hown].
        -- apply (proj1 (IH b x)) in H as [-> | (d & Hd & ->)]; [left; reflexivity|].
           right. exists d. split; [|reflexivity]. right. apply in_flat_map. exists b; auto.
      * intros d [<- | Hd] ->.
        -- right. apply B. left. symmetry; exact Hown.
        -- apply in_flat_map in Hd as (b & Hb & Hd).
           destruct (proj2 (IH b (declared eager t k d)) d Hd eq_refl) as [H | H]; [left; exact H|].
           exact (C b Hb H).
    + cbn. split; [intros [<- | []]; left; reflexivity | intros d []].
Qed.

(* Order, full statement, for the unflattened computation: if the lists declared by the contributing classes are
   mutually consistent, every one of them is a subsequence of `Cls.media._js` / `._css[medium]`. *)
Lemma order_consistent_unflat eager t k c :
  consistent (map (declared eager t k) (contributors t c)) ->
  forall d, In d (contributors t c) ->
  subseqb (declared eager t k d) (observe (spec false eager t k c)) = true.
Proof.
  intros (r & Hr & Hall) d Hd. unfold observe, spec, contributors in *.
  set (v := spec_n false eager (S c) t k c) in *.
  assert (Hcons : consistent (fst v)).
  { exists r. split; [exact Hr|]. intros l Hl.
    apply (proj1 (spec_n_unflat_lists eager t k (S c) c l)) in Hl as [-> | (d' & Hd' & ->)]; [apply subseqb_nil|].
    apply Hall, in_map, Hd'. }
  destruct (merge_facts (fst v)) as (_ & _ & M3).
  destruct (proj2 (spec_n_unflat_lists eager t k (S c) c (declared eager t k d)) d Hd eq_refl) as [H | H].
  - rewrite H. apply subseqb_nil.
  - apply (M3 (merge_complete _ Hcons)); [exact H|].
    apply (subseqb_NoDup r); [|exact Hr]. apply Hall, in_map, Hd.
Qed.
