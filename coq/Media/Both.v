(* Property C16, clause "defining both members in one class is rejected".  ComponentMedia.__post_init__ tests
   `x is not None and x_file is not None`: ANY two non-None values are rejected - the empty string included, on either
   side (inline code 0 = the empty string; an explicit None is the same as absent = `None` in the model). *)
From DJC Require Import Lib.Base Media.Model Media.Proofs.

Lemma pair_both_values (d : option N * option (N * N)) :
  pair_both d = true <-> exists v f, d = (Some v, Some f).
Proof.
  destruct d as [[v|] [f|]]; cbn; split; intro H; try discriminate; try (destruct H as (v' & f' & H); discriminate).
  - exists v, f. reflexivity.
  - reflexivity.
Qed.

(* every pair of non-None values, whatever they are *)
Lemma both_rejected_values t i cl p v f :
  nth_error t i = Some cl -> c_comp cl = true -> get_pair p cl = (Some v, Some f) -> create_error t <> None.
Proof.
  intros Hn Hc Hp. apply (both_rejected t i cl p Hn Hc). apply pair_both_values. exists v, f. exact Hp.
Qed.

(* exactly that: a class with a linearisable MRO fails with ImproperlyConfigured iff it is a component class and some
   pair has two non-None members; otherwise its creation succeeds *)
Lemma class_error_exact t i cl m : nth_error t i = Some cl -> mro_of t i = Some m ->
  (class_error t i = Some EImproperlyConfigured <->
   c_comp cl = true /\ exists p v f, get_pair p cl = (Some v, Some f)) /\
  (class_error t i = None \/ class_error t i = Some EImproperlyConfigured).
Proof.
  intros Hn Hm. unfold class_error. rewrite Hn, Hm. split.
  - split.
    + intro H. destruct (c_comp cl) eqn:Ec; cbn [andb] in H; [|discriminate]. split; [reflexivity|].
      destruct (pair_both (c_tpl cl)) eqn:E1.
      { apply pair_both_values in E1 as (v & f & E). exists PTpl, v, f. exact E. }
      destruct (pair_both (c_js cl)) eqn:E2.
      { apply pair_both_values in E2 as (v & f & E). exists PJs, v, f. exact E. }
      destruct (pair_both (c_css cl)) eqn:E3.
      { apply pair_both_values in E3 as (v & f & E). exists PCss, v, f. exact E. }
      discriminate.
    + intros (Hc & p & v & f & Hp). rewrite Hc. cbn [andb].
      assert (Hb : pair_both (get_pair p cl) = true) by (apply pair_both_values; exists v, f; exact Hp).
      destruct p; cbn [get_pair] in Hb; rewrite Hb; cbn; repeat rewrite orb_true_r; reflexivity.
  - destruct (c_comp cl && (pair_both (c_tpl cl) || pair_both (c_js cl) || pair_both (c_css cl))); [right | left]; reflexivity.
Qed.

(* the empty string counts: js = "" together with js_file (any path, here the empty path too) is rejected;
   js = "" alone, or together with an explicit js_file = None, is accepted *)
Example both_members_empty_string :
  create_error [Cls [] false None [] (None, None) (None, None) (None, None);
                Cls [0] true None [] (None, None) (Some 0%N, Some (81%N, 61%N)) (None, None)] = Some (1, EImproperlyConfigured) /\
  create_error [Cls [] false None [] (None, None) (None, None) (None, None);
                Cls [0] true None [] (Some 0%N, Some (80%N, 0%N)) (None, None) (None, None)] = Some (1, EImproperlyConfigured) /\
  create_error [Cls [] false None [] (None, None) (None, None) (None, None);
                Cls [0] true None [] (Some 0%N, None) (Some 0%N, None) (None, Some (81%N, 71%N))] = None.
Proof. repeat split. Qed.
