(* Property C16: the NAMES the model's constructors stand for (attribute names of COMP_MEDIA_LAZY_ATTRS, the medium
   "all", the literal default of Media.extend).  Definitions only; anchored to the source in Media/Anchors.v. *)
From Coq Require Import String.
From DJC Require Import Lib.Base Media.Model.

Definition all_pairs : list pairkind := [PTpl; PJs; PCss].
Definition pair_inline_name (p : pairkind) : str :=
  match p with PTpl => s2n "template"%string | PJs => s2n "js"%string | PCss => s2n "css"%string end.
Definition file_suffix : str := s2n "_file"%string.
Definition attr_name (p : pairkind) (file_member : bool) : str :=
  if file_member then (pair_inline_name p ++ file_suffix)%list else pair_inline_name p.
Definition pair_names (p : pairkind) : list str := [attr_name p false; attr_name p true].
(* what an `access` reads: AMedia -> "media", AAttr c p fm -> attr_name p fm *)
Definition access_name (a : access) : str :=
  match a with AMedia _ => s2n "media"%string | AAttr _ p fm => attr_name p fm end.
Definition access_names : list str := s2n "media"%string :: flat_map pair_names all_pairs.

Definition css_all_name : str := s2n "all"%string.      (* the medium of key css_all *)

Definition ext_of_literal (s : str) : option extend :=
  if str_eqb s (s2n "True"%string) then Some ExtAll
  else if str_eqb s (s2n "False"%string) then Some ExtNone else None.
