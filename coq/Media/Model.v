(* Model of django_components.component_media (property C16): which JS/CSS files `Component.media`
   holds, and where `template` / `js` / `css` (and their `_file` forms) come from.

   M-model, transliterated from the source:
     * django.forms.widgets.Media: `_js_lists`, `__add__`, the lazy `merge` (graphlib.TopologicalSorter.
       static_order in node-insertion order; CycleError => warning + first-occurrence concatenation);
     * `_get_comp_cls_media`: the work-stack ("bases first, then the class again") with the
       process-global memo `media_cache`, own-class `Media` lookup, `Media.extend` True / False / list,
       the per-base `media + base_media` followed by the FLATTENING `media_cls(js=merged._js, ...)`;
     * `_get_comp_cls_attr`: the MRO walk with the pair-emptiness rule, `_resolve_media` side effect
       (component-relative paths of `Media` are rewritten when a class is first RESOLVED) ;
     * `ComponentMedia.__post_init__` (both members of a pair => ImproperlyConfigured), C3 linearisation.

   One media type at a time: key 0 = js, key k>0 = the k-th CSS medium.  `Media._css` merges each medium
   separately, so the whole computation is run per key `k` (the control flow - what is cached when - does
   not depend on k).  Files, media types and attribute values are N codes; classes are indices (nat) into
   the class table, bases refer to earlier indices (Python creates a class after its bases).

   `flatten` selects the variant: true = flatten after every base (the code before commit 488c746);
   false = keep the individual lists, Django's own behaviour (the code as it is now).
   `eager`: true = the class is resolved before its Media is read (the code since a5a18f6).

   Definitions only - proofs are in Media/Proofs.v. *)
From DJC Require Import Lib.Base.

(* ---------- small list utilities ---------- *)
Definition memN (x : N) (l : list N) : bool := existsb (N.eqb x) l.
Definition memnat (x : nat) (l : list nat) : bool := existsb (Nat.eqb x) l.
Definition nonemptyb {A} (l : list A) : bool := match l with [] => false | _ => true end.

(* dict.fromkeys(l): first occurrences, in order *)
Fixpoint dedupe (l : list N) : list N :=
  match l with
  | [] => []
  | x :: r => x :: filter (fun y => negb (N.eqb y x)) (dedupe r)
  end.

(* last occurrences, in order *)
Fixpoint lastocc (l : list N) : list N :=
  match l with
  | [] => []
  | x :: r => if memN x r then lastocc r else x :: lastocc r
  end.

(* l is a subsequence of o (relative order kept) *)
Fixpoint subseqb (l o : list N) : bool :=
  match o with
  | [] => match l with [] => true | _ => false end
  | y :: o' => match l with
               | [] => true
               | x :: l' => if N.eqb x y then subseqb l' o' else subseqb l o'
               end
  end.

(* ---------- Media.merge ---------- *)
(* `for head, *tail in lists: for item in tail: if head != item: ts.add(item, head); head = item` *)
Fixpoint chain_edges (l : list N) : list (N * N) :=
  match l with
  | a :: ((b :: _) as r) => (if N.eqb a b then [] else [(a, b)]) ++ chain_edges r
  | _ => []
  end.

Definition preds (edges : list (N * N)) (v : N) : list N :=
  map fst (filter (fun e => N.eqb (snd e) v) edges).
Definition succs (edges : list (N * N)) (u : N) : list N :=
  map snd (filter (fun e => N.eqb (fst e) u) edges).

(* TopologicalSorter.done(group...): walking the successors of the group's nodes in order, a successor
   becomes ready at its last pending incoming edge, provided all its predecessors are out by then.
   (graphlib keeps a counter per node; a counter reaches 0 exactly at that visit; nodes already passed
   out carry a negative marker and never become ready again.) *)
Definition next_ready (edges : list (N * N)) (done group : list N) : list N :=
  filter (fun s => negb (memN s (done ++ group)) &&
                   forallb (fun u => memN u (done ++ group)) (preds edges s))
         (lastocc (flat_map (succs edges) group)).

(* static_order: emit the ready group, mark it done, repeat *)
Fixpoint kahn_loop (fuel : nat) (edges : list (N * N)) (done group : list N) : list N :=
  match fuel with
  | O => done
  | S f => match group with
           | [] => done
           | _ => kahn_loop f edges (done ++ group) (next_ready edges done group)
           end
  end.

Definition kahn (nodes : list N) (edges : list (N * N)) : list N :=
  kahn_loop (S (length nodes)) edges []
            (filter (fun v => negb (nonemptyb (preds edges v))) nodes).

(* Media.merge(lists...): (result, MediaOrderConflictWarning emitted?) *)
Definition merge (lists : list (list N)) : list N * bool :=
  let ls := filter nonemptyb lists in
  let nodes := dedupe (concat ls) in
  let out := kahn nodes (flat_map chain_edges ls) in
  if Nat.eqb (length out) (length nodes) then (out, false) else (nodes, true).

(* ---------- the class table ---------- *)
Inductive extend := ExtAll | ExtNone | ExtList (l : list nat).
(* own `class Media`: extend + normalised file lists per media type *)
Record mdecl := MDecl { m_ext : extend; m_files : list (N * list N) }.
(* one inlined/file pair as written in the class body: (inline value, (file path, file content)) *)
Notation pairdecl := (option N * option (N * N))%type (only parsing).

Record cls := Cls {
  c_bases : list nat;          (* __bases__ *)
  c_comp  : bool;              (* has `_component_media` (created by ComponentMediaMeta) *)
  c_media : option mdecl;      (* cls.__dict__.get("Media") *)
  c_rel   : list (N * N);      (* files that exist beside the component module: path -> resolved path *)
  c_tpl   : option N * option (N * N);
  c_js    : option N * option (N * N);
  c_css   : option N * option (N * N)
}.
Notation table := (list cls) (only parsing).

(* `bases` of _get_comp_cls_media: __bases__ / () / Media.extend *)
Definition selected (c : cls) : list nat :=
  match c_media c with
  | None => c_bases c
  | Some m => match m_ext m with ExtAll => c_bases c | ExtNone => [] | ExtList l => l end
  end.

Definition raw_list (k : N) (c : cls) : list N :=
  match c_media c with
  | None => []
  | Some m => match alookup k (m_files m) with Some l => l | None => [] end
  end.

Definition apply_rel (m : list (N * N)) (f : N) : N :=
  match alookup f m with Some g => g | None => f end.

(* what `getattr(media_input, "js", [])` holds now: rewritten by _resolve_media once the class is resolved *)
Definition own_list (k : N) (resolved : bool) (c : cls) : list N :=
  if resolved then map (apply_rel (c_rel c)) (raw_list k c) else raw_list k c.

(* well-formed: every base and every class named in extend was created earlier *)
Fixpoint wf_from (i : nat) (t : list cls) : bool :=
  match t with
  | [] => true
  | c :: r => forallb (fun b => Nat.ltb b i) (c_bases c) && forallb (fun b => Nat.ltb b i) (selected c)
              && wf_from (S i) r
  end.
Definition wf (t : list cls) : bool := wf_from 0 t.

(* ---------- Media objects: the list of lists, plus a ghost flag "some merge on the way warned" ---------- *)
Notation mval := (list (list N) * bool)%type (only parsing).

Definition mem_list (l : list N) (ls : list (list N)) : bool := existsb (list_eqb N.eqb l) ls.

(* Media.__add__ *)
Definition media_add (a b : list (list N)) : list (list N) :=
  a ++ filter (fun it => nonemptyb it && negb (mem_list it a)) b.

(* `merged = media + base_media; media = media_cls(js=merged._js)` *)
Definition add_base (flatten : bool) (cur base : list (list N) * bool) : list (list N) * bool :=
  let ls := media_add (fst cur) (fst base) in
  if flatten then ([fst (merge ls)], snd cur || snd base || snd (merge ls))
  else (ls, snd cur || snd base).

Fixpoint clookup {V} (c : nat) (l : list (nat * V)) : option V :=
  match l with
  | [] => None
  | (c', v) :: r => if Nat.eqb c c' then Some v else clookup c r
  end.
Definition cached {V} (l : list (nat * V)) (c : nat) : bool :=
  match clookup c l with Some _ => true | None => false end.

(* What media_cache holds for a class.  A class with no selected base keeps `Media(js=own, css=own)` unflattened:
   its `_css_lists` entry IS the dict object `Media.css`, which `_resolve_media` later rewrites in place
   (`media.css[medium] = ...`), whereas `media.js = [...]` rebinds the attribute and leaves the cached list alone.
   So such an entry is an alias of the class's current css lists (EAlias) for k > 0 and a value otherwise. *)
Inductive entry := EAlias | EVal (v : list (list N) * bool).

(* `eager` = "the class is resolved before its Media is read" (false = the code before a5a18f6) *)
Definition entry_val (eager : bool) (t : list cls) (k : N) (res : list nat) (c : nat) (e : entry)
  : list (list N) * bool :=
  match e with
  | EVal v => v
  | EAlias => match nth_error t c with
              | Some cl => ([own_list k (eager || memnat c res) cl], false)
              | None => ([[]], false)
              end
  end.

Definition compute (flatten eager : bool) (t : list cls) (k : N) (res : list nat) (cache : list (nat * entry))
           (own : list N) (bases : list nat) : list (list N) * bool :=
  fold_left (fun cur b => match clookup b cache with
                          | Some e => add_base flatten cur (entry_val eager t k res b e)
                          | None => cur
                          end) bases ([own], false).

(* the `while bases_stack:` loop; None = out of fuel / unknown class *)
Fixpoint resolve (flatten eager : bool) (t : list cls) (k : N) (res : list nat) (fuel : nat)
         (cache : list (nat * entry)) (stack : list nat) : option (list (nat * entry)) :=
  match fuel with
  | O => None
  | S f =>
    match stack with
    | [] => Some cache
    | c :: rest =>
      if cached cache c then resolve flatten eager t k res f cache rest
      else match nth_error t c with
           | None => None
           | Some cl =>
             let bases := selected cl in
             let unresolved := filter (fun b => negb (cached cache b)) bases in
             if nonemptyb unresolved
             then resolve flatten eager t k res f cache (unresolved ++ c :: rest)
             else resolve flatten eager t k res f
                    ((c, if negb (nonemptyb bases) && negb (N.eqb k 0) then EAlias
                         else EVal (compute flatten eager t k res cache
                                            (own_list k (eager || memnat c res) cl) bases)) :: cache) rest
           end
    end
  end.

(* fuel that always suffices on well-formed tables (Proofs.resolve_total) *)
Fixpoint weight (n : nat) (t : list cls) (c : nat) : nat :=
  match n with
  | O => 1
  | S n' => match nth_error t c with
            | None => 1
            | Some cl => 2 + list_sum (map (weight n' t) (selected cl))
            end
  end.
Definition fuel_for (t : list cls) (c : nat) : nat := S (weight (S c) t c).

(* ---------- C3 linearisation ---------- *)
Definition remove_nat (x : nat) (l : list nat) : list nat := filter (fun y => negb (Nat.eqb y x)) l.

Fixpoint c3_merge (fuel : nat) (seqs : list (list nat)) : option (list nat) :=
  match fuel with
  | O => None
  | S f =>
    let seqs := filter nonemptyb seqs in
    match seqs with
    | [] => Some []
    | _ => match find (fun h => negb (existsb (fun s => memnat h (tl s)) seqs)) (map (hd 0) seqs) with
           | None => None                                  (* TypeError: inconsistent MRO *)
           | Some h => option_map (cons h) (c3_merge f (map (remove_nat h) seqs))
           end
    end
  end.

Fixpoint all_some {A} (l : list (option A)) : option (list A) :=
  match l with
  | [] => Some []
  | None :: _ => None
  | Some x :: r => option_map (cons x) (all_some r)
  end.

Fixpoint mro (fuel : nat) (t : list cls) (c : nat) : option (list nat) :=
  match fuel with
  | O => None
  | S f => match nth_error t c with
           | None => None
           | Some cl =>
             match all_some (map (mro f t) (c_bases cl)) with
             | None => None
             | Some ms => option_map (cons c)
                            (c3_merge (S (length (concat ms) + length (c_bases cl))) (ms ++ [c_bases cl]))
             end
           end
  end.
Definition mro_of (t : list cls) (c : nat) : option (list nat) := mro (S c) t c.

(* ---------- template / js / css and their _file forms ---------- *)
Inductive pairkind := PTpl | PJs | PCss.
Definition get_pair (p : pairkind) (c : cls) : option N * option (N * N) :=
  match p with PTpl => c_tpl c | PJs => c_js c | PCss => c_css c end.

Definition pair_empty (d : option N * option (N * N)) : bool :=
  match d with (None, None) => true | _ => false end.
Definition pair_both (d : option N * option (N * N)) : bool :=
  match d with (Some _, Some _) => true | _ => false end.

(* after _resolve_media: the inlined member holds the file's content when the file member is set *)
Definition pair_value (file_member : bool) (d : option N * option (N * N)) : option N :=
  if file_member then option_map fst (snd d)
  else match snd d with Some (_, content) => Some content | None => fst d end.

Definition add_nat (x : nat) (l : list nat) : list nat := if memnat x l then l else x :: l.

(* _get_comp_cls_attr: walk the MRO, resolving every component class met, stop at the first class
   that defines either member of the pair *)
Fixpoint attr_walk (t : list cls) (p : pairkind) (fm : bool) (m : list nat) (res : list nat)
  : option N * list nat :=
  match m with
  | [] => (None, res)
  | b :: r => match nth_error t b with
              | None => attr_walk t p fm r res
              | Some c =>
                if c_comp c then
                  if pair_empty (get_pair p c) then attr_walk t p fm r (add_nat b res)
                  else (pair_value fm (get_pair p c), add_nat b res)
                else attr_walk t p fm r res
              end
  end.

(* ---------- class creation ---------- *)
Inductive cerr := ETypeError | EImproperlyConfigured.
Definition cerr_eqb (a b : cerr) : bool :=
  match a, b with ETypeError, ETypeError => true | EImproperlyConfigured, EImproperlyConfigured => true | _, _ => false end.

(* type.__new__ computes the MRO first; ComponentMedia.__post_init__ runs afterwards *)
Definition class_error (t : list cls) (i : nat) : option cerr :=
  match nth_error t i with
  | None => None
  | Some c => match mro_of t i with
              | None => Some ETypeError
              | Some _ => if c_comp c && (pair_both (c_tpl c) || pair_both (c_js c) || pair_both (c_css c))
                          then Some EImproperlyConfigured else None
              end
  end.

Fixpoint first_error (t : list cls) (i n : nat) : option (nat * cerr) :=
  match n with
  | O => None
  | S n' => match class_error t i with
            | Some e => Some (i, e)
            | None => first_error t (S i) n'
            end
  end.
Definition create_error (t : list cls) : option (nat * cerr) := first_error t 0 (length t).

(* ---------- histories of accesses ---------- *)
Record state := St { s_cache : list (nat * entry); s_resolved : list nat }.
Definition init : state := St [] [].

Inductive access := AMedia (c : nat) | AAttr (c : nat) (p : pairkind) (fm : bool).
Inductive result := RMedia (files : list N) | RAttr (v : option N).

(* `Cls.media._js` / `._css[medium]` *)
Definition observe (v : list (list N) * bool) : list N := fst (merge (fst v)).

Definition step (flatten eager : bool) (t : list cls) (k : N) (st : state) (a : access) : option (state * result) :=
  match a with
  | AMedia c =>
    match resolve flatten eager t k (s_resolved st) (fuel_for t c) (s_cache st) [c] with
    | None => None
    | Some cache' => match clookup c cache' with
                     | Some e => Some (St cache' (s_resolved st),
                                       RMedia (observe (entry_val eager t k (s_resolved st) c e)))
                     | None => None
                     end
    end
  | AAttr c p fm =>
    match mro_of t c with
    | None => None
    | Some m => let '(v, res') := attr_walk t p fm m (s_resolved st) in
                Some (St (s_cache st) res', RAttr v)
    end
  end.

Fixpoint run (flatten eager : bool) (t : list cls) (k : N) (st : state) (h : list access)
  : option (state * list result) :=
  match h with
  | [] => Some (st, [])
  | a :: r => match step flatten eager t k st a with
              | None => None
              | Some (st1, x) => match run flatten eager t k st1 r with
                                 | None => None
                                 | Some (st2, xs) => Some (st2, x :: xs)
                                 end
              end
  end.

(* ---------- S-model: what the property statement says ---------- *)
(* the media value of a class as a function of the table alone (no memo, no history) *)
Fixpoint spec_n (flatten eager : bool) (n : nat) (t : list cls) (k : N) (c : nat) : list (list N) * bool :=
  match n with
  | O => ([[]], false)
  | S n' => match nth_error t c with
            | None => ([[]], false)
            | Some cl => fold_left (fun cur b => add_base flatten cur (spec_n flatten eager n' t k b))
                                   (selected cl) ([own_list k eager cl], false)
            end
  end.
Definition spec (flatten eager : bool) (t : list cls) (k : N) (c : nat) : list (list N) * bool :=
  spec_n flatten eager (S c) t k c.

(* the classes whose own Media contributes to c: c itself and, transitively, the selected bases *)
Fixpoint contributors_n (n : nat) (t : list cls) (c : nat) : list nat :=
  match n with
  | O => []
  | S n' => match nth_error t c with
            | None => []
            | Some cl => c :: flat_map (contributors_n n' t) (selected cl)
            end
  end.
Definition contributors (t : list cls) (c : nat) : list nat := contributors_n (S c) t c.

Definition declared (eager : bool) (t : list cls) (k : N) (c : nat) : list N :=
  match nth_error t c with Some cl => own_list k eager cl | None => [] end.

(* "those lists are mutually consistent": all are subsequences of one duplicate-free list *)
Definition consistent (ls : list (list N)) : Prop :=
  exists r, NoDup r /\ forall l, In l ls -> subseqb l r = true.

(* tables in which no Media path names a file lying beside the component's module *)
Definition no_relative (t : list cls) : bool := forallb (fun c => negb (nonemptyb (c_rel c))) t.

(* the value of `template` / `js` / `css` / `..._file` as the statement defines it: taken from the nearest
   class in the MRO that defines either member of the pair *)
Fixpoint nearest_defining (t : list cls) (p : pairkind) (m : list nat) : option cls :=
  match m with
  | [] => None
  | b :: r => match nth_error t b with
              | Some c => if c_comp c && negb (pair_empty (get_pair p c)) then Some c
                          else nearest_defining t p r
              | None => nearest_defining t p r
              end
  end.

(* what an access returns according to the statement: a function of the table and the access alone *)
Definition cls_of (a : access) : nat := match a with AMedia c => c | AAttr c _ _ => c end.

Definition attr_spec (t : list cls) (c : nat) (p : pairkind) (fm : bool) : option N :=
  match mro_of t c with
  | Some m => match nearest_defining t p m with
              | Some cl => pair_value fm (get_pair p cl)
              | None => None
              end
  | None => None
  end.

Definition ideal (flatten eager : bool) (t : list cls) (k : N) (a : access) : result :=
  match a with
  | AMedia c => RMedia (observe (spec flatten eager t k c))
  | AAttr c p fm => RAttr (attr_spec t c p fm)
  end.

(* the result of access `a` when it is made after the history `h` (from a fresh process) *)
Definition result_after (flatten eager : bool) (t : list cls) (k : N) (h : list access) (a : access) : option result :=
  match run flatten eager t k init (h ++ [a]) with
  | Some (_, rs) => nth_error rs (length h)
  | None => None
  end.

(* ---------- correspondence ---------- *)
(* observed on the implementation: per access either the media files per key, or the attribute value *)
Inductive obs := OMedia (files : list (N * list N)) | OAttr (v : option N).
Inductive outcome := OCreateError (i : nat) (e : cerr) | OOk (o : list obs).
Notation mcase := (list cls * list access * list N * outcome)%type (only parsing).

Definition obs_match (k : N) (r : result) (o : obs) : bool :=
  match r, o with
  | RMedia l, OMedia fs => list_eqb N.eqb l (match alookup k fs with Some x => x | None => [] end)
  | RAttr v, OAttr w => option_eqb N.eqb v w
  | _, _ => false
  end.

Fixpoint all2 {A B} (f : A -> B -> bool) (a : list A) (b : list B) : bool :=
  match a, b with
  | [], [] => true
  | x :: a', y :: b' => f x y && all2 f a' b'
  | _, _ => false
  end.

(* the variant of the model that describes /repo's current code: since 488c746 the individual lists are kept
   (flatten = false), since a5a18f6 a class is resolved before its Media is read (eager = true).
   (true, false) is the code before those two commits; see Media/History.v. *)
Definition current_flatten : bool := false.
Definition current_eager : bool := true.

Definition check_variant (flatten eager : bool) (cs : list cls * list access * list N * outcome) : bool :=
  let '(t, h, keys, out) := cs in
  match create_error t, out with
  | Some (i, e), OCreateError j e' => Nat.eqb i j && cerr_eqb e e'
  | None, OOk os =>
    wf t && forallb (fun k => match run flatten eager t k init h with
                              | Some (_, rs) => all2 (obs_match k) rs os
                              | None => false
                              end) keys
  | _, _ => false
  end.
Definition check_media := check_variant current_flatten current_eager.

(* ====================================================================================================
   Round-2 additions (definitions only; names in Media/Names.v; lemmas in Media/Forms.v, Media/Dups.v, Media/Mixins.v, Media/Anchors.v)
   ==================================================================================================== *)

(* `getattr(media_input, "extend", True)`: what a class without own Media (or a Media without `extend`) selects *)
Definition default_extend : extend := ExtAll.
Definition select_by (e : extend) (c : cls) : list nat :=
  match e with ExtAll => c_bases c | ExtNone => [] | ExtList l => l end.

(* ---------- Media.js / Media.css as WRITTEN in the class body, and `_normalize_media` ----------
   The str / bytes / list / tuple / dict forms are turned into `js : list`, `css : dict of lists` when a COMPONENT
   class is created.  Empty values of the list / str forms declare no file (the js side always did; the css side
   since the fix for `c16-empty-css-list` - before it `css = []` stayed a list and `.media` raised AttributeError
   inside django.forms.Media).  Plain (non-component) classes are not normalised by the library: only the normal
   forms are meaningful there (`raw_ok`). *)
Inductive rawfiles :=
| RAbsent                      (* attribute not set, or None *)
| RStr (f : option N)          (* "x.js" / b"x.js"; None = the empty string "" / b"" *)
| RList (l : list N).          (* list / tuple, possibly empty *)
Inductive dictval := DStr (f : N) | DList (l : list N).
Inductive rawcss := CFiles (r : rawfiles) | CDict (d : list (N * dictval)).
Record rawmedia := RawMedia { r_ext : extend; r_js : rawfiles; r_css : rawcss }.

Definition css_all : N := 1.                      (* the medium "all" (harness KEYS[1]) *)

Definition norm_files (r : rawfiles) : list N :=
  match r with RAbsent => [] | RStr None => [] | RStr (Some f) => [f] | RList l => l end.
Definition norm_dictval (v : dictval) : list N := match v with DStr f => [f] | DList l => l end.
Definition norm_css (c : rawcss) : list (N * list N) :=
  match c with
  | CFiles r => match norm_files r with [] => [] | l => [(css_all, l)] end
  | CDict d => map (fun kv => (fst kv, norm_dictval (snd kv))) d
  end.
Definition norm_media (m : rawmedia) : mdecl :=
  MDecl (r_ext m) ((0%N, norm_files (r_js m)) :: norm_css (r_css m)).

(* a class as written: everything but Media in `cls` (its c_media is ignored), plus the raw Media *)
Notation rcls := (cls * option rawmedia)%type (only parsing).
Definition norm_cls (rc : cls * option rawmedia) : cls :=
  let c := fst rc in
  Cls (c_bases c) (c_comp c) (option_map norm_media (snd rc)) (c_rel c) (c_tpl c) (c_js c) (c_css c).

Definition normal_files (r : rawfiles) : bool := match r with RAbsent | RList _ => true | RStr _ => false end.
Definition normal_form (m : rawmedia) : bool :=
  normal_files (r_js m) &&
  match r_css m with
  | CFiles RAbsent => true
  | CFiles _ => false
  | CDict d => forallb (fun kv => match snd kv with DList _ => true | DStr _ => false end) d
  end.
Definition css_keys_ok (m : rawmedia) : bool :=
  match r_css m with
  | CFiles _ => true
  | CDict d => forallb (fun kv => negb (N.eqb (fst kv) 0)) d
  end.
Definition raw_ok (rc : cls * option rawmedia) : bool :=
  match snd rc with
  | None => true
  | Some m => css_keys_ok m && (c_comp (fst rc) || normal_form m)
  end.

(* ---------- duplicates inside one declared list ----------
   Media.merge skips an edge between equal neighbours (`if head != item`), so ADJACENT repeats are harmless;
   a repeat with something in between (a, b, a) is a cycle a -> b -> a: the list is inconsistent with itself. *)
Fixpoint squash (l : list N) : list N :=
  match l with
  | a :: r => match r with
              | b :: _ => if N.eqb a b then squash r else a :: squash r
              | [] => [a]
              end
  | [] => []
  end.
Definition wconsistent (ls : list (list N)) : Prop :=
  exists r, NoDup r /\ forall l, In l ls -> subseqb (squash l) r = true.

(* ---------- plain (non-component) classes of the MRO and the template / js / css pairs ----------
   `nearest_any`: the nearest class of ANY kind that defines either member (the literal reading of the statement);
   `nearest_defining` (above, what the code does) only looks at component classes. *)
Fixpoint nearest_any (t : list cls) (p : pairkind) (m : list nat) : option cls :=
  match m with
  | [] => None
  | b :: r => match nth_error t b with
              | Some c => if negb (pair_empty (get_pair p c)) then Some c else nearest_any t p r
              | None => nearest_any t p r
              end
  end.
Definition plain_definer (t : list cls) (p : pairkind) (b : nat) : bool :=
  match nth_error t b with
  | Some c => negb (c_comp c) && negb (pair_empty (get_pair p c))
  | None => false
  end.

(* the classes `_get_comp_cls_attr` walks past before it stops at the class it picks (the first component class
   defining either member); the whole MRO when it picks none *)
Fixpoint walked (t : list cls) (p : pairkind) (m : list nat) : list nat :=
  match m with
  | [] => []
  | b :: r => match nth_error t b with
              | Some c => if c_comp c && negb (pair_empty (get_pair p c)) then [] else b :: walked t p r
              | None => b :: walked t p r
              end
  end.

(* ---------- correspondence on the raw forms ---------- *)
Definition check_raw (cs : list (cls * option rawmedia) * list access * list N * outcome) : bool :=
  let '(rt, h, keys, out) := cs in
  forallb raw_ok rt && check_media (map norm_cls rt, h, keys, out).
