(* Lemmas about the tag-parser model: every scanner loop advances the cursor or stops (so the fuel
   computed from the input length is never exhausted), the consumed text is exactly `normalized`, and the
   only error class parse_tag can produce is TemplateSyntaxError (stack / meta invariants). *)
From DJC Require Import Lib.Base TagParse.Model.

(* ================================================================================================ *)
(* A. cursor primitives                                                                              *)
(* ================================================================================================ *)
Definition len (c : cur) : nat := length (rest c).
Definition text_of (c : cur) : str := rev (done c) ++ rest c.

(* c' is reached from c by consuming input: same underlying text, not more input left *)
Definition adv (c c' : cur) : Prop := text_of c' = text_of c /\ len c' <= len c.
Definition sadv (c c' : cur) : Prop := text_of c' = text_of c /\ len c' < len c.

Lemma adv_refl c : adv c c.
Proof. split; auto. Qed.
Lemma adv_trans a b c : adv a b -> adv b c -> adv a c.
Proof. intros [H1 H2] [H3 H4]; split; [congruence | lia]. Qed.
Lemma sadv_adv a b : sadv a b -> adv a b.
Proof. intros [H1 H2]; split; [auto | lia]. Qed.
Lemma sadv_adv_trans a b c : sadv a b -> adv b c -> sadv a c.
Proof. intros [H1 H2] [H3 H4]; split; [congruence | lia]. Qed.
Lemma adv_sadv_trans a b c : adv a b -> sadv b c -> sadv a c.
Proof. intros [H1 H2] [H3 H4]; split; [congruence | lia]. Qed.
Global Hint Resolve adv_refl sadv_adv : tp.

Lemma text_of_step x d r : text_of (mkcur (x :: d) r) = text_of (mkcur d (x :: r)).
Proof. unfold text_of; simpl. rewrite <- app_assoc. reflexivity. Qed.

Lemma take_n_adv n : forall c, adv c (snd (take_n n c)).
Proof.
  induction n as [|n IH]; intros [d r]; simpl; [apply adv_refl|].
  destruct r as [|x r]; [apply adv_refl|].
  specialize (IH (mkcur (x :: d) r)). destruct (take_n n (mkcur (x :: d) r)) as [s c'] eqn:E.
  simpl in *. destruct IH as [H1 H2]. split.
  - rewrite H1. apply text_of_step.
  - unfold len in *; simpl in *. lia.
Qed.

Lemma take_n_sadv n c : at_end c = false -> sadv c (snd (take_n (S n) c)).
Proof.
  destruct c as [d r]. unfold at_end; simpl. destruct r as [|x r]; [discriminate|]. intros _.
  pose proof (take_n_adv n (mkcur (x :: d) r)) as [H1 H2].
  destruct (take_n n (mkcur (x :: d) r)) as [s c'] eqn:E. simpl in *. split.
  - rewrite H1. apply text_of_step.
  - unfold len in *; simpl in *. lia.
Qed.

Lemma take_while_go_adv toks : forall r d, adv (mkcur d r) (snd (take_while_go toks d r)).
Proof.
  induction r as [|x r IH]; intros d; simpl; [apply adv_refl|].
  match goal with |- context [existsb ?f toks] => destruct (existsb f toks) end; [|apply adv_refl].
  specialize (IH (x :: d)). destruct (take_while_go toks (x :: d) r) as [s c'] eqn:E. simpl in *.
  destruct IH as [H1 H2]. split.
  - rewrite H1. apply text_of_step.
  - unfold len in *; simpl in *. lia.
Qed.

Lemma skip_ws_adv c : adv c (skip_ws c).
Proof. destruct c as [d r]. apply take_while_go_adv. Qed.
Global Hint Resolve skip_ws_adv take_n_adv : tp.

Lemma take_while_go_stops toks : (forall t, In t toks -> t <> []) ->
  forall r d, is_next toks (snd (take_while_go toks d r)) = false.
Proof.
  intros Hne. induction r as [|x r IH]; intros d; simpl.
  - unfold is_next; simpl. apply not_true_is_false. intro H. apply existsb_exists in H as [t [Ht H]].
    destruct t; [eapply Hne; eauto | discriminate].
  - match goal with |- context [existsb ?f toks] => destruct (existsb f toks) eqn:E end.
    + specialize (IH (x :: d)). destruct (take_while_go toks (x :: d) r). exact IH.
    + exact E.
Qed.

Lemma skip_ws_stops c : is_next WS (skip_ws c) = false.
Proof.
  destruct c as [d r]. apply take_while_go_stops.
  intros t Ht. unfold WS in Ht. simpl in Ht. intuition; subst; discriminate.
Qed.

Lemma skip_ws_fix c : is_next WS c = false -> skip_ws c = c.
Proof.
  destruct c as [d r]. unfold skip_ws, take_while, is_next. simpl. intro H.
  destruct r as [|x r]; simpl; [reflexivity|]. simpl in H. rewrite H. reflexivity.
Qed.

Lemma skip_ws_idem c : skip_ws (skip_ws c) = skip_ws c.
Proof. apply skip_ws_fix, skip_ws_stops. Qed.

Lemma take_until_go_adv toks ign : forall r skip d, adv (mkcur d r) (snd (take_until_go toks ign skip d r)).
Proof.
  induction r as [|x r IH]; intros skip d; simpl; [apply adv_refl|].
  assert (Hstep : forall k, adv (mkcur d (x :: r))
            (snd (let '(s, c) := take_until_go toks ign k (x :: d) r in (x :: s, c)))).
  { intro k. specialize (IH k (x :: d)). destruct (take_until_go toks ign k (x :: d) r) as [s c'].
    simpl in *. destruct IH as [H1 H2]. split.
    - rewrite H1. apply text_of_step.
    - unfold len in *; simpl in *. lia. }
  destruct skip; [|apply Hstep].
  destruct (ign_match ign (x :: r)); [|apply Hstep].
  match goal with |- context [existsb ?f toks] => destruct (existsb f toks) end; [apply adv_refl | apply Hstep].
Qed.

Lemma take_until_adv toks ign c : adv c (snd (take_until toks ign c)).
Proof. destruct c as [d r]. apply take_until_go_adv. Qed.
Global Hint Resolve take_until_adv : tp.

(* take_until without an ignore token consumes at least one character when no stop token matches *)
Lemma take_until_sadv toks c :
  at_end c = false -> is_next toks c = false -> sadv c (snd (take_until toks [] c)).
Proof.
  destruct c as [d r]. unfold at_end, is_next, take_until; simpl.
  destruct r as [|x r]; [discriminate|]. intros _ H. simpl. rewrite H.
  pose proof (take_until_go_adv toks [] r O (x :: d)) as [H1 H2].
  destruct (take_until_go toks [] O (x :: d) r) as [s c']. simpl in *. split.
  - rewrite H1. apply text_of_step.
  - unfold len in *; simpl in *. lia.
Qed.

Lemma starts_with_split t : forall r, starts_with t r = true -> r = t ++ skipn (length t) r.
Proof.
  induction t as [|a t IH]; intros r H; simpl; [reflexivity|].
  destruct r as [|b r]; simpl in H; [discriminate|].
  apply andb_true_iff in H as [H1 H2]. apply N.eqb_eq in H1. subst. f_equal. apply IH, H2.
Qed.

Lemma add_token_adv t c : starts_with t (rest c) = true -> adv c (add_token t c).
Proof.
  intro H. destruct c as [d r]. simpl in H. unfold add_token, adv, text_of, len; simpl. split.
  - rewrite rev_app_distr, rev_involutive, <- app_assoc. f_equal. symmetry. apply starts_with_split, H.
  - rewrite skipn_length. lia.
Qed.

Lemma is_next_single t c : is_next [t] c = starts_with t (rest c).
Proof. unfold is_next; simpl. apply orb_false_r. Qed.

Lemma at_end_false_of_next toks c : (forall t, In t toks -> t <> []) -> is_next toks c = true -> at_end c = false.
Proof.
  intros Hne H. unfold at_end. destruct (rest c) eqn:E; [|reflexivity].
  unfold is_next in H. rewrite E in H. apply existsb_exists in H as [t [Ht H]].
  destruct t; [exfalso; eapply Hne; eauto | discriminate].
Qed.

Ltac toks_nonempty :=
  let t := fresh "t" in let H := fresh "H" in
  intros t H; cbv [In WS FILTER SPREAD OPEN_LIST OPEN_DICT VALUE_START KEY_STOP app] in H;
  repeat (destruct H as [H|H]; [subst t; discriminate|]); contradiction.

(* ================================================================================================ *)
(* B. extract_spread, scan_value, parts_loop                                                         *)
(* ================================================================================================ *)
Global Arguments take_n : simpl never.
Global Arguments take_until : simpl never.
Global Arguments take_while : simpl never.
Global Arguments skip_ws : simpl never.
Global Arguments add_token : simpl never.
Global Arguments is_next : simpl never.
Global Arguments at_end : simpl never.
Lemma extract_spread_cases ty f k c sp c' :
  extract_spread ty f k c = Ok (sp, c') -> (sp = None /\ c' = c) \/ (sp <> None /\ sadv c c').
Proof.
  unfold extract_spread. destruct (is_next SPREAD c) eqn:Hs.
  2:{ intro H; inversion H; auto. }
  assert (He : at_end c = false) by (eapply at_end_false_of_next; [|exact Hs]; toks_nonempty).
  set (tok := if is_next [[46; 46; 46]%N] c then _ else _). destruct tok as [[s|]| |]; try discriminate.
  2:{ intro H; inversion H; auto. }
  destruct (is_some f); [discriminate|]. destruct (stype_eqb ty TSimple && is_some k); [discriminate|].
  intro H. right.
  assert (Hn : sadv c (snd (take_n (length (spread_str s)) c))).
  { destruct s; cbn [spread_str length]; apply take_n_sadv; auto. }
  destruct s.
  - destruct (is_next WS _ || at_end _); [discriminate|]. inversion H; subst. split; [discriminate|auto].
  - inversion H; subst. split; [discriminate|]. eapply sadv_adv_trans; eauto with tp.
  - inversion H; subst. split; [discriminate|]. eapply sadv_adv_trans; eauto with tp.
Qed.

Lemma extract_spread_adv ty f k c sp c' : extract_spread ty f k c = Ok (sp, c') -> adv c c'.
Proof. intro H. apply extract_spread_cases in H as [[_ ->]|[_ H]]; auto with tp. Qed.

Lemma extract_spread_err ty f k c e : extract_spread ty f k c = Err e -> e = TemplateSyntaxError.
Proof.
  unfold extract_spread.
  set (tok := if is_next SPREAD c then _ else _).
  assert (Ht : forall e', tok = Err e' -> e' = TemplateSyntaxError).
  { subst tok. intros e'. repeat match goal with |- context [if ?b then _ else _] => destruct b end;
      intro H; inversion H; reflexivity. }
  destruct tok as [[s|]| |]; try discriminate.
  - repeat match goal with |- context [if ?b then _ else _] => destruct b end; destruct s;
      try discriminate; intro H; inversion H; try reflexivity;
      repeat match goal with H : context [if ?b then _ else _] |- _ => destruct b end; try discriminate;
      inversion H; reflexivity.
  - intro H; inversion H; subst. apply Ht. reflexivity.
Qed.

Lemma extract_spread_fuel ty f k c : extract_spread ty f k c <> OutOfFuel.
Proof.
  unfold extract_spread.
  repeat match goal with
         | |- context [if ?b then _ else _] => destruct b
         | |- context [match ?s with SpDots => _ | _ => _ end] => destruct s
         end; simpl; try discriminate;
  repeat match goal with |- context [if ?b then _ else _] => destruct b end; discriminate.
Qed.

Lemma scan_value_adv terms c v q tr c' : scan_value terms c = Ok (v, q, tr, c') -> adv c c'.
Proof.
  unfold scan_value. destruct (is_next [[39]; [34]; [95; 40]]%N c) eqn:Hq.
  - set (p := if is_next [[95; 40]%N] c then _ else _).
    assert (Hp : adv c (snd p)).
    { subst p. destruct (is_next [[95; 40]%N] c); simpl; [|apply adv_refl].
      eapply adv_trans; [apply take_n_adv | apply skip_ws_adv]. }
    destruct p as [tr0 c1]. simpl in Hp.
    pose proof (take_n_adv 1 c1) as H1. destruct (take_n 1 c1) as [qc c2]. simpl in H1.
    pose proof (take_until_adv [qc] [[cBSL; cBSL]; cBSL :: qc] c2) as H2.
    destruct (take_until [qc] [[cBSL; cBSL]; cBSL :: qc] c2) as [v0 c3]. simpl in H2.
    destruct qc as [|q0 qr]; [discriminate|]. cbn beta iota.
    match goal with |- context [if ?b then _ else _] => destruct b eqn:Hn end.
    + intro H. inversion H; subst. clear H.
      rewrite is_next_single in Hn. pose proof (add_token_adv _ _ Hn) as H4.
      eapply adv_trans; [exact Hp|]. eapply adv_trans; [exact H1|]. eapply adv_trans; [exact H2|].
      eapply adv_trans; [exact H4|]. destruct tr; [|apply adv_refl].
      eapply adv_trans; [apply skip_ws_adv | apply take_n_adv].
    + intro H. inversion H; subst.
      eapply adv_trans; [exact Hp|]. eapply adv_trans; [exact H1|]. exact H2.
  - pose proof (take_until_adv (WS ++ FILTER ++ terms) [] c) as H1.
    destruct (take_until (WS ++ FILTER ++ terms) [] c) as [v0 c1]. intro H. inversion H; subst. exact H1.
Qed.

Lemma scan_value_err terms c e : scan_value terms c = Err e -> e = TemplateSyntaxError.
Proof.
  unfold scan_value. destruct (is_next [[39]; [34]; [95; 40]]%N c).
  - destruct (if is_next [[95; 40]%N] c then _ else _) as [tr0 c1].
    destruct (take_n 1 c1) as [qc c2]. destruct (take_until [qc] [[cBSL; cBSL]; cBSL :: qc] c2) as [v0 c3].
    destruct qc; [intro H; inversion H; reflexivity|]. destruct (is_next _ c3); discriminate.
  - destruct (take_until _ [] c). discriminate.
Qed.

Lemma scan_value_fuel terms c : scan_value terms c <> OutOfFuel.
Proof.
  unfold scan_value. destruct (is_next [[39]; [34]; [95; 40]]%N c).
  - destruct (if is_next [[95; 40]%N] c then _ else _) as [tr0 c1].
    destruct (take_n 1 c1) as [qc c2]. destruct (take_until [qc] [[cBSL; cBSL]; cBSL :: qc] c2) as [v0 c3].
    destruct qc; [discriminate|]. destruct (is_next _ c3); discriminate.
  - destruct (take_until _ [] c). discriminate.
Qed.

(* a value that starts where no stop token matches consumes at least one character *)
Lemma scan_value_sadv terms c v q tr c' :
  at_end c = false -> is_next WS c = false -> is_next FILTER c = false -> is_next terms c = false ->
  scan_value terms c = Ok (v, q, tr, c') -> sadv c c'.
Proof.
  intros He Hw Hf Ht. unfold scan_value. destruct (is_next [[39]; [34]; [95; 40]]%N c) eqn:Hq.
  - set (p := if is_next [[95; 40]%N] c then _ else _).
    destruct (is_next [[95; 40]%N] c) eqn:Htr; subst p; cbn beta iota zeta.
    + (* translation: two characters taken first *)
      pose proof (take_n_sadv 1 c He) as H0.
      set (c1 := skip_ws (snd (take_n 2 c))) in *.
      pose proof (take_n_adv 1 c1) as H1. destruct (take_n 1 c1) as [qc c2]. simpl in H1.
      pose proof (take_until_adv [qc] [[cBSL; cBSL]; cBSL :: qc] c2) as H2.
      destruct (take_until [qc] [[cBSL; cBSL]; cBSL :: qc] c2) as [v0 c3]. simpl in H2.
      destruct qc as [|q0 qr]; [discriminate|]. cbn beta iota.
      assert (H03 : sadv c c3).
      { eapply sadv_adv_trans; [exact H0|]. eapply adv_trans; [apply skip_ws_adv|].
        eapply adv_trans; [exact H1 | exact H2]. }
      match goal with |- context [if ?b then _ else _] => destruct b eqn:Hn end.
      * intro H. inversion H; subst. rewrite is_next_single in Hn.
        eapply sadv_adv_trans; [exact H03|]. eapply adv_trans; [apply add_token_adv, Hn|].
        eapply adv_trans; [apply skip_ws_adv | apply take_n_adv].
      * intro H. inversion H; subst. exact H03.
    + pose proof (take_n_sadv 0 c He) as H1. destruct (take_n 1 c) as [qc c2]. simpl in H1.
      pose proof (take_until_adv [qc] [[cBSL; cBSL]; cBSL :: qc] c2) as H2.
      destruct (take_until [qc] [[cBSL; cBSL]; cBSL :: qc] c2) as [v0 c3]. simpl in H2.
      destruct qc as [|q0 qr]; [discriminate|]. cbn beta iota.
      match goal with |- context [if ?b then _ else _] => destruct b eqn:Hn end.
      * intro H. inversion H; subst. rewrite is_next_single in Hn.
        eapply sadv_adv_trans; [exact H1|]. eapply adv_trans; [exact H2|]. apply add_token_adv, Hn.
      * intro H. inversion H; subst. eapply sadv_adv_trans; [exact H1 | exact H2].
  - assert (Hn : is_next (WS ++ FILTER ++ terms) c = false).
    { unfold is_next in *. rewrite !existsb_app, Hw, Hf, Ht. reflexivity. }
    pose proof (take_until_sadv _ c He Hn) as H1.
    destruct (take_until (WS ++ FILTER ++ terms) [] c) as [v0 c1]. intro H. inversion H; subst. exact H1.
Qed.

Lemma mk_part_err v q sp tr f e : mk_part v q sp tr f = Err e -> e = TemplateSyntaxError.
Proof.
  unfold mk_part. repeat match goal with |- context [if ?b then _ else _] => destruct b end;
    try (intro H; inversion H; reflexivity).
  destruct f; [destruct (_ || _)|]; intro H; inversion H; reflexivity.
Qed.
Lemma mk_part_fuel v q sp tr f : mk_part v q sp tr f <> OutOfFuel.
Proof.
  unfold mk_part. repeat match goal with |- context [if ?b then _ else _] => destruct b end; try discriminate.
  destruct f; [destruct (_ || _)|]; discriminate.
Qed.

Lemma terminal_tokens_fuel ty m sp : terminal_tokens ty m sp <> OutOfFuel.
Proof. destruct ty, m as [[|]|], sp; simpl; discriminate. Qed.

(* the terminal tokens are single closing / separating characters among  : , } ]  *)
Definition no_terminal (c : cur) : Prop :=
  is_next [[58]%N] c = false /\ is_next [[44]%N] c = false /\ is_next [[125]%N] c = false
  /\ is_next [[93]%N] c = false.

Lemma terminal_tokens_not_next ty m sp terms c :
  no_terminal c -> terminal_tokens ty m sp = Ok terms -> is_next terms c = false.
Proof.
  intros (H1 & H2 & H3 & H4) H. rewrite is_next_single in *.
  destruct ty; simpl in H.
  - inversion H; reflexivity.
  - inversion H; subst. unfold is_next; cbn [existsb]. rewrite H2, H4. reflexivity.
  - destruct m as [[|]|]; try discriminate.
    + inversion H; subst. unfold is_next; cbn [existsb]. rewrite H1, H2, H3. reflexivity.
    + destruct (is_some sp); [discriminate|]. inversion H; subst. unfold is_next; cbn [existsb]. rewrite H2, H3. reflexivity.
Qed.

(* one unfolding of the loop body, shared by the lemmas below *)
Ltac parts_body :=
  repeat match goal with
         | |- context [match ?r with Ok _ => _ | Err _ => _ | OutOfFuel => _ end] =>
             let E := fresh "E" in destruct r as [[[? ?] ?]| |] eqn:E
         end.

Lemma parts_loop_adv : forall fuel ty meta key c0 parts first rsp parts' c' rsp',
  parts_loop fuel ty meta key c0 parts first rsp = Ok (parts', c', rsp') -> adv c0 c'.
Proof.
  induction fuel as [|fuel IH]; intros ty meta key c0 parts first rsp parts' c' rsp'; simpl; [discriminate|].
  pose proof (skip_ws_adv c0) as H0. set (c := skip_ws c0) in *.
  destruct (at_end c). { destruct first; [discriminate|]. intro H; inversion H; subst; exact H0. }
  destruct (negb first && negb (is_next FILTER c)). { intro H; inversion H; subst; exact H0. }
  destruct (first && is_next FILTER c); [discriminate|].
  set (r1 := if first then _ else _).
  assert (Hr1 : forall ft c2, r1 = Ok (ft, c2) -> adv c c2).
  { subst r1. intros ft c2. destruct first. { intro H; inversion H; apply adv_refl. }
    pose proof (take_n_adv 1 c) as Ht. destruct (take_n 1 c) as [ftk c1]. simpl in Ht.
    assert (adv c (skip_ws c1)) by (eapply adv_trans; [exact Ht | apply skip_ws_adv]).
    destruct ftk as [|f ?]. { intro H1; inversion H1; subst; auto. }
    destruct (N.eqb f 58).
    - destruct (rev parts) as [|lp ?]; [discriminate|]. destruct (p_filter lp) as [x|]; [|discriminate].
      destruct (N.eqb_spec x 124); [subst|].
      + intro H1; inversion H1; subst; auto.
      + destruct x; try discriminate. repeat (destruct p; try discriminate). congruence.
    - intro H1; inversion H1; subst; auto. }
  destruct r1 as [[ftok c2]| |]; try discriminate. specialize (Hr1 _ _ eq_refl).
  destruct (extract_spread ty ftok key c2) as [[sp c3]| |] eqn:Es; try discriminate.
  apply extract_spread_adv in Es.
  destruct (terminal_tokens ty meta sp) as [terms| |]; try discriminate.
  destruct (scan_value terms c3) as [[[[v q] tr] c4]| |] eqn:Ev; try discriminate.
  apply scan_value_adv in Ev.
  destruct (mk_part v q sp tr ftok) as [p| |]; try discriminate.
  assert (H5 : adv c0 (skip_ws c4)).
  { eapply adv_trans; [exact H0|]. eapply adv_trans; [exact Hr1|]. eapply adv_trans; [exact Es|].
    eapply adv_trans; [exact Ev | apply skip_ws_adv]. }
  destruct (match terms with [] => false | _ => is_next terms (skip_ws c4) end).
  - intro H; inversion H; subst; exact H5.
  - intro H. apply IH in H. eapply adv_trans; eauto.
Qed.

Lemma app_one_nonempty {A} (l : list A) x : l ++ [x] <> [].
Proof. destruct l; discriminate. Qed.

(* the whole specification of the filter-parts loop in one induction: progress, fuel, error class *)
Lemma parts_loop_spec : forall fuel ty meta key c0 parts first rsp,
  (ty = TDict -> meta <> None) -> (first = false -> parts <> []) ->
  len c0 + (if first then 2 else 1) <= fuel ->
  match parts_loop fuel ty meta key c0 parts first rsp with
  | Ok (parts', c', _) =>
      adv c0 c' /\ parts' <> [] /\
      (first = true -> is_next WS c0 = false -> no_terminal c0 -> sadv c0 c')
  | Err k => k = TemplateSyntaxError
  | OutOfFuel => False
  end.
Proof.
  induction fuel as [|fuel IH]; intros ty meta key c0 parts first rsp Hm Hp Hfu.
  { destruct first; simpl in Hfu; lia. }
  cbn [parts_loop].
  pose proof (skip_ws_adv c0) as H0. pose proof (skip_ws_fix c0) as Hfix.
  set (c := skip_ws c0) in *.
  destruct (at_end c) eqn:He.
  { destruct first; [reflexivity|]. split; [exact H0|]. split; [auto|discriminate]. }
  destruct (negb first && negb (is_next FILTER c)) eqn:E1.
  { destruct first; [discriminate|]. split; [exact H0|]. split; [auto|discriminate]. }
  destruct (first && is_next FILTER c) eqn:E2; [reflexivity|].
  set (r1 := if first then _ else _).
  assert (Hr1 : match r1 with
                | Ok (ft, c2) => adv c c2 /\ (first = false -> sadv c c2) /\ (first = true -> c2 = c)
                | Err k => k = TemplateSyntaxError
                | OutOfFuel => False
                end).
  { subst r1. destruct first. { split; [apply adv_refl|]. split; [discriminate|reflexivity]. }
    pose proof (take_n_sadv 0 c He) as Ht. destruct (take_n 1 c) as [ftk c1]. cbn [snd] in Ht.
    assert (Hs : sadv c (skip_ws c1)) by (eapply sadv_adv_trans; [exact Ht | apply skip_ws_adv]).
    assert (Hok : forall ft : option N, adv c (skip_ws c1) /\ (false = false -> sadv c (skip_ws c1))
                                   /\ (false = true -> skip_ws c1 = c)).
    { intros _. split; [apply sadv_adv, Hs|]. split; [intros _; exact Hs | discriminate]. }
    destruct ftk as [|f ?]; [apply (Hok None)|].
    destruct (N.eqb f 58); [|apply (Hok None)].
    destruct (rev parts) as [|lp ?] eqn:Er.
    { exfalso. apply (Hp eq_refl). apply (f_equal (@rev _)) in Er. rewrite rev_involutive in Er. exact Er. }
    destruct (p_filter lp) as [x|]; [|reflexivity].
    destruct x as [|x]; [reflexivity|].
    repeat (destruct x as [x|x|]; try reflexivity). apply (Hok None). }
  destruct r1 as [[ftok c2]| |]; [|exact Hr1|exact Hr1]. destruct Hr1 as (Ha2 & Hs2 & He2).
  pose proof (extract_spread_cases ty ftok key c2) as Hsc.
  pose proof (extract_spread_err ty ftok key c2) as Hse.
  pose proof (extract_spread_fuel ty ftok key c2) as Hsf.
  destruct (extract_spread ty ftok key c2) as [[sp c3]| |]; [|apply Hse; reflexivity|apply Hsf; reflexivity].
  specialize (Hsc _ _ eq_refl). clear Hse Hsf.
  assert (Ha3 : adv c2 c3) by (destruct Hsc as [[_ ->]|[_ H]]; auto with tp).
  pose proof (terminal_tokens_fuel ty meta sp) as Htf.
  pose proof (terminal_tokens_not_next ty meta sp) as Htn.
  destruct (terminal_tokens ty meta sp) as [terms|k|] eqn:Et; [| |apply Htf; reflexivity].
  2:{ destruct ty; simpl in Et; try discriminate. destruct meta as [[|]|].
      - discriminate.
      - destruct (is_some sp); inversion Et; reflexivity.
      - exfalso. apply Hm; reflexivity. }
  clear Htf.
  pose proof (scan_value_adv terms c3) as Hva. pose proof (scan_value_err terms c3) as Hve.
  pose proof (scan_value_fuel terms c3) as Hvf. pose proof (scan_value_sadv terms c3) as Hvs.
  destruct (scan_value terms c3) as [[[[v q] tr] c4]| |]; [|apply Hve; reflexivity|apply Hvf; reflexivity].
  specialize (Hva _ _ _ _ eq_refl). specialize (Hvs v q tr c4). clear Hve Hvf.
  pose proof (mk_part_err v q sp tr ftok) as Hpe. pose proof (mk_part_fuel v q sp tr ftok) as Hpf.
  destruct (mk_part v q sp tr ftok) as [p| |]; [|apply Hpe; reflexivity|apply Hpf; reflexivity].
  clear Hpe Hpf.
  assert (H5 : adv c (skip_ws c4)).
  { eapply adv_trans; [exact Ha2|]. eapply adv_trans; [exact Ha3|]. eapply adv_trans; [exact Hva | apply skip_ws_adv]. }
  (* strict progress of this iteration *)
  assert (Hstrict : (first = false -> sadv c (skip_ws c4)) /\
                    (first = true -> is_next WS c0 = false -> no_terminal c0 -> sadv c0 (skip_ws c4))).
  { split.
    - intro Hf0. eapply sadv_adv_trans; [apply Hs2, Hf0|]. eapply adv_trans; [exact Ha3|].
      eapply adv_trans; [exact Hva | apply skip_ws_adv].
    - intros Hf1 Hw Hnt. subst first. specialize (Hfix Hw). rewrite Hfix in *. clear Hfix.
      specialize (He2 eq_refl). subst c2. cbn [andb] in E2.
      destruct Hsc as [[-> ->]|[_ Hs3]].
      + eapply sadv_adv_trans; [|apply skip_ws_adv]. apply Hvs; auto; try (eapply Htn; eauto).
      + eapply sadv_adv_trans; [exact Hs3|]. eapply adv_trans; [exact Hva | apply skip_ws_adv]. }
  destruct Hstrict as [Hst0 Hst1].
  destruct (match terms with [] => false | _ => is_next terms (skip_ws c4) end).
  - split; [eapply adv_trans; eauto|]. split; [apply app_one_nonempty | exact Hst1].
  - specialize (IH ty meta key (skip_ws c4) (parts ++ [p]) false (if stype_eqb ty TSimple && negb (is_some ftok) then sp else rsp) Hm
                   (fun _ => app_one_nonempty parts p)).
    assert (Hfu' : len (skip_ws c4) + 1 <= fuel).
    { destruct first.
      - destruct H0 as [_ H0], H5 as [_ H5]. simpl in Hfu. lia.
      - destruct (Hst0 eq_refl) as [_ Hlt]. destruct H0 as [_ H0]. simpl in Hfu. lia. }
    specialize (IH Hfu').
    destruct (parts_loop fuel ty meta key (skip_ws c4) (parts ++ [p]) false _) as [[[parts' c'] rsp']| |];
      [|exact IH|exact IH].
    destruct IH as (Ia & Ib & _). split; [eapply adv_trans; [exact H0|]; eapply adv_trans; eauto|].
    split; [exact Ib|]. intros Hf1 Hw Hnt. eapply sadv_adv_trans; [apply Hst1; auto | exact Ia].
Qed.

(* ================================================================================================ *)
(* C. the container stack                                                                            *)
(* ================================================================================================ *)
(* frames above the root are lists / dicts, and a dict on the stack always has meta["expects_key"] *)
Definition mid_ok (f : frame) : Prop := f_ty f <> TSimple /\ (f_ty f = TDict -> f_meta f <> None).
Inductive stack_ok : list frame -> Prop :=
| so_root r : f_ty r = TSimple -> stack_ok [r]
| so_cons f s : mid_ok f -> stack_ok s -> stack_ok (f :: s).

(* the root has been popped and carries its single entry *)
Definition final_ok (total : option frame) : Prop := exists r, total = Some r /\ f_ents r <> [].
Definition st_inv (stack : list frame) (total : option frame) : Prop :=
  match stack with [] => final_ok total | _ :: _ => stack_ok stack end.

Lemma stack_ok_replace top top' below :
  stack_ok (top :: below) -> f_ty top' = f_ty top -> (f_ty top' = TDict -> f_meta top' <> None) ->
  stack_ok (top' :: below).
Proof.
  intros H Ht Hm. inversion H; subst.
  - apply so_root. congruence.
  - apply so_cons; auto. destruct H2 as [Hn _]. split; [congruence | auto].
Qed.

Lemma stack_ok_top_meta top below : stack_ok (top :: below) -> f_ty top = TDict -> f_meta top <> None.
Proof.
  intros H Ht. inversion H; subst.
  - congruence.
  - destruct H2 as [_ Hm]. auto.
Qed.

Lemma stack_ok_below top below : stack_ok (top :: below) -> f_ty top <> TSimple -> stack_ok below.
Proof. intros H Ht. inversion H; subst; [congruence | auto]. Qed.

Lemma stack_ok_simple top below : stack_ok (top :: below) -> f_ty top = TSimple -> below = [].
Proof. intros H Ht. inversion H; subst; [reflexivity|]. destruct H2 as [Hn _]. congruence. Qed.

Lemma stype_eqb_spec a b : reflect (a = b) (stype_eqb a b).
Proof. destruct a, b; simpl; constructor; congruence. Qed.

Lemma pop_closed_spec c top below total :
  stack_ok below ->
  match pop_closed c top below total with
  | SCont c' st' tot' => c' = c /\ st_inv st' tot'
  | SErr _ => False
  | SFuel => False
  end.
Proof.
  intro H. unfold pop_closed. destruct below as [|parent below']; [inversion H|].
  cbn [push_entry f_ty]. destruct (stype_eqb_spec (f_ty parent) TSimple) as [E|E].
  - split; [reflexivity|]. rewrite (stack_ok_simple _ _ H E). simpl.
    eexists; split; [reflexivity|]. simpl. apply app_one_nonempty.
  - split; [reflexivity|]. simpl. eapply stack_ok_replace; [exact H | reflexivity |].
    simpl. apply (stack_ok_top_meta _ _ H).
Qed.

Lemma is_next_take1 toks c : (forall t, In t toks -> t <> []) -> is_next toks c = true ->
  sadv c (snd (take_n 1 c)).
Proof. intros Hne H. apply take_n_sadv. eapply at_end_false_of_next; eauto. Qed.

Lemma open_progress ty key c sp c1 toks : (forall t, In t toks -> t <> []) -> is_next toks c = true ->
  extract_spread ty None key c = Ok (sp, c1) -> sadv c (snd (take_n 1 c1)).
Proof.
  intros Hne Hn He. apply extract_spread_cases in He as [[_ ->]|[_ Hs]].
  - eapply is_next_take1; eauto.
  - eapply sadv_adv_trans; [exact Hs | apply take_n_adv].
Qed.

Lemma stack_step_spec key c0 top below total :
  stack_ok (top :: below) ->
  match stack_step key c0 top below total with
  | SCont c' st' tot' => sadv c0 c' /\ st_inv st' tot'
  | SErr k => k = TemplateSyntaxError
  | SFuel => False
  end.
Proof.
  intro Hok. unfold stack_step.
  pose proof (skip_ws_adv c0) as H0. pose proof (skip_ws_stops c0) as Hws. set (c := skip_ws c0) in *.
  pose proof (stack_ok_top_meta _ _ Hok) as Hmeta.
  destruct (is_next OPEN_LIST c) eqn:E1.
  { pose proof (extract_spread_err (f_ty top) None key c) as Hse.
    pose proof (extract_spread_fuel (f_ty top) None key c) as Hsf.
    destruct (extract_spread (f_ty top) None key c) as [[sp c1]| |] eqn:Es;
      [|apply Hse; reflexivity|apply Hsf; reflexivity].
    destruct (is_some sp && stype_eqb (f_ty top) TSimple && is_some key); [reflexivity|].
    unfold push_struct. destruct (Nat.ltb MAX_NESTING_DEPTH (length (top :: below))); [reflexivity|].
    split.
    - eapply adv_sadv_trans; [exact H0|]. eapply open_progress; [|exact E1|exact Es]. toks_nonempty.
    - simpl. apply so_cons; [|exact Hok]. split; simpl; discriminate. }
  destruct (is_next [[93]%N] c) eqn:E2.
  { destruct (stype_eqb_spec (f_ty top) TList) as [Et|Et]; [|reflexivity]. cbn [negb].
    assert (Hb : stack_ok below) by (eapply stack_ok_below; [exact Hok | congruence]).
    pose proof (pop_closed_spec (snd (take_n 1 c)) top below total Hb) as Hp.
    destruct (pop_closed (snd (take_n 1 c)) top below total) as [c' st' tot'| |]; try contradiction.
    destruct Hp as [-> Hi]. split; [|exact Hi].
    eapply adv_sadv_trans; [exact H0|]. eapply is_next_take1; [|exact E2]. toks_nonempty. }
  destruct (is_next OPEN_DICT c) eqn:E3.
  { pose proof (extract_spread_err (f_ty top) None key c) as Hse.
    pose proof (extract_spread_fuel (f_ty top) None key c) as Hsf.
    destruct (extract_spread (f_ty top) None key c) as [[sp c1]| |] eqn:Es;
      [|apply Hse; reflexivity|apply Hsf; reflexivity].
    destruct (is_some sp && stype_eqb (f_ty top) TSimple && is_some key); [reflexivity|].
    assert (Hpr : sadv c0 (snd (take_n 1 c1))).
    { eapply adv_sadv_trans; [exact H0|]. eapply open_progress; [|exact E3|exact Es]. toks_nonempty. }
    assert (Hnew : mid_ok (mkframe TDict sp [] (Some true))) by (split; simpl; discriminate).
    assert (Hpush : forall top', stack_ok (top' :: below) ->
              match push_struct (snd (take_n 1 c1)) (mkframe TDict sp [] (Some true)) top' below total with
              | SCont c' st' tot' => sadv c0 c' /\ st_inv st' tot'
              | SErr k => k = TemplateSyntaxError
              | SFuel => False
              end).
    { intros top' Hok'. unfold push_struct.
      destruct (Nat.ltb MAX_NESTING_DEPTH (length (top' :: below))); [reflexivity|].
      split; [exact Hpr|]. simpl. apply so_cons; [exact Hnew | exact Hok']. }
    destruct (stype_eqb_spec (f_ty top) TDict) as [Et|Et].
    - specialize (Hmeta Et). destruct (f_meta top) as [[|]|]; [| |congruence].
      + destruct (is_some sp); [|reflexivity]. apply Hpush.
        eapply stack_ok_replace; [exact Hok | reflexivity | simpl; discriminate].
      + apply Hpush, Hok.
    - apply Hpush, Hok. }
  destruct (is_next [[125]%N] c) eqn:E4.
  { destruct (stype_eqb_spec (f_ty top) TDict) as [Et|Et]; [|reflexivity]. cbn [negb].
    destruct (negb (validate_dict (f_ents top) false)); [reflexivity|].
    specialize (Hmeta Et). destruct (f_meta top) as [m|]; [|congruence].
    assert (Hb : stack_ok below) by (eapply stack_ok_below; [exact Hok | congruence]).
    pose proof (pop_closed_spec (snd (take_n 1 c)) (set_meta top None) below total Hb) as Hp.
    destruct (pop_closed (snd (take_n 1 c)) (set_meta top None) below total) as [c' st' tot'| |]; try contradiction.
    destruct Hp as [-> Hi]. split; [|exact Hi].
    eapply adv_sadv_trans; [exact H0|]. eapply is_next_take1; [|exact E4]. toks_nonempty. }
  destruct (is_next [[44]%N] c) eqn:E5.
  { assert (Hpr : sadv c0 (snd (take_n 1 c))).
    { eapply adv_sadv_trans; [exact H0|]. eapply is_next_take1; [|exact E5]. toks_nonempty. }
    destruct (f_ty top) eqn:Et; [reflexivity| |].
    - split; [exact Hpr | exact Hok].
    - split; [exact Hpr|]. simpl. eapply stack_ok_replace; [exact Hok | reflexivity | simpl; discriminate]. }
  destruct (is_next [[58]%N] c) eqn:E6.
  { destruct (stype_eqb_spec (f_ty top) TDict) as [Et|Et]; [|reflexivity]. cbn [negb].
    specialize (Hmeta Et). destruct (f_meta top) as [[|]|]; [|reflexivity|congruence].
    split.
    - eapply adv_sadv_trans; [exact H0|]. eapply is_next_take1; [|exact E6]. toks_nonempty.
    - simpl. eapply stack_ok_replace; [exact Hok | reflexivity | simpl; discriminate]. }
  (* a value *)
  destruct (negb (stype_eqb (f_ty top) TSimple) && at_end c); [reflexivity|].
  assert (Hnt : no_terminal c) by (repeat split; assumption).
  pose proof (parts_loop_spec (S (S (length (rest c)))) (f_ty top) (f_meta top) key c [] true (f_sp top)
                Hmeta (fun H => ltac:(discriminate))) as Hp.
  assert (Hfu : len c + 2 <= S (S (length (rest c)))) by (unfold len; lia). specialize (Hp Hfu).
  destruct (parts_loop (S (S (length (rest c)))) (f_ty top) (f_meta top) key c [] true (f_sp top))
    as [[[parts c1] rsp]| |]; [|exact Hp|exact Hp].
  destruct Hp as (Ha & Hne & Hs). specialize (Hs eq_refl Hws Hnt).
  assert (Hpr : sadv c0 c1) by (eapply adv_sadv_trans; eauto).
  set (top1 := push_entry (set_sp top rsp) (NVal parts)).
  assert (Hok1 : stack_ok (top1 :: below)).
  { eapply stack_ok_replace; [exact Hok | reflexivity | exact Hmeta]. }
  destruct (f_ty top) eqn:Et.
  - split; [exact Hpr|]. rewrite (stack_ok_simple _ _ Hok Et). simpl.
    eexists; split; [reflexivity|]. simpl. apply app_one_nonempty.
  - split; [exact Hpr | exact Hok1].
  - destruct parts as [|p0 ?]; [congruence|]. specialize (Hmeta eq_refl).
    destruct (f_meta top) as [ek|]; [|congruence].
    assert (Hpr2 : sadv c0 (skip_ws c1)) by (eapply sadv_adv_trans; [exact Hpr | apply skip_ws_adv]).
    destruct (is_some (p_spread p0)).
    + destruct ek; cbn [negb]; [|reflexivity].
      destruct (is_next [[58]%N] (skip_ws c1)); [reflexivity|]. split; [exact Hpr2 | exact Hok1].
    + destruct ek; [|split; [exact Hpr | exact Hok1]].
      destruct (is_next [[58]%N] (skip_ws c1)); cbn [negb]; [|reflexivity]. split; [exact Hpr2 | exact Hok1].
Qed.

Lemma stack_loop_spec : forall fuel key c stack total,
  st_inv stack total -> (stack <> [] -> len c < fuel) ->
  match stack_loop fuel key c stack total with
  | Ok (c', tot') => adv c c' /\ final_ok tot' /\ (stack <> [] -> sadv c c')
  | Err k => k = TemplateSyntaxError
  | OutOfFuel => False
  end.
Proof.
  induction fuel as [|fuel IH]; intros key c stack total Hi Hf.
  - destruct stack; simpl.
    + split; [apply adv_refl|]. split; [exact Hi | congruence].
    + assert (len c < 0) by (apply Hf; discriminate). lia.
  - destruct stack as [|top below]; cbn [stack_loop].
    + split; [apply adv_refl|]. split; [exact Hi | congruence].
    + simpl in Hi. pose proof (stack_step_spec key c top below total Hi) as Hs.
      destruct (stack_step key c top below total) as [c' st' tot'|k|]; [|exact Hs|exact Hs].
      destruct Hs as [Hs Hi']. specialize (IH key c' st' tot' Hi').
      assert (Hf' : st' <> [] -> len c' < fuel).
      { intros _. destruct Hs as [_ Hlt]. assert (len c < S fuel) by (apply Hf; discriminate). lia. }
      specialize (IH Hf').
      destruct (stack_loop fuel key c' st' tot') as [[c'' tot'']| |]; [|exact IH|exact IH].
      destruct IH as (Ia & Ib & _). split; [eapply adv_trans; [apply sadv_adv|]; eauto|].
      split; [exact Ib|]. intros _. eapply sadv_adv_trans; eauto.
Qed.

(* ================================================================================================ *)
(* D. the attribute loop and parse_tag                                                               *)
(* ================================================================================================ *)
Lemma parse_key_spec c1 :
  match parse_key c1 with
  | KBreak c2 => adv c1 c2 /\ at_end c2 = true
  | KKey _ c2 => adv c1 c2
  end.
Proof.
  unfold parse_key. destruct (is_next VALUE_START c1); [apply adv_refl|].
  pose proof (take_until_adv KEY_STOP [] c1) as H. destruct (take_until KEY_STOP [] c1) as [k c2].
  cbn [snd] in H.
  destruct (match k with [] => at_end c2 | _ => false end) eqn:E.
  - split; [exact H|]. destruct k; [exact E | discriminate].
  - destruct (is_next [[61]%N] c2) eqn:En; cbn [negb]; [|apply adv_refl].
    eapply adv_trans; [exact H|]. apply add_token_adv. rewrite <- is_next_single. exact En.
Qed.

Lemma at_end_text c : at_end c = true -> rev (done c) = text_of c.
Proof. unfold at_end, text_of. destruct (rest c); [|discriminate]. intros _. rewrite app_nil_r. reflexivity. Qed.

Lemma unwrap_total_ok root : f_ents root <> [] -> exists v, unwrap_total root = Ok v.
Proof.
  unfold unwrap_total. destruct (f_ents root) as [|[ps|ty sp ents m] ?]; [congruence| |]; intros _.
  - eexists; reflexivity.
  - destruct (stype_eqb ty TSimple); eexists; reflexivity.
Qed.

Lemma attrs_loop_spec : forall fuel c attrs, len c < fuel ->
  match attrs_loop fuel c attrs with
  | Ok (n, _) => n = text_of c
  | Err k => k = TemplateSyntaxError
  | OutOfFuel => False
  end.
Proof.
  induction fuel as [|fuel IH]; intros c attrs Hf; [lia|].
  cbn [attrs_loop]. destruct (at_end c) eqn:He; [apply at_end_text, He|].
  pose proof (skip_ws_adv c) as H1. set (c1 := skip_ws c) in *.
  pose proof (parse_key_spec c1) as Hk. destruct (parse_key c1) as [c2|key c2].
  { destruct Hk as [[Ht _] Hk]. rewrite (at_end_text _ Hk), Ht. apply H1. }
  assert (Hroot : st_inv [root_frame] None) by (simpl; apply so_root; reflexivity).
  pose proof (stack_loop_spec (S (length (rest c2))) key c2 [root_frame] None Hroot
                (fun _ => Nat.lt_succ_diag_r _)) as Hs.
  destruct (stack_loop (S (length (rest c2))) key c2 [root_frame] None) as [[c3 total]| |]; [|exact Hs|exact Hs].
  destruct Hs as (_ & (root & -> & Hne) & Hs). specialize (Hs ltac:(discriminate)).
  destruct (unwrap_total_ok root Hne) as [v ->].
  assert (H3 : sadv c c3) by (eapply adv_sadv_trans; [exact H1|]; eapply adv_sadv_trans; eauto).
  specialize (IH c3 (attrs ++ [mkattr key v (N.of_nat (length (done c1)))])).
  assert (Hf' : len c3 < fuel) by (destruct H3 as [_ H3]; lia). specialize (IH Hf').
  destruct (attrs_loop fuel c3 _) as [[n a]| |]; [|exact IH|exact IH].
  rewrite IH. apply H3.
Qed.

(* --- the three statements about parse_tag --- *)
Lemma parse_tag_spec (s : str) :
  match parse_tag s with
  | Ok (n, _) => n = s
  | Err k => k = TemplateSyntaxError
  | OutOfFuel => False
  end.
Proof.
  unfold parse_tag. pose proof (attrs_loop_spec (S (length s)) (mkcur [] s) [] (Nat.lt_succ_diag_r _)) as H.
  destruct (attrs_loop (S (length s)) (mkcur [] s) []) as [[n a]| |]; exact H.
Qed.

Lemma parse_tag_total_lemma (s : str) : parse_tag s <> OutOfFuel.
Proof. pose proof (parse_tag_spec s) as H. intro E. rewrite E in H. exact H. Qed.

Lemma parse_tag_error_class_lemma (s : str) k : parse_tag s = Err k -> k = TemplateSyntaxError.
Proof. pose proof (parse_tag_spec s) as H. intro E. rewrite E in H. exact H. Qed.

Lemma parse_tag_normalized_lemma (s : str) n a : parse_tag s = Ok (n, a) -> n = s.
Proof. pose proof (parse_tag_spec s) as H. intro E. rewrite E in H. exact H. Qed.

(* ================================================================================================ *)
(* E. serialize: recursion depth = literal nesting depth                                             *)
(* ================================================================================================ *)
Lemma fold_max_le (f : node -> nat) e l : In e l -> f e <= fold_right (fun e m => Nat.max (f e) m) O l.
Proof. induction l as [|a l IH]; simpl; [tauto|]. intros [->|H]; [lia|]. apply IH in H. lia. Qed.

Lemma serialize_node_no_recursion_error : forall d n, node_depth n <= d -> serialize_node d n <> Err RecursionError.
Proof.
  induction d as [|d IH]; intros n Hd.
  - destruct n; simpl in *; [discriminate | lia].
  - destruct n as [ps|ty sp ents m]; [simpl; discriminate|].
    cbn [serialize_node]. cbn [node_depth] in Hd.
    set (ser_all := fix ser_all (l : list node) : res (list str) := _).
    assert (Hall : forall l, (forall e, In e l -> node_depth e <= d) -> ser_all l <> Err RecursionError).
    { induction l as [|e l IHl]; intro Hl; simpl; [discriminate|].
      pose proof (IH e (Hl e (or_introl eq_refl))) as He.
      destruct (serialize_node d e) as [s|k|]; [| congruence | discriminate].
      specialize (IHl (fun e' H => Hl e' (or_intror H))).
      destruct (ser_all l) as [ss|k|]; [discriminate | congruence | discriminate]. }
    assert (Hents : forall e, In e ents -> node_depth e <= d).
    { intros e He. pose proof (fold_max_le node_depth e ents He). lia. }
    specialize (Hall ents Hents).
    destruct ty.
    + destruct ents as [|e ?]; [discriminate|]. apply IH, Hents. left; reflexivity.
    + destruct (ser_all ents) as [ss|k|]; [discriminate | congruence | discriminate].
    + destruct (ser_all ents) as [ss|k|]; [| congruence | discriminate].
      assert (Hdp : forall l p, dict_pairs l p <> Err RecursionError).
      { induction l as [|[e s] l IHl]; intro p; simpl; [discriminate|].
        destruct (entry_is_spread e).
        - destruct (is_some p); [discriminate|]. specialize (IHl p).
          destruct (dict_pairs l p); [discriminate | congruence | discriminate].
        - destruct p; [specialize (IHl None); destruct (dict_pairs l None);
                       [discriminate | congruence | discriminate] | apply IHl]. }
      specialize (Hdp (combine ents ss) None).
      destruct (dict_pairs (combine ents ss) None); [discriminate | congruence | discriminate].
Qed.

Definition attrs_depth (l : list attr) : nat :=
  fold_right (fun a m => Nat.max (node_depth (a_value a)) m) O l.

Lemma serialize_tag_no_recursion_error d l : attrs_depth l <= d -> serialize_tag d l <> Err RecursionError.
Proof.
  intro H. unfold serialize_tag.
  assert (Ha : serialize_attrs d l <> Err RecursionError).
  { induction l as [|a l IH]; simpl; [discriminate|]. simpl in H.
    assert (Hn : serialize_node d (a_value a) <> Err RecursionError)
      by (apply serialize_node_no_recursion_error; lia).
    unfold serialize_attr. destruct (serialize_node d (a_value a)) as [s|k|]; [| congruence | discriminate].
    assert (IH' : serialize_attrs d l <> Err RecursionError) by (apply IH; lia).
    destruct (a_key a) as [[|? ?]|]; destruct (serialize_attrs d l); try discriminate; congruence. }
  destruct (serialize_attrs d l); [discriminate | congruence | discriminate].
Qed.

(* ================================================================================================ *)
(* F. _detailed_tag_parser                                                                           *)
(* ================================================================================================ *)
Lemma until_any_go_le stops esc : forall r skip acc, length (snd (until_any_go stops esc skip acc r)) <= length r.
Proof.
  induction r as [|x r IH]; intros skip acc; simpl; [lia|].
  destruct skip; [specialize (IH false (x :: acc)); lia|].
  destruct (esc && N.eqb x cBSL && _); [specialize (IH true (x :: acc)); lia|].
  destruct (existsb (N.eqb x) stops); [simpl; lia|]. specialize (IH false (x :: acc)); lia.
Qed.

Lemma until_any_le stops esc r : length (snd (until_any stops esc r)) <= length r.
Proof. apply until_any_go_le. Qed.

Lemma until_any_strict stops x r :
  existsb (N.eqb x) stops = false -> length (snd (until_any stops false (x :: r))) <= length r.
Proof. intro H. unfold until_any. simpl. rewrite H. apply until_any_go_le. Qed.

Lemma detailed_go_spec : forall fuel r n out, length r < fuel ->
  match detailed_go fuel r n out with
  | Ok _ => True
  | Err k => k = TemplateSyntaxError
  | OutOfFuel => False
  end.
Proof.
  induction fuel as [|fuel IH]; intros r n out Hf; [lia|].
  destruct r as [|ch r1]; cbn [detailed_go]; [reflexivity|]. simpl in Hf.
  destruct (N.eqb ch 39 || N.eqb ch 34) eqn:Eq.
  { pose proof (until_any_le [ch] true r1) as Hl. destruct (until_any [ch] true r1) as [content r2].
    cbn [snd] in Hl. destruct r2 as [|q r3]; [reflexivity|]. destruct (N.eqb q ch); [|reflexivity].
    apply IH. simpl in Hl. lia. }
  apply orb_false_iff in Eq as [Eq1 Eq2].
  destruct (N.eqb_spec ch 37) as [->|Ep].
  { destruct r1 as [|y r1'].
    - apply IH. cbn [length] in *. lia.
    - assert (Hgo : match detailed_go fuel (y :: r1') (n + 1)%N ([37%N] :: out)
                    with Ok _ => True | Err k => k = TemplateSyntaxError | OutOfFuel => False end).
      { apply IH. cbn [length] in *. lia. }
      destruct y as [|p]; [exact Hgo|].
      repeat (destruct p as [p|p|]; try exact Hgo). exact I. }
  assert (Hs : existsb (N.eqb ch) [39; 34; 37]%N = false).
  { simpl. rewrite Eq1, Eq2. apply N.eqb_neq in Ep. rewrite Ep. reflexivity. }
  pose proof (until_any_strict _ ch r1 Hs) as Hl.
  destruct (until_any [39; 34; 37]%N false (ch :: r1)) as [content r2]. cbn [snd] in Hl.
  apply IH. lia.
Qed.

Lemma detailed_tag_spec (s : str) :
  match detailed_tag s with
  | Ok _ => True
  | Err k => k = TemplateSyntaxError
  | OutOfFuel => False
  end.
Proof.
  unfold detailed_tag. apply detailed_go_spec. rewrite skipn_length. lia.
Qed.

(* ================================================================================================ *)
(* G. MAX_NESTING_DEPTH bounds the nesting depth of everything parse_tag returns                     *)
(* ================================================================================================ *)
(* at most MAX containers above the root; the frame with j frames below it only holds entries of depth <= MAX - j *)
Fixpoint depth_ok (stack : list frame) : Prop :=
  match stack with
  | [] => True
  | f :: below =>
    length below <= MAX_NESTING_DEPTH /\
    (forall e, In e (f_ents f) -> node_depth e + length below <= MAX_NESTING_DEPTH) /\ depth_ok below
  end.
Definition total_depth_ok (total : option frame) : Prop :=
  forall r, total = Some r -> forall e, In e (f_ents r) -> node_depth e <= MAX_NESTING_DEPTH.

Lemma fold_max_bound (l : list node) b :
  (forall e, In e l -> node_depth e <= b) -> fold_right (fun e m => Nat.max (node_depth e) m) O l <= b.
Proof.
  induction l as [|a l IH]; intro H; simpl; [lia|].
  pose proof (H a (or_introl eq_refl)). specialize (IH (fun e He => H e (or_intror He))). lia.
Qed.

Lemma depth_ok_same_ents top top' below :
  f_ents top' = f_ents top -> depth_ok (top :: below) -> depth_ok (top' :: below).
Proof. intros E (H0 & H1 & H2). split; [exact H0|]. split; [rewrite E; exact H1 | exact H2]. Qed.

Lemma push_val_ents top below parts sp :
  depth_ok (top :: below) ->
  forall e, In e (f_ents (push_entry (set_sp top sp) (NVal parts))) -> node_depth e + length below <= MAX_NESTING_DEPTH.
Proof.
  intros (H0 & H1 & H2). simpl. intros e He. apply in_app_or in He as [He|[<-|[]]].
  - apply H1, He.
  - simpl. exact H0.
Qed.

Lemma depth_ok_push_val top below parts sp :
  depth_ok (top :: below) -> depth_ok (push_entry (set_sp top sp) (NVal parts) :: below).
Proof.
  intros H. pose proof (push_val_ents top below parts sp H) as He. destruct H as (H0 & H1 & H2).
  split; [exact H0|]. split; [exact He | exact H2].
Qed.

Lemma pop_closed_depth c top below total c' st' tot' :
  depth_ok (top :: below) -> total_depth_ok total ->
  pop_closed c top below total = SCont c' st' tot' -> depth_ok st' /\ total_depth_ok tot'.
Proof.
  intros (Hl & Ht & Hb) Htot. unfold pop_closed. destruct below as [|parent below']; [discriminate|].
  destruct Hb as (Hl' & Hp & Hb'). simpl in Hl.
  assert (Hnew : forall e, In e (f_ents (push_entry parent (node_of_frame top))) ->
                      node_depth e + length below' <= MAX_NESTING_DEPTH).
  { simpl. intros e He. apply in_app_or in He as [He|[<-|[]]]; [apply Hp, He|].
    simpl. assert (fold_right (fun e m => Nat.max (node_depth e) m) O (f_ents top)
                   <= MAX_NESTING_DEPTH - S (length below')).
    { apply fold_max_bound. intros e He. specialize (Ht e He). simpl in Ht. lia. }
    lia. }
  destruct (stype_eqb (f_ty (push_entry parent (node_of_frame top))) TSimple); intro H; inversion H; subst.
  - split; [exact Hb'|]. intros r Hr e He. inversion Hr; subst. specialize (Hnew e He). lia.
  - split; [split; [exact Hl'|split; [exact Hnew | exact Hb']] | exact Htot].
Qed.

Lemma push_struct_depth c newf top below total c' st' tot' :
  f_ents newf = [] -> depth_ok (top :: below) -> total_depth_ok total ->
  push_struct c newf top below total = SCont c' st' tot' -> depth_ok st' /\ total_depth_ok tot'.
Proof.
  intros En Hd Htot. unfold push_struct.
  destruct (Nat.ltb_spec MAX_NESTING_DEPTH (length (top :: below))) as [Hlt|Hle]; [discriminate|].
  intro H; inversion H; subst. split; [|exact Htot].
  split; [exact Hle|]. split; [rewrite En; intros e []|exact Hd].
Qed.

Lemma stack_step_depth key c0 top below total c' st' tot' :
  depth_ok (top :: below) -> total_depth_ok total ->
  stack_step key c0 top below total = SCont c' st' tot' -> depth_ok st' /\ total_depth_ok tot'.
Proof.
  intros Hd Htot. unfold stack_step. set (c := skip_ws c0).
  assert (Hsm : forall m, depth_ok (set_meta top m :: below)) by (intro m; eapply depth_ok_same_ents; [reflexivity|exact Hd]).
  destruct (is_next OPEN_LIST c).
  { destruct (extract_spread (f_ty top) None key c) as [[sp c1]| |]; try discriminate.
    destruct (is_some sp && stype_eqb (f_ty top) TSimple && is_some key); [discriminate|].
    apply push_struct_depth; auto. }
  destruct (is_next [[93]%N] c).
  { destruct (negb (stype_eqb (f_ty top) TList)); [discriminate|]. apply pop_closed_depth; auto. }
  destruct (is_next OPEN_DICT c).
  { destruct (extract_spread (f_ty top) None key c) as [[sp c1]| |]; try discriminate.
    destruct (is_some sp && stype_eqb (f_ty top) TSimple && is_some key); [discriminate|].
    destruct (stype_eqb (f_ty top) TDict).
    - destruct (f_meta top) as [[|]|]; [|apply push_struct_depth; auto|discriminate].
      destruct (is_some sp); [|discriminate]. apply push_struct_depth; auto.
    - apply push_struct_depth; auto. }
  destruct (is_next [[125]%N] c).
  { destruct (negb (stype_eqb (f_ty top) TDict)); [discriminate|].
    destruct (negb (validate_dict (f_ents top) false)); [discriminate|].
    destruct (f_meta top); [|discriminate]. apply pop_closed_depth; auto. }
  destruct (is_next [[44]%N] c).
  { destruct (f_ty top); [discriminate| |]; intro H; inversion H; subst; auto. }
  destruct (is_next [[58]%N] c).
  { destruct (negb (stype_eqb (f_ty top) TDict)); [discriminate|].
    destruct (f_meta top) as [[|]|]; try discriminate. intro H; inversion H; subst; auto. }
  destruct (negb (stype_eqb (f_ty top) TSimple) && at_end c); [discriminate|].
  destruct (parts_loop _ (f_ty top) (f_meta top) key c [] true (f_sp top)) as [[[parts c1] rsp]| |]; try discriminate.
  pose proof (depth_ok_push_val top below parts rsp Hd) as Hv.
  pose proof (push_val_ents top below parts rsp Hd) as Hve.
  destruct (f_ty top).
  - intro H; inversion H; subst. destruct Hd as (_ & _ & Hb). split; [exact Hb|].
    intros r Hr e He. inversion Hr; subst. specialize (Hve e He). lia.
  - intro H; inversion H; subst; auto.
  - destruct parts as [|p0 ?]; [discriminate|]. destruct (f_meta top) as [ek|]; [|discriminate].
    destruct (is_some (p_spread p0)).
    + destruct (negb ek); [discriminate|]. destruct (is_next _ _); [discriminate|]. intro H; inversion H; subst; auto.
    + destruct ek; [destruct (negb _); [discriminate|]|]; intro H; inversion H; subst; auto.
Qed.

Lemma stack_loop_depth : forall fuel key c stack total c' tot',
  depth_ok stack -> total_depth_ok total ->
  stack_loop fuel key c stack total = Ok (c', tot') -> total_depth_ok tot'.
Proof.
  induction fuel as [|fuel IH]; intros key c stack total c' tot' Hd Ht.
  - destruct stack; simpl; [|discriminate]. intro H; inversion H; subst; exact Ht.
  - destruct stack as [|top below]; cbn [stack_loop]. { intro H; inversion H; subst; exact Ht. }
    destruct (stack_step key c top below total) as [c1 st1 tot1|k|] eqn:Es; try discriminate.
    apply stack_step_depth in Es as [Hd1 Ht1]; auto. apply IH; auto.
Qed.

Definition attr_depth_ok (a : attr) : Prop := node_depth (a_value a) <= S MAX_NESTING_DEPTH.

Lemma unwrap_total_depth root v :
  (forall e, In e (f_ents root) -> node_depth e <= MAX_NESTING_DEPTH) -> unwrap_total root = Ok v ->
  node_depth v <= S MAX_NESTING_DEPTH.
Proof.
  intros H. unfold unwrap_total.
  assert (Hr : node_depth (node_of_frame root) <= S MAX_NESTING_DEPTH).
  { simpl. apply le_n_S. apply fold_max_bound, H. }
  destruct (f_ents root) as [|[ps|ty sp ents m] ?] eqn:E; [discriminate| |].
  - intro Hv; inversion Hv; subst. exact Hr.
  - destruct (stype_eqb ty TSimple); intro Hv; inversion Hv; subst; [exact Hr|].
    specialize (H (NStruct ty sp ents m) (or_introl eq_refl)). lia.
Qed.

Lemma attrs_loop_depth : forall fuel c attrs n attrs',
  Forall attr_depth_ok attrs -> attrs_loop fuel c attrs = Ok (n, attrs') -> Forall attr_depth_ok attrs'.
Proof.
  induction fuel as [|fuel IH]; intros c attrs n attrs' Ha; cbn [attrs_loop].
  - destruct (at_end c); [|discriminate]. intro H; inversion H; subst; exact Ha.
  - destruct (at_end c). { intro H; inversion H; subst; exact Ha. }
    destruct (parse_key (skip_ws c)) as [c2|key c2]. { intro H; inversion H; subst; exact Ha. }
    destruct (stack_loop _ key c2 [root_frame] None) as [[c3 total]| |] eqn:Es; try discriminate.
    apply stack_loop_depth in Es.
    2:{ simpl. split; [lia|]. split; [intros e []|exact I]. }
    2:{ intros r Hr; discriminate. }
    destruct total as [root|]; [|discriminate].
    destruct (unwrap_total root) as [v| |] eqn:Eu; try discriminate.
    apply unwrap_total_depth in Eu; [|apply Es; reflexivity].
    apply IH. apply Forall_app. split; [exact Ha|]. constructor; [exact Eu | constructor].
Qed.

Lemma fold_attrs_depth l : Forall attr_depth_ok l -> attrs_depth l <= S MAX_NESTING_DEPTH.
Proof.
  induction 1 as [|a l Ha _ IH]; unfold attrs_depth in *; cbn [fold_right]; [lia|].
  unfold attr_depth_ok in Ha. lia.
Qed.

Lemma parse_tag_depth_lemma s n a : parse_tag s = Ok (n, a) -> attrs_depth a <= S MAX_NESTING_DEPTH.
Proof.
  unfold parse_tag. intro H. apply fold_attrs_depth. eapply attrs_loop_depth; [|exact H]. constructor.
Qed.
