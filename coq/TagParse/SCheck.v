(* Property C02 - correspondence at the level of the SPECIFICATION (definitions only): the harness prints every
   generated argument list with the Python mirror of Spec.print, runs the implementation on it, and hands Coq the
   argument list, the layout (as a finite table), the text the implementation's parse_tag received and the values
   the receiver got.  check_s recomputes inside Coq: well-formedness, the printed text, and the denotation. *)
From DJC Require Import Lib.Base TagParse.Model TagParse.Resolve TagParse.Spec.

Fixpoint path_eqb (a b : list nat) : bool :=
  match a, b with
  | [], [] => true
  | x :: a', y :: b' => Nat.eqb x y && path_eqb a' b'
  | _, _ => false
  end.
Fixpoint table_lookup (p : list nat) (t : list (list nat * str)) : str :=
  match t with
  | [] => []
  | (q, s) :: r => if path_eqb p q then s else table_lookup p r
  end.
Definition layout_of_table (t : list (list nat * str)) : layout := fun p => table_lookup p t.

Record scase := mkscase {
  sc_tag : str; sc_allowed : list str; sc_env : list (str * option value);
  sc_lay : list (list nat * str); sc_arg : arglist;
  sc_text : str;                       (* what the implementation's parse_tag was called with *)
  sc_out : routcome;                   (* what the receiver got *)
  sc_flags_observed : bool }.          (* flags are not observable at Component.get_context_data *)

Definition check_s (keywords : list str) (c : scase) : bool :=
  arglist_ok (sc_tag c) (sc_allowed c) (sc_arg c)
  && str_eqb (print (layout_of_table (sc_lay c)) (sc_tag c) (sc_arg c)) (sc_text c)
  && match denote keywords (ev_of_env (sc_env c)) (sc_arg c), sc_out c with
     | ROk (args, kw, flags, closed), RGot args' kw' flags' closed' =>
       value_sim 20 (VList args) (VList args') && value_sim 20 (VDict kw) (VDict kw')
       && (if sc_flags_observed c then flags_sim flags flags' else true) && Bool.eqb closed closed'
     | RErr ELeaf, RFail _ => true
     | RErr _, RFail EAny => true
     | RErr e, RFail e' => rerr_eqb e e'
     | _, _ => false
     end.
