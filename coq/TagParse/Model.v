(* Model of django_components.util.tag_parser (properties C12 and C02) - M-model, definitions only.

   `parse_tag` is a hand-written scanner with three nested `while` loops (attributes / container stack /
   filter parts) over a cursor `index` into `text` and the string `normalized`.  The port below is a
   transliteration:
     - the cursor is the pair (done, rest): `done` = `normalized` REVERSED (everything passed to
       add_token so far), `rest` = text[index:]; `index = len(done)`.  The only place where Python moves the
       cursor backwards (`index -= len(key); normalized = normalized[:start_index]`) restores the cursor
       saved before `take_until`, which is what those two assignments do.
     - the container stack holds references to structs that are nested in each other and mutated in
       place; the model uses the zipper of that object graph: a frame is a struct whose `entries` are
       still growing, a child frame is attached to its parent's entries when it is popped (Python attaches
       it when it is pushed; nothing reads the parent's entries while the child is on the stack).
     - every Python operation that could raise something else than TemplateSyntaxError is an explicit
       error: `meta["expects_key"]` on a dict without the key (KeyError), `stack[-1]` / `entries[0]` /
       `values_parts[-1]` on empty lists (IndexError).
     - every `while` loop takes fuel; the inner loops get fuel computed from the remaining input at the
       call site, the outer one from len(text).  TagParse/Proofs.v shows OutOfFuel is never returned. *)
From DJC Require Import Lib.Base.

Inductive errkind := TemplateSyntaxError | KeyError | IndexError | RecursionError | OtherError.
Inductive res (A : Type) : Type := Ok (a : A) | Err (k : errkind) | OutOfFuel.
Arguments Ok {A} a.
Arguments Err {A} k.
Arguments OutOfFuel {A}.

Definition errkind_eqb (a b : errkind) : bool :=
  match a, b with
  | TemplateSyntaxError, TemplateSyntaxError | KeyError, KeyError | IndexError, IndexError
  | RecursionError, RecursionError | OtherError, OtherError => true
  | _, _ => false
  end.

(* ---------- constants of the source (anchored to the generated Gen/C12.v in Props/C12.v) ---------- *)
Definition WS : list str := [[32]; [9]; [10]; [13]; [12]]%N.          (* TAG_WHITESPACE *)
Definition FILTER : list str := [[124]; [58]]%N.                       (* TAG_FILTER  | : *)
Definition SPREAD : list str := [[42]; [42; 42]; [46; 46; 46]]%N.      (* TAG_SPREAD  * ** ... *)
Definition cBSL := 92%N.

(* ---------- AST ---------- *)
Inductive spread := SpDots | SpStar2 | SpStar.
Definition spread_str (s : spread) : str :=
  match s with SpDots => [46; 46; 46] | SpStar2 => [42; 42] | SpStar => [42] end%N.
Definition spread_eqb (a b : spread) : bool :=
  match a, b with SpDots, SpDots | SpStar2, SpStar2 | SpStar, SpStar => true | _, _ => false end.

Inductive stype := TSimple | TList | TDict.
Definition stype_eqb (a b : stype) : bool :=
  match a, b with TSimple, TSimple | TList, TList | TDict, TDict => true | _, _ => false end.

(* TagValuePart.  quoted / filter are one-character strings in Python. *)
Record part := mkpart { p_value : str; p_quoted : option N; p_spread : option spread;
                        p_transl : bool; p_filter : option N }.

(* TagValue (NVal) and TagValueStruct (NStruct); meta is {} (None) or {"expects_key": b} (Some b). *)
Inductive node :=
| NVal (parts : list part)
| NStruct (ty : stype) (sp : option spread) (ents : list node) (meta : option bool).

Record attr := mkattr { a_key : option str; a_value : node; a_start : N }.

Record frame := mkframe { f_ty : stype; f_sp : option spread; f_ents : list node; f_meta : option bool }.
Definition node_of_frame (f : frame) : node := NStruct (f_ty f) (f_sp f) (f_ents f) (f_meta f).
Definition push_entry (f : frame) (n : node) : frame :=
  mkframe (f_ty f) (f_sp f) (f_ents f ++ [n]) (f_meta f).
Definition set_meta (f : frame) (m : option bool) : frame := mkframe (f_ty f) (f_sp f) (f_ents f) m.
Definition set_sp (f : frame) (s : option spread) : frame := mkframe (f_ty f) s (f_ents f) (f_meta f).

Definition is_some {A} (o : option A) : bool := match o with Some _ => true | None => false end.

(* ---------- cursor ---------- *)
Record cur := mkcur { done : str; rest : str }.

Definition at_end (c : cur) : bool := match rest c with [] => true | _ :: _ => false end.

(* is_next_token for a non-empty list of non-empty tokens (all static call sites).  Python compares
   character by character and answers False at the first mismatch or at the end of the text. *)
Definition is_next (toks : list str) (c : cur) : bool :=
  existsb (fun t => starts_with t (rest c)) toks.

(* add_token(token): normalized += token; index += len(token) *)
Definition add_token (t : str) (c : cur) : cur := mkcur (rev t ++ done c) (skipn (length t) (rest c)).

(* taken_n(n): result = text[index:index+n]; add_token(result) *)
Fixpoint take_n (n : nat) (c : cur) : str * cur :=
  match n, rest c with
  | S n', x :: r => let '(s, c') := take_n n' (mkcur (x :: done c) r) in (x :: s, c')
  | _, _ => ([], c)
  end.

(* take_while(tokens): one character per iteration while some token matches at the cursor *)
Fixpoint take_while_go (toks : list str) (d r : str) : str * cur :=
  match r with
  | [] => ([], mkcur d r)
  | x :: r' => if existsb (fun t => starts_with t r) toks
               then let '(s, c) := take_while_go toks (x :: d) r' in (x :: s, c)
               else ([], mkcur d r)
  end.
Definition take_while (toks : list str) (c : cur) : str * cur := take_while_go toks (done c) (rest c).
Definition skip_ws (c : cur) : cur := snd (take_while WS c).

(* take_until(tokens, ignore): `for ignore_token in ignore: if is_next_token([ignore_token]): match = ignore_token` -
   the LAST matching ignore token is consumed whole (fix d29898a passes two: backslash backslash, backslash quote);
   `skip` counts the characters of a matched ignore token still to be consumed, which keeps the function
   structurally recursive. *)
Definition ign_match (ign : list str) (r : str) : nat :=
  fold_left (fun acc t => if starts_with t r then length t else acc) ign O.
Fixpoint take_until_go (toks : list str) (ign : list str) (skip : nat) (d r : str) : str * cur :=
  match r with
  | [] => ([], mkcur d r)
  | x :: r' =>
    match skip with
    | S k => let '(s, c) := take_until_go toks ign k (x :: d) r' in (x :: s, c)
    | O =>
      match ign_match ign r with
      | S k => let '(s, c) := take_until_go toks ign k (x :: d) r' in (x :: s, c)
      | O => if existsb (fun t => starts_with t r) toks then ([], mkcur d r)
             else let '(s, c) := take_until_go toks ign O (x :: d) r' in (x :: s, c)
      end
    end
  end.
Definition take_until (toks : list str) (ign : list str) (c : cur) : str * cur :=
  take_until_go toks ign O (done c) (rest c).

(* ---------- TagValuePart.__post_init__ ---------- *)
Definition mk_part (v : str) (q : option N) (sp : option spread) (tr : bool) (f : option N) : res part :=
  if tr && negb (is_some q) then Err TemplateSyntaxError
  else if tr && is_some sp then Err TemplateSyntaxError
  else if is_some sp && is_some f then Err TemplateSyntaxError
  else match f with
       | Some x => if N.eqb x 124 || N.eqb x 58 then Ok (mkpart v q sp tr f) else Err TemplateSyntaxError
       | None => Ok (mkpart v q sp tr f)
       end.

(* ---------- extract_spread_token(curr_struct, filter_token)  (closes over `key`) ---------- *)
Definition extract_spread (ty : stype) (ftok : option N) (key : option str) (c : cur)
  : res (option spread * cur) :=
  let tok : res (option spread) :=
    if is_next SPREAD c then
      if is_next [[46; 46; 46]%N] c then
        (if stype_eqb ty TSimple then Ok (Some SpDots) else Err TemplateSyntaxError)
      else if is_next [[42; 42]%N] c then
        (if stype_eqb ty TDict then Ok (Some SpStar2) else Err TemplateSyntaxError)
      else if is_next [[42]%N] c then
        (if stype_eqb ty TList then Ok (Some SpStar) else Err TemplateSyntaxError)
      else Err TemplateSyntaxError
    else Ok None in
  match tok with
  | Err k => Err k
  | OutOfFuel => OutOfFuel
  | Ok None => Ok (None, c)
  | Ok (Some sp) =>
    if is_some ftok then Err TemplateSyntaxError
    else if stype_eqb ty TSimple && is_some key then Err TemplateSyntaxError
    else
      let c1 := snd (take_n (length (spread_str sp)) c) in
      match sp with
      | SpDots => if is_next WS c1 || at_end c1 then Err TemplateSyntaxError else Ok (Some sp, c1)
      | _ => Ok (Some sp, skip_ws c1)
      end
  end.

(* ---------- the `}` validation loop: key/value pairs line up, spreads stand alone ---------- *)
Definition entry_is_spread (n : node) : bool :=
  match n with
  | NStruct _ sp _ _ => is_some sp
  | NVal parts => match parts with [] => false | p :: _ => is_some (p_spread p) end
  end.
Definition entry_is_struct (n : node) : bool := match n with NStruct _ _ _ _ => true | NVal _ => false end.

Fixpoint validate_dict (ents : list node) (have_key : bool) : bool :=
  match ents with
  | [] => negb have_key
  | e :: r =>
    if entry_is_spread e then (if have_key then false else validate_dict r have_key)
    else if entry_is_struct e && negb have_key then false
    else validate_dict r (negb have_key)
  end.

(* ---------- innermost loop: the filter parts of one value ---------- *)
Definition terminal_tokens (ty : stype) (meta : option bool) (sp : option spread) : res (list str) :=
  match ty with
  | TDict =>
    match meta with
    | None => Err KeyError
    | Some true => Ok [[58]; [44]; [125]]%N
    | Some false => if is_some sp then Err TemplateSyntaxError else Ok [[44]; [125]]%N
    end
  | TList => Ok [[44]; [93]]%N
  | TSimple => Ok []
  end.

(* one quoted / translated / plain value part; returns (value, quoted, is_translation, cursor) *)
Definition scan_value (terms : list str) (c : cur) : res (str * option N * bool * cur) :=
  if is_next [[39]; [34]; [95; 40]]%N c then
    let '(tr, c1) := if is_next [[95; 40]%N] c then (true, skip_ws (snd (take_n 2 c))) else (false, c) in
    let '(qc, c2) := take_n 1 c1 in
    let '(v, c3) := take_until [qc] [[cBSL; cBSL]; cBSL :: qc] c2 in
    match qc with
    | [] => Err TemplateSyntaxError               (* is_next_token([""]) -> "Empty token" *)
    | q :: _ =>
      if is_next [qc] c3 then
        let c4 := add_token qc c3 in
        let c5 := if tr then snd (take_n 1 (skip_ws c4)) else c4 in
        Ok (v, Some q, tr, c5)
      else Ok (qc ++ v, None, tr, c3)
    end
  else
    let '(v, c1) := take_until (WS ++ FILTER ++ terms) [] c in
    Ok (v, None, false, c1).

Fixpoint parts_loop (fuel : nat) (ty : stype) (meta : option bool) (key : option str)
         (c0 : cur) (parts : list part) (is_first : bool) (rsp : option spread)
  : res (list part * cur * option spread) :=
  match fuel with
  | O => OutOfFuel
  | S fuel' =>
    let c := skip_ws c0 in
    if at_end c then (if is_first then Err TemplateSyntaxError else Ok (parts, c, rsp))
    else if negb is_first && negb (is_next FILTER c) then Ok (parts, c, rsp)
    else if is_first && is_next FILTER c then Err TemplateSyntaxError
    else
      (* filter token *)
      let r1 : res (option N * cur) :=
        if is_first then Ok (None, c)
        else
          let '(ft, c1) := take_n 1 c in
          let c2 := skip_ws c1 in
          match ft with
          | [] => Ok (None, c2)                   (* taken_n(1) at the end of the text: "" (falsy) *)
          | f :: _ =>
            if N.eqb f 58 then
              match rev parts with
              | [] => Err IndexError               (* values_parts[-1] *)
              | lastp :: _ =>
                match p_filter lastp with
                | Some 124%N => Ok (Some f, c2)
                | _ => Err TemplateSyntaxError
                end
              end
            else Ok (Some f, c2)
          end in
      match r1 with
      | Err k => Err k
      | OutOfFuel => OutOfFuel
      | Ok (ftok, c2) =>
        match extract_spread ty ftok key c2 with
        | Err k => Err k
        | OutOfFuel => OutOfFuel
        | Ok (sp, c3) =>
          (* `if curr_value.type == "simple" and filter_token is None: curr_value.spread = spread_token` (fix 3b4a681) *)
          let rsp' := if stype_eqb ty TSimple && negb (is_some ftok) then sp else rsp in
          match terminal_tokens ty meta sp with
          | Err k => Err k
          | OutOfFuel => OutOfFuel
          | Ok terms =>
            match scan_value terms c3 with
            | Err k => Err k
            | OutOfFuel => OutOfFuel
            | Ok (v, q, tr, c4) =>
              let c5 := skip_ws c4 in
              let eov := match terms with [] => false | _ => is_next terms c5 end in
              match mk_part v q sp tr ftok with
              | Err k => Err k
              | OutOfFuel => OutOfFuel
              | Ok p =>
                if eov then Ok (parts ++ [p], c5, rsp')
                else parts_loop fuel' ty meta key c5 (parts ++ [p]) false rsp'
              end
            end
          end
        end
      end
  end.

(* ---------- middle loop: the container stack ---------- *)
Inductive sres := SCont (c : cur) (stack : list frame) (total : option frame) | SErr (k : errkind) | SFuel.

(* stack.pop(); if stack[-1].type == "simple": stack.pop() *)
Definition pop_closed (c : cur) (top : frame) (below : list frame) (total : option frame) : sres :=
  match below with
  | [] => SErr IndexError
  | parent :: below' =>
    let parent' := push_entry parent (node_of_frame top) in
    if stype_eqb (f_ty parent') TSimple then SCont c below' (Some parent')
    else SCont c (parent' :: below') total
  end.

(* MAX_NESTING_DEPTH (fix d8e2fba): `if len(stack) > MAX_NESTING_DEPTH: raise TemplateSyntaxError` before a list /
   dict struct is pushed *)
Definition MAX_NESTING_DEPTH : nat := 100.
Definition push_struct (c : cur) (newf top : frame) (below : list frame) (total : option frame) : sres :=
  if Nat.ltb MAX_NESTING_DEPTH (length (top :: below)) then SErr TemplateSyntaxError
  else SCont c (newf :: top :: below) total.

Definition OPEN_LIST : list str := [[91]; [46; 46; 46; 91]; [42; 91]; [42; 42; 91]]%N.
Definition OPEN_DICT : list str := [[123]; [46; 46; 46; 123]; [42; 123]; [42; 42; 123]]%N.

Definition stack_step (key : option str) (c0 : cur) (top : frame) (below : list frame)
           (total : option frame) : sres :=
  let c := skip_ws c0 in
  let ty := f_ty top in
  if is_next OPEN_LIST c then
    match extract_spread ty None key c with
    | Err k => SErr k
    | OutOfFuel => SFuel
    | Ok (sp, c1) =>
      if is_some sp && stype_eqb ty TSimple && is_some key then SErr TemplateSyntaxError
      else push_struct (snd (take_n 1 c1)) (mkframe TList sp [] None) top below total
    end
  else if is_next [[93]%N] c then
    if negb (stype_eqb ty TList) then SErr TemplateSyntaxError
    else pop_closed (snd (take_n 1 c)) top below total
  else if is_next OPEN_DICT c then
    match extract_spread ty None key c with
    | Err k => SErr k
    | OutOfFuel => SFuel
    | Ok (sp, c1) =>
      if is_some sp && stype_eqb ty TSimple && is_some key then SErr TemplateSyntaxError
      else
        let c2 := snd (take_n 1 c1) in
        let newf := mkframe TDict sp [] (Some true) in
        if stype_eqb ty TDict then
          match f_meta top with
          | None => SErr KeyError
          | Some true =>
            if is_some sp then push_struct c2 newf (set_meta top (Some true)) below total
            else SErr TemplateSyntaxError
          | Some false => push_struct c2 newf top below total
          end
        else push_struct c2 newf top below total
    end
  else if is_next [[125]%N] c then
    if negb (stype_eqb ty TDict) then SErr TemplateSyntaxError
    else if negb (validate_dict (f_ents top) false) then SErr TemplateSyntaxError
    else match f_meta top with
         | None => SErr KeyError                  (* del curr_value.meta["expects_key"] *)
         | Some _ => pop_closed (snd (take_n 1 c)) (set_meta top None) below total
         end
  else if is_next [[44]%N] c then
    match ty with
    | TSimple => SErr TemplateSyntaxError
    | TList => SCont (snd (take_n 1 c)) (top :: below) total
    | TDict => SCont (snd (take_n 1 c)) (set_meta top (Some true) :: below) total
    end
  else if is_next [[58]%N] c then
    if negb (stype_eqb ty TDict) then SErr TemplateSyntaxError
    else match f_meta top with
         | None => SErr KeyError
         | Some false => SErr TemplateSyntaxError
         | Some true => SCont (snd (take_n 1 c)) (set_meta top (Some false) :: below) total
         end
  else
    if negb (stype_eqb ty TSimple) && at_end c then SErr TemplateSyntaxError
    else
      match parts_loop (S (S (length (rest c)))) ty (f_meta top) key c [] true (f_sp top) with
      | Err k => SErr k
      | OutOfFuel => SFuel
      | Ok (parts, c1, rsp) =>
        let top1 := push_entry (set_sp top rsp) (NVal parts) in
        match ty with
        | TSimple => SCont c1 below (Some top1)                       (* the root was popped above *)
        | TList => SCont c1 (top1 :: below) total
        | TDict =>
          match parts with
          | [] => SErr IndexError                                     (* values_parts[0] *)
          | p0 :: _ =>
            match f_meta top with
            | None => SErr KeyError
            | Some ek =>
              if is_some (p_spread p0) then
                if negb ek then SErr TemplateSyntaxError
                else let c2 := skip_ws c1 in
                     if is_next [[58]%N] c2 then SErr TemplateSyntaxError else SCont c2 (top1 :: below) total
              else
                if ek then
                  let c2 := skip_ws c1 in
                  if negb (is_next [[58]%N] c2) then SErr TemplateSyntaxError else SCont c2 (top1 :: below) total
                else SCont c1 (top1 :: below) total
            end
          end
        end
      end.

Fixpoint stack_loop (fuel : nat) (key : option str) (c : cur) (stack : list frame) (total : option frame)
  : res (cur * option frame) :=
  match stack with
  | [] => Ok (c, total)
  | top :: below =>
    match fuel with
    | O => OutOfFuel
    | S fuel' =>
      match stack_step key c top below total with
      | SErr k => Err k
      | SFuel => OutOfFuel
      | SCont c' stack' total' => stack_loop fuel' key c' stack' total'
      end
    end
  end.

(* ---------- outer loop: attributes ---------- *)
Definition VALUE_START : list str :=
  ([[39]; [34]; [95; 40; 34]; [95; 40; 39]; [91]; [123]] ++ SPREAD)%N.
Definition KEY_STOP : list str :=
  ([[61]; [39]; [34]; [95; 40; 34]; [95; 40; 39]; [124]; [91]; [123]] ++ SPREAD ++ WS)%N.

Definition root_frame : frame := mkframe TSimple None [] None.

(* "Unwrap top-level list / dict" *)
Definition unwrap_total (root : frame) : res node :=
  match f_ents root with
  | [] => Err IndexError                                               (* total_value.entries[0] *)
  | NStruct ty sp ents m :: _ =>
    if stype_eqb ty TSimple then Ok (node_of_frame root) else Ok (NStruct ty sp ents m)
  | NVal _ :: _ => Ok (node_of_frame root)
  end.

Inductive key_result := KBreak (c : cur) | KKey (key : option str) (c : cur).

Definition parse_key (c1 : cur) : key_result :=
  if is_next VALUE_START c1 then KKey None c1
  else
    let '(k, c2) := take_until KEY_STOP [] c1 in
    if match k with [] => at_end c2 | _ => false end then KBreak c2
    else if negb (is_next [[61]%N] c2) then KKey None c1
    else KKey (Some k) (add_token [61]%N c2).

Fixpoint attrs_loop (fuel : nat) (c : cur) (attrs : list attr) : res (str * list attr) :=
  if at_end c then Ok (rev (done c), attrs)
  else
    match fuel with
    | O => OutOfFuel
    | S fuel' =>
      let c1 := skip_ws c in
      let start_index := N.of_nat (length (done c1)) in
      match parse_key c1 with
      | KBreak c2 => Ok (rev (done c2), attrs)
      | KKey key c2 =>
        match stack_loop (S (length (rest c2))) key c2 [root_frame] None with
        | Err k => Err k
        | OutOfFuel => OutOfFuel
        | Ok (c3, total) =>
          match total with
          | None => Err IndexError        (* never: the stack only empties by popping the root *)
          | Some root =>
            match unwrap_total root with
            | Err k => Err k
            | OutOfFuel => OutOfFuel
            | Ok v => attrs_loop fuel' c3 (attrs ++ [mkattr key v start_index])
            end
          end
        end
      end
    end.

Definition parse_tag (text : str) : res (str * list attr) :=
  attrs_loop (S (length text)) (mkcur [] text) [].

(* ---------- serialize ---------- *)
Definition quote_wrap (q : option N) (v : str) : str :=
  match q with Some c => c :: v ++ [c] | None => v end.

Definition serialize_part (p : part) : str :=
  let v := quote_wrap (p_quoted p) (p_value p) in
  let v := if p_transl p then [95; 40]%N ++ v ++ [41]%N
           else match p_spread p with Some s => spread_str s ++ v | None => v end in
  match p_filter p with Some f => f :: v | None => v end.

Definition serialize_value (parts : list part) : str := concat (map serialize_part parts).

Fixpoint join (sep : str) (l : list str) : str :=
  match l with
  | [] => []
  | [x] => x
  | x :: r => x ++ sep ++ join sep r
  end.

Definition spread_prefix (sp : option spread) : str :=
  match sp with Some s => spread_str s | None => [] end.

(* the dict branch of TagValueStruct.serialize: pairs "k: v", spreads alone *)
Fixpoint dict_pairs (ents : list (node * str)) (pending : option str) : res (list str) :=
  match ents with
  | [] => Ok []
  | (e, s) :: r =>
    if entry_is_spread e then
      (if is_some pending then Err TemplateSyntaxError
       else match dict_pairs r pending with Ok l => Ok (s :: l) | Err k => Err k | OutOfFuel => OutOfFuel end)
    else
      match pending with
      | None => dict_pairs r (Some s)
      | Some k0 => match dict_pairs r None with
                   | Ok l => Ok ((k0 ++ [58; 32]%N ++ s) :: l) | Err k => Err k | OutOfFuel => OutOfFuel
                   end
      end
  end.

(* serialize with an explicit recursion budget: `depth` Python-level nestings of TagValueStruct.serialize
   are available; running out is the RecursionError of the interpreter.  (Two frames per level in CPython
   3.12: serialize + render_value; the budget is in levels.) *)
Fixpoint serialize_node (depth : nat) (n : node) : res str :=
  match n with
  | NVal parts => Ok (serialize_value parts)
  | NStruct ty sp ents _ =>
    match depth with
    | O => Err RecursionError
    | S d =>
      let fix ser_all (l : list node) : res (list str) :=
        match l with
        | [] => Ok []
        | e :: r => match serialize_node d e with
                    | Ok s => match ser_all r with Ok ss => Ok (s :: ss) | Err k => Err k | OutOfFuel => OutOfFuel end
                    | Err k => Err k
                    | OutOfFuel => OutOfFuel
                    end
        end in
      match ty with
      | TSimple =>
        match ents with
        | [] => Err IndexError
        | e :: _ => serialize_node d e
        end
      | TList =>
        match ser_all ents with
        | Ok ss => Ok (spread_prefix sp ++ [91]%N ++ join [44; 32]%N ss ++ [93]%N)
        | Err k => Err k
        | OutOfFuel => OutOfFuel
        end
      | TDict =>
        match ser_all ents with
        | Ok ss =>
          match dict_pairs (combine ents ss) None with
          | Ok ps => Ok (spread_prefix sp ++ [123]%N ++ join [44; 32]%N ps ++ [125]%N)
          | Err k => Err k
          | OutOfFuel => OutOfFuel
          end
        | Err k => Err k
        | OutOfFuel => OutOfFuel
        end
      end
    end
  end.

(* TagAttr.serialize(omit_key=False): `if not omit_key and self.key` - an empty key is falsy *)
Definition serialize_attr (depth : nat) (a : attr) : res str :=
  match serialize_node depth (a_value a) with
  | Ok s => match a_key a with
            | Some (k0 :: kr) => Ok ((k0 :: kr) ++ [61]%N ++ s)
            | _ => Ok s
            end
  | Err k => Err k
  | OutOfFuel => OutOfFuel
  end.

Fixpoint serialize_attrs (depth : nat) (l : list attr) : res (list str) :=
  match l with
  | [] => Ok []
  | a :: r => match serialize_attr depth a with
              | Ok s => match serialize_attrs depth r with Ok ss => Ok (s :: ss) | Err k => Err k | OutOfFuel => OutOfFuel end
              | Err k => Err k
              | OutOfFuel => OutOfFuel
              end
  end.

(* the canonical serialisation of a tag: attributes joined by one space *)
Definition serialize_tag (depth : nat) (l : list attr) : res str :=
  match serialize_attrs depth l with
  | Ok ss => Ok (join [32]%N ss)
  | Err k => Err k
  | OutOfFuel => OutOfFuel
  end.

(* nesting depth of literals = number of serialize levels needed *)
Fixpoint node_depth (n : node) : nat :=
  match n with
  | NVal _ => O
  | NStruct _ _ ents _ => S (fold_right (fun e m => Nat.max (node_depth e) m) O ents)
  end.

(* ---------- equality on the AST (used by the correspondence and by the round-trip statement) ---------- *)
Definition part_eqb (a b : part) : bool :=
  str_eqb (p_value a) (p_value b) && option_eqb N.eqb (p_quoted a) (p_quoted b)
  && option_eqb spread_eqb (p_spread a) (p_spread b) && Bool.eqb (p_transl a) (p_transl b)
  && option_eqb N.eqb (p_filter a) (p_filter b).

Fixpoint node_eqb (a b : node) : bool :=
  match a, b with
  | NVal pa, NVal pb => list_eqb part_eqb pa pb
  | NStruct ta sa ea ma, NStruct tb sb eb mb =>
    stype_eqb ta tb && option_eqb spread_eqb sa sb && option_eqb Bool.eqb ma mb
    && (fix go (x y : list node) : bool :=
          match x, y with
          | [], [] => true
          | u :: x', v :: y' => node_eqb u v && go x' y'
          | _, _ => false
          end) ea eb
  | _, _ => false
  end.

Definition attr_eqb (a b : attr) : bool :=
  option_eqb str_eqb (a_key a) (a_key b) && node_eqb (a_value a) (a_value b) && N.eqb (a_start a) (a_start b).

(* equal up to start_index *)
Definition attr_sim (a b : attr) : bool :=
  option_eqb str_eqb (a_key a) (a_key b) && node_eqb (a_value a) (a_value b).

(* ---------- _detailed_tag_parser (util/template_parser.py): the `{% ... %}` re-scanner ---------- *)
(* take_until_any(stop_chars, allow_escapes): regex (?:\\.|[^stops])*  resp. [^stops]*  matched at index.
   `.` does not match a newline, so backslash-newline is consumed as two single characters - same effect. *)
Fixpoint until_any_go (stops : list N) (esc : bool) (skip : bool) (acc r : str) : str * str :=
  match r with
  | [] => (rev acc, r)
  | x :: r' =>
    if skip then until_any_go stops esc false (x :: acc) r'
    else if esc && N.eqb x cBSL && match r' with y :: _ => negb (N.eqb y 10) | [] => false end
    then until_any_go stops esc true (x :: acc) r'
    else if existsb (N.eqb x) stops then (rev acc, r)
    else until_any_go stops esc false (x :: acc) r'
  end.
Definition until_any (stops : list N) (esc : bool) (r : str) : str * str := until_any_go stops esc false [] r.

(* str.isspace() (Python 3.12 / Unicode 15) *)
Definition py_isspace (x : N) : bool :=
  ((9 <=? x) && (x <=? 13) || (28 <=? x) && (x <=? 32) || (x =? 133) || (x =? 160) || (x =? 5760)
   || (8192 <=? x) && (x <=? 8202) || (x =? 8232) || (x =? 8233) || (x =? 8239) || (x =? 8287) || (x =? 12288))%N.
Fixpoint lstrip (s : str) : str :=
  match s with x :: r => if py_isspace x then lstrip r else s | [] => [] end.
Definition strip (s : str) : str := rev (lstrip (rev (lstrip s))).

(* main loop; `r` = text[index:], `n` = index, `out` = result_content (list of pieces, reversed) *)
Fixpoint detailed_go (fuel : nat) (r : str) (n : N) (out : list str) : res (str * N) :=
  match r with
  | [] => Err TemplateSyntaxError                                   (* while ... else: unterminated tag *)
  | ch :: r1 =>
    match fuel with
    | O => OutOfFuel
    | S fuel' =>
      if N.eqb ch 39 || N.eqb ch 34 then
        let '(content, r2) := until_any [ch] true r1 in
        match r2 with
        | q :: r3 =>
          if N.eqb q ch then detailed_go fuel' r3 (n + 2 + N.of_nat (length content)) ([q] :: content :: [ch] :: out)
          else Err TemplateSyntaxError
        | [] => Err TemplateSyntaxError
        end
      else if N.eqb ch 37 then
        match r1 with
        | 125%N :: _ => Ok (strip (concat (rev out)), n + 2)%N
        | _ => detailed_go fuel' r1 (n + 1)%N ([ch] :: out)       (* fix fbbed58: a lone % is one character of content *)
        end
      else
        let '(content, r2) := until_any [39; 34; 37]%N false r in
        detailed_go fuel' r2 (n + N.of_nat (length content)) (content :: out)
    end
  end.

(* _detailed_tag_parser(text, lineno, 0): text starts with the two characters of the tag opener *)
Definition detailed_tag (text : str) : res (str * N) :=
  detailed_go (S (length text)) (skipn 2 text) (N.min 2 (N.of_nat (length text))) [].

(* ---------- is_dynamic_expression (expression.py): hand matcher for DYNAMIC_EXPR_RE + the pre-checks ---------- *)
Fixpoint find_after (p s : str) : option str :=
  if starts_with p s then Some (skipn (length p) s)
  else match s with [] => None | _ :: s' => find_after p s' end.
Definition has_tag (o cl : str) (s : str) : bool :=
  match find_after o s with Some r => contains cl r | None => false end.
Definition is_dynamic_expression (v : str) : bool :=
  match v with
  | q :: r =>
    (N.eqb q 39 || N.eqb q 34) &&
    match rev r with
    | q' :: mid_rev =>
      N.eqb q q' && negb (existsb (N.eqb 10) r)
      && (let mid := rev mid_rev in
          has_tag [123; 123]%N [125; 125]%N mid || has_tag [123; 37]%N [37; 125]%N mid
          || has_tag [123; 35]%N [35; 125]%N mid)
    | [] => false
    end
  | [] => false
  end.

(* ---------- correspondence cases ---------- *)
(* observed implementation outcome of parse_tag(text): normalized + attrs + " ".join(attr.serialize()), or
   the exception class *)
Inductive outcome :=
| OOk (normalized : str) (attrs : list attr) (ser : option str)
| OErr (k : errkind).

Definition check_parse (cs : str * outcome) : bool :=
  let '(text, o) := cs in
  match parse_tag text, o with
  | Ok (n, attrs), OOk n' attrs' ser =>
    str_eqb n n' && list_eqb attr_eqb attrs attrs'
    && match ser with
       | None => true                      (* not compared (nesting beyond the interpreter's recursion limit) *)
       | Some s' => match serialize_tag (S (length text)) attrs with Ok s => str_eqb s s' | _ => false end
       end
  | Err k, OErr k' => errkind_eqb k k'
  | _, _ => false
  end.

(* round trip inside the model (reported separately, compared with the implementation's own round trip) *)
Definition roundtrip_ok (text : str) : bool :=
  match parse_tag text with
  | Ok (_, attrs) =>
    match serialize_tag (S (length text)) attrs with
    | Ok s => match parse_tag s with
              | Ok (_, attrs') => list_eqb attr_sim attrs attrs'
              | _ => false
              end
    | _ => false
    end
  | _ => true
  end.
Definition check_roundtrip (cs : str * bool) : bool := Bool.eqb (roundtrip_ok (fst cs)) (snd cs).

Inductive doutcome := DOk (contents : str) (end_index : N) | DErr (k : errkind).
Definition check_detailed (cs : str * doutcome) : bool :=
  match detailed_tag (fst cs), snd cs with
  | Ok (s, n), DOk s' n' => str_eqb s s' && N.eqb n n'
  | Err k, DErr k' => errkind_eqb k k'
  | _, _ => false
  end.

Definition check_dynamic (cs : str * bool) : bool := Bool.eqb (is_dynamic_expression (fst cs)) (snd cs).
