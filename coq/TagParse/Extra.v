(* Property C12, round 3 additions - DEFINITIONS ONLY (proofs: TagParse/Steps.v, TagParse/RoundTrip.v, TagParse/TemplateProofs.v).

   1. Iteration counters for the three `while` loops of parse_tag (attributes / container stack / filter parts).
      `parts_loop_t` is parts_loop with a counter of loop-body executions (TagParse/Steps.v proves that its first
      component IS parts_loop); the stack and attribute loops are counted by re-running the model's own
      `stack_step` / `parse_key`, so nothing of them is duplicated.  The counters are what harness/c12.py compares with
      the number of loop-body executions of the implementation (line events of the three loop bodies).
   2. The whole-template outcome (token count, end of the last token / the two TemplateSyntaxError messages) of C09's model
      Lexer.Model.parse_template, for the correspondence of harness/c12.py on arbitrary template sources. *)
From DJC Require Import Lib.Base TagParse.Model.
From DJC Require Lexer.Model.

(* ---------- 1. iteration counters ---------- *)
(* parts_loop, returning also the number of executions of the body of `while not end_of_value:` *)
Fixpoint parts_loop_t (fuel : nat) (ty : stype) (meta : option bool) (key : option str)
         (c0 : cur) (parts : list part) (is_first : bool) (rsp : option spread)
  : res (list part * cur * option spread) * nat :=
  match fuel with
  | O => (OutOfFuel, O)
  | S fuel' =>
    let c := skip_ws c0 in
    if at_end c then (if is_first then (Err TemplateSyntaxError, 1) else (Ok (parts, c, rsp), 1))
    else if negb is_first && negb (is_next FILTER c) then (Ok (parts, c, rsp), 1)
    else if is_first && is_next FILTER c then (Err TemplateSyntaxError, 1)
    else
      let r1 : res (option N * cur) :=
        if is_first then Ok (None, c)
        else
          let '(ft, c1) := take_n 1 c in
          let c2 := skip_ws c1 in
          match ft with
          | [] => Ok (None, c2)
          | f :: _ =>
            if N.eqb f 58 then
              match rev parts with
              | [] => Err IndexError
              | lastp :: _ =>
                match p_filter lastp with
                | Some 124%N => Ok (Some f, c2)
                | _ => Err TemplateSyntaxError
                end
              end
            else Ok (Some f, c2)
          end in
      match r1 with
      | Err k => (Err k, 1)
      | OutOfFuel => (OutOfFuel, 1)
      | Ok (ftok, c2) =>
        match extract_spread ty ftok key c2 with
        | Err k => (Err k, 1)
        | OutOfFuel => (OutOfFuel, 1)
        | Ok (sp, c3) =>
          let rsp' := if stype_eqb ty TSimple && negb (is_some ftok) then sp else rsp in
          match terminal_tokens ty meta sp with
          | Err k => (Err k, 1)
          | OutOfFuel => (OutOfFuel, 1)
          | Ok terms =>
            match scan_value terms c3 with
            | Err k => (Err k, 1)
            | OutOfFuel => (OutOfFuel, 1)
            | Ok (v, q, tr, c4) =>
              let c5 := skip_ws c4 in
              let eov := match terms with [] => false | _ => is_next terms c5 end in
              match mk_part v q sp tr ftok with
              | Err k => (Err k, 1)
              | OutOfFuel => (OutOfFuel, 1)
              | Ok p =>
                if eov then (Ok (parts ++ [p], c5, rsp'), 1)
                else let '(r, n) := parts_loop_t fuel' ty meta key c5 (parts ++ [p]) false rsp' in (r, S n)
              end
            end
          end
        end
      end
  end.

(* does this iteration of the container-stack loop reach the value branch (the only place where the filter-parts loop
   runs)?  Same guards as stack_step, in the same order. *)
Definition reaches_value (c0 : cur) (top : frame) : bool :=
  let c := skip_ws c0 in
  if is_next OPEN_LIST c || is_next [[93]%N] c || is_next OPEN_DICT c || is_next [[125]%N] c
     || is_next [[44]%N] c || is_next [[58]%N] c then false
  else negb (negb (stype_eqb (f_ty top) TSimple) && at_end c).

(* executions of the filter-parts loop body inside one iteration of the container-stack loop *)
Definition value_ticks (key : option str) (c0 : cur) (top : frame) : nat :=
  if reaches_value c0 top then
    let c := skip_ws c0 in
    snd (parts_loop_t (S (S (length (rest c)))) (f_ty top) (f_meta top) key c [] true (f_sp top))
  else O.

(* stack_loop with counters (stack iterations, parts iterations) *)
Fixpoint stack_loop_t (fuel : nat) (key : option str) (c : cur) (stack : list frame) (total : option frame)
  : res (cur * option frame) * (nat * nat) :=
  match stack with
  | [] => (Ok (c, total), (O, O))
  | top :: below =>
    match fuel with
    | O => (OutOfFuel, (O, O))
    | S fuel' =>
      let vt := value_ticks key c top in
      match stack_step key c top below total with
      | SErr k => (Err k, (1, vt))
      | SFuel => (OutOfFuel, (1, vt))
      | SCont c' stack' total' =>
        let '(r, (ns, np)) := stack_loop_t fuel' key c' stack' total' in (r, (S ns, vt + np))
      end
    end
  end.

(* attrs_loop with counters (attribute iterations, stack iterations, parts iterations) *)
Fixpoint attrs_loop_t (fuel : nat) (c : cur) (attrs : list attr) : res (str * list attr) * (nat * nat * nat) :=
  if at_end c then (Ok (rev (done c), attrs), (O, O, O))
  else
    match fuel with
    | O => (OutOfFuel, (O, O, O))
    | S fuel' =>
      let c1 := skip_ws c in
      let start_index := N.of_nat (length (done c1)) in
      match parse_key c1 with
      | KBreak c2 => (Ok (rev (done c2), attrs), (1, O, O))
      | KKey key c2 =>
        let '(r, (ns, np)) := stack_loop_t (S (length (rest c2))) key c2 [root_frame] None in
        match r with
        | Err k => (Err k, (1, ns, np))
        | OutOfFuel => (OutOfFuel, (1, ns, np))
        | Ok (c3, total) =>
          match total with
          | None => (Err IndexError, (1, ns, np))
          | Some root =>
            match unwrap_total root with
            | Err k => (Err k, (1, ns, np))
            | OutOfFuel => (OutOfFuel, (1, ns, np))
            | Ok v =>
              let '(r', (na, ns', np')) := attrs_loop_t fuel' c3 (attrs ++ [mkattr key v start_index]) in
              (r', (S na, ns + ns', np + np'))
            end
          end
        end
      end
    end.

Definition parse_tag_t (text : str) : res (str * list attr) * (nat * nat * nat) :=
  attrs_loop_t (S (length text)) (mkcur [] text) [].

(* total number of loop-body executions of the three scanner loops *)
Definition parse_tag_iters (text : str) : nat := let '(_, (na, ns, np)) := parse_tag_t text in na + ns + np.

(* correspondence: (text, observed executions of the attribute / stack / parts loop bodies of the implementation) *)
Definition check_steps (cs : str * (N * N * N)) : bool :=
  let '(text, (a, s, p)) := cs in
  let '(_, (na, ns, np)) := parse_tag_t text in
  N.eqb (N.of_nat na) a && N.eqb (N.of_nat ns) s && N.eqb (N.of_nat np) p.

(* ---------- 2. whole templates (C09's model) ---------- *)
Inductive tobs := TToks (n : N) (last_end : N) | TErrString (q : N) | TErrTag.

Definition template_obs (dotall : bool) (s : str) : option tobs :=
  match Lexer.Model.parse_template dotall s with
  | Lexer.Model.POk l =>
    Some (TToks (N.of_nat (length l)) (N.of_nat (match rev l with t :: _ => Lexer.Model.tend t | [] => O end)))
  | Lexer.Model.PErr (Lexer.Model.EUntermString q) => Some (TErrString q)
  | Lexer.Model.PErr Lexer.Model.EUntermTag => Some TErrTag
  | Lexer.Model.POutOfFuel => None
  end.

Definition tobs_eqb (a b : tobs) : bool :=
  match a, b with
  | TToks n e, TToks n' e' => N.eqb n n' && N.eqb e e'
  | TErrString q, TErrString q' => N.eqb q q'
  | TErrTag, TErrTag => true
  | _, _ => false
  end.

Definition check_template (cs : bool * str * tobs) : bool :=
  let '(d, s, o) := cs in
  match template_obs d s with Some o' => tobs_eqb o o' | None => false end.

(* ---------- 3. TagFormatter.parse: the pre-processing of a component tag's bits (tag_formatter.py) ---------- *)
(* runs in the tag function of every component tag, on Token.split_contents(), BEFORE parse_tag.  No loop but the one over the
   bits; the tests are `=` in args[0], kwarg.startswith(name=), is_str_wrapped_in_quotes - plain string primitives. *)
Definition NAME_EQ : str := [110; 97; 109; 101; 61]%N.                       (* name= *)

(* util/misc.py: s starts with a quote character, s[0] == s[-1] and len(s) >= 2 *)
Definition wrapped_in_quotes (s : str) : bool :=
  match s with
  | q :: _ => (N.eqb q 34 || N.eqb q 39) && match rev s with l :: _ => N.eqb q l | [] => false end && Nat.leb 2 (length s)
  | [] => false
  end.

(* the `for kwarg in args` loop: comp_name (empty = None = falsy) and final_args *)
Fixpoint pick_name (args : list str) (name : str) (acc : list str) : res (str * list str) :=
  match args with
  | [] => Ok (name, rev acc)
  | k :: r =>
    if starts_with NAME_EQ k then
      match name with
      | _ :: _ => Err TemplateSyntaxError                                     (* the name kwarg was defined more than once *)
      | [] => pick_name r (skipn 5 k) acc
      end
    else pick_name r name (k :: acc)
  end.

(* ComponentFormatter.parse(tokens) *)
Definition component_formatter_parse (tokens : list str) : res (str * list str) :=
  match tokens with
  | [] => Err OtherError                                                      (* `tag, *args = tokens`: ValueError *)
  | _ :: [] => Err TemplateSyntaxError                                        (* did not receive tag name *)
  | _ :: a0 :: rest =>
    let r := if existsb (N.eqb 61) a0 then pick_name (a0 :: rest) [] [] else Ok (a0, rest) in
    match r with
    | Ok (name, final) =>
      match name with
      | [] => Err TemplateSyntaxError
      | _ => if wrapped_in_quotes name then Ok (firstn (length name - 2) (skipn 1 name), final) else Err TemplateSyntaxError
      end
    | Err k => Err k
    | OutOfFuel => OutOfFuel
    end
  end.

(* ShorthandComponentFormatter.parse(tokens): tokens.pop(0) *)
Definition shorthand_formatter_parse (tokens : list str) : res (str * list str) :=
  match tokens with [] => Err IndexError | n :: r => Ok (n, r) end.

Inductive fobs := FOk (name : str) (toks : list str) | FErr (k : errkind).
Definition check_formatter (cs : bool * list str * fobs) : bool :=
  let '(shorthand, tokens, o) := cs in
  match (if shorthand then shorthand_formatter_parse tokens else component_formatter_parse tokens), o with
  | Ok (n, ts), FOk n' ts' => str_eqb n n' && list_eqb str_eqb ts ts'
  | Err k, FErr k' => errkind_eqb k k'
  | _, _ => false
  end.
