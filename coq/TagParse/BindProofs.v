(* Property C02, last stage: resolved parameters -> what the receiver gets (expression.process_aggregate_kwargs,
   node.wrapper_render special kwargs, template_tag.validate_params for a receiver with var-positional and
   var-keyword parameters).  Lemmas about TagParse/Resolve.v's bind_params. *)
From DJC Require Import Lib.Base TagParse.Model TagParse.Resolve TagParse.Spec.

(* ================================================================================================ *)
(* A. aggregation                                                                                    *)
(* ================================================================================================ *)
Notation sparam := (option str * value)%type (only parsing).
Definition is_plain (p : sparam) : bool :=
  match fst p with Some k => negb (is_aggregate_key k) | None => true end.

(* the pre-check _check_kwargs_for_agg_conflict compares whole keys of the two kinds, and a key is of one kind
   only: it never fires (the real conflict test is the one on the OUTER key at the end) *)
Lemma agg_conflict_inv : forall ps seen_reg seen_agg,
  forallb (fun k => negb (is_aggregate_key k)) seen_reg = true -> forallb is_aggregate_key seen_agg = true ->
  agg_conflict ps seen_reg seen_agg = false.
Proof.
  induction ps as [|[[k|] v] ps IH]; intros sr sa Hr Ha; [reflexivity| |apply IH; assumption].
  cbn [agg_conflict].
  assert (H1 : is_aggregate_key k && str_in k sr = false).
  { destruct (is_aggregate_key k) eqn:E; [|reflexivity]. cbn [andb]. unfold str_in.
    destruct (existsb (str_eqb k) sr) eqn:E2; [|reflexivity]. apply existsb_exists in E2 as [k' [Hk' E2]].
    apply str_eqb_eq in E2. subst k'. rewrite forallb_forall in Hr. specialize (Hr k Hk'). rewrite E in Hr. discriminate. }
  assert (H2 : negb (is_aggregate_key k) && str_in k sa = false).
  { destruct (is_aggregate_key k) eqn:E; [reflexivity|]. cbn [negb andb]. unfold str_in.
    destruct (existsb (str_eqb k) sa) eqn:E2; [|reflexivity]. apply existsb_exists in E2 as [k' [Hk' E2]].
    apply str_eqb_eq in E2. subst k'. rewrite forallb_forall in Ha. specialize (Ha k Hk'). rewrite E in Ha. discriminate. }
  rewrite H1, H2. cbn [orb]. destruct (is_aggregate_key k) eqn:E.
  - apply IH; [exact Hr|]. cbn [forallb]. rewrite E, Ha. reflexivity.
  - apply IH; [|exact Ha]. cbn [forallb]. rewrite E, Hr. reflexivity.
Qed.

Lemma agg_conflict_never ps : agg_conflict ps [] [] = false.
Proof. apply agg_conflict_inv; reflexivity. Qed.

(* the aggregated dictionaries, as a fold over the parameters in order *)
Definition agg_step (nested : list (str * list (value * value))) (p : sparam) : list (str * list (value * value)) :=
  match fst p with
  | Some k => if is_aggregate_key k then let '(o, i) := split_colon k in nested_set o i (snd p) nested else nested
  | None => nested
  end.
Definition agg_dicts (ps : list sparam) : list (str * list (value * value)) := fold_left agg_step ps [].
Definition plain_keys (ps : list sparam) : list str :=
  flat_map (fun p : sparam => match fst p with Some k => if is_aggregate_key k then [] else [k] | None => [] end) ps.

Lemma aggregate_go_spec : forall ps out seen nested,
  aggregate_go ps out seen nested
  = (out ++ filter is_plain ps, rev (plain_keys ps) ++ seen, fold_left agg_step ps nested).
Proof.
  induction ps as [|[[k|] v] ps IH]; intros out seen nested.
  - cbn. rewrite app_nil_r. reflexivity.
  - cbn [aggregate_go]. unfold is_plain at 1. cbn [fst filter plain_keys flat_map fold_left]. unfold agg_step at 2. cbn [fst snd].
    destruct (is_aggregate_key k) eqn:E; cbn [negb].
    + destruct (split_colon k) as [o i]. rewrite IH. reflexivity.
    + rewrite IH. cbn [app rev]. rewrite <- !app_assoc. reflexivity.
  - cbn [aggregate_go]. rewrite IH. unfold is_plain at 2. cbn [fst filter plain_keys flat_map fold_left app].
    rewrite <- app_assoc. reflexivity.
Qed.

Lemma str_in_rev x l : str_in x (rev l) = str_in x l.
Proof.
  unfold str_in. induction l as [|y l IH]; [reflexivity|]. cbn [rev existsb]. rewrite existsb_app. cbn [existsb].
  rewrite IH, orb_false_r, orb_comm. reflexivity.
Qed.

(* aggregate_semantics: parameters that are positional or have a plain key pass through in their order; every
   `outer:inner=value` goes into the dict of `outer` (created at the first such key, later inner keys added, a
   repeated inner key overwritten), the dicts follow as keyword parameters in order of first appearance; an outer
   name that is also given as a plain keyword is refused *)
Theorem aggregate_result ps :
  process_aggregate_kwargs ps
  = if existsb (fun od => str_in (fst od) (plain_keys ps)) (agg_dicts ps) then RErr ETemplateSyntax
    else ROk (filter is_plain ps ++ map (fun od => (Some (fst od), VDict (snd od))) (agg_dicts ps)).
Proof.
  unfold process_aggregate_kwargs. rewrite agg_conflict_never, aggregate_go_spec. cbn [app]. rewrite app_nil_r.
  unfold agg_dicts.
  assert (E : existsb (fun od : str * list (value * value) => str_in (fst od) (rev (plain_keys ps))) (fold_left agg_step ps [])
            = existsb (fun od => str_in (fst od) (plain_keys ps)) (fold_left agg_step ps [])).
  { induction (fold_left agg_step ps []) as [|od l IHl]; [reflexivity|]. cbn [existsb]. rewrite str_in_rev, IHl. reflexivity. }
  rewrite E. reflexivity.
Qed.

(* --- look-ups in the aggregated dicts: the last value given for outer:inner wins, others are kept --- *)
Lemma key_eqb_str a b : key_eqb (VStr a) (VStr b) = str_eqb a b.
Proof. reflexivity. Qed.

Lemma key_eqb_str_inv a k' : key_eqb (VStr a) k' = true -> k' = VStr a.
Proof.
  destruct k' as [b|z| |[|]|l|l|n]; cbn; try discriminate. intro H. apply str_eqb_eq in H. subst. reflexivity.
Qed.

Lemma dict_get_set_same i v : forall d, dict_get (VStr i) (dict_set (VStr i) v d) = Some v.
Proof.
  induction d as [|[k' v'] d IH]; cbn [dict_set dict_get].
  - rewrite key_eqb_str, str_eqb_refl. reflexivity.
  - destruct (key_eqb (VStr i) k') eqn:E; cbn [dict_get]; rewrite E; [reflexivity | exact IH].
Qed.

Lemma dict_get_set_other a b v : str_eqb a b = false -> forall d,
  dict_get (VStr a) (dict_set (VStr b) v d) = dict_get (VStr a) d.
Proof.
  intros Hab. induction d as [|[k' v'] d IH]; cbn [dict_set dict_get].
  - rewrite key_eqb_str, Hab. reflexivity.
  - destruct (key_eqb (VStr b) k') eqn:E; cbn [dict_get].
    + apply key_eqb_str_inv in E. subst k'. rewrite key_eqb_str, Hab. reflexivity.
    + destruct (key_eqb (VStr a) k'); [reflexivity | exact IH].
Qed.

Fixpoint agg_find (o : str) (n : list (str * list (value * value))) : option (list (value * value)) :=
  match n with [] => None | (o', d) :: r => if str_eqb o' o then Some d else agg_find o r end.
Definition agg_get (o i : str) (n : list (str * list (value * value))) : option value :=
  match agg_find o n with Some d => dict_get (VStr i) d | None => None end.

Lemma agg_get_set_same o i v : forall n, agg_get o i (nested_set o i v n) = Some v.
Proof.
  unfold agg_get. induction n as [|[o' d] n IH]; cbn [nested_set agg_find].
  - rewrite str_eqb_refl. cbn [dict_get]. rewrite key_eqb_str, str_eqb_refl. reflexivity.
  - destruct (str_eqb o' o) eqn:E; cbn [agg_find]; rewrite E; [apply dict_get_set_same | exact IH].
Qed.

Lemma agg_get_set_other o i v o2 i2 : str_eqb o2 o && str_eqb i2 i = false -> forall n,
  agg_get o2 i2 (nested_set o i v n) = agg_get o2 i2 n.
Proof.
  intro Hne. unfold agg_get. induction n as [|[o' d] n IH]; cbn [nested_set agg_find].
  - destruct (str_eqb o o2) eqn:E; [|reflexivity]. apply str_eqb_eq in E. subst o2. rewrite str_eqb_refl in Hne.
    cbn [andb] in Hne. cbn [dict_get]. rewrite key_eqb_str, Hne. reflexivity.
  - destruct (str_eqb o' o) eqn:E; cbn [agg_find].
    + apply str_eqb_eq in E. subst o'. destruct (str_eqb o o2) eqn:E2; [|reflexivity].
      apply str_eqb_eq in E2. subst o2. rewrite str_eqb_refl in Hne. cbn [andb] in Hne.
      apply dict_get_set_other. exact Hne.
    + destruct (str_eqb o' o2); [reflexivity | exact IH].
Qed.

Lemma split_colon_app o i : existsb (N.eqb cCOLON) o = false -> split_colon (o ++ cCOLON :: i) = (o, i).
Proof.
  induction o as [|c o IH]; intro H; cbn [app split_colon].
  - rewrite N.eqb_refl. reflexivity.
  - cbn [existsb] in H. apply orb_false_iff in H as [Hc H]. rewrite N.eqb_sym, Hc, (IH H). reflexivity.
Qed.

Lemma agg_key_is_aggregate o i : o <> [] -> existsb (N.eqb cCOLON) o = false -> is_aggregate_key (o ++ cCOLON :: i) = true.
Proof.
  intros Hne H. unfold is_aggregate_key. rewrite existsb_app. cbn [existsb]. rewrite N.eqb_refl, orb_true_r. cbn [andb].
  destruct o as [|c o]; [congruence|]. cbn [app]. cbn [existsb] in H. apply orb_false_iff in H as [Hc _].
  rewrite N.eqb_sym, Hc. reflexivity.
Qed.

(* `outer:inner=v` written last: afterwards outer[inner] = v, every other outer2[inner2] is what it was *)
Theorem aggregate_last_wins ps o i v : o <> [] -> existsb (N.eqb cCOLON) o = false ->
  agg_get o i (agg_dicts (ps ++ [(Some (o ++ cCOLON :: i), v)])) = Some v
  /\ forall o2 i2, str_eqb o2 o && str_eqb i2 i = false ->
       agg_get o2 i2 (agg_dicts (ps ++ [(Some (o ++ cCOLON :: i), v)])) = agg_get o2 i2 (agg_dicts ps).
Proof.
  intros Hne Hc. unfold agg_dicts. rewrite fold_left_app. cbn [fold_left]. unfold agg_step at 1 3. cbn [fst snd].
  rewrite (agg_key_is_aggregate o i Hne Hc), (split_colon_app o i Hc).
  split; [apply agg_get_set_same | intros o2 i2 H; apply agg_get_set_other; exact H].
Qed.

(* ================================================================================================ *)
(* B. keyword names reach the receiver unchanged, special characters or not                          *)
(* ================================================================================================ *)
Section Bind.
Variable keywords : list str.

Definition kwparam (kv : str * value) : option value * value := (Some (VStr (fst kv)), snd kv).
Definition kwsparam (kv : str * value) : option str * value := (Some (fst kv), snd kv).
Definition kwpair (kv : str * value) : value * value := (VStr (fst kv), snd kv).
Definition posparam (v : value) : option value * value := (None, v).
Definition possparam (v : value) : option str * value := (None, v).
Definition regular (kv : str * value) : bool := negb (is_special keywords (fst kv)).
Definition special (kv : str * value) : bool := is_special keywords (fst kv).

Lemma str_keys_ok pos kws :
  str_keys (map posparam pos ++ map kwparam kws) = ROk (map possparam pos ++ map kwsparam kws).
Proof.
  induction pos as [|v pos IH]; cbn [map app str_keys].
  - induction kws as [|kv kws IHk]; [reflexivity|]. cbn [map str_keys kwparam fst snd]. rewrite IHk. reflexivity.
  - cbn [posparam]. rewrite IH. reflexivity.
Qed.

Lemma no_agg_step kws : forallb (fun kv : str * value => negb (is_aggregate_key (fst kv))) kws = true ->
  forall n, fold_left agg_step (map kwsparam kws) n = n.
Proof.
  induction kws as [|kv kws IH]; intros H n; [reflexivity|]. cbn [forallb] in H. apply andb_true_iff in H as [Hk H].
  cbn [map fold_left]. unfold agg_step at 2. cbn [kwsparam fst snd]. apply negb_true_iff in Hk. rewrite Hk. apply IH, H.
Qed.
Lemma no_agg_step_pos pos : forall n, fold_left agg_step (map possparam pos) n = n.
Proof. induction pos as [|v pos IH]; intro n; [reflexivity|]. cbn [map fold_left]. apply IH. Qed.

Lemma aggregate_none pos kws : forallb (fun kv : str * value => negb (is_aggregate_key (fst kv))) kws = true ->
  process_aggregate_kwargs (map possparam pos ++ map kwsparam kws) = ROk (map possparam pos ++ map kwsparam kws).
Proof.
  intro H. rewrite aggregate_result. unfold agg_dicts. rewrite fold_left_app, no_agg_step_pos, (no_agg_step kws H).
  cbn [existsb map]. rewrite app_nil_r. f_equal. rewrite filter_app. f_equal.
  - induction pos as [|v pos IH]; [reflexivity|]. cbn [map filter]. unfold is_plain at 1. cbn [possparam fst]. rewrite IH. reflexivity.
  - induction kws as [|kv kws IH]; [reflexivity|]. cbn [forallb] in H. apply andb_true_iff in H as [Hk H].
    cbn [map filter]. unfold is_plain at 1. cbn [kwsparam fst]. rewrite Hk, (IH H). reflexivity.
Qed.

Lemma str_eqb_comm a b : str_eqb a b = str_eqb b a.
Proof.
  destruct (str_eqb a b) eqn:E.
  - apply str_eqb_eq in E. subst. symmetry. apply str_eqb_refl.
  - destruct (str_eqb b a) eqn:E'; [|reflexivity]. apply str_eqb_eq in E'. subst. rewrite str_eqb_refl in E. discriminate.
Qed.

Lemma key_absent k (l : list (str * value)) : str_in k (map fst l) = false ->
  existsb (fun kv : value * value => key_eqb (fst kv) (VStr k)) (map kwpair l) = false.
Proof.
  induction l as [|kv l IH]; [reflexivity|]. unfold str_in. cbn [map existsb]. intro H. apply orb_false_iff in H as [H1 H2].
  cbn [kwpair fst]. rewrite key_eqb_str. rewrite (str_eqb_comm (fst kv) k), H1. apply IH. exact H2.
Qed.

Lemma str_in_filter k (f : str * value -> bool) l : str_in k (map fst l) = false -> str_in k (map fst (filter f l)) = false.
Proof.
  unfold str_in. induction l as [|kv l IH]; [reflexivity|]. cbn [map existsb filter]. intro H.
  apply orb_false_iff in H as [H1 H2]. destruct (f kv); [cbn [map existsb]; rewrite H1|]; apply IH; exact H2.
Qed.

(* keyword parameters with pairwise distinct names: regular ones stay parameters, special ones (not an identifier,
   or a Python keyword) are collected into the extra dict *)
Lemma split_kws : forall kws reg spec saw,
  nodup_str (map fst kws) = true ->
  (forall kv, In kv kws -> existsb (fun p : value * value => key_eqb (fst p) (VStr (fst kv))) spec = false) ->
  exists saw',
  split_special keywords (map kwsparam kws) reg spec saw
  = ROk (reg ++ map kwsparam (filter regular kws), spec ++ map kwpair (filter special kws))
  /\ (saw' = saw \/ saw' = true).
Proof.
  induction kws as [|kv kws IH]; intros reg spec saw Hnd Hsp.
  - exists saw. cbn. rewrite !app_nil_r. auto.
  - cbn [map nodup_str] in Hnd. apply andb_true_iff in Hnd as [Hk Hnd]. apply negb_true_iff in Hk.
    cbn [map split_special kwsparam fst snd filter]. unfold regular at 1, special at 1.
    destruct (is_special keywords (fst kv)) eqn:E; cbn [negb].
    + rewrite (Hsp kv (or_introl eq_refl)).
      destruct (IH reg (spec ++ [(VStr (fst kv), snd kv)]) true Hnd) as (saw' & Hr & _).
      { intros kv' Hin. rewrite existsb_app. rewrite (Hsp kv' (or_intror Hin)). cbn [existsb fst].
        rewrite key_eqb_str. rewrite orb_false_r.
        destruct (str_eqb (fst kv) (fst kv')) eqn:E2; [|reflexivity]. apply str_eqb_eq in E2.
        unfold str_in in Hk. exfalso. rewrite <- not_true_iff_false in Hk. apply Hk. apply existsb_exists.
        exists (fst kv'). split; [apply in_map; exact Hin | rewrite E2; apply str_eqb_refl]. }
      exists true. rewrite Hr. cbn [map kwpair]. rewrite <- app_assoc. auto.
    + destruct (IH (reg ++ [(Some (fst kv), snd kv)]) spec saw Hnd) as (saw' & Hr & Hs).
      { intros kv' Hin. apply Hsp. right. exact Hin. }
      exists saw'. rewrite Hr. cbn [map kwsparam]. rewrite <- app_assoc. auto.
Qed.

Lemma split_pos : forall pos rest reg spec,
  split_special keywords (map possparam pos ++ rest) reg spec false
  = split_special keywords rest (reg ++ map possparam pos) spec false.
Proof.
  induction pos as [|v pos IH]; intros rest reg spec; cbn [map app].
  - rewrite app_nil_r. reflexivity.
  - cbn [split_special possparam]. rewrite IH. rewrite <- app_assoc. reflexivity.
Qed.

Lemma bind_pos : forall pos rest args,
  bind_var (map possparam pos ++ rest) args [] false = bind_var rest (args ++ pos) [] false.
Proof.
  induction pos as [|v pos IH]; intros rest args; cbn [map app].
  - rewrite app_nil_r. reflexivity.
  - cbn [bind_var possparam]. rewrite IH. rewrite <- app_assoc. reflexivity.
Qed.

Lemma bind_kws : forall (kws : list (str * value)) args kw seen,
  nodup_str (map fst kws) = true ->
  (forall kv, In kv kws -> existsb (fun p : value * value => key_eqb (fst p) (VStr (fst kv))) kw = false) ->
  exists seen', bind_var (map kwsparam kws) args kw seen = ROk (args, kw ++ map kwpair kws) /\ (seen' = seen \/ seen' = true).
Proof.
  induction kws as [|kv kws IH]; intros args kw seen Hnd Hkw.
  - exists seen. cbn. rewrite app_nil_r. auto.
  - cbn [map nodup_str] in Hnd. apply andb_true_iff in Hnd as [Hk Hnd]. apply negb_true_iff in Hk.
    cbn [map bind_var kwsparam fst snd]. rewrite (Hkw kv (or_introl eq_refl)).
    destruct (IH args (kw ++ [(VStr (fst kv), snd kv)]) true Hnd) as (s' & Hr & _).
    { intros kv' Hin. rewrite existsb_app. rewrite (Hkw kv' (or_intror Hin)). cbn [existsb fst].
      rewrite key_eqb_str. rewrite orb_false_r.
      destruct (str_eqb (fst kv) (fst kv')) eqn:E2; [|reflexivity]. apply str_eqb_eq in E2.
      unfold str_in in Hk. exfalso. rewrite <- not_true_iff_false in Hk. apply Hk. apply existsb_exists.
      exists (fst kv'). split; [apply in_map; exact Hin | rewrite E2; apply str_eqb_refl]. }
    exists true. rewrite Hr. cbn [map kwpair]. rewrite <- app_assoc. auto.
Qed.

Lemma dict_set_fresh k v : forall d, existsb (fun p : value * value => key_eqb k (fst p)) d = false ->
  dict_set k v d = d ++ [(k, v)].
Proof.
  induction d as [|[k' v'] d IH]; [reflexivity|]. cbn [existsb fst]. intro H. apply orb_false_iff in H as [H1 H2].
  cbn [dict_set app]. rewrite H1, (IH H2). reflexivity.
Qed.

Lemma dict_update_fresh : forall (sp : list (str * value)) d,
  nodup_str (map fst sp) = true ->
  (forall kv, In kv sp -> existsb (fun p : value * value => key_eqb (VStr (fst kv)) (fst p)) d = false) ->
  dict_update d (map kwpair sp) = d ++ map kwpair sp.
Proof.
  unfold dict_update. induction sp as [|kv sp IH]; intros d Hnd Hd; [cbn; rewrite app_nil_r; reflexivity|].
  cbn [map nodup_str] in Hnd. apply andb_true_iff in Hnd as [Hk Hnd]. apply negb_true_iff in Hk.
  cbn [map fold_left kwpair fst snd]. rewrite (dict_set_fresh _ _ d (Hd kv (or_introl eq_refl))).
  fold (kwpair kv). rewrite (IH (d ++ [kwpair kv]) Hnd).
  - rewrite <- app_assoc. reflexivity.
  - intros kv' Hin. rewrite existsb_app. rewrite (Hd kv' (or_intror Hin)). cbn [existsb kwpair fst].
    rewrite key_eqb_str. rewrite orb_false_r.
    destruct (str_eqb (fst kv') (fst kv)) eqn:E2; [|reflexivity]. apply str_eqb_eq in E2.
    unfold str_in in Hk. exfalso. rewrite <- not_true_iff_false in Hk. apply Hk. apply existsb_exists.
    exists (fst kv'). split; [apply in_map; exact Hin | rewrite E2; apply str_eqb_refl].
Qed.
End Bind.

Lemma nodup_filter (f : str * value -> bool) : forall l, nodup_str (map fst l) = true -> nodup_str (map fst (filter f l)) = true.
Proof.
  induction l as [|kv l IH]; [reflexivity|]. cbn [map nodup_str filter]. intro H. apply andb_true_iff in H as [Hk H].
  destruct (f kv); [|apply IH; exact H]. cbn [map nodup_str]. rewrite (IH H), andb_true_r.
  apply negb_true_iff. apply negb_true_iff in Hk. apply str_in_filter. exact Hk.
Qed.

Lemma key_absent' k (l : list (str * value)) : str_in k (map fst l) = false ->
  existsb (fun p : value * value => key_eqb (VStr k) (fst p)) (map kwpair l) = false.
Proof.
  induction l as [|kv l IH]; [reflexivity|]. unfold str_in. cbn [map existsb]. intro H. apply orb_false_iff in H as [H1 H2].
  cbn [kwpair fst]. rewrite key_eqb_str, H1. apply IH. exact H2.
Qed.

(* special_char_keys_passthrough, binding stage: positional values first, then keyword parameters with pairwise
   distinct, non-aggregate names - whatever characters the names contain, the receiver gets args = the positional
   values and kwargs = every name with exactly its value (names that are identifiers first, the others - data-id,
   @click, class, ... - after them, each group in the order written) *)
Theorem keys_passthrough keywords pos (kws : list (str * value)) :
  forallb (fun kv : str * value => negb (is_aggregate_key (fst kv))) kws = true -> nodup_str (map fst kws) = true ->
  bind_params keywords (map posparam pos ++ map kwparam kws)
  = ROk (pos, map kwpair (filter (regular keywords) kws) ++ map kwpair (filter (special keywords) kws)).
Proof.
  intros Hag Hnd. unfold bind_params. rewrite str_keys_ok. cbn [rbind]. rewrite (aggregate_none pos kws Hag). cbn [rbind].
  rewrite split_pos.
  destruct (split_kws keywords kws ([] ++ map possparam pos) [] false Hnd ltac:(intros; reflexivity)) as (saw' & Hs & _).
  rewrite Hs. cbn [rbind app].
  rewrite bind_pos.
  destruct (bind_kws (filter (regular keywords) kws) ([] ++ pos) [] false (nodup_filter _ kws Hnd) ltac:(intros; reflexivity))
    as (seen' & Hb & _).
  rewrite Hb. cbn [rbind app]. f_equal. f_equal.
  apply dict_update_fresh; [apply nodup_filter; exact Hnd|].
  intros kv Hin. apply key_absent'. apply filter_In in Hin as [Hin Hsp].
  unfold str_in. destruct (existsb (str_eqb (fst kv)) (map fst (filter (regular keywords) kws))) eqn:E; [|reflexivity].
  apply existsb_exists in E as [k' [Hk' E]]. apply str_eqb_eq in E. subst k'.
  apply in_map_iff in Hk' as (kv' & Ek & Hin'). apply filter_In in Hin' as [_ Hreg].
  unfold regular, special in *. rewrite Ek in Hreg. rewrite Hsp in Hreg. discriminate.
Qed.

(* a plain keyword that is also the outer name of an aggregate is refused *)
Import Coq.Strings.String.StringSyntax.
Delimit Scope string_scope with string.
Example aggregate_conflict_rejected :
  process_aggregate_kwargs [(Some (s2n "attrs:class"%string), VInt 1); (Some (s2n "attrs"%string), VInt 2)] = RErr ETemplateSyntax
  /\ process_aggregate_kwargs [(Some (s2n "attrs"%string), VInt 2); (Some (s2n "attrs:class"%string), VInt 1)] = RErr ETemplateSyntax.
Proof. split; reflexivity. Qed.
