(* Property C12 - the number of loop-body executions of parse_tag's three `while` loops is linear in the input.

   TagParse/Extra.v counts the executions of the three loop bodies (attributes / container stack / filter parts):
   `parse_tag_t s = (parse_tag s, (na, ns, np))`.  Here:
     - erasure: the first component of every counted loop IS the uncounted loop of TagParse/Model.v;
     - amortised bounds: a filter-parts loop that starts at cursor c0 and ends at c' runs its body at most
       (consumed characters) + 2 times; one container-stack iteration, including the parts loop inside it, costs at
       most (consumed) + 3 <= 4 * (consumed) bodies because it consumes at least one character; one attribute costs
       at most 1 + 4 * (consumed) <= 5 * (consumed);  hence  na + ns + np <= 5*|s| + 4  for EVERY input (also when the
       parse ends in an error).
   The fuel of Model.v alone gives only (|s|+1) * (|rest|+1) * (|rest|+2); the point of this file is that the three
   budgets are not multiplied: every body execution is paid for by input it consumes. *)
From DJC Require Import Lib.Base TagParse.Model TagParse.Proofs TagParse.Extra.

(* ================================================================================================ *)
(* A. erasure                                                                                        *)
(* ================================================================================================ *)
Lemma parts_loop_t_fst : forall fuel ty meta key c0 parts first rsp,
  fst (parts_loop_t fuel ty meta key c0 parts first rsp) = parts_loop fuel ty meta key c0 parts first rsp.
Proof.
  induction fuel as [|fuel IH]; intros ty meta key c0 parts first rsp; [reflexivity|].
  cbn [parts_loop_t parts_loop].
  repeat match goal with
         | |- context [parts_loop_t fuel ?a ?b ?c ?d ?e ?f ?g] =>
             rewrite <- (IH a b c d e f g); destruct (parts_loop_t fuel a b c d e f g)
         | |- context [if ?b then _ else _] => destruct b
         | |- context [match ?x with _ => _ end] => destruct x
         end; reflexivity.
Qed.

Lemma stack_loop_t_fst : forall fuel key c stack total,
  fst (stack_loop_t fuel key c stack total) = stack_loop fuel key c stack total.
Proof.
  induction fuel as [|fuel IH]; intros key c stack total; destruct stack as [|top below]; try reflexivity.
  cbn [stack_loop_t stack_loop]. destruct (stack_step key c top below total) as [c' st' tot'|k|]; try reflexivity.
  rewrite <- IH. destruct (stack_loop_t fuel key c' st' tot') as [r [ns np]]. reflexivity.
Qed.

Lemma attrs_loop_t_fst : forall fuel c attrs, fst (attrs_loop_t fuel c attrs) = attrs_loop fuel c attrs.
Proof.
  induction fuel as [|fuel IH]; intros c attrs.
  - cbn [attrs_loop_t attrs_loop]. destruct (at_end c); reflexivity.
  - cbn [attrs_loop_t attrs_loop]. destruct (at_end c); [reflexivity|].
    destruct (parse_key (skip_ws c)) as [c2|key c2]; [reflexivity|].
    rewrite <- stack_loop_t_fst.
    destruct (stack_loop_t (S (length (rest c2))) key c2 [root_frame] None) as [r [ns np]]. cbn [fst].
    destruct r as [[c3 total]|k|]; try reflexivity.
    destruct total as [root|]; [|reflexivity].
    destruct (unwrap_total root) as [v|k|]; try reflexivity.
    rewrite <- IH. destruct (attrs_loop_t fuel c3 _) as [r' [[na ns'] np']]. reflexivity.
Qed.

Lemma parse_tag_t_fst (s : str) : fst (parse_tag_t s) = parse_tag s.
Proof. apply attrs_loop_t_fst. Qed.

(* ================================================================================================ *)
(* B. the filter-parts loop: bodies <= consumed + 2                                                  *)
(* ================================================================================================ *)
Definition pbound (first : bool) : nat := if first then 2 else 1.

Lemma parts_loop_t_spec : forall fuel ty meta key c0 parts first rsp,
  (ty = TDict -> meta <> None) -> (first = false -> parts <> []) ->
  len c0 + pbound first <= fuel ->
  match parts_loop_t fuel ty meta key c0 parts first rsp with
  | (Ok (_, c', _), n) => n + len c' <= len c0 + pbound first
  | (Err _, n) => n <= len c0 + pbound first
  | (OutOfFuel, _) => False
  end.
Proof.
  induction fuel as [|fuel IH]; intros ty meta key c0 parts first rsp Hm Hp Hfu.
  { destruct first; simpl in Hfu; lia. }
  cbn [parts_loop_t].
  pose proof (skip_ws_adv c0) as H0. pose proof (skip_ws_fix c0) as Hfix.
  set (c := skip_ws c0) in *.
  assert (Hlc : len c <= len c0) by (destruct H0; assumption).
  assert (Hb1 : 1 <= pbound first) by (destruct first; simpl; lia).
  destruct (at_end c) eqn:He.
  { destruct first; simpl in *; lia. }
  destruct (negb first && negb (is_next FILTER c)) eqn:E1.
  { simpl. lia. }
  destruct (first && is_next FILTER c) eqn:E2; [lia|].
  set (r1 := if first then _ else _).
  assert (Hr1 : match r1 with
                | Ok (ft, c2) => adv c c2 /\ (first = false -> sadv c c2)
                | Err k => True
                | OutOfFuel => False
                end).
  { subst r1. destruct first. { split; [apply adv_refl|discriminate]. }
    pose proof (take_n_sadv 0 c He) as Ht. destruct (take_n 1 c) as [ftk c1]. cbn [snd] in Ht.
    assert (Hs : sadv c (skip_ws c1)) by (eapply sadv_adv_trans; [exact Ht | apply skip_ws_adv]).
    assert (Hok : adv c (skip_ws c1) /\ (false = false -> sadv c (skip_ws c1))).
    { split; [apply sadv_adv, Hs | intros _; exact Hs]. }
    destruct ftk as [|f ?]; [exact Hok|].
    destruct (N.eqb f 58); [|exact Hok].
    destruct (rev parts) as [|lp ?] eqn:Er.
    { exfalso. apply (Hp eq_refl). apply (f_equal (@rev _)) in Er. rewrite rev_involutive in Er. exact Er. }
    destruct (p_filter lp) as [x|]; [|exact I].
    destruct x as [|x]; [exact I|].
    repeat (destruct x as [x|x|]; try exact I). exact Hok. }
  destruct r1 as [[ftok c2]|k|]; [|lia|contradiction]. destruct Hr1 as (Ha2 & Hs2).
  pose proof (extract_spread_adv ty ftok key c2) as Hsa.
  pose proof (extract_spread_fuel ty ftok key c2) as Hsf.
  destruct (extract_spread ty ftok key c2) as [[sp c3]|k|]; [|lia|apply Hsf; reflexivity].
  specialize (Hsa _ _ eq_refl). clear Hsf.
  pose proof (terminal_tokens_fuel ty meta sp) as Htf.
  destruct (terminal_tokens ty meta sp) as [terms|k|]; [|lia|apply Htf; reflexivity]. clear Htf.
  pose proof (scan_value_adv terms c3) as Hva. pose proof (scan_value_fuel terms c3) as Hvf.
  destruct (scan_value terms c3) as [[[[v q] tr] c4]|k|]; [|lia|apply Hvf; reflexivity].
  specialize (Hva _ _ _ _ eq_refl). clear Hvf.
  pose proof (mk_part_fuel v q sp tr ftok) as Hpf.
  destruct (mk_part v q sp tr ftok) as [p|k|]; [|lia|apply Hpf; reflexivity]. clear Hpf.
  assert (H5 : adv c (skip_ws c4)).
  { eapply adv_trans; [exact Ha2|]. eapply adv_trans; [exact Hsa|]. eapply adv_trans; [exact Hva | apply skip_ws_adv]. }
  assert (Hst0 : first = false -> sadv c (skip_ws c4)).
  { intro Hf0. eapply sadv_adv_trans; [apply Hs2, Hf0|]. eapply adv_trans; [exact Hsa|].
    eapply adv_trans; [exact Hva | apply skip_ws_adv]. }
  assert (Hl5 : len (skip_ws c4) <= len c) by (destruct H5; assumption).
  assert (Hl5' : first = false -> len (skip_ws c4) < len c) by (intro Hf0; destruct (Hst0 Hf0); assumption).
  destruct (match terms with [] => false | _ => is_next terms (skip_ws c4) end).
  - lia.
  - set (rsp' := if stype_eqb ty TSimple && negb (is_some ftok) then sp else rsp).
    specialize (IH ty meta key (skip_ws c4) (parts ++ [p]) false rsp' Hm (fun _ => app_one_nonempty parts p)).
    assert (Hfu' : len (skip_ws c4) + pbound false <= fuel).
    { cbn [pbound]. destruct first; cbn [pbound] in Hfu.
      - lia.
      - specialize (Hl5' eq_refl). lia. }
    specialize (IH Hfu'). cbn [pbound] in IH.
    destruct (parts_loop_t fuel ty meta key (skip_ws c4) (parts ++ [p]) false rsp') as [r n].
    destruct r as [[[parts' c'] rsp'']|k|]; [| |exact IH].
    + destruct first; cbn [pbound].
      * lia.
      * specialize (Hl5' eq_refl). lia.
    + destruct first; cbn [pbound].
      * lia.
      * specialize (Hl5' eq_refl). lia.
Qed.

(* ================================================================================================ *)
(* C. one iteration of the container-stack loop: 1 + value bodies <= consumed + 3                    *)
(* ================================================================================================ *)
Lemma stack_step_t_spec key c0 top below total :
  stack_ok (top :: below) ->
  match stack_step key c0 top below total with
  | SCont c' _ _ => S (value_ticks key c0 top) + len c' <= len c0 + 3 /\ len c' < len c0
  | SErr _ => S (value_ticks key c0 top) <= len c0 + 3
  | SFuel => False
  end.
Proof.
  intro Hok.
  pose proof (stack_step_spec key c0 top below total Hok) as Hspec.
  pose proof (stack_ok_top_meta _ _ Hok) as Hmeta.
  unfold value_ticks, reaches_value.
  pose proof (skip_ws_adv c0) as H0. set (c := skip_ws c0) in *.
  assert (Hlc : len c <= len c0) by (destruct H0; assumption).
  (* the branches that do not reach the value: one body, at least one character *)
  assert (Hcheap : match stack_step key c0 top below total with
                   | SCont c' _ _ => 1 + len c' <= len c0 + 3 /\ len c' < len c0
                   | SErr _ => 1 <= len c0 + 3
                   | SFuel => False
                   end).
  { destruct (stack_step key c0 top below total) as [c' st' tot'|k|]; [|lia|exact Hspec].
    destruct Hspec as [[_ Hlt] _]. split; [lia | exact Hlt]. }
  unfold stack_step in *. fold c in Hspec, Hcheap |- *.
  destruct (is_next OPEN_LIST c); [exact Hcheap|].
  destruct (is_next [[93]%N] c); [exact Hcheap|].
  destruct (is_next OPEN_DICT c); [exact Hcheap|].
  destruct (is_next [[125]%N] c); [exact Hcheap|].
  destruct (is_next [[44]%N] c); [exact Hcheap|].
  destruct (is_next [[58]%N] c); [exact Hcheap|].
  cbn [orb].
  destruct (negb (stype_eqb (f_ty top) TSimple) && at_end c); [exact Hcheap|]. cbn [negb].
  clear Hcheap.
  pose proof (parts_loop_t_spec (S (S (length (rest c)))) (f_ty top) (f_meta top) key c [] true (f_sp top)
                Hmeta (fun H => ltac:(discriminate))) as Hp.
  assert (Hfu : len c + pbound true <= S (S (length (rest c)))) by (unfold len; cbn [pbound]; lia).
  specialize (Hp Hfu). cbn [pbound] in Hp.
  rewrite <- parts_loop_t_fst in Hspec |- *.
  destruct (parts_loop_t (S (S (length (rest c)))) (f_ty top) (f_meta top) key c [] true (f_sp top)) as [r n].
  cbn [fst snd] in *.
  destruct r as [[[parts c1] rsp]|k|]; [|lia|exact Hp].
  assert (Hw : forall c2, len c2 <= len c1 -> S n + len c2 <= len c0 + 3) by (intros c2 Hc2; lia).
  assert (Hws : len (skip_ws c1) <= len c1) by (destruct (skip_ws_adv c1); assumption).
  destruct (f_ty top).
  - destruct Hspec as [[_ Hlt] _]. split; [apply Hw; lia | exact Hlt].
  - destruct Hspec as [[_ Hlt] _]. split; [apply Hw; lia | exact Hlt].
  - destruct parts as [|p0 ?]; [lia|].
    destruct (f_meta top) as [ek|]; [|lia].
    destruct (is_some (p_spread p0)).
    + destruct (negb ek); [lia|]. destruct (is_next [[58]%N] (skip_ws c1)); [lia|].
      destruct Hspec as [[_ Hlt] _]. split; [apply Hw; exact Hws | exact Hlt].
    + destruct ek.
      * destruct (negb (is_next [[58]%N] (skip_ws c1))); [lia|].
        destruct Hspec as [[_ Hlt] _]. split; [apply Hw; exact Hws | exact Hlt].
      * destruct Hspec as [[_ Hlt] _]. split; [apply Hw; lia | exact Hlt].
Qed.

(* ================================================================================================ *)
(* D. the container-stack loop: ns + np <= 4 * consumed (+3 for the iteration that raises)           *)
(* ================================================================================================ *)
Lemma stack_loop_t_spec : forall fuel key c stack total,
  st_inv stack total -> (stack <> [] -> len c < fuel) ->
  match stack_loop_t fuel key c stack total with
  | (Ok (c', _), (ns, np)) => ns + np + 4 * len c' <= 4 * len c /\ (stack <> [] -> len c' < len c)
  | (Err _, (ns, np)) => ns + np <= 4 * len c + 3
  | (OutOfFuel, _) => False
  end.
Proof.
  induction fuel as [|fuel IH]; intros key c stack total Hi Hf.
  - destruct stack; cbn [stack_loop_t].
    + split; [lia | congruence].
    + assert (len c < 0) by (apply Hf; discriminate). lia.
  - destruct stack as [|top below]; cbn [stack_loop_t].
    + split; [lia | congruence].
    + simpl in Hi. pose proof (stack_step_t_spec key c top below total Hi) as Hs.
      pose proof (stack_step_spec key c top below total Hi) as Hs0.
      destruct (stack_step key c top below total) as [c' st' tot'|k|]; [|lia|exact Hs].
      destruct Hs as [Hs Hlt]. destruct Hs0 as [_ Hi'].
      specialize (IH key c' st' tot' Hi').
      assert (Hf' : st' <> [] -> len c' < fuel).
      { intros _. assert (len c < S fuel) by (apply Hf; discriminate). lia. }
      specialize (IH Hf').
      destruct (stack_loop_t fuel key c' st' tot') as [r [ns np]].
      destruct r as [[c'' tot'']|k|]; [| |exact IH].
      * destruct IH as [IH _]. split; [lia | intros _; lia].
      * lia.
Qed.

(* ================================================================================================ *)
(* E. the attribute loop and parse_tag                                                               *)
(* ================================================================================================ *)
Lemma attrs_loop_t_spec : forall fuel c attrs, len c < fuel ->
  match attrs_loop_t fuel c attrs with
  | (OutOfFuel, _) => False
  | (_, (na, ns, np)) => na + ns + np <= 5 * len c + 4
  end.
Proof.
  induction fuel as [|fuel IH]; intros c attrs Hf; [lia|].
  cbn [attrs_loop_t]. destruct (at_end c) eqn:He; [lia|].
  pose proof (skip_ws_adv c) as H1. set (c1 := skip_ws c) in *.
  pose proof (parse_key_spec c1) as Hk. destruct (parse_key c1) as [c2|key c2]; [lia|].
  assert (Hl2 : len c2 <= len c) by (destruct H1, Hk; lia).
  assert (Hroot : st_inv [root_frame] None) by (simpl; apply so_root; reflexivity).
  pose proof (stack_loop_t_spec (S (length (rest c2))) key c2 [root_frame] None Hroot
                (fun _ => Nat.lt_succ_diag_r _)) as Hs.
  pose proof (stack_loop_spec (S (length (rest c2))) key c2 [root_frame] None Hroot
                (fun _ => Nat.lt_succ_diag_r _)) as Hs0.
  rewrite <- stack_loop_t_fst in Hs0.
  destruct (stack_loop_t (S (length (rest c2))) key c2 [root_frame] None) as [r [ns np]]. cbn [fst] in Hs0.
  destruct r as [[c3 total]|k|]; [|lia|exact Hs].
  destruct Hs as [Hs Hlt]. specialize (Hlt ltac:(discriminate)).
  destruct Hs0 as (_ & (root & -> & Hne) & _).
  destruct (unwrap_total_ok root Hne) as [v ->].
  specialize (IH c3 (attrs ++ [mkattr key v (N.of_nat (length (done c1)))])).
  assert (Hf' : len c3 < fuel) by lia. specialize (IH Hf').
  destruct (attrs_loop_t fuel c3 _) as [r' [[na ns'] np']].
  destruct r'; [lia | lia | exact IH].
Qed.

Lemma parse_tag_t_spec (s : str) :
  match parse_tag_t s with
  | (OutOfFuel, _) => False
  | (_, (na, ns, np)) => na + ns + np <= 5 * length s + 4
  end.
Proof.
  unfold parse_tag_t. apply (attrs_loop_t_spec (S (length s)) (mkcur [] s) []). unfold len. simpl. lia.
Qed.

Lemma parse_tag_iters_linear (s : str) : parse_tag_iters s <= 5 * length s + 4.
Proof.
  unfold parse_tag_iters. pose proof (parse_tag_t_spec s) as H.
  destruct (parse_tag_t s) as [r [[na ns] np]]. destruct r; [exact H | exact H | contradiction].
Qed.

(* linear number of loop bodies x a per-body cost that is linear in the text (the ASSUMPTION about CPython: the helper scans
   of one body run over the rest of the text at most a constant number of times, `normalized += token` and the slices
   copy at most the text) = a quadratic bound *)
Lemma parse_tag_cost_quadratic (body_cost : nat -> nat) (k : nat) :
  (forall n, body_cost n <= k * (n + 1)) ->
  forall s : str, parse_tag_iters s * body_cost (length s) <= k * (5 * length s + 4) * (length s + 1).
Proof.
  intros Hc s. pose proof (parse_tag_iters_linear s) as Hi. specialize (Hc (length s)).
  transitivity ((5 * length s + 4) * (k * (length s + 1))); [apply Nat.mul_le_mono; assumption | lia].
Qed.
