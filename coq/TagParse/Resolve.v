(* Property C02 - what reaches Python: model of TagValue.compile (leaf text), TagValueStruct.resolve,
   template_tag.resolve_params / _extract_flags / parse_template_tag, expression.process_aggregate_kwargs and
   the kwargs split + binding of node.wrapper_render for a receiver with var-positional and var-keyword parameters.
   Definitions only; builds on the parse_tag model of TagParse/Model.v.

   Leaves (variables, literals, filter chains, translated and nested-template strings) are evaluated by Django's
   FilterExpression / DynamicFilterExpression; every function below takes the leaf evaluator as an ABSTRACT
   parameter `ev : leaf text -> rres value` (= eval_leaf applied to the render context).  The theorems hold for
   every `ev`; the correspondence instantiates it with a finite table `env` that the harness fills by evaluating
   every leaf of the case with Django (`ev_of_env`). *)
From DJC Require Import Lib.Base TagParse.Model.

Inductive value :=
| VStr (s : str) | VInt (z : Z) | VNone | VBool (b : bool)
| VList (l : list value) | VDict (l : list (value * value)) | VOther (n : N).

(* EAny is only used for OBSERVED outcomes: the implementation failed while COMPILING some leaf of the attribute (all
   leaves of an attribute are compiled before the first one is resolved); the class is Django's *)
Inductive rerr := ETemplateSyntax | EType | EValue | ESyntax | EIndex | ELeaf | EOther | EAny.
Inductive rres (A : Type) : Type := ROk (a : A) | RErr (e : rerr).
Arguments ROk {A} a.
Arguments RErr {A} e.
Definition rbind {A B} (r : rres A) (f : A -> rres B) : rres B :=
  match r with ROk a => f a | RErr e => RErr e end.

Definition rerr_eqb (a b : rerr) : bool :=
  match a, b with
  | ETemplateSyntax, ETemplateSyntax | EType, EType | EValue, EValue | ESyntax, ESyntax | EIndex, EIndex
  | ELeaf, ELeaf | EOther, EOther | EAny, EAny => true
  | _, _ => false
  end.

Fixpoint value_eqb (a b : value) : bool :=
  match a, b with
  | VStr x, VStr y => str_eqb x y
  | VInt x, VInt y => Z.eqb x y
  | VNone, VNone => true
  | VBool x, VBool y => Bool.eqb x y
  | VOther x, VOther y => N.eqb x y
  | VList x, VList y =>
    (fix go (x y : list value) : bool :=
       match x, y with
       | [], [] => true
       | u :: x', v :: y' => value_eqb u v && go x' y'
       | _, _ => false
       end) x y
  | VDict x, VDict y =>
    (fix go (x y : list (value * value)) : bool :=
       match x, y with
       | [], [] => true
       | (k1, v1) :: x', (k2, v2) :: y' => value_eqb k1 k2 && value_eqb v1 v2 && go x' y'
       | _, _ => false
       end) x y
  | _, _ => false
  end.

(* Python key equality: True == 1, False == 0 *)
Definition key_norm (v : value) : value :=
  match v with VBool true => VInt 1 | VBool false => VInt 0 | _ => v end.
Definition key_eqb (a b : value) : bool := value_eqb (key_norm a) (key_norm b).
Definition hashable (v : value) : bool := match v with VList _ | VDict _ => false | _ => true end.

(* d[k] = v on an insertion-ordered dict *)
Fixpoint dict_set (k v : value) (d : list (value * value)) : list (value * value) :=
  match d with
  | [] => [(k, v)]
  | (k', v') :: r => if key_eqb k k' then (k', v) :: r else (k', v') :: dict_set k v r
  end.
Definition dict_update (d new : list (value * value)) : list (value * value) :=
  fold_left (fun acc kv => dict_set (fst kv) (snd kv) acc) new d.

(* iteration of a Python value (list.extend / positional spread): list items, characters, dict keys *)
Definition iter_value (v : value) : option (list value) :=
  match v with
  | VList l => Some l
  | VStr s => Some (map (fun c => VStr [c]) s)
  | VDict l => Some (map fst l)
  | _ => None
  end.

(* `resolved_dict.update(x)` for a `**x` entry: a dict, or - dict.update being what it is - any iterable of
   2-element sequences (a list of pairs / 2-character strings; the empty string and the empty list change nothing) *)
Definition pair_of_value (x : value) : rres (value * value) :=
  match x with
  | VList [k; v] => ROk (k, v)
  | VStr [a; b] => ROk (VStr [a], VStr [b])
  | VList _ | VStr _ => RErr EValue          (* "dictionary update sequence element has length n; 2 is required" *)
  | VDict _ => RErr EOther                   (* a dict as element would contribute two of its keys - not modelled *)
  | _ => RErr EType                          (* "cannot convert dictionary update sequence element to a sequence" *)
  end.
Fixpoint update_pairs (acc : list (value * value)) (l : list value) : rres (list (value * value)) :=
  match l with
  | [] => ROk acc
  | x :: r => match pair_of_value x with
              | ROk (k, v) => if hashable k then update_pairs (dict_set k v acc) r else RErr EType
              | RErr e => RErr e
              end
  end.
Definition dict_update_any (acc : list (value * value)) (v : value) : rres (list (value * value)) :=
  match v with
  | VDict d => ROk (dict_update acc d)
  | VList l => update_pairs acc l
  | VStr [] => ROk acc
  | VStr _ => RErr EValue
  | _ => RErr EType                           (* not iterable *)
  end.

(* ---------- TagValue.compile: the text handed to FilterExpression ---------- *)
Definition value_is_spread (parts : list part) : bool :=
  match parts with p :: _ => is_some (p_spread p) | [] => false end.
Definition leaf_text (parts : list part) : str :=
  let s := serialize_value parts in
  match parts with
  | p :: _ => match p_spread p with Some sp => skipn (length (spread_str sp)) s | None => s end
  | [] => s
  end.

(* leaf text -> Some v (Django evaluates it to v) | None (Django raises on it: unknown filter, bad literal, ...) *)
Notation env := (list (str * option value)) (only parsing).
Fixpoint env_lookup (k : str) (e : env) : option (option value) :=
  match e with
  | [] => None
  | (k', v) :: r => if str_eqb k k' then Some v else env_lookup k r
  end.
Definition ev_of_env (e : env) (t : str) : rres value :=
  match env_lookup t e with
  | Some (Some v) => ROk v
  | Some None => RErr ELeaf          (* whatever Django raises for this leaf *)
  | None => RErr EOther              (* a leaf text the implementation never produced *)
  end.
Notation evaluator := (str -> rres value) (only parsing).
Definition eval_parts (ev : evaluator) (parts : list part) : rres value := ev (leaf_text parts).

(* ---------- TagValueStruct.resolve ---------- *)
Definition node_spread (n : node) : option spread :=
  match n with NStruct _ sp _ _ => sp | NVal _ => None end.

Fixpoint resolve_node (e : evaluator) (n : node) : rres value :=
  match n with
  | NVal parts => eval_parts e parts
  | NStruct ty _ ents _ =>
    match ty with
    | TSimple =>
      match ents with
      | [] => RErr EIndex
      | NVal parts :: _ => eval_parts e parts
      | NStruct _ _ _ _ :: _ => RErr ETemplateSyntax
      end
    | TList =>
      (fix go (l : list node) (acc : list value) : rres value :=
         match l with
         | [] => ROk (VList acc)
         | x :: r =>
           match resolve_node e x with
           | RErr k => RErr k
           | ROk v =>
             match x with
             | NStruct xty (Some _) _ _ =>
               if negb (stype_eqb xty TList) then RErr ETemplateSyntax
               else match iter_value v with Some vs => go r (acc ++ vs) | None => RErr EType end
             | NVal parts =>
               if value_is_spread parts
               then match iter_value v with Some vs => go r (acc ++ vs) | None => RErr EType end
               else go r (acc ++ [v])
             | _ => go r (acc ++ [v])
             end
           end
         end) ents []
    | TDict =>
      (fix go (l : list node) (acc : list (value * value)) (pending : option value) : rres value :=
         match l with
         | [] => ROk (VDict acc)
         | x :: r =>
           match resolve_node e x with
           | RErr k => RErr k
           | ROk v =>
             let is_sp := match x with
                          | NStruct _ sp _ _ => is_some sp
                          | NVal parts => value_is_spread parts
                          end in
             if is_sp then
               if is_some pending then RErr ETemplateSyntax
               else match dict_update_any acc v with
                    | ROk acc' => go r acc' pending
                    | RErr e => RErr e
                    end
             else
               match pending with
               | None => go r acc (Some v)
               | Some k => if hashable k then go r (dict_set k v acc) None else RErr EType
               end
           end
         end) ents [] None
    end
  end.

(* ---------- parse_template_tag: tag name, self-closing slash, flags ---------- *)
Definition ser_omit_key (a : attr) : option str :=
  match serialize_node 1000 (a_value a) with Ok s => Some s | _ => None end.

Definition str_in (s : str) (l : list str) : bool := existsb (str_eqb s) l.

(* _extract_flags: (remaining attrs, found flags) *)
Fixpoint extract_flags (allowed : list str) (attrs : list attr) (found : list str) : rres (list attr * list str) :=
  match attrs with
  | [] => ROk ([], found)
  | a :: r =>
    match ser_omit_key a with
    | None => RErr EOther
    | Some v =>
      (* `if attr.key is not None or value not in allowed_flags` (fix 2de8cc8) *)
      if is_some (a_key a) || negb (str_in v allowed) then
        rbind (extract_flags allowed r found) (fun '(rem, fl) => ROk (a :: rem, fl))
      else if is_some (node_spread (a_value a)) then RErr ETemplateSyntax
      else if str_in v found then RErr ETemplateSyntax
      else extract_flags allowed r (found ++ [v])
    end
  end.

Definition parse_template_tag (tag : str) (allowed : list str) (text : str)
  : rres (list attr * list str * bool) :=
  match parse_tag text with
  | Err TemplateSyntaxError => RErr ETemplateSyntax
  | Err _ => RErr EOther
  | OutOfFuel => RErr EOther
  | Ok (_, attrs) =>
    match attrs with
    | [] => RErr EIndex                                        (* attrs.pop(0) *)
    | name_attr :: rest_attrs =>
      match ser_omit_key name_attr with
      | None => RErr EOther
      | Some nm =>
        if negb (str_eqb nm tag) then RErr ETemplateSyntax
        else
          let '(attrs1, closed) :=
            match rev rest_attrs with
            | last :: before =>
              match serialize_node 1000 (a_value last) with
              | Ok [47%N] => (rev before, true)
              | _ => (rest_attrs, false)
              end
            | [] => (rest_attrs, false)
            end in
          rbind (extract_flags allowed attrs1 []) (fun '(rem, fl) => ROk (rem, fl, closed))
      end
    end
  end.

(* ---------- resolve_params ---------- *)
Notation param := (option value * value)%type (only parsing).   (* key (any Python value when spread from a dict) *)

Definition key_truthy (k : option str) : bool := match k with Some (_ :: _) => true | _ => false end.

Definition is_str_value (v : value) : bool := match v with VStr _ => true | _ => false end.

Fixpoint resolve_params_go (e : evaluator) (attrs : list attr) : rres (list param) :=
  match attrs with
  | [] => ROk []
  | a :: r =>
    match resolve_node e (a_value a) with
    | RErr k => RErr k
    | ROk v =>
      let here : rres (list param) :=
        if is_some (node_spread (a_value a)) then
          if key_truthy (a_key a) then RErr EValue
          else match v with
               | VDict d =>
                 (* `if not isinstance(key, str): raise TypeError(... keywords must be strings ...)` (fix 87d326f) *)
                 if forallb is_str_value (map fst d) then ROk (map (fun kv => (Some (fst kv), snd kv)) d)
                 else RErr EType
               | _ => match iter_value v with
                      | Some vs => ROk (map (fun x => (None, x)) vs)
                      | None => RErr EValue
                      end
               end
        else ROk [(match a_key a with Some k => Some (VStr k) | None => None end, v)] in
      rbind here (fun ps => rbind (resolve_params_go e r) (fun rest => ROk (ps ++ rest)))
    end
  end.

(* ---------- process_aggregate_kwargs ---------- *)
Definition cCOLON := 58%N.
Definition is_aggregate_key (k : str) : bool :=
  existsb (N.eqb cCOLON) k && negb (match k with c :: _ => N.eqb c cCOLON | [] => false end).

Fixpoint split_colon (k : str) : str * str :=
  match k with
  | [] => ([], [])
  | c :: r => if N.eqb c cCOLON then ([], r) else let '(a, b) := split_colon r in (c :: a, b)
  end.

(* _check_kwargs_for_agg_conflict: compares WHOLE keys of the two kinds - it can never fire (see C02.v) *)
Fixpoint agg_conflict (ps : list (option str * value)) (seen_reg seen_agg : list str) : bool :=
  match ps with
  | [] => false
  | (None, _) :: r => agg_conflict r seen_reg seen_agg
  | (Some k, _) :: r =>
    let ag := is_aggregate_key k in
    if (ag && str_in k seen_reg) || (negb ag && str_in k seen_agg) then true
    else if ag then agg_conflict r seen_reg (k :: seen_agg) else agg_conflict r (k :: seen_reg) seen_agg
  end.

(* nested_kwargs[outer][inner] = value, insertion-ordered on both levels *)
Fixpoint nested_set (outer inner : str) (v : value) (n : list (str * list (value * value)))
  : list (str * list (value * value)) :=
  match n with
  | [] => [(outer, [(VStr inner, v)])]
  | (o, d) :: r => if str_eqb o outer then (o, dict_set (VStr inner) v d) :: r
                   else (o, d) :: nested_set outer inner v r
  end.

Fixpoint aggregate_go (ps : list (option str * value)) (out : list (option str * value)) (seen : list str)
         (nested : list (str * list (value * value)))
  : list (option str * value) * list str * list (str * list (value * value)) :=
  match ps with
  | [] => (out, seen, nested)
  | (None, v) :: r => aggregate_go r (out ++ [(None, v)]) seen nested
  | (Some k, v) :: r =>
    if negb (is_aggregate_key k) then aggregate_go r (out ++ [(Some k, v)]) (k :: seen) nested
    else let '(o, i) := split_colon k in aggregate_go r out seen (nested_set o i v nested)
  end.

Definition process_aggregate_kwargs (ps : list (option str * value)) : rres (list (option str * value)) :=
  if agg_conflict ps [] [] then RErr ETemplateSyntax
  else
    let '(out, seen, nested) := aggregate_go ps [] [] [] in
    if existsb (fun od => str_in (fst od) seen) nested then RErr ETemplateSyntax
    else ROk (out ++ map (fun od => (Some (fst od), VDict (snd od))) nested).

(* ---------- node.wrapper_render: special kwargs, then binding to var-args and var-kwargs ---------- *)
Definition is_alpha_ (c : N) : bool :=
  ((65 <=? c) && (c <=? 90) || (97 <=? c) && (c <=? 122) || (c =? 95) || (128 <=? c))%N.
Definition is_alnum_ (c : N) : bool := is_alpha_ c || ((48 <=? c) && (c <=? 57))%N.
Definition is_identifier (k : str) : bool :=
  match k with c :: r => is_alpha_ c && forallb is_alnum_ r | [] => false end.

Section Bind.
  Variable keywords : list str.       (* keyword.kwlist, generated from the interpreter *)

  Definition is_special (k : str) : bool := negb (is_identifier k) || str_in k keywords.

  (* split into (regular params in order, special kwargs dict); SyntaxError for a positional after a special kwarg *)
  Fixpoint split_special (ps : list (option str * value)) (reg : list (option str * value))
           (spec : list (value * value)) (saw : bool) : rres (list (option str * value) * list (value * value)) :=
    match ps with
    | [] => ROk (reg, spec)
    | (Some k, v) :: r =>
      if is_special k then
        (* `if key in invalid_kwargs: raise TypeError(... got multiple values ...)` (fix 8478320) *)
        if existsb (fun kv => key_eqb (fst kv) (VStr k)) spec then RErr EType
        else split_special r reg (spec ++ [(VStr k, v)]) true
      else split_special r (reg ++ [(Some k, v)]) spec saw
    | (None, v) :: r =>
      if saw then RErr ESyntax else split_special r (reg ++ [(None, v)]) spec saw
    end.

  (* validate_params for a receiver with var-args and var-kwargs *)
  Fixpoint bind_var (ps : list (option str * value)) (args : list value) (kw : list (value * value))
           (seen_kw : bool) : rres (list value * list (value * value)) :=
    match ps with
    | [] => ROk (args, kw)
    | (None, v) :: r => if seen_kw then RErr EType else bind_var r (args ++ [v]) kw seen_kw
    | (Some k, v) :: r =>
      if existsb (fun kv => key_eqb (fst kv) (VStr k)) kw then RErr EType
      else bind_var r args (kw ++ [(VStr k, v)]) true
    end.

  (* string keys only: a non-str key (spread of a dict with such keys) makes `key.isidentifier()` fail *)
  Fixpoint str_keys (ps : list (option value * value)) : rres (list (option str * value)) :=
    match ps with
    | [] => ROk []
    | (None, v) :: r => rbind (str_keys r) (fun l => ROk ((None, v) :: l))
    | (Some (VStr k), v) :: r => rbind (str_keys r) (fun l => ROk ((Some k, v) :: l))
    | (Some _, _) :: _ => RErr EOther
    end.

  (* resolved parameters -> what the receiver `def render(self, context, *args, **kwargs)` gets *)
  Definition bind_params (ps0 : list (option value * value)) : rres (list value * list (value * value)) :=
    rbind (str_keys ps0) (fun ps1 =>
    rbind (process_aggregate_kwargs ps1) (fun ps2 =>
    rbind (split_special ps2 [] [] false) (fun '(reg, spec) =>
    rbind (bind_var reg [] [] false) (fun '(args, kw) =>
    ROk (args, dict_update kw spec))))).

  (* the whole path: tag text -> (args, kwargs, flags, self-closing) *)
  Definition run_tag (tag : str) (allowed : list str) (e : evaluator) (text : str)
    : rres (list value * list (value * value) * list str * bool) :=
    rbind (parse_template_tag tag allowed text) (fun '(attrs, flags, closed) =>
    rbind (resolve_params_go e attrs) (fun ps0 =>
    rbind (bind_params ps0) (fun '(args, kw) =>
    ROk (args, kw, flags, closed)))).
End Bind.

(* ---------- correspondence ---------- *)
(* dicts compared as Python does: same keys, equal values, order ignored *)
Fixpoint dict_get (k : value) (d : list (value * value)) : option value :=
  match d with
  | [] => None
  | (k', v) :: r => if key_eqb k k' then Some v else dict_get k r
  end.
Fixpoint value_sim (fuel : nat) (a b : value) : bool :=
  match fuel with
  | O => value_eqb a b
  | S f =>
    match a, b with
    | VList x, VList y =>
      (fix go (x y : list value) : bool :=
         match x, y with
         | [], [] => true
         | u :: x', v :: y' => value_sim f u v && go x' y'
         | _, _ => false
         end) x y
    | VDict x, VDict y =>
      Nat.eqb (length x) (length y)
      && forallb (fun kv => match dict_get (fst kv) y with Some v => value_sim f (snd kv) v | None => false end) x
    | _, _ => value_eqb (key_norm a) (key_norm b)
    end
  end.

Inductive routcome :=
| RGot (args : list value) (kwargs : list (value * value)) (flags : list str) (closed : bool)
| RFail (e : rerr).

Definition flags_sim (a b : list str) : bool :=
  Nat.eqb (length a) (length b) && forallb (fun x => str_in x b) a.

Record rcase := mkrcase { rc_tag : str; rc_allowed : list str; rc_env : env; rc_text : str; rc_out : routcome }.

Definition check_run (keywords : list str) (c : rcase) : bool :=
  match run_tag keywords (rc_tag c) (rc_allowed c) (ev_of_env (rc_env c)) (rc_text c), rc_out c with
  | ROk (args, kw, flags, closed), RGot args' kw' flags' closed' =>
    value_sim 20 (VList args) (VList args') && value_sim 20 (VDict kw) (VDict kw')
    && flags_sim flags flags' && Bool.eqb closed closed'
  | RErr ELeaf, RFail _ => true      (* the exception class of a failing leaf is Django's *)
  | RErr _, RFail EAny => true       (* a leaf of the attribute does not compile: some error, before anything is resolved *)
  | RErr e, RFail e' => rerr_eqb e e'
  | _, _ => false
  end.
