(* Property C02 - S-model (specification): the documented argument grammar, its printer with an arbitrary
   layout, and its denotation.  Definitions only.

     arglist  ::= item*  [ "/" ]
     item     ::= value | key "=" value | "..." value | flag
     value    ::= leaf | "[" (["*"] value),* "]" | "{" (leaf ":" value | "**" value),* "}"
     leaf     ::= atom ("|" name [":" atom])*
     atom     ::= token | quoted string (either quote, backslash-escaped quotes, any other text incl. template
                  syntax) | _( quoted string )

   `print lay tag a` writes the argument list as the text of a tag; the layout `lay` chooses every insignificant
   detail: each whitespace run (any mix of space / tab / newline / CR / FF) between arguments, around `|` and `:`
   of filters, after `[` `{` `,` `:` `*` `**`, before `]` `}` `,` `:`, inside `_( )`, whether a list / dict has a
   trailing comma, and the trailing whitespace.  (Quote style and the self-closing slash are part of the argument
   list; Props/C02.v states their invariance as separate corollaries.)

   `denote ev a` is the meaning: leaves are handed to the abstract evaluator `ev` as their canonical text
   (= what one would write inside {{ }}), lists / dicts / spreads follow Python, keyword arguments are aggregated and
   bound as a Python call with star-args and double-star-kwargs would. *)
From DJC Require Import Lib.Base TagParse.Model TagParse.Resolve.

(* ---------- characters ---------- *)
Definition WSCH : list N := [32; 9; 10; 13; 12]%N.
Definition is_ws (c : N) : bool := existsb (N.eqb c) WSCH.

(* characters with a meaning for the tag scanner; a plain token (variable, number, filter name, flag, tag name)
   contains none of them:   | : , ] } [ { = * ( )  and the two quote characters *)
Definition SPECIALS : list N := [124; 58; 44; 93; 125; 91; 123; 61; 39; 34; 42; 40; 41]%N.
Definition var_char (c : N) : bool := negb (existsb (N.eqb c) (WSCH ++ SPECIALS)).
(* a token does not start with `.` (three of them are the spread operator) nor with `_` (`_(` opens a translation;
   Django itself refuses variables that start with an underscore) *)
Definition tok_ok (t : str) : bool :=
  match t with [] => false | c :: _ => negb (N.eqb c 46) && negb (N.eqb c 95) && forallb var_char t end.

(* keyword names: anything without white space and without   = | [ { *  and the quote characters, not starting with `:`, and without
   `...` inside - so # @ . - _ : / , ( ) and non-ASCII letters are all allowed *)
Definition KEY_SPECIALS : list N := [61; 39; 34; 124; 91; 123; 42]%N.
Definition key_char (c : N) : bool := negb (existsb (N.eqb c) (WSCH ++ KEY_SPECIALS)).
Definition key_ok (k : str) : bool :=
  match k with
  | [] => false
  | c :: _ => negb (N.eqb c 58) && forallb key_char k && negb (contains [46; 46; 46]%N k)
  end.

(* ---------- layouts ---------- *)
(* a layout answers, for every position of the syntax tree (addressed by a path), with an arbitrary string; the
   printer keeps its white-space characters (so every white-space run is reachable) resp. tests it for emptiness
   (optional trailing comma) *)
Definition layout := list nat -> str.
Definition sub (l : layout) (i : nat) : layout := fun p => l (i :: p).
Definition w0 (l : layout) (i : nat) : str := filter is_ws (l [i]).
Definition w1 (l : layout) (i : nat) : str := match filter is_ws (l [i]) with [] => [32%N] | w => w end.
Definition opt (l : layout) (i : nat) : bool := match l [i] with [] => false | _ :: _ => true end.
Definition canonical_layout : layout := fun _ => [].

(* ---------- atoms and leaves ---------- *)
Inductive atom :=
| AVar (t : str)                (* variable / number / any plain token *)
| AStr (q : N) (b : str)        (* quoted string: quote character, raw body as written (escapes included) *)
| ATrans (q : N) (b : str).     (* _("...") *)

Definition quote_ok (q : N) : bool := N.eqb q 39 || N.eqb q 34.

(* the body of a string literal as Django reads it: characters other than the quote and the backslash, and
   backslash-escaped characters; it does not end in a lone backslash (that would escape the closing quote) *)
Fixpoint body_ok (q : N) (b : str) : bool :=
  match b with
  | [] => true
  | x :: r =>
    if N.eqb x q then false
    else if N.eqb x 92 then
      match r with
      | [] => false
      | y :: r' => if N.eqb y q || N.eqb y 92 then body_ok q r' else body_ok q r
      end
    else body_ok q r
  end.

Definition atom_ok (a : atom) : bool :=
  match a with
  | AVar t => tok_ok t
  | AStr q b | ATrans q b => quote_ok q && body_ok q b
  end.

Definition filt := (str * option atom)%type.          (* |name  or  |name:arg *)
Record leaf := mkleaf { lf_head : atom; lf_filters : list filt }.

Definition filt_ok (f : filt) : bool :=
  tok_ok (fst f) && match snd f with Some x => atom_ok x | None => true end.
Definition leaf_ok (l : leaf) : bool := atom_ok (lf_head l) && forallb filt_ok (lf_filters l).
Definition no_args (l : leaf) : bool :=
  forallb (fun f : filt => match snd f with None => true | Some _ => false end) (lf_filters l).
Definition spreadable (l : leaf) : bool := match lf_head l with ATrans _ _ => false | _ => true end.

(* canonical text = the expression as one writes it inside {{ }} *)
Definition quoted (q : N) (b : str) : str := q :: b ++ [q].
Definition canon_atom (a : atom) : str :=
  match a with
  | AVar t => t
  | AStr q b => quoted q b
  | ATrans q b => [95; 40]%N ++ quoted q b ++ [41]%N
  end.
Definition canon_filt (f : filt) : str :=
  124%N :: fst f ++ match snd f with Some x => 58%N :: canon_atom x | None => [] end.
Definition canon_leaf (l : leaf) : str := canon_atom (lf_head l) ++ concat (map canon_filt (lf_filters l)).

Definition print_atom (lay : layout) (a : atom) : str :=
  match a with
  | AVar t => t
  | AStr q b => quoted q b
  | ATrans q b => [95; 40]%N ++ w0 lay 0 ++ quoted q b ++ w0 lay 1 ++ [41]%N
  end.
Fixpoint print_filters (lay : layout) (fs : list filt) : str :=
  match fs with
  | [] => []
  | f :: r =>
    w0 lay 0 ++ [124%N] ++ w0 lay 1 ++ fst f
    ++ match snd f with
       | Some x => w0 lay 2 ++ [58%N] ++ w0 lay 3 ++ print_atom (sub lay 4) x
       | None => []
       end
    ++ print_filters (sub lay 5) r
  end.
Definition print_leaf (lay : layout) (l : leaf) : str :=
  print_atom (sub lay 0) (lf_head l) ++ print_filters (sub lay 1) (lf_filters l).

(* ---------- values ---------- *)
Inductive sval :=
| SLeaf (l : leaf)
| SList (items : list (bool * sval))              (* true: `*` spread item *)
| SDict (ents : list (option leaf * sval)).       (* Some key: pair; None: `**` spread *)

Definition is_leaf (v : sval) : bool := match v with SLeaf _ => true | _ => false end.

Fixpoint print_val (lay : layout) (v : sval) : str :=
  match v with
  | SLeaf l => print_leaf lay l
  | SList items =>
    [91%N] ++ w0 lay 0
    ++ (fix go (lay : layout) (items : list (bool * sval)) : str :=
          match items with
          | [] => []
          | (sp, x) :: r =>
            (if sp then 42%N :: (if is_leaf x then w0 lay 0 else []) else [])
            ++ print_val (sub lay 1) x ++ w0 lay 2
            ++ match r with
               | [] => if opt lay 3 then 44%N :: w0 lay 4 else []
               | _ :: _ => 44%N :: w0 lay 4 ++ go (sub lay 5) r
               end
          end) (sub lay 1) items
    ++ [93%N]
  | SDict ents =>
    [123%N] ++ w0 lay 0
    ++ (fix go (lay : layout) (ents : list (option leaf * sval)) : str :=
          match ents with
          | [] => []
          | (k, x) :: r =>
            match k with
            | Some kl => print_leaf (sub lay 6) kl ++ w0 lay 7 ++ 58%N :: w0 lay 8
            | None => 42%N :: 42%N :: (if is_leaf x then w0 lay 0 else [])
            end
            ++ print_val (sub lay 1) x ++ w0 lay 2
            ++ match r with
               | [] => if opt lay 3 then 44%N :: w0 lay 4 else []
               | _ :: _ => 44%N :: w0 lay 4 ++ go (sub lay 5) r
               end
          end) (sub lay 1) ents
    ++ [125%N]
  end.

(* the same functions on item lists, for statements and proofs (convertible with the local fixes above) *)
Fixpoint print_litems (lay : layout) (items : list (bool * sval)) : str :=
  match items with
  | [] => []
  | (sp, x) :: r =>
    (if sp then 42%N :: (if is_leaf x then w0 lay 0 else []) else [])
    ++ print_val (sub lay 1) x ++ w0 lay 2
    ++ match r with
       | [] => if opt lay 3 then 44%N :: w0 lay 4 else []
       | _ :: _ => 44%N :: w0 lay 4 ++ print_litems (sub lay 5) r
       end
  end.
Fixpoint print_dents (lay : layout) (ents : list (option leaf * sval)) : str :=
  match ents with
  | [] => []
  | (k, x) :: r =>
    match k with
    | Some kl => print_leaf (sub lay 6) kl ++ w0 lay 7 ++ 58%N :: w0 lay 8
    | None => 42%N :: 42%N :: (if is_leaf x then w0 lay 0 else [])
    end
    ++ print_val (sub lay 1) x ++ w0 lay 2
    ++ match r with
       | [] => if opt lay 3 then 44%N :: w0 lay 4 else []
       | _ :: _ => 44%N :: w0 lay 4 ++ print_dents (sub lay 5) r
       end
  end.

Fixpoint vdepth (v : sval) : nat :=
  match v with
  | SLeaf _ => O
  | SList items => S (fold_right (fun p m => Nat.max (vdepth (snd p)) m) O items)
  | SDict ents => S (fold_right (fun p m => Nat.max (vdepth (snd p)) m) O ents)
  end.

Fixpoint vsize (v : sval) : nat :=
  match v with
  | SLeaf _ => 1
  | SList items => S (fold_right (fun p m => vsize (snd p) + m) O items)
  | SDict ents => S (fold_right (fun p m => vsize (snd p) + m) O ents)
  end.

(* well-formed values: leaves are well-formed tokens / strings; a `*` item is a leaf or a list literal, a `**` entry
   a leaf or a dict literal; dict keys and `**` leaves carry no filter ARGUMENT (inside a dict the first `:` after
   a key ends the key - documented restriction); a spread leaf is not a translation *)
Fixpoint val_ok (v : sval) : bool :=
  match v with
  | SLeaf l => leaf_ok l
  | SList items =>
    forallb (fun p : bool * sval =>
               val_ok (snd p) &&
               (if fst p then match snd p with SLeaf l => spreadable l | SList _ => true | SDict _ => false end
                else true)) items
  | SDict ents =>
    forallb (fun p : option leaf * sval =>
               val_ok (snd p) &&
               match fst p with
               | Some kl => leaf_ok kl && no_args kl
               | None => match snd p with SLeaf l => spreadable l && no_args l | SDict _ => true | SList _ => false end
               end) ents
  end.

(* ---------- the AST the scanner is expected to build ---------- *)
Definition part_of_atom (a : atom) (sp : option spread) (f : option N) : part :=
  match a with
  | AVar t => mkpart t None sp false f
  | AStr q b => mkpart b (Some q) sp false f
  | ATrans q b => mkpart b (Some q) sp true f
  end.
Definition parts_of_filt (f : filt) : list part :=
  mkpart (fst f) None None false (Some 124%N)
  :: match snd f with Some x => [part_of_atom x None (Some 58%N)] | None => [] end.
Definition parts_of_leaf (sp : option spread) (l : leaf) : list part :=
  part_of_atom (lf_head l) sp None :: flat_map parts_of_filt (lf_filters l).

Fixpoint ast_val (sp : option spread) (v : sval) : node :=
  match v with
  | SLeaf l => NVal (parts_of_leaf sp l)
  | SList items =>
    NStruct TList sp (map (fun p : bool * sval => ast_val (if fst p then Some SpStar else None) (snd p)) items) None
  | SDict ents =>
    NStruct TDict sp
      (flat_map (fun p : option leaf * sval =>
                   match fst p with
                   | Some kl => [NVal (parts_of_leaf None kl); ast_val None (snd p)]
                   | None => [ast_val (Some SpStar2) (snd p)]
                   end) ents) None
  end.

(* ---------- denotation of values (Python list / dict semantics; leaves by the evaluator) ---------- *)
Fixpoint den_val (ev : str -> rres value) (v : sval) : rres value :=
  match v with
  | SLeaf l => ev (canon_leaf l)
  | SList items =>
    (fix go (items : list (bool * sval)) (acc : list value) : rres value :=
       match items with
       | [] => ROk (VList acc)
       | (sp, x) :: r =>
         match den_val ev x with
         | RErr e => RErr e
         | ROk d =>
           if sp then match iter_value d with Some ds => go r (acc ++ ds) | None => RErr EType end   (* [*x] *)
           else go r (acc ++ [d])
         end
       end) items []
  | SDict ents =>
    (fix go (ents : list (option leaf * sval)) (acc : list (value * value)) : rres value :=
       match ents with
       | [] => ROk (VDict acc)
       | (Some kl, x) :: r =>
         match ev (canon_leaf kl) with
         | RErr e => RErr e
         | ROk kv =>
           match den_val ev x with
           | RErr e => RErr e
           | ROk d => if hashable kv then go r (dict_set kv d acc) else RErr EType                     (* {k: x} *)
           end
         end
       | (None, x) :: r =>
         match den_val ev x with
         | RErr e => RErr e
         | ROk d => match dict_update_any acc d with                     (* {**x}: x a dict - or, as dict.update has it, *)
                    | ROk acc' => go r acc'                              (* any iterable of pairs                        *)
                    | RErr e => RErr e
                    end
         end
       end) ents []
  end.

(* ---------- argument lists ---------- *)
Inductive item :=
| IPos (v : sval)
| IKw (k : str) (v : sval)
| ISpread (v : sval)            (* ...value *)
| IFlag (f : str).

Record arglist := mkarglist { al_items : list item; al_slash : bool }.

Definition print_item (lay : layout) (it : item) : str :=
  match it with
  | IPos v => print_val lay v
  | IKw k v => k ++ 61%N :: print_val lay v
  | ISpread v => [46; 46; 46]%N ++ print_val lay v
  | IFlag f => f
  end.
Fixpoint print_items (lay : layout) (items : list item) : str :=
  match items with
  | [] => []
  | it :: r => w1 lay 0 ++ print_item (sub lay 1) it ++ print_items (sub lay 2) r
  end.
(* the text handed to parse_tag: tag name, arguments, optional self-closing slash (written like one more argument,
   after white space of its own), trailing white space *)
Definition slash_item : item := IFlag [47%N].
Definition items_with_slash (a : arglist) : list item :=
  al_items a ++ (if al_slash a then [slash_item] else []).
Definition print (lay : layout) (tag : str) (a : arglist) : str :=
  tag ++ print_items (sub lay 0) (items_with_slash a) ++ w0 lay 2.

Definition flags_of (items : list item) : list str :=
  flat_map (fun it => match it with IFlag f => [f] | _ => [] end) items.

(* the serialised text of a positional leaf must not be a flag name (it would BE the flag), and a leaf whose text
   is a lone `/` would be the self-closing slash *)
Definition not_slash (v : sval) : bool :=
  match v with SLeaf l => negb (str_eqb (canon_leaf l) [47%N]) | _ => true end.
Definition item_ok (allowed : list str) (it : item) : bool :=
  match it with
  | IPos v => val_ok v && Nat.leb (vdepth v) 100 && not_slash v
              && match v with SLeaf l => negb (str_in (canon_leaf l) allowed) | _ => true end
  | IKw k v => key_ok k && val_ok v && Nat.leb (vdepth v) 100 && not_slash v
  | ISpread v => val_ok v && Nat.leb (vdepth v) 100
                 && match v with SLeaf l => spreadable l | _ => true end
  | IFlag f => str_in f allowed
  end.

Fixpoint nodup_str (l : list str) : bool :=
  match l with [] => true | x :: r => negb (str_in x r) && nodup_str r end.

Definition arglist_ok (tag : str) (allowed : list str) (a : arglist) : bool :=
  tok_ok tag && forallb tok_ok allowed && negb (str_in [47%N] allowed) && forallb (item_ok allowed) (al_items a)
  && nodup_str (flags_of (al_items a)).

(* parameters in call order: (None, v) positional, (Some k, v) keyword; flags contribute nothing *)
Fixpoint den_items (ev : str -> rres value) (items : list item) : rres (list (option value * value)) :=
  match items with
  | [] => ROk []
  | it :: r =>
    let here : rres (list (option value * value)) :=
      match it with
      | IPos v => rbind (den_val ev v) (fun d => ROk [(None, d)])
      | IKw k v => rbind (den_val ev v) (fun d => ROk [(Some (VStr k), d)])
      | ISpread v =>
        rbind (den_val ev v) (fun d =>
          match d with
          | VDict kvs =>                                                             (* call with double-star d *)
            if forallb is_str_value (map fst kvs) then ROk (map (fun kv => (Some (fst kv), snd kv)) kvs)
            else RErr EType                                                          (* keywords must be strings *)
          | _ => match iter_value d with
                 | Some ds => ROk (map (fun x => (None, x)) ds)                      (* call with star d *)
                 | None => RErr EValue
                 end
          end)
      | IFlag _ => ROk []
      end in
    rbind here (fun ps => rbind (den_items ev r) (fun rest => ROk (ps ++ rest)))
  end.

(* what the receiver `def render(self, context, *args, **kwargs)` is called with, the flags, and whether the tag is
   self-closing *)
Definition denote (keywords : list str) (ev : str -> rres value) (a : arglist)
  : rres (list value * list (value * value) * list str * bool) :=
  rbind (den_items ev (al_items a)) (fun ps =>
  rbind (bind_params keywords ps) (fun '(args, kw) =>
  ROk (args, kw, flags_of (al_items a), al_slash a))).

(* quote style: the same argument list written with the other quote character wherever the body contains neither a
   quote nor a backslash *)
Definition plain_body (b : str) : bool := negb (existsb (fun c => N.eqb c 39 || N.eqb c 34 || N.eqb c 92) b).
Definition other_quote (q : N) : N := if N.eqb q 39 then 34%N else 39%N.

Definition swap_atom (a : atom) : atom :=
  match a with
  | AStr q b => if plain_body b then AStr (other_quote q) b else a
  | ATrans q b => if plain_body b then ATrans (other_quote q) b else a
  | AVar _ => a
  end.
Definition swap_leaf (l : leaf) : leaf :=
  mkleaf (swap_atom (lf_head l)) (map (fun f : filt => (fst f, option_map swap_atom (snd f))) (lf_filters l)).

(* apply a rewriting of leaves everywhere in an argument list *)
Fixpoint vmap (f : leaf -> leaf) (v : sval) : sval :=
  match v with
  | SLeaf l => SLeaf (f l)
  | SList items => SList (map (fun p : bool * sval => (fst p, vmap f (snd p))) items)
  | SDict ents => SDict (map (fun p : option leaf * sval => (option_map f (fst p), vmap f (snd p))) ents)
  end.
Definition imap (f : leaf -> leaf) (it : item) : item :=
  match it with
  | IPos v => IPos (vmap f v)
  | IKw k v => IKw k (vmap f v)
  | ISpread v => ISpread (vmap f v)
  | IFlag fl => IFlag fl
  end.
Definition amap (f : leaf -> leaf) (a : arglist) : arglist := mkarglist (map (imap f) (al_items a)) (al_slash a).
(* the argument list written with the other quote style *)
Definition swap_quotes (a : arglist) : arglist := amap swap_leaf a.
