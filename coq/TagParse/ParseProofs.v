(* Property C02: parse_tag on a printed argument list builds exactly the AST of the argument list, whatever the
   layout.  Container stack first (lists / dicts to any depth), then the attribute loop. *)
From DJC Require Import Lib.Base TagParse.Model TagParse.Proofs TagParse.Resolve TagParse.Spec TagParse.ScanLemmas.

(* ================================================================================================ *)
(* A. runs of the container-stack loop                                                               *)
(* ================================================================================================ *)
Definition reaches (key : option str) (c : cur) (st : list frame) (tot : option frame)
           (c' : cur) (st' : list frame) (tot' : option frame) : Prop :=
  exists n, forall f, stack_loop (n + f) key c st tot = stack_loop f key c' st' tot'.

Lemma reaches_refl key c st tot : reaches key c st tot c st tot.
Proof. exists 0. reflexivity. Qed.

Lemma reaches_refl' key c c' st tot : c = c' -> reaches key c st tot c' st tot.
Proof. intros ->. apply reaches_refl. Qed.
Ltac subst_lets := repeat match goal with x := _ |- _ => subst x end.
Ltac done_reach := subst_lets; apply reaches_refl'; f_equal; norm_rev; reflexivity.

Lemma reaches_trans key c1 s1 t1 c2 s2 t2 c3 s3 t3 :
  reaches key c1 s1 t1 c2 s2 t2 -> reaches key c2 s2 t2 c3 s3 t3 -> reaches key c1 s1 t1 c3 s3 t3.
Proof.
  intros [n Hn] [m Hm]. exists (n + m). intro f. rewrite <- Nat.add_assoc, Hn, Hm. reflexivity.
Qed.

Lemma reaches_step key c top below tot c' st' tot' :
  stack_step key c top below tot = SCont c' st' tot' -> reaches key c (top :: below) tot c' st' tot'.
Proof. intro H. exists 1. intro f. cbn [plus stack_loop]. rewrite H. reflexivity. Qed.

Lemma stack_step_skip key c top below tot : stack_step key (skip_ws c) top below tot = stack_step key c top below tot.
Proof. unfold stack_step. rewrite skip_ws_idem. reflexivity. Qed.

Lemma reaches_skip key w d r top below tot : forallb is_ws w = true -> nows r = true ->
  reaches key (mkcur d (w ++ r)) (top :: below) tot (mkcur (rev w ++ d) r) (top :: below) tot.
Proof.
  intros Hw Hr. exists 0. intro f. cbn [plus]. destruct f as [|f]; [reflexivity|]. cbn [stack_loop].
  rewrite <- (stack_step_skip key (mkcur d (w ++ r))). rewrite (skip_ws_run w d r Hw Hr). reflexivity.
Qed.

(* where a finished value goes: into the frame below; a finished top-level value ends the loop *)
Definition attach (T : frame) (below : list frame) (tot : option frame) (n : node) : list frame * option frame :=
  if stype_eqb (f_ty T) TSimple then (below, Some (push_entry T n)) else (push_entry T n :: below, tot).

Lemma pop_closed_attach c F T below tot :
  pop_closed c F (T :: below) tot
  = SCont c (fst (attach T below tot (node_of_frame F))) (snd (attach T below tot (node_of_frame F))).
Proof. unfold pop_closed, attach. cbn [push_entry f_ty]. destruct (stype_eqb (f_ty T) TSimple); reflexivity. Qed.

(* ================================================================================================ *)
(* B. single steps                                                                                   *)
(* ================================================================================================ *)
(* the text at the cursor starts a plain value: none of the structural branches of stack_step applies *)
Definition vstart (s : str) : Prop :=
  nows s = true /\ s <> [] /\
  forall d, is_next OPEN_LIST (mkcur d s) = false /\ is_next [[93%N]] (mkcur d s) = false
            /\ is_next OPEN_DICT (mkcur d s) = false /\ is_next [[125%N]] (mkcur d s) = false
            /\ is_next [[44%N]] (mkcur d s) = false /\ is_next [[58%N]] (mkcur d s) = false.

Definition LEADX : list N := (46 :: WSCH ++ [124; 58; 44; 93; 125; 91; 123; 61; 42; 40; 41])%N.

Lemma vstart_lead x s : existsb (N.eqb x) (WSCH ++ [124; 58; 44; 93; 125; 91; 123; 42; 46]%N) = false -> vstart (x :: s).
Proof.
  intro Hx. split; [|split; [discriminate|]].
  - cbn [nows]. apply negb_true_iff. unfold is_ws. eapply existsb_incl; [exact Hx | reflexivity].
  - intro d. repeat split; (eapply is_next_false_by_head; [exact Hx | reflexivity]).
Qed.

Lemma vstart_star y s : existsb (N.eqb y) [91; 123; 42]%N = false -> vstart (42%N :: y :: s).
Proof.
  intro Hy. split; [reflexivity|]. split; [discriminate|]. intro d.
  assert (H91 : N.eqb 91 y = false) by (eapply head_neq; [exact Hy | reflexivity]).
  assert (H123 : N.eqb 123 y = false) by (eapply head_neq; [exact Hy | reflexivity]).
  assert (H42 : N.eqb 42 y = false) by (eapply head_neq; [exact Hy | reflexivity]).
  unfold is_next, OPEN_LIST, OPEN_DICT. cbn [rest existsb starts_with]. rewrite H91, H123, H42. cbn. tauto.
Qed.

Lemma vstart_star2 y s : existsb (N.eqb y) [91; 123]%N = false -> vstart (42%N :: 42%N :: y :: s).
Proof.
  intro Hy. split; [reflexivity|]. split; [discriminate|]. intro d.
  assert (H91 : N.eqb 91 y = false) by (eapply head_neq; [exact Hy | reflexivity]).
  assert (H123 : N.eqb 123 y = false) by (eapply head_neq; [exact Hy | reflexivity]).
  unfold is_next, OPEN_LIST, OPEN_DICT. cbn [rest existsb starts_with]. rewrite H91, H123. cbn. tauto.
Qed.

Lemma vstart_dots y s : existsb (N.eqb y) [91; 123]%N = false -> vstart (46%N :: 46%N :: 46%N :: y :: s).
Proof.
  intro Hy. split; [reflexivity|]. split; [discriminate|]. intro d.
  assert (H91 : N.eqb 91 y = false) by (eapply head_neq; [exact Hy | reflexivity]).
  assert (H123 : N.eqb 123 y = false) by (eapply head_neq; [exact Hy | reflexivity]).
  unfold is_next, OPEN_LIST, OPEN_DICT. cbn [rest existsb starts_with]. rewrite H91, H123. cbn. tauto.
Qed.

(* stack_step on a plain value = the filter-parts loop + bookkeeping *)
Lemma step_value key d s T below tot : vstart s ->
  stack_step key (mkcur d s) T below tot =
  match parts_loop (S (S (length s))) (f_ty T) (f_meta T) key (mkcur d s) [] true (f_sp T) with
  | Err k => SErr k
  | OutOfFuel => SFuel
  | Ok (parts, c1, rsp) =>
    let top1 := push_entry (set_sp T rsp) (NVal parts) in
    match f_ty T with
    | TSimple => SCont c1 below (Some top1)
    | TList => SCont c1 (top1 :: below) tot
    | TDict =>
      match parts with
      | [] => SErr IndexError
      | p0 :: _ =>
        match f_meta T with
        | None => SErr KeyError
        | Some ek =>
          if is_some (p_spread p0) then
            if negb ek then SErr TemplateSyntaxError
            else let c2 := skip_ws c1 in
                 if is_next [[58%N]] c2 then SErr TemplateSyntaxError else SCont c2 (top1 :: below) tot
          else
            if ek then
              let c2 := skip_ws c1 in
              if negb (is_next [[58%N]] c2) then SErr TemplateSyntaxError else SCont c2 (top1 :: below) tot
            else SCont c1 (top1 :: below) tot
        end
      end
    end
  end.
Proof.
  intros (Hn & Hne & Hv). unfold stack_step. rewrite (skip_ws_none d s Hn).
  destruct (Hv d) as (H1 & H2 & H3 & H4 & H5 & H6). rewrite H1, H2, H3, H4, H5, H6.
  unfold at_end. cbn [rest]. destruct s as [|x s]; [congruence|]. rewrite andb_false_r. reflexivity.
Qed.

(* the parts loop with the fuel stack_step hands it *)
Lemma parts_loop_actual cx ty meta key sp l lay d pre w r rsp x0 s0 :
  ctx_match cx ty meta -> leaf_ok l = true ->
  (colon_ctx cx = true -> no_args l = true) ->
  (cx = CDictVal -> sp = None) -> (sp <> None -> spreadable l = true) ->
  pre ++ print_leaf lay l ++ w ++ r = x0 :: s0 -> is_ws x0 = false -> N.eqb x0 124 || N.eqb x0 58 = false ->
  extract_spread ty None key (mkcur d (pre ++ print_leaf lay l ++ w ++ r))
    = Ok (sp, mkcur (rev pre ++ d) (print_leaf lay l ++ w ++ r)) ->
  forallb is_ws w = true -> end_ok cx w r = true ->
  parts_loop (S (S (length (pre ++ print_leaf lay l ++ w ++ r)))) ty meta key
             (mkcur d (pre ++ print_leaf lay l ++ w ++ r)) [] true rsp
  = Ok (parts_of_leaf sp l, mkcur (rev (pre ++ print_leaf lay l ++ w) ++ d) r,
        if stype_eqb ty TSimple then sp else rsp).
Proof.
  intros Hcx Hl Hcol Hdv Hsp Htxt Hx0 Hf0 Hes Hw He.
  set (txt := pre ++ print_leaf lay l ++ w ++ r) in *.
  pose proof (parts_loop_leaf cx ty meta key sp l lay d pre w r (2 * length (lf_filters l) + 2) rsp x0 s0
                Hcx Hl Hcol Hdv Hsp Htxt Hx0 Hf0 Hes Hw He ltac:(lia)) as Hbig.
  fold txt in Hbig.
  pose proof (parts_loop_spec (S (S (length txt))) ty meta key (mkcur d txt) [] true rsp) as Hspec.
  assert (Hm : ty = TDict -> meta <> None).
  { intro E. destruct cx; cbn [ctx_match] in Hcx; try congruence; destruct Hcx as [_ ->]; discriminate. }
  specialize (Hspec Hm ltac:(discriminate) ltac:(unfold len; cbn [rest]; lia)).
  destruct (parts_loop (S (S (length txt))) ty meta key (mkcur d txt) [] true rsp) as [x|k|] eqn:E; [| |contradiction].
  - eapply (parts_loop_det _ _ _ _ _ _ _ _ _ _ _ E ltac:(discriminate) Hbig ltac:(discriminate)).
  - exfalso. pose proof (parts_loop_det _ _ _ _ _ _ _ _ _ _ _ E ltac:(discriminate) Hbig ltac:(discriminate)). discriminate.
Qed.

Lemma leaf_lead lay l : leaf_ok l = true ->
  exists x s, print_leaf lay l = x :: s /\ existsb (N.eqb x) LEADX = false.
Proof.
  unfold leaf_ok. intro H. apply andb_true_iff in H as [Hh _].
  destruct (atom_lead (sub lay 0) (lf_head l) Hh) as (x & s & E & Hx).
  exists x, (s ++ print_filters (sub lay 1) (lf_filters l)). split; [|exact Hx].
  unfold print_leaf. rewrite E. reflexivity.
Qed.

Lemma lead_facts x : existsb (N.eqb x) LEADX = false ->
  is_ws x = false /\ N.eqb x 124 || N.eqb x 58 = false /\ existsb (N.eqb x) [42; 46]%N = false
  /\ existsb (N.eqb x) (WSCH ++ [124; 58; 44; 93; 125; 91; 123; 42; 46]%N) = false
  /\ existsb (N.eqb x) [91; 123; 42]%N = false /\ existsb (N.eqb x) [91; 123]%N = false.
Proof.
  intro H.
  assert (E : existsb (N.eqb x) [124; 58]%N = false) by (eapply existsb_incl; [exact H | reflexivity]).
  cbn [existsb] in E. rewrite orb_false_r in E.
  split; [unfold is_ws; eapply existsb_incl; [exact H | reflexivity]|].
  split; [exact E|].
  repeat split; (eapply existsb_incl; [exact H | reflexivity]).
Qed.

Lemma p_spread_atom a sp f : p_spread (part_of_atom a sp f) = sp.
Proof. destruct a; reflexivity. Qed.

Lemma set_sp_same T : set_sp T (f_sp T) = T.
Proof. destruct T; reflexivity. Qed.

(* a leaf inside a list or dict: one step of the stack loop *)
Lemma step_leaf_gen cx key T below tot lay l d sp pre w r x0 s0 :
  cx <> CTop -> ctx_match cx (f_ty T) (f_meta T) -> leaf_ok l = true ->
  (colon_ctx cx = true -> no_args l = true) ->
  (cx = CDictVal -> sp = None) -> (sp <> None -> spreadable l = true) ->
  vstart (pre ++ print_leaf lay l ++ w ++ r) ->
  pre ++ print_leaf lay l ++ w ++ r = x0 :: s0 -> is_ws x0 = false -> N.eqb x0 124 || N.eqb x0 58 = false ->
  extract_spread (f_ty T) None key (mkcur d (pre ++ print_leaf lay l ++ w ++ r))
    = Ok (sp, mkcur (rev pre ++ d) (print_leaf lay l ++ w ++ r)) ->
  forallb is_ws w = true -> end_ok cx w r = true ->
  (cx = CDictKey -> match r with y :: _ => N.eqb y 58 = negb (is_some sp) | [] => False end) ->
  stack_step key (mkcur d (pre ++ print_leaf lay l ++ w ++ r)) T below tot
  = SCont (mkcur (rev (pre ++ print_leaf lay l ++ w) ++ d) r)
          (push_entry T (NVal (parts_of_leaf sp l)) :: below) tot.
Proof.
  intros Hnt Hcx Hl Hcol Hdv Hsp Hvs Htxt Hx0 Hf0 Hes Hw He Hkey.
  rewrite (step_value key d _ T below tot Hvs).
  rewrite (parts_loop_actual cx (f_ty T) (f_meta T) key sp l lay d pre w r (f_sp T) x0 s0
             Hcx Hl Hcol Hdv Hsp Htxt Hx0 Hf0 Hes Hw He).
  cbn beta iota zeta.
  pose proof (end_ok_nows _ _ _ He) as Hnr.
  destruct cx; [congruence| | |]; cbn [ctx_match] in Hcx.
  - rewrite Hcx. cbn [stype_eqb]. rewrite set_sp_same. reflexivity.
  - destruct Hcx as [Ety Em]. rewrite Ety, Em. cbn [stype_eqb]. rewrite set_sp_same.
    unfold parts_of_leaf. rewrite p_spread_atom. specialize (Hkey eq_refl).
    destruct r as [|y r]; [contradiction|].
    rewrite (skip_ws_none _ (y :: r) Hnr). unfold is_next. cbn [rest existsb starts_with negb].
    rewrite N.eqb_sym, Hkey. destruct (is_some sp); reflexivity.
  - destruct Hcx as [Ety Em]. rewrite Ety, Em. cbn [stype_eqb]. rewrite set_sp_same.
    rewrite (Hdv eq_refl). unfold parts_of_leaf. rewrite p_spread_atom. reflexivity.
Qed.

Lemma ws_not_in (y : N) l : is_ws y = true -> forallb (fun c => negb (is_ws c)) l = true -> existsb (N.eqb y) l = false.
Proof.
  intros Hy Hl. destruct (existsb (N.eqb y) l) eqn:E; [|reflexivity].
  apply existsb_exists in E as [c [Hc E]]. apply N.eqb_eq in E. subst c.
  rewrite forallb_forall in Hl. specialize (Hl y Hc). rewrite Hy in Hl. discriminate.
Qed.

Lemma head_ws_or (l : list N) ws x s :
  forallb is_ws ws = true -> existsb (N.eqb x) l = false -> forallb (fun c => negb (is_ws c)) l = true ->
  exists y s', ws ++ x :: s = y :: s' /\ existsb (N.eqb y) l = false.
Proof.
  intros Hws Hx Hl. destruct ws as [|y ws]; [exists x, s; auto|].
  cbn [forallb] in Hws. apply andb_true_iff in Hws as [Hy _]. exists y, (ws ++ x :: s). split; [reflexivity|].
  apply ws_not_in; assumption.
Qed.

Lemma step_leaf_list key T below tot lay l d w r :
  f_ty T = TList -> leaf_ok l = true -> forallb is_ws w = true -> end_ok CList w r = true ->
  stack_step key (mkcur d (print_leaf lay l ++ w ++ r)) T below tot
  = SCont (mkcur (rev (print_leaf lay l ++ w) ++ d) r) (push_entry T (NVal (parts_of_leaf None l)) :: below) tot.
Proof.
  intros HT Hl Hw He. destruct (leaf_lead lay l Hl) as (x & s & E & Hx).
  destruct (lead_facts x Hx) as (F1 & F2 & F3 & F4 & _).
  apply (step_leaf_gen CList key T below tot lay l d None [] w r x (s ++ w ++ r)); auto; try discriminate; try congruence.
  - cbn [app]. rewrite E. cbn [app]. apply vstart_lead. exact F4.
  - cbn [app]. rewrite E. reflexivity.
  - cbn [app]. rewrite E. cbn [app rev]. apply es_none. exact F3.
Qed.

Lemma step_leaf_list_star key T below tot lay l d ws w r :
  f_ty T = TList -> leaf_ok l = true -> spreadable l = true -> forallb is_ws ws = true ->
  forallb is_ws w = true -> end_ok CList w r = true ->
  stack_step key (mkcur d ((42%N :: ws) ++ print_leaf lay l ++ w ++ r)) T below tot
  = SCont (mkcur (rev ((42%N :: ws) ++ print_leaf lay l ++ w) ++ d) r)
          (push_entry T (NVal (parts_of_leaf (Some SpStar) l)) :: below) tot.
Proof.
  intros HT Hl Hspr Hws Hw He. destruct (leaf_lead lay l Hl) as (x & s & E & Hx).
  destruct (lead_facts x Hx) as (F1 & F2 & F3 & F4 & F5 & F6).
  apply (step_leaf_gen CList key T below tot lay l d (Some SpStar) (42%N :: ws) w r 42%N (ws ++ print_leaf lay l ++ w ++ r));
    auto; try discriminate; try congruence.
  - rewrite E. cbn [app]. destruct (head_ws_or [91; 123; 42]%N ws x (s ++ w ++ r) Hws F5 eq_refl) as (y & s' & Ey & Hy).
    rewrite Ey. apply vstart_star. exact Hy.
  - rewrite HT. cbn [app]. rewrite E. cbn [rev]. rewrite <- app_assoc. cbn [app].
    apply es_star; [exact Hws | cbn [app nows]; rewrite F1; reflexivity |].
    cbn [app]. apply negb_true_iff. cbn [existsb] in F3. apply orb_false_iff in F3 as [F3 _]. exact F3.
Qed.

Lemma step_leaf_dict_val key T below tot lay l d w r :
  f_ty T = TDict -> f_meta T = Some false -> leaf_ok l = true -> forallb is_ws w = true -> end_ok CDictVal w r = true ->
  stack_step key (mkcur d (print_leaf lay l ++ w ++ r)) T below tot
  = SCont (mkcur (rev (print_leaf lay l ++ w) ++ d) r) (push_entry T (NVal (parts_of_leaf None l)) :: below) tot.
Proof.
  intros HT Hm Hl Hw He. destruct (leaf_lead lay l Hl) as (x & s & E & Hx).
  destruct (lead_facts x Hx) as (F1 & F2 & F3 & F4 & _).
  apply (step_leaf_gen CDictVal key T below tot lay l d None [] w r x (s ++ w ++ r)); auto; try discriminate; try congruence.
  - cbn [ctx_match]. auto.
  - cbn [app]. rewrite E. cbn [app]. apply vstart_lead. exact F4.
  - cbn [app]. rewrite E. reflexivity.
  - cbn [app]. rewrite E. cbn [app rev]. apply es_none. exact F3.
Qed.

Lemma step_leaf_dict_key key T below tot lay l d w r :
  f_ty T = TDict -> f_meta T = Some true -> leaf_ok l = true -> no_args l = true -> forallb is_ws w = true ->
  stack_step key (mkcur d (print_leaf lay l ++ w ++ 58%N :: r)) T below tot
  = SCont (mkcur (rev (print_leaf lay l ++ w) ++ d) (58%N :: r)) (push_entry T (NVal (parts_of_leaf None l)) :: below) tot.
Proof.
  intros HT Hm Hl Hna Hw. destruct (leaf_lead lay l Hl) as (x & s & E & Hx).
  destruct (lead_facts x Hx) as (F1 & F2 & F3 & F4 & _).
  apply (step_leaf_gen CDictKey key T below tot lay l d None [] w (58%N :: r) x (s ++ w ++ 58%N :: r));
    auto; try discriminate; try congruence.
  - cbn [ctx_match]. auto.
  - cbn [app]. rewrite E. cbn [app]. apply vstart_lead. exact F4.
  - cbn [app]. rewrite E. reflexivity.
  - cbn [app]. rewrite E. cbn [app rev]. apply es_none. exact F3.
Qed.

Lemma step_leaf_dict_spread key T below tot lay l d ws w r :
  f_ty T = TDict -> f_meta T = Some true -> leaf_ok l = true -> no_args l = true -> spreadable l = true ->
  forallb is_ws ws = true -> forallb is_ws w = true ->
  match r with y :: _ => N.eqb y 44 || N.eqb y 125 | [] => false end = true ->
  stack_step key (mkcur d ((42%N :: 42%N :: ws) ++ print_leaf lay l ++ w ++ r)) T below tot
  = SCont (mkcur (rev ((42%N :: 42%N :: ws) ++ print_leaf lay l ++ w) ++ d) r)
          (push_entry T (NVal (parts_of_leaf (Some SpStar2) l)) :: below) tot.
Proof.
  intros HT Hm Hl Hna Hspr Hws Hw Hr. destruct (leaf_lead lay l Hl) as (x & s & E & Hx).
  destruct (lead_facts x Hx) as (F1 & F2 & F3 & F4 & F5 & F6).
  destruct r as [|y r]; [discriminate|].
  apply (step_leaf_gen CDictKey key T below tot lay l d (Some SpStar2) (42%N :: 42%N :: ws) w (y :: r) 42%N
           (42%N :: ws ++ print_leaf lay l ++ w ++ y :: r)); auto; try discriminate; try congruence.
  - cbn [ctx_match]. auto.
  - rewrite E. cbn [app]. destruct (head_ws_or [91; 123]%N ws x (s ++ w ++ y :: r) Hws F6 eq_refl) as (y' & s' & Ey & Hy).
    rewrite Ey. apply vstart_star2. exact Hy.
  - rewrite HT. cbn [app]. rewrite E. cbn [rev]. rewrite <- !app_assoc. cbn [app].
    apply es_star2; [exact Hws | cbn [app nows]; rewrite F1; reflexivity].
  - cbn [end_ok ctx_tcs existsb]. apply orb_true_iff in Hr as [Hr|Hr]; rewrite Hr; rewrite ?orb_true_r; reflexivity.
  - intros _. cbn [is_some negb]. apply orb_true_iff in Hr as [Hr|Hr]; apply N.eqb_eq in Hr; subst; reflexivity.
Qed.

(* --- structural steps --- *)
(* positions at which a list / dict literal may open, with the spread prefix that is legal there *)
Inductive opos : frame -> option spread -> str -> option str -> Prop :=
| op_list T key : f_ty T = TList -> opos T None [] key
| op_list_star T key : f_ty T = TList -> opos T (Some SpStar) [42%N] key
| op_dictval T key : f_ty T = TDict -> f_meta T = Some false -> opos T None [] key
| op_dictspread T key : f_ty T = TDict -> f_meta T = Some true -> opos T (Some SpStar2) [42; 42]%N key
| op_top T key : f_ty T = TSimple -> opos T None [] key
| op_top_dots T : f_ty T = TSimple -> opos T (Some SpDots) [46; 46; 46]%N None.

Lemma set_meta_same T m : f_meta T = m -> set_meta T m = T.
Proof. destruct T; cbn; intros ->; reflexivity. Qed.

Lemma step_open_list key T below tot sp pre d r :
  opos T sp pre key -> sp <> Some SpStar2 -> length (T :: below) <= 100 ->
  stack_step key (mkcur d (pre ++ 91%N :: r)) T below tot
  = SCont (mkcur (91%N :: rev pre ++ d) r) (mkframe TList sp [] None :: T :: below) tot.
Proof.
  intros Hp Hsp Hlen. unfold stack_step, push_struct.
  replace (Nat.ltb MAX_NESTING_DEPTH (length (T :: below))) with false
    by (symmetry; apply Nat.ltb_ge; unfold MAX_NESTING_DEPTH; exact Hlen).
  destruct Hp as [T key HT|T key HT|T key HT Hm|T key HT Hm|T key HT|T HT]; try congruence;
    cbn [app]; rewrite skip_ws_none by reflexivity; rewrite HT.
  - replace (is_next OPEN_LIST (mkcur d (91%N :: r))) with true by reflexivity.
    rewrite es_none by reflexivity. cbn [is_some andb]. rewrite take_n_1. reflexivity.
  - replace (is_next OPEN_LIST (mkcur d (42%N :: 91%N :: r))) with true by reflexivity.
    pose proof (es_star key d [] (91%N :: r) eq_refl eq_refl eq_refl) as X; cbn [app rev] in X; rewrite X; clear X.
    cbn [is_some andb stype_eqb rev app].
    rewrite take_n_1. reflexivity.
  - replace (is_next OPEN_LIST (mkcur d (91%N :: r))) with true by reflexivity.
    rewrite es_none by reflexivity. cbn [is_some andb]. rewrite take_n_1. reflexivity.
  - replace (is_next OPEN_LIST (mkcur d (91%N :: r))) with true by reflexivity.
    rewrite es_none by reflexivity. cbn [is_some andb]. rewrite take_n_1. reflexivity.
  - replace (is_next OPEN_LIST (mkcur d (46%N :: 46%N :: 46%N :: 91%N :: r))) with true by reflexivity.
    rewrite (es_dots d 91%N r eq_refl). cbn [is_some andb stype_eqb rev app].
    rewrite take_n_1. reflexivity.
Qed.

Lemma step_open_dict key T below tot sp pre d r :
  opos T sp pre key -> sp <> Some SpStar -> length (T :: below) <= 100 ->
  stack_step key (mkcur d (pre ++ 123%N :: r)) T below tot
  = SCont (mkcur (123%N :: rev pre ++ d) r) (mkframe TDict sp [] (Some true) :: T :: below) tot.
Proof.
  intros Hp Hsp Hlen. unfold stack_step, push_struct.
  replace (Nat.ltb MAX_NESTING_DEPTH (length (T :: below))) with false
    by (symmetry; apply Nat.ltb_ge; unfold MAX_NESTING_DEPTH; exact Hlen).
  destruct Hp as [T key HT|T key HT|T key HT Hm|T key HT Hm|T key HT|T HT]; try congruence;
    cbn [app]; rewrite skip_ws_none by reflexivity; rewrite HT.
  - replace (is_next OPEN_LIST (mkcur d (123%N :: r))) with false by reflexivity.
    replace (is_next [[93%N]] (mkcur d (123%N :: r))) with false by reflexivity.
    replace (is_next OPEN_DICT (mkcur d (123%N :: r))) with true by reflexivity.
    rewrite es_none by reflexivity. cbn [is_some andb stype_eqb]. rewrite take_n_1. reflexivity.
  - replace (is_next OPEN_LIST (mkcur d (123%N :: r))) with false by reflexivity.
    replace (is_next [[93%N]] (mkcur d (123%N :: r))) with false by reflexivity.
    replace (is_next OPEN_DICT (mkcur d (123%N :: r))) with true by reflexivity.
    rewrite es_none by reflexivity. cbn [is_some andb stype_eqb]. rewrite take_n_1, Hm. reflexivity.
  - replace (is_next OPEN_LIST (mkcur d (42%N :: 42%N :: 123%N :: r))) with false by reflexivity.
    replace (is_next [[93%N]] (mkcur d (42%N :: 42%N :: 123%N :: r))) with false by reflexivity.
    replace (is_next OPEN_DICT (mkcur d (42%N :: 42%N :: 123%N :: r))) with true by reflexivity.
    pose proof (es_star2 key d [] (123%N :: r) eq_refl eq_refl) as X; cbn [app rev] in X; rewrite X; clear X.
    cbn [is_some andb stype_eqb rev app].
    rewrite take_n_1, Hm. cbn [snd]. rewrite (set_meta_same T (Some true) Hm).
    replace (Nat.ltb MAX_NESTING_DEPTH (length (T :: below))) with false
      by (symmetry; apply Nat.ltb_ge; unfold MAX_NESTING_DEPTH; exact Hlen).
    reflexivity.
  - replace (is_next OPEN_LIST (mkcur d (123%N :: r))) with false by reflexivity.
    replace (is_next [[93%N]] (mkcur d (123%N :: r))) with false by reflexivity.
    replace (is_next OPEN_DICT (mkcur d (123%N :: r))) with true by reflexivity.
    rewrite es_none by reflexivity. cbn [is_some andb stype_eqb]. rewrite take_n_1. reflexivity.
  - replace (is_next OPEN_LIST (mkcur d (46%N :: 46%N :: 46%N :: 123%N :: r))) with false by reflexivity.
    replace (is_next [[93%N]] (mkcur d (46%N :: 46%N :: 46%N :: 123%N :: r))) with false by reflexivity.
    replace (is_next OPEN_DICT (mkcur d (46%N :: 46%N :: 46%N :: 123%N :: r))) with true by reflexivity.
    rewrite (es_dots d 123%N r eq_refl). cbn [is_some andb stype_eqb rev app].
    rewrite take_n_1. reflexivity.
Qed.

Lemma step_close_list key F T below tot d r : f_ty F = TList ->
  stack_step key (mkcur d (93%N :: r)) F (T :: below) tot
  = SCont (mkcur (93%N :: d) r) (fst (attach T below tot (node_of_frame F))) (snd (attach T below tot (node_of_frame F))).
Proof.
  intro HF. unfold stack_step. rewrite skip_ws_none by reflexivity. rewrite HF.
  replace (is_next OPEN_LIST (mkcur d (93%N :: r))) with false by reflexivity.
  replace (is_next [[93%N]] (mkcur d (93%N :: r))) with true by reflexivity.
  cbn [stype_eqb negb]. rewrite take_n_1. cbn [snd]. apply pop_closed_attach.
Qed.

Lemma step_close_dict key F T below tot d r m : f_ty F = TDict -> f_meta F = Some m ->
  validate_dict (f_ents F) false = true ->
  stack_step key (mkcur d (125%N :: r)) F (T :: below) tot
  = SCont (mkcur (125%N :: d) r) (fst (attach T below tot (node_of_frame (set_meta F None))))
          (snd (attach T below tot (node_of_frame (set_meta F None)))).
Proof.
  intros HF Hm Hv. unfold stack_step. rewrite skip_ws_none by reflexivity. rewrite HF, Hm, Hv.
  replace (is_next OPEN_LIST (mkcur d (125%N :: r))) with false by reflexivity.
  replace (is_next [[93%N]] (mkcur d (125%N :: r))) with false by reflexivity.
  replace (is_next OPEN_DICT (mkcur d (125%N :: r))) with false by reflexivity.
  replace (is_next [[125%N]] (mkcur d (125%N :: r))) with true by reflexivity.
  cbn [stype_eqb negb]. rewrite take_n_1. cbn [snd]. apply pop_closed_attach.
Qed.

Lemma step_comma_list key F below tot d r : f_ty F = TList ->
  stack_step key (mkcur d (44%N :: r)) F below tot = SCont (mkcur (44%N :: d) r) (F :: below) tot.
Proof.
  intro HF. unfold stack_step. rewrite skip_ws_none by reflexivity. rewrite HF.
  replace (is_next OPEN_LIST (mkcur d (44%N :: r))) with false by reflexivity.
  replace (is_next [[93%N]] (mkcur d (44%N :: r))) with false by reflexivity.
  replace (is_next OPEN_DICT (mkcur d (44%N :: r))) with false by reflexivity.
  replace (is_next [[125%N]] (mkcur d (44%N :: r))) with false by reflexivity.
  replace (is_next [[44%N]] (mkcur d (44%N :: r))) with true by reflexivity.
  rewrite take_n_1. reflexivity.
Qed.

Lemma step_comma_dict key F below tot d r : f_ty F = TDict ->
  stack_step key (mkcur d (44%N :: r)) F below tot = SCont (mkcur (44%N :: d) r) (set_meta F (Some true) :: below) tot.
Proof.
  intro HF. unfold stack_step. rewrite skip_ws_none by reflexivity. rewrite HF.
  replace (is_next OPEN_LIST (mkcur d (44%N :: r))) with false by reflexivity.
  replace (is_next [[93%N]] (mkcur d (44%N :: r))) with false by reflexivity.
  replace (is_next OPEN_DICT (mkcur d (44%N :: r))) with false by reflexivity.
  replace (is_next [[125%N]] (mkcur d (44%N :: r))) with false by reflexivity.
  replace (is_next [[44%N]] (mkcur d (44%N :: r))) with true by reflexivity.
  rewrite take_n_1. reflexivity.
Qed.

Lemma step_colon key F below tot d r : f_ty F = TDict -> f_meta F = Some true ->
  stack_step key (mkcur d (58%N :: r)) F below tot = SCont (mkcur (58%N :: d) r) (set_meta F (Some false) :: below) tot.
Proof.
  intros HF Hm. unfold stack_step. rewrite skip_ws_none by reflexivity. rewrite HF, Hm.
  replace (is_next OPEN_LIST (mkcur d (58%N :: r))) with false by reflexivity.
  replace (is_next [[93%N]] (mkcur d (58%N :: r))) with false by reflexivity.
  replace (is_next OPEN_DICT (mkcur d (58%N :: r))) with false by reflexivity.
  replace (is_next [[125%N]] (mkcur d (58%N :: r))) with false by reflexivity.
  replace (is_next [[44%N]] (mkcur d (58%N :: r))) with false by reflexivity.
  replace (is_next [[58%N]] (mkcur d (58%N :: r))) with true by reflexivity.
  cbn [stype_eqb negb]. rewrite take_n_1. reflexivity.
Qed.

(* ================================================================================================ *)
(* C. list and dict literals, any nesting                                                            *)
(* ================================================================================================ *)
Definition sp_kind (sp : option spread) (v : sval) : Prop :=
  match v with SLeaf _ => False | SList _ => sp <> Some SpStar2 | SDict _ => sp <> Some SpStar end.

(* a literal v written at a position where a literal may open is consumed whole and attached below *)
Definition Pv (v : sval) : Prop :=
  forall lay sp pre T below tot key d r,
    opos T sp pre key -> sp_kind sp v -> length (T :: below) + vdepth v <= 101 ->
    reaches key (mkcur d (pre ++ print_val lay v ++ r)) (T :: below) tot
            (mkcur (rev (pre ++ print_val lay v) ++ d) r)
            (fst (attach T below tot (ast_val sp v))) (snd (attach T below tot (ast_val sp v))).

Lemma print_val_list lay items :
  print_val lay (SList items) = 91%N :: w0 lay 0 ++ print_litems (sub lay 1) items ++ [93%N].
Proof. reflexivity. Qed.
Lemma print_val_dict lay ents :
  print_val lay (SDict ents) = 123%N :: w0 lay 0 ++ print_dents (sub lay 1) ents ++ [125%N].
Proof. reflexivity. Qed.

Definition litem_ast (p : bool * sval) : node := ast_val (if fst p then Some SpStar else None) (snd p).
Definition litem_ok (p : bool * sval) : bool :=
  val_ok (snd p) &&
  (if fst p then match snd p with SLeaf l => spreadable l | SList _ => true | SDict _ => false end else true).

Definition add_ents (F : frame) (ns : list node) : frame := mkframe (f_ty F) (f_sp F) (f_ents F ++ ns) (f_meta F).
Lemma add_ents_nil F : add_ents F [] = F.
Proof. destruct F. unfold add_ents. cbn. rewrite app_nil_r. reflexivity. Qed.
Lemma add_ents_push F n ns : add_ents (push_entry F n) ns = add_ents F (n :: ns).
Proof. unfold add_ents, push_entry. cbn. rewrite <- app_assoc. reflexivity. Qed.

(* first character of a printed value *)
Lemma val_lead lay v : val_ok v = true ->
  exists x s, print_val lay v = x :: s /\ existsb (N.eqb x) (WSCH ++ [44; 93; 125; 58; 124; 42]%N) = false.
Proof.
  destruct v as [l|items|ents]; intro H.
  - cbn [val_ok] in H. destruct (leaf_lead lay l H) as (x & s & E & Hx). exists x, s. split; [exact E|].
    eapply existsb_incl; [exact Hx | reflexivity].
  - rewrite print_val_list. eexists _, _. split; reflexivity.
  - rewrite print_val_dict. eexists _, _. split; reflexivity.
Qed.

Lemma nows_of (x : N) s l : existsb (N.eqb x) (WSCH ++ l) = false -> nows (x :: s) = true.
Proof.
  intro H. cbn [nows]. apply negb_true_iff. unfold is_ws. rewrite existsb_app in H. apply orb_false_iff in H. apply H.
Qed.

(* the separator after an item: nothing (last item, no trailing comma), or a comma and white space *)
Definition sep_text (lay : layout) (last : bool) : str :=
  if last then (if opt lay 3 then 44%N :: w0 lay 4 else []) else 44%N :: w0 lay 4.

Lemma print_litems_cons lay sp x r :
  print_litems lay ((sp, x) :: r)
  = (if sp then 42%N :: (if is_leaf x then w0 lay 0 else []) else [])
    ++ print_val (sub lay 1) x ++ w0 lay 2
    ++ sep_text lay (match r with [] => true | _ => false end) ++ print_litems (sub lay 5) r.
Proof.
  cbn [print_litems]. unfold sep_text. destruct r as [|p r].
  - cbn [print_litems]. rewrite app_nil_r. reflexivity.
  - rewrite <- app_comm_cons. reflexivity.
Qed.

Lemma list_items_run key below tot : forall items lay F d w r,
  f_ty F = TList ->
  Forall (fun p => is_leaf (snd p) = false -> Pv (snd p)) items ->
  forallb litem_ok items = true ->
  Forall (fun p => length (F :: below) + vdepth (snd p) <= 101) items ->
  forallb is_ws w = true ->
  reaches key (mkcur d (w ++ print_litems lay items ++ 93%N :: r)) (F :: below) tot
          (mkcur (rev (w ++ print_litems lay items) ++ d) (93%N :: r))
          (add_ents F (map litem_ast items) :: below) tot.
Proof.
  induction items as [|[sp x] rest IH]; intros lay F d w r HF HP Hok Hdep Hw.
  - cbn [print_litems map app]. rewrite add_ents_nil, app_nil_r. apply reaches_skip; [exact Hw | reflexivity].
  - inversion HP as [|? ? HPx HPr]; subst. inversion Hdep as [|? ? Hdx Hdr]; subst.
    cbn [forallb] in Hok. apply andb_true_iff in Hok as [Hx Hok]. unfold litem_ok in Hx. cbn [fst snd] in *.
    apply andb_true_iff in Hx as [Hvx Hshape].
    rewrite print_litems_cons.
    set (last := match rest with [] => true | _ => false end).
    (* the text that follows the item and its trailing white space *)
    set (after := sep_text lay last ++ print_litems (sub lay 5) rest ++ 93%N :: r).
    assert (Hafter : exists y s, after = y :: s /\ (y = 44%N \/ y = 93%N)).
    { subst after. unfold sep_text. destruct last eqn:El.
      - destruct rest; [|discriminate]. cbn [print_litems app]. destruct (opt lay 3); eexists _, _; (split; [reflexivity | auto]).
      - eexists _, _. split; [reflexivity | auto]. }
    destruct Hafter as (ya & sa & Ea & Hya).
    assert (Hend : end_ok CList (w0 lay 2) after = true).
    { rewrite Ea. cbn [end_ok ctx_tcs existsb]. destruct Hya as [->| ->]; reflexivity. }
    assert (Hnowsa : nows after = true) by (rewrite Ea; destruct Hya as [->| ->]; reflexivity).
    (* 1. the item itself, up to `after` *)
    set (itxt := (if sp then 42%N :: (if is_leaf x then w0 lay 0 else []) else []) ++ print_val (sub lay 1) x ++ w0 lay 2).
    assert (Hitem : reaches key (mkcur d (w ++ itxt ++ after)) (F :: below) tot
                            (mkcur (rev (w ++ itxt) ++ d) after)
                            (push_entry F (litem_ast (sp, x)) :: below) tot).
    { subst itxt. unfold litem_ast. cbn [fst snd].
      destruct x as [l|xitems|xents].
      - (* leaf *) cbn [val_ok] in Hvx. cbn [is_leaf print_val].
        destruct (leaf_lead (sub lay 1) l Hvx) as (x0 & s0 & E0 & Hx0).
        destruct sp.
        + eapply reaches_trans.
          * apply (reaches_skip key w d _ F below tot Hw). rewrite <- !app_assoc. reflexivity.
          * rewrite <- !app_assoc. 
            change (42%N :: w0 lay 0 ++ print_leaf (sub lay 1) l ++ w0 lay 2 ++ after)
              with ((42%N :: w0 lay 0) ++ print_leaf (sub lay 1) l ++ w0 lay 2 ++ after).
            eapply reaches_trans; [apply reaches_step; apply step_leaf_list_star; auto using w0_ws|].
            done_reach.
        + cbn [app]. eapply reaches_trans.
          * apply (reaches_skip key w d _ F below tot Hw). rewrite <- !app_assoc, E0. cbn [app].
            cbn [nows]. destruct (lead_facts x0 Hx0) as (F1 & _). rewrite F1. reflexivity.
          * rewrite <- !app_assoc.
            eapply reaches_trans; [apply reaches_step; apply step_leaf_list; auto using w0_ws|].
            done_reach.
      - (* nested list *)
        specialize (HPx eq_refl). cbn [is_leaf].
        set (pre := if sp then [42%N] else @nil N).
        replace ((if sp then [42%N] else []) ++ print_val (sub lay 1) (SList xitems) ++ w0 lay 2)
          with (pre ++ print_val (sub lay 1) (SList xitems) ++ w0 lay 2) by reflexivity.
        eapply reaches_trans.
        { apply (reaches_skip key w d _ F below tot Hw). subst pre. rewrite print_val_list. destruct sp; reflexivity. }
        rewrite <- !app_assoc.
        eapply reaches_trans.
        { apply (HPx (sub lay 1) (if sp then Some SpStar else None) pre F below tot key).
          - subst pre. destruct sp; [apply op_list_star | apply op_list]; exact HF.
          - cbn [sp_kind]. destruct sp; discriminate.
          - cbn [length] in *. lia. }
        unfold attach. rewrite HF. cbn [stype_eqb fst snd].
        eapply reaches_trans.
        { apply (reaches_skip key (w0 lay 2) _ after _ below tot (w0_ws _ _) Hnowsa). }
        done_reach.
      - (* nested dict: only without `*` *)
        destruct sp; [discriminate|]. specialize (HPx eq_refl). cbn [is_leaf app].
        eapply reaches_trans.
        { apply (reaches_skip key w d _ F below tot Hw). rewrite print_val_dict. reflexivity. }
        rewrite <- !app_assoc.
        eapply reaches_trans.
        { apply (HPx (sub lay 1) None [] F below tot key).
          - apply op_list; exact HF.
          - cbn [sp_kind]. discriminate.
          - cbn [length] in *. lia. }
        unfold attach. rewrite HF. cbn [stype_eqb fst snd app].
        eapply reaches_trans.
        { apply (reaches_skip key (w0 lay 2) _ after _ below tot (w0_ws _ _) Hnowsa). }
        done_reach. }
    (* 2. separator and the remaining items *)
    match goal with |- reaches _ (mkcur _ ?t) _ _ _ _ _ =>
      replace t with (w ++ itxt ++ after) by (subst itxt after; norm_app; reflexivity) end.
    eapply reaches_trans; [exact Hitem|].
    cbn [map]. rewrite <- add_ents_push.
    assert (HF' : f_ty (push_entry F (litem_ast (sp, x))) = TList) by exact HF.
    assert (Hdep' : Forall (fun p => length (push_entry F (litem_ast (sp, x)) :: below) + vdepth (snd p) <= 101) rest)
      by exact Hdr.
    subst after. unfold sep_text.
    destruct last eqn:El.
    + destruct rest as [|? ?]; [|discriminate]. cbn [print_litems app].
      destruct (opt lay 3).
      * (* trailing comma *)
        cbn [app]. eapply reaches_trans; [apply reaches_step; apply step_comma_list; exact HF'|].
        eapply reaches_trans.
        { apply (IH (sub lay 5) (push_entry F (litem_ast (sp, x))) _ (w0 lay 4) r HF' HPr Hok Hdep' (w0_ws _ _)). }
        cbn [print_litems map]. rewrite !app_nil_r.
        done_reach.
      * cbn [app map]. rewrite add_ents_nil, !app_nil_r. apply reaches_refl.
    + cbn [app]. eapply reaches_trans; [apply reaches_step; apply step_comma_list; exact HF'|].
      eapply reaches_trans.
      { apply (IH (sub lay 5) (push_entry F (litem_ast (sp, x))) _ (w0 lay 4) r HF' HPr Hok Hdep' (w0_ws _ _)). }
      done_reach.
Qed.

(* --- dicts --- *)
Definition dent_ast (p : option leaf * sval) : list node :=
  match fst p with
  | Some kl => [NVal (parts_of_leaf None kl); ast_val None (snd p)]
  | None => [ast_val (Some SpStar2) (snd p)]
  end.
Definition dent_ok (p : option leaf * sval) : bool :=
  val_ok (snd p) &&
  match fst p with
  | Some kl => leaf_ok kl && no_args kl
  | None => match snd p with SLeaf l => spreadable l && no_args l | SDict _ => true | SList _ => false end
  end.

Definition fr (F : frame) (ns : list node) (m : option bool) : frame :=
  mkframe (f_ty F) (f_sp F) (f_ents F ++ ns) m.

Ltac frame_eq :=
  repeat match goal with F : frame |- _ => destruct F end;
  unfold fr, push_entry, set_meta, set_sp, add_ents; cbn [f_ty f_sp f_ents f_meta] in *; subst;
  rewrite <- ?app_assoc; cbn [app]; rewrite ?app_nil_r; reflexivity.

Lemma reaches_refl2 key c c' st st' tot : c = c' -> st = st' -> reaches key c st tot c' st' tot.
Proof. intros -> ->. apply reaches_refl. Qed.
Ltac done_reach2 := subst_lets; apply reaches_refl2; [f_equal; norm_rev; reflexivity | f_equal; frame_eq].

Lemma print_dents_cons lay k x r :
  print_dents lay ((k, x) :: r)
  = match k with
    | Some kl => print_leaf (sub lay 6) kl ++ w0 lay 7 ++ 58%N :: w0 lay 8
    | None => 42%N :: 42%N :: (if is_leaf x then w0 lay 0 else [])
    end
    ++ print_val (sub lay 1) x ++ w0 lay 2
    ++ sep_text lay (match r with [] => true | _ => false end) ++ print_dents (sub lay 5) r.
Proof.
  cbn [print_dents]. unfold sep_text. destruct r as [|p r].
  - cbn [print_dents]. rewrite app_nil_r. reflexivity.
  - rewrite <- app_comm_cons. reflexivity.
Qed.

Lemma ast_not_spread x : entry_is_spread (ast_val None x) = false.
Proof. destruct x as [l| |]; try reflexivity. cbn. rewrite p_spread_atom. reflexivity. Qed.
Lemma ast_is_spread x sp : entry_is_spread (ast_val (Some sp) x) = true.
Proof. destruct x as [l| |]; try reflexivity. cbn. rewrite p_spread_atom. reflexivity. Qed.

Lemma validate_dents : forall ents, validate_dict (flat_map dent_ast ents) false = true.
Proof.
  induction ents as [|[k x] ents IH]; [reflexivity|].
  cbn [flat_map]. unfold dent_ast at 1. cbn [fst snd]. destruct k as [kl|].
  - cbn [app validate_dict entry_is_spread parts_of_leaf]. rewrite p_spread_atom. cbn [is_some entry_is_struct andb negb].
    rewrite ast_not_spread. rewrite andb_false_r. exact IH.
  - cbn [app validate_dict]. rewrite ast_is_spread. exact IH.
Qed.

Lemma dict_items_run key below tot : forall ents lay F d w r,
  f_ty F = TDict -> f_meta F = Some true ->
  Forall (fun p => is_leaf (snd p) = false -> Pv (snd p)) ents ->
  forallb dent_ok ents = true ->
  Forall (fun p => length (F :: below) + vdepth (snd p) <= 101) ents ->
  forallb is_ws w = true ->
  exists m,
  reaches key (mkcur d (w ++ print_dents lay ents ++ 125%N :: r)) (F :: below) tot
          (mkcur (rev (w ++ print_dents lay ents) ++ d) (125%N :: r))
          (fr F (flat_map dent_ast ents) (Some m) :: below) tot.
Proof.
  induction ents as [|[k x] rest IH]; intros lay F d w r HF HM HP Hok Hdep Hw.
  - exists true. cbn [print_dents flat_map app]. rewrite app_nil_r.
    eapply reaches_trans; [apply reaches_skip; [exact Hw | reflexivity]|]. done_reach2.
  - inversion HP as [|? ? HPx HPr]; subst. inversion Hdep as [|? ? Hdx Hdr]; subst.
    cbn [forallb] in Hok. apply andb_true_iff in Hok as [Hx Hok]. unfold dent_ok in Hx. cbn [fst snd] in *.
    apply andb_true_iff in Hx as [Hvx Hshape].
    rewrite print_dents_cons.
    set (last := match rest with [] => true | _ => false end).
    set (after := sep_text lay last ++ print_dents (sub lay 5) rest ++ 125%N :: r).
    assert (Hafter : exists y s, after = y :: s /\ (y = 44%N \/ y = 125%N)).
    { subst after. unfold sep_text. destruct last eqn:El.
      - destruct rest; [|discriminate]. cbn [print_dents app]. destruct (opt lay 3); eexists _, _; (split; [reflexivity | auto]).
      - eexists _, _. split; [reflexivity | auto]. }
    destruct Hafter as (ya & sa & Ea & Hya).
    assert (Hend : end_ok CDictVal (w0 lay 2) after = true).
    { rewrite Ea. cbn [end_ok ctx_tcs existsb]. destruct Hya as [->| ->]; reflexivity. }
    assert (Hnowsa : nows after = true) by (rewrite Ea; destruct Hya as [->| ->]; reflexivity).
    assert (Hya' : match after with y :: _ => N.eqb y 44 || N.eqb y 125 | [] => false end = true).
    { rewrite Ea. destruct Hya as [->| ->]; reflexivity. }
    set (ktxt := match k with
                 | Some kl => print_leaf (sub lay 6) kl ++ w0 lay 7 ++ 58%N :: w0 lay 8
                 | None => 42%N :: 42%N :: (if is_leaf x then w0 lay 0 else [])
                 end).
    set (itxt := ktxt ++ print_val (sub lay 1) x ++ w0 lay 2).
    (* 1. the entry, up to `after`; the frame afterwards *)
    assert (Hitem : exists m1,
               reaches key (mkcur d (w ++ itxt ++ after)) (F :: below) tot
                       (mkcur (rev (w ++ itxt) ++ d) after)
                       (fr F (dent_ast (k, x)) (Some m1) :: below) tot
               /\ (last = true -> opt lay 3 = false -> True)).
    { subst itxt ktxt. unfold dent_ast. cbn [fst snd].
      destruct k as [kl|].
      - (* key : value *)
        apply andb_true_iff in Hshape as [Hkl Hkna].
        exists false. split; [|trivial].
        destruct (leaf_lead (sub lay 6) kl Hkl) as (k0 & ks & Ek & Hk0). destruct (lead_facts k0 Hk0) as (K1 & _).
        eapply reaches_trans.
        { apply (reaches_skip key w d _ F below tot Hw). rewrite <- !app_assoc, Ek. cbn [app nows]. rewrite K1. reflexivity. }
        rewrite <- !app_assoc. cbn [app].
        eapply reaches_trans; [apply reaches_step; apply step_leaf_dict_key; auto using w0_ws|].
        eapply reaches_trans.
        { apply reaches_step. apply step_colon; [exact HF | exact HM]. }
        destruct (val_lead (sub lay 1) x Hvx) as (x0 & xs & Ex & Hx0).
        eapply reaches_trans.
        { apply (reaches_skip key (w0 lay 8) _ (print_val (sub lay 1) x ++ w0 lay 2 ++ after) _ below tot (w0_ws _ _)).
          rewrite Ex. eapply nows_of. exact Hx0. }
        set (F2 := set_meta (push_entry F (NVal (parts_of_leaf None kl))) (Some false)).
        destruct x as [l|xitems|xents].
        + cbn [val_ok] in Hvx. cbn [print_val ast_val].
          eapply reaches_trans; [apply reaches_step; apply (step_leaf_dict_val key F2); auto using w0_ws|].
          done_reach2.
        + specialize (HPx eq_refl).
          eapply reaches_trans.
          { apply (HPx (sub lay 1) None [] F2 below tot key).
            - apply op_dictval; [exact HF | reflexivity].
            - cbn [sp_kind]. discriminate.
            - cbn [length] in *. lia. }
          unfold attach. replace (f_ty F2) with TDict by (symmetry; exact HF). cbn [stype_eqb fst snd app].
          eapply reaches_trans.
          { apply (reaches_skip key (w0 lay 2) _ after _ below tot (w0_ws _ _) Hnowsa). }
          done_reach2.
        + specialize (HPx eq_refl).
          eapply reaches_trans.
          { apply (HPx (sub lay 1) None [] F2 below tot key).
            - apply op_dictval; [exact HF | reflexivity].
            - cbn [sp_kind]. discriminate.
            - cbn [length] in *. lia. }
          unfold attach. replace (f_ty F2) with TDict by (symmetry; exact HF). cbn [stype_eqb fst snd app].
          eapply reaches_trans.
          { apply (reaches_skip key (w0 lay 2) _ after _ below tot (w0_ws _ _) Hnowsa). }
          done_reach2.
      - (* ** spread *)
        exists true. split; [|trivial].
        destruct x as [l|xitems|xents]; [| discriminate |].
        + cbn [val_ok] in Hvx. apply andb_true_iff in Hshape as [Hspr Hna]. cbn [is_leaf print_val ast_val].
          eapply reaches_trans.
          { apply (reaches_skip key w d _ F below tot Hw). reflexivity. }
          rewrite <- !app_assoc.
          change ((42%N :: 42%N :: w0 lay 0) ++ print_leaf (sub lay 1) l ++ w0 lay 2 ++ after)
            with ((42%N :: 42%N :: w0 lay 0) ++ print_leaf (sub lay 1) l ++ w0 lay 2 ++ after).
          eapply reaches_trans; [apply reaches_step; apply step_leaf_dict_spread; auto using w0_ws|].
          done_reach2.
        + specialize (HPx eq_refl). cbn [is_leaf].
          eapply reaches_trans.
          { apply (reaches_skip key w d _ F below tot Hw). reflexivity. }
          rewrite <- !app_assoc.
          change ((42%N :: 42%N :: []) ++ print_val (sub lay 1) (SDict xents) ++ w0 lay 2 ++ after)
            with ([42%N; 42%N] ++ print_val (sub lay 1) (SDict xents) ++ w0 lay 2 ++ after).
          eapply reaches_trans.
          { apply (HPx (sub lay 1) (Some SpStar2) [42%N; 42%N] F below tot key).
            - apply op_dictspread; [exact HF | exact HM].
            - cbn [sp_kind]. discriminate.
            - cbn [length] in *. lia. }
          unfold attach. rewrite HF. cbn [stype_eqb fst snd].
          eapply reaches_trans.
          { apply (reaches_skip key (w0 lay 2) _ after _ below tot (w0_ws _ _) Hnowsa). }
          done_reach2. }
    destruct Hitem as (m1 & Hitem & _).
    (* 2. separator and the remaining entries *)
    match goal with |- exists m, reaches _ (mkcur _ ?t) _ _ _ _ _ =>
      replace t with (w ++ itxt ++ after) by (subst itxt after; norm_app; reflexivity) end.
    set (F1 := fr F (dent_ast (k, x)) (Some m1)) in *.
    assert (HF1 : f_ty (set_meta F1 (Some true)) = TDict) by exact HF.
    assert (Hdep' : Forall (fun p => length (set_meta F1 (Some true) :: below) + vdepth (snd p) <= 101) rest) by exact Hdr.
    subst after. unfold sep_text in *.
    destruct last eqn:El.
    + destruct rest as [|? ?]; [|discriminate]. cbn [print_dents app flat_map] in *.
      destruct (opt lay 3).
      * destruct (IH (sub lay 5) (set_meta F1 (Some true)) (44%N :: rev (w ++ itxt) ++ d) (w0 lay 4) r HF1 eq_refl HPr Hok Hdep' (w0_ws _ _))
          as (m & Hm).
        exists m. eapply reaches_trans; [exact Hitem|].
        cbn [app]. eapply reaches_trans; [apply reaches_step; apply step_comma_dict; exact HF|].
        eapply reaches_trans; [exact Hm|]. cbn [print_dents flat_map]. done_reach2.
      * exists m1. eapply reaches_trans; [exact Hitem|]. done_reach2.
    + destruct (IH (sub lay 5) (set_meta F1 (Some true)) (44%N :: rev (w ++ itxt) ++ d) (w0 lay 4) r HF1 eq_refl HPr Hok Hdep' (w0_ws _ _))
        as (m & Hm).
      exists m. eapply reaches_trans; [exact Hitem|].
      cbn [app]. eapply reaches_trans; [apply reaches_step; apply step_comma_dict; exact HF|].
      eapply reaches_trans; [exact Hm|]. cbn [flat_map]. done_reach2.
Qed.

(* --- any literal, any depth --- *)
Lemma fold_max_in {A} (f : A -> nat) (l : list A) a : In a l -> f a <= fold_right (fun p m => Nat.max (f p) m) O l.
Proof. induction l as [|b l IH]; cbn; [tauto|]. intros [->|H]; [lia|]. specialize (IH H). lia. Qed.
Lemma fold_sum_in {A} (f : A -> nat) (l : list A) a : In a l -> f a <= fold_right (fun p m => f p + m) O l.
Proof. induction l as [|b l IH]; cbn; [tauto|]. intros [->|H]; [lia|]. specialize (IH H). lia. Qed.

Theorem Pv_all : forall n v, vsize v <= n -> val_ok v = true -> Pv v.
Proof.
  induction n as [|n IH]; intros v Hn Hok.
  { destruct v; cbn in Hn; lia. }
  destruct v as [l|items|ents]; intros lay sp pre T below tot key d r Hpos Hkind Hdepth.
  - contradiction.
  - (* list *)
    cbn [sp_kind] in Hkind. cbn [vsize] in Hn. cbn [vdepth] in Hdepth. cbn [val_ok] in Hok.
    rewrite print_val_list. cbn [app]. rewrite <- !app_assoc. cbn [app].
    eapply reaches_trans.
    { apply reaches_step. apply (step_open_list key T below tot sp pre d); [exact Hpos | exact Hkind | cbn [length] in *; lia]. }
    set (F0 := mkframe TList sp [] None).
    eapply reaches_trans.
    { apply (list_items_run key (T :: below) tot items (sub lay 1) F0 _ (w0 lay 0) r eq_refl).
      - apply Forall_forall. intros p Hp _. apply IH.
        + pose proof (fold_sum_in (fun p => vsize (snd p)) items p Hp). cbn beta in *. lia.
        + rewrite forallb_forall in Hok. specialize (Hok p Hp). apply andb_true_iff in Hok as [Hv _]. exact Hv.
      - exact Hok.
      - apply Forall_forall. intros p Hp.
        pose proof (fold_max_in (fun p => vdepth (snd p)) items p Hp). cbn beta in *. cbn [length] in *. lia.
      - apply w0_ws. }
    eapply reaches_trans.
    { apply reaches_step. apply step_close_list. reflexivity. }
    subst_lets. apply reaches_refl2; [f_equal; norm_rev; reflexivity|]. reflexivity.
  - (* dict *)
    cbn [sp_kind] in Hkind. cbn [vsize] in Hn. cbn [vdepth] in Hdepth. cbn [val_ok] in Hok.
    rewrite print_val_dict. cbn [app]. rewrite <- !app_assoc. cbn [app].
    eapply reaches_trans.
    { apply reaches_step. apply (step_open_dict key T below tot sp pre d); [exact Hpos | exact Hkind | cbn [length] in *; lia]. }
    set (F0 := mkframe TDict sp [] (Some true)).
    destruct (dict_items_run key (T :: below) tot ents (sub lay 1) F0 (123%N :: rev pre ++ d) (w0 lay 0) r eq_refl eq_refl)
      as (m & Hm).
    { apply Forall_forall. intros p Hp _. apply IH.
      + pose proof (fold_sum_in (fun p => vsize (snd p)) ents p Hp). cbn beta in *. lia.
      + rewrite forallb_forall in Hok. specialize (Hok p Hp). apply andb_true_iff in Hok as [Hv _]. exact Hv. }
    { exact Hok. }
    { apply Forall_forall. intros p Hp.
      pose proof (fold_max_in (fun p => vdepth (snd p)) ents p Hp). cbn beta in *. cbn [length] in *. lia. }
    { apply w0_ws. }
    eapply reaches_trans; [exact Hm|].
    eapply reaches_trans.
    { apply reaches_step. apply (step_close_dict key _ T below tot _ r m); [reflexivity | reflexivity |].
      subst F0. cbn [fr f_ents app]. apply validate_dents. }
    subst_lets. apply reaches_refl2; [f_equal; norm_rev; reflexivity|]. reflexivity.
Qed.

Corollary Pv_ok v : val_ok v = true -> Pv v.
Proof. apply (Pv_all (vsize v)). apply le_n. Qed.

(* ================================================================================================ *)
(* D. one top-level value                                                                            *)
(* ================================================================================================ *)
Definition top_ast (sp : option spread) (v : sval) : node :=
  match v with
  | SLeaf l => NStruct TSimple sp [NVal (parts_of_leaf sp l)] None
  | _ => ast_val sp v
  end.

Lemma root_opos_plain key : opos root_frame None [] key.
Proof. apply op_top. reflexivity. Qed.

Lemma stack_loop_actual key c n c' root' :
  (forall f, stack_loop (n + f) key c [root_frame] None = Ok (c', Some root')) ->
  stack_loop (S (length (rest c))) key c [root_frame] None = Ok (c', Some root').
Proof.
  intro H. specialize (H 0).
  pose proof (stack_loop_spec (S (length (rest c))) key c [root_frame] None) as Hs.
  assert (Hi : st_inv [root_frame] None) by (cbn; apply so_root; reflexivity).
  specialize (Hs Hi (fun _ => Nat.lt_succ_diag_r _)).
  destruct (stack_loop (S (length (rest c))) key c [root_frame] None) as [x|k|] eqn:E; [| |contradiction].
  - eapply (stack_loop_det _ _ _ _ _ _ _ _ E ltac:(discriminate) H ltac:(discriminate)).
  - exfalso. pose proof (stack_loop_det _ _ _ _ _ _ _ _ E ltac:(discriminate) H ltac:(discriminate)). discriminate.
Qed.

(* a literal at the top level *)
Lemma top_container key sp pre lay v d r :
  opos root_frame sp pre key -> sp_kind sp v -> val_ok v = true -> vdepth v <= 100 ->
  stack_loop (S (length (pre ++ print_val lay v ++ r))) key (mkcur d (pre ++ print_val lay v ++ r)) [root_frame] None
  = Ok (mkcur (rev (pre ++ print_val lay v) ++ d) r, Some (push_entry root_frame (ast_val sp v))).
Proof.
  intros Hp Hk Hok Hd.
  destruct (Pv_ok v Hok lay sp pre root_frame [] None key d r Hp Hk ltac:(cbn [length]; lia)) as [n Hn].
  apply (stack_loop_actual key (mkcur d (pre ++ print_val lay v ++ r)) n).
  intro f. rewrite Hn. unfold attach. cbn [root_frame f_ty stype_eqb fst snd]. destruct f; reflexivity.
Qed.

(* a leaf at the top level; it ends at the end of the text or at white space not followed by a filter character *)
Lemma top_leaf key sp pre lay l d w r x0 s0 :
  leaf_ok l = true -> (sp <> None -> spreadable l = true) ->
  vstart (pre ++ print_leaf lay l ++ w ++ r) ->
  pre ++ print_leaf lay l ++ w ++ r = x0 :: s0 -> is_ws x0 = false -> N.eqb x0 124 || N.eqb x0 58 = false ->
  extract_spread TSimple None key (mkcur d (pre ++ print_leaf lay l ++ w ++ r))
    = Ok (sp, mkcur (rev pre ++ d) (print_leaf lay l ++ w ++ r)) ->
  forallb is_ws w = true -> end_ok CTop w r = true ->
  stack_loop (S (length (pre ++ print_leaf lay l ++ w ++ r))) key (mkcur d (pre ++ print_leaf lay l ++ w ++ r)) [root_frame] None
  = Ok (mkcur (rev (pre ++ print_leaf lay l ++ w) ++ d) r,
        Some (push_entry (set_sp root_frame sp) (NVal (parts_of_leaf sp l)))).
Proof.
  intros Hl Hsp Hvs Htxt Hx0 Hf0 Hes Hw He.
  cbn [stack_loop]. rewrite (step_value key d _ root_frame [] None Hvs).
  cbn [root_frame f_ty f_meta f_sp].
  rewrite (parts_loop_actual CTop TSimple None key sp l lay d pre w r None x0 s0 eq_refl Hl
             ltac:(discriminate) ltac:(discriminate) Hsp Htxt Hx0 Hf0 Hes Hw He).
  cbn [stype_eqb]. destruct (length (pre ++ print_leaf lay l ++ w ++ r)); reflexivity.
Qed.

Lemma unwrap_leaf sp l :
  unwrap_total (push_entry (set_sp root_frame sp) (NVal (parts_of_leaf sp l))) = Ok (top_ast sp (SLeaf l)).
Proof. reflexivity. Qed.

Lemma unwrap_container sp v : is_leaf v = false ->
  unwrap_total (push_entry root_frame (ast_val sp v)) = Ok (top_ast sp v).
Proof. destruct v; [discriminate| |]; reflexivity. Qed.

(* one iteration of the attribute loop *)
Lemma attrs_iter f c attrs key c2 c3 root v :
  at_end c = false -> parse_key (skip_ws c) = KKey key c2 ->
  stack_loop (S (length (rest c2))) key c2 [root_frame] None = Ok (c3, Some root) ->
  unwrap_total root = Ok v ->
  attrs_loop (S f) c attrs = attrs_loop f c3 (attrs ++ [mkattr key v (N.of_nat (length (done (skip_ws c))))]).
Proof. intros He Hk Hs Hu. cbn [attrs_loop]. rewrite He, Hk, Hs, Hu. reflexivity. Qed.

Lemma attrs_loop_skip f d w r attrs : forallb is_ws w = true -> nows r = true ->
  attrs_loop (S f) (mkcur d (w ++ r)) attrs = attrs_loop (S f) (mkcur (rev w ++ d) r) attrs.
Proof.
  intros Hw Hr. destruct w as [|y w]; [reflexivity|].
  cbn [attrs_loop]. rewrite (skip_ws_run (y :: w) d r Hw Hr). rewrite (skip_ws_none _ r Hr).
  destruct r as [|x r].
  - unfold at_end. cbn [rest app]. unfold parse_key.
    replace (is_next VALUE_START (mkcur (rev (y :: w) ++ d) [])) with false by reflexivity.
    unfold take_until. cbn [done rest take_until_go]. unfold at_end. cbn [rest]. reflexivity.
  - unfold at_end. cbn [rest app]. reflexivity.
Qed.

Lemma attrs_loop_end f d w attrs : forallb is_ws w = true ->
  attrs_loop (S f) (mkcur d w) attrs = Ok (rev (rev w ++ d), attrs).
Proof.
  intro Hw. rewrite <- (app_nil_r w) at 1. rewrite (attrs_loop_skip f d w [] attrs Hw eq_refl). reflexivity.
Qed.

Lemma attrs_word d w1 txt rst key c2 c3 root node :
  forallb is_ws w1 = true -> nows (txt ++ rst) = true -> txt ++ rst <> [] ->
  parse_key (mkcur (rev w1 ++ d) (txt ++ rst)) = KKey key c2 ->
  stack_loop (S (length (rest c2))) key c2 [root_frame] None = Ok (c3, Some root) ->
  unwrap_total root = Ok node ->
  forall f A, attrs_loop (S f) (mkcur d (w1 ++ txt ++ rst)) A
              = attrs_loop f c3 (A ++ [mkattr key node (N.of_nat (length (rev w1 ++ d)))]).
Proof.
  intros Hw Hn Hne Hk Hs Hu f A.
  assert (Hsk : skip_ws (mkcur d (w1 ++ txt ++ rst)) = mkcur (rev w1 ++ d) (txt ++ rst)) by (apply skip_ws_run; assumption).
  rewrite (attrs_iter f (mkcur d (w1 ++ txt ++ rst)) A key c2 c3 root node).
  - rewrite Hsk. reflexivity.
  - unfold at_end. cbn [rest]. destruct (w1 ++ txt ++ rst) eqn:E; [|reflexivity].
    apply app_eq_nil in E as [_ E]. congruence.
  - rewrite Hsk. exact Hk.
  - exact Hs.
  - exact Hu.
Qed.

(* ================================================================================================ *)
(* E. one argument                                                                                   *)
(* ================================================================================================ *)
Lemma parse_key_pos' d x s :
  is_next VALUE_START (mkcur d (x :: s)) = true \/ no_eq_word (x :: s) ->
  parse_key (mkcur d (x :: s)) = KKey None (mkcur d (x :: s)).
Proof. intros [H|H]; [unfold parse_key; rewrite H; reflexivity | apply parse_key_pos; exact H]. Qed.

Lemma end_ok_top_parts w r : end_ok CTop w r = true ->
  nows r = true /\ match r with [] => true | y :: _ => negb (N.eqb y 124 || N.eqb y 58) end = true
  /\ (w = [] -> r = []).
Proof.
  cbn [end_ok]. intro H. apply andb_true_iff in H as [H H3]. apply andb_true_iff in H as [H1 H2].
  repeat split; auto. intros ->. destruct r; [reflexivity | discriminate].
Qed.

Lemma filters_head : forall fs lay w r, forallb is_ws w = true -> end_ok CTop w r = true ->
  match print_filters lay fs ++ w ++ r with [] => true | y :: _ => stopper y end = true.
Proof.
  intros fs lay w r Hw He. destruct fs as [|f fs].
  - cbn [print_filters app]. destruct w as [|y w].
    + destruct (end_ok_top_parts _ _ He) as (_ & _ & Hr). rewrite (Hr eq_refl). reflexivity.
    + cbn [forallb] in Hw. apply andb_true_iff in Hw as [Hy _]. cbn [app]. unfold stopper. rewrite Hy. reflexivity.
  - cbn [print_filters]. pose proof (w0_ws lay 0) as H0. destruct (w0 lay 0) as [|y w'].
    + reflexivity.
    + cbn [forallb] in H0. apply andb_true_iff in H0 as [Hy _]. cbn [app]. unfold stopper. rewrite Hy. reflexivity.
Qed.

Lemma var_char_not61 t : forallb var_char t = true -> forallb (fun x => negb (N.eqb x 61)) t = true.
Proof.
  intro H. rewrite forallb_forall in *. intros x Hx. specialize (H x Hx). unfold var_char in H.
  apply negb_true_iff in H. apply negb_true_iff. eapply (proj1 (notin_eqb x _ 61%N H _)).
  Unshelve. cbv. tauto.
Qed.

Lemma leaf_word lay l w r d : leaf_ok l = true -> forallb is_ws w = true -> end_ok CTop w r = true ->
  is_next VALUE_START (mkcur d (print_leaf lay l ++ w ++ r)) = true \/ no_eq_word (print_leaf lay l ++ w ++ r).
Proof.
  intros Hl Hw He. unfold leaf_ok in Hl. apply andb_true_iff in Hl as [Hh _]. unfold print_leaf.
  destruct (lf_head l) as [t|q b|q b]; cbn [atom_ok print_atom] in *.
  - right. exists t, (print_filters (sub lay 1) (lf_filters l) ++ w ++ r). split; [rewrite <- app_assoc; reflexivity|].
    destruct (tok_ok_parts t Hh) as (x & t' & -> & _ & Hv). split; [apply var_char_not61; exact Hv|].
    apply filters_head; assumption.
  - left. apply andb_true_iff in Hh as [Hq _]. destruct (quote_cases q Hq) as [->| ->]; reflexivity.
  - apply andb_true_iff in Hh as [Hq _]. pose proof (w0_ws (sub lay 0) 0) as H0.
    destruct (w0 (sub lay 0) 0) as [|y w'] eqn:E0.
    + left. unfold quoted. cbn [app]. destruct (quote_cases q Hq) as [->| ->]; reflexivity.
    + right. exists [95; 40]%N. eexists. split; [cbn [app]; rewrite <- !app_assoc; cbn [app]; reflexivity|].
      split; [reflexivity|]. cbn [forallb] in H0. apply andb_true_iff in H0 as [Hy _]. unfold stopper. rewrite Hy. reflexivity.
Qed.

(* a value at the top level, after an optional `...`: the container-stack loop returns its AST; the attribute
   loop continues right after the value *)
Lemma top_value key sp pre lay v d w r :
  opos root_frame sp pre key -> val_ok v = true -> vdepth v <= 100 ->
  (sp <> None -> match v with SLeaf l => spreadable l = true | _ => True end) ->
  forallb is_ws w = true -> end_ok CTop w r = true ->
  exists c3 root,
    stack_loop (S (length (pre ++ print_val lay v ++ w ++ r))) key (mkcur d (pre ++ print_val lay v ++ w ++ r)) [root_frame] None
      = Ok (c3, Some root)
    /\ unwrap_total root = Ok (top_ast sp v)
    /\ forall f A, attrs_loop (S f) c3 A = attrs_loop (S f) (mkcur (rev (pre ++ print_val lay v) ++ d) (w ++ r)) A.
Proof.
  intros Hp Hok Hd Hspr Hw He.
  destruct (end_ok_top_parts _ _ He) as (Hnr & _ & _).
  assert (Hsp : (sp = None /\ pre = []) \/ (sp = Some SpDots /\ pre = [46; 46; 46]%N /\ key = None)).
  { inversion Hp; subst; try discriminate; auto. }
  destruct v as [l|items|ents].
  - (* leaf *)
    cbn [val_ok print_val] in *. destruct (leaf_lead lay l Hok) as (x & s & E & Hx).
    destruct (lead_facts x Hx) as (F1 & F2 & F3 & F4 & F5 & F6).
    eexists _, _. split; [|split; [apply unwrap_leaf|]].
    + destruct Hsp as [[-> ->]|(-> & -> & ->)].
      * apply (top_leaf key None [] lay l d w r x (s ++ w ++ r)); auto; try congruence.
        -- cbn [app]. rewrite E. cbn [app]. apply vstart_lead. exact F4.
        -- cbn [app]. rewrite E. reflexivity.
        -- cbn [app]. rewrite E. cbn [app rev]. apply es_none. exact F3.
      * apply (top_leaf None (Some SpDots) [46; 46; 46]%N lay l d w r 46%N (46%N :: 46%N :: print_leaf lay l ++ w ++ r)); auto.
        -- rewrite E. cbn [app]. apply vstart_dots. exact F6.
        -- rewrite E. cbn [app rev]. apply es_dots. exact F1.
    + intros f A. rewrite (attrs_loop_skip f (rev (pre ++ print_leaf lay l) ++ d) w r A Hw Hnr).
      f_equal. f_equal. norm_rev. reflexivity.
  - eexists _, _. split; [|split; [apply unwrap_container; reflexivity|]].
    + apply (top_container key sp pre lay (SList items) d (w ++ r)); auto.
      cbn [sp_kind]. destruct Hsp as [[-> _]|(-> & _)]; discriminate.
    + reflexivity.
  - eexists _, _. split; [|split; [apply unwrap_container; reflexivity|]].
    + apply (top_container key sp pre lay (SDict ents) d (w ++ r)); auto.
      cbn [sp_kind]. destruct Hsp as [[-> _]|(-> & _)]; discriminate.
    + reflexivity.
Qed.

Definition tok_leaf (t : str) : leaf := mkleaf (AVar t) [].
Definition item_key (it : item) : option str := match it with IKw k _ => Some k | _ => None end.
Definition item_node (it : item) : node :=
  match it with
  | IPos v => top_ast None v
  | IKw _ v => top_ast None v
  | ISpread v => top_ast (Some SpDots) v
  | IFlag f => top_ast None (SLeaf (tok_leaf f))
  end.

Lemma print_tok_leaf lay t : print_leaf lay (tok_leaf t) = t.
Proof. unfold print_leaf, tok_leaf. cbn. apply app_nil_r. Qed.
Lemma tok_leaf_ok t : tok_ok t = true -> leaf_ok (tok_leaf t) = true.
Proof. intro H. unfold leaf_ok, tok_leaf. cbn. rewrite H. reflexivity. Qed.

(* `pre0` = what parse_key consumes (`key=`), `pre` = the spread operator *)
Lemma word_run key sp pre0 pre lay v d w1 w r :
  parse_key (mkcur (rev w1 ++ d) ((pre0 ++ pre ++ print_val lay v) ++ w ++ r))
    = KKey key (mkcur (rev pre0 ++ rev w1 ++ d) (pre ++ print_val lay v ++ w ++ r)) ->
  nows ((pre0 ++ pre ++ print_val lay v) ++ w ++ r) = true ->
  opos root_frame sp pre key -> val_ok v = true -> vdepth v <= 100 ->
  (sp <> None -> match v with SLeaf l => spreadable l = true | _ => True end) ->
  forallb is_ws w1 = true -> forallb is_ws w = true -> end_ok CTop w r = true ->
  exists st, forall f A,
    attrs_loop (S (S f)) (mkcur d (w1 ++ (pre0 ++ pre ++ print_val lay v) ++ w ++ r)) A
    = attrs_loop (S f) (mkcur (rev (w1 ++ pre0 ++ pre ++ print_val lay v) ++ d) (w ++ r))
                 (A ++ [mkattr key (top_ast sp v) st]).
Proof.
  intros Hk Hn Hp Hok Hd Hspr Hw1 Hw He.
  destruct (top_value key sp pre lay v (rev pre0 ++ rev w1 ++ d) w r Hp Hok Hd Hspr Hw He) as (c3 & root & Hs & Hu & Hc).
  eexists. intros f A.
  rewrite (attrs_word d w1 (pre0 ++ pre ++ print_val lay v) (w ++ r) key
             (mkcur (rev pre0 ++ rev w1 ++ d) (pre ++ print_val lay v ++ w ++ r)) c3 root (top_ast sp v) Hw1 Hn).
  - rewrite Hc. f_equal. f_equal. norm_rev. reflexivity.
  - destruct (val_lead lay v Hok) as (x & s & E & _). rewrite E. destruct pre0, pre; discriminate.
  - exact Hk.
  - exact Hs.
  - exact Hu.
Qed.

Lemma val_word lay v w r d : val_ok v = true -> forallb is_ws w = true -> end_ok CTop w r = true ->
  is_next VALUE_START (mkcur d (print_val lay v ++ w ++ r)) = true \/ no_eq_word (print_val lay v ++ w ++ r).
Proof.
  intros Hok Hw He. destruct v as [l| |].
  - apply leaf_word; assumption.
  - left. reflexivity.
  - left. reflexivity.
Qed.

Lemma key_first_nows k s : key_ok k = true -> nows (k ++ s) = true.
Proof.
  intro H. destruct (key_ok_parts k H) as (x & k' & -> & _ & Hx & _). cbn [app nows]. apply negb_true_iff.
  unfold key_char in Hx. apply negb_true_iff in Hx. unfold is_ws. eapply existsb_incl; [exact Hx | reflexivity].
Qed.

Lemma item_run allowed lay it d w1 w r :
  forallb tok_ok allowed = true -> item_ok allowed it = true ->
  forallb is_ws w1 = true -> forallb is_ws w = true -> end_ok CTop w r = true ->
  exists st, forall f A,
    attrs_loop (S (S f)) (mkcur d (w1 ++ print_item lay it ++ w ++ r)) A
    = attrs_loop (S f) (mkcur (rev (w1 ++ print_item lay it) ++ d) (w ++ r))
                 (A ++ [mkattr (item_key it) (item_node it) st]).
Proof.
  intros Hal Hok Hw1 Hw He.
  assert (Hpos : forall v, val_ok v = true -> vdepth v <= 100 ->
            exists st, forall f A,
              attrs_loop (S (S f)) (mkcur d (w1 ++ print_val lay v ++ w ++ r)) A
              = attrs_loop (S f) (mkcur (rev (w1 ++ print_val lay v) ++ d) (w ++ r)) (A ++ [mkattr None (top_ast None v) st])).
  { intros v Hv Hd.
    destruct (val_lead lay v Hv) as (x & s & E & Hx).
    assert (Hk : parse_key (mkcur (rev w1 ++ d) (([] ++ [] ++ print_val lay v) ++ w ++ r))
                 = KKey None (mkcur (rev [] ++ rev w1 ++ d) ([] ++ print_val lay v ++ w ++ r))).
    { cbn [app rev]. rewrite E. cbn [app]. apply parse_key_pos'.
      change (x :: s ++ w ++ r) with ((x :: s) ++ w ++ r). rewrite <- E. apply val_word; assumption. }
    assert (Hn : nows (([] ++ [] ++ print_val lay v) ++ w ++ r) = true).
    { cbn [app]. rewrite E. cbn [app]. eapply nows_of. exact Hx. }
    destruct (word_run None None [] [] lay v d w1 w r Hk Hn (root_opos_plain None) Hv Hd ltac:(congruence) Hw1 Hw He)
      as (st & Hst).
    exists st. exact Hst. }
  destruct it as [v|k v|v|fl]; cbn [item_ok print_item item_key item_node] in *.
  - apply andb_true_iff in Hok as [Hok _]. apply andb_true_iff in Hok as [Hok _]. apply andb_true_iff in Hok as [Hv Hd].
    apply Nat.leb_le in Hd. apply Hpos; assumption.
  - apply andb_true_iff in Hok as [Hok _]. apply andb_true_iff in Hok as [Hok Hd]. apply andb_true_iff in Hok as [Hk Hv].
    apply Nat.leb_le in Hd.
    assert (Hpk : parse_key (mkcur (rev w1 ++ d) (((k ++ [61%N]) ++ [] ++ print_val lay v) ++ w ++ r))
                 = KKey (Some k) (mkcur (rev (k ++ [61%N]) ++ rev w1 ++ d) ([] ++ print_val lay v ++ w ++ r))).
    { cbn [app]. rewrite <- !app_assoc. cbn [app]. rewrite (parse_key_kw k _ _ Hk). f_equal. f_equal. norm_rev. reflexivity. }
    assert (Hn : nows (((k ++ [61%N]) ++ [] ++ print_val lay v) ++ w ++ r) = true).
    { rewrite <- !app_assoc. apply key_first_nows. exact Hk. }
    destruct (word_run (Some k) None (k ++ [61%N]) [] lay v d w1 w r Hpk Hn (root_opos_plain (Some k)) Hv Hd
                ltac:(congruence) Hw1 Hw He) as (st & Hst).
    exists st. intros f A. specialize (Hst f A). cbn [app] in Hst. rewrite <- !app_assoc in Hst. cbn [app] in Hst.
    rewrite <- !app_assoc. cbn [app]. exact Hst.
  - apply andb_true_iff in Hok as [Hok Hspr]. apply andb_true_iff in Hok as [Hv Hd]. apply Nat.leb_le in Hd.
    assert (Hpk : parse_key (mkcur (rev w1 ++ d) (([] ++ [46; 46; 46]%N ++ print_val lay v) ++ w ++ r))
                 = KKey None (mkcur (rev [] ++ rev w1 ++ d) ([46; 46; 46]%N ++ print_val lay v ++ w ++ r))).
    { cbn [app rev]. apply parse_key_pos'. left. reflexivity. }
    assert (Hn : nows (([] ++ [46; 46; 46]%N ++ print_val lay v) ++ w ++ r) = true) by reflexivity.
    assert (Hs' : Some SpDots <> None -> match v with SLeaf l => spreadable l = true | _ => True end).
    { intros _. destruct v; auto. }
    destruct (word_run None (Some SpDots) [] [46; 46; 46]%N lay v d w1 w r Hpk Hn (op_top_dots root_frame eq_refl) Hv Hd
                Hs' Hw1 Hw He) as (st & Hst).
    exists st. exact Hst.
  - assert (Hf : tok_ok fl = true).
    { unfold str_in in Hok. apply existsb_exists in Hok as [a [Ha E]]. apply str_eqb_eq in E. subst a.
      rewrite forallb_forall in Hal. apply Hal. exact Ha. }
    destruct (Hpos (SLeaf (tok_leaf fl)) (tok_leaf_ok fl Hf) ltac:(cbn; lia)) as (st & Hst).
    exists st. intros f A. specialize (Hst f A). cbn [print_val] in Hst. rewrite print_tok_leaf in Hst. exact Hst.
Qed.

(* ================================================================================================ *)
(* F. the whole argument list                                                                        *)
(* ================================================================================================ *)
Definition follows_ok (rst : str) : Prop :=
  exists w r, rst = w ++ r /\ forallb is_ws w = true /\ end_ok CTop w r = true.

Definition kv (a : attr) : option str * node := (a_key a, a_value a).
Definition item_kv (it : item) : option str * node := (item_key it, item_node it).
Definition tok_node (t : str) : node := top_ast None (SLeaf (tok_leaf t)).

Lemma tok_first t : tok_ok t = true ->
  exists x s, t = x :: s /\ is_ws x = false /\ N.eqb x 124 || N.eqb x 58 = false.
Proof.
  intro H. destruct (tok_ok_parts t H) as (x & s & -> & Hx & _). exists x, s. split; [reflexivity|].
  split.
  - unfold is_ws. eapply existsb_incl; [exact Hx | reflexivity].
  - assert (E : existsb (N.eqb x) [124; 58]%N = false) by (eapply existsb_incl; [exact Hx | reflexivity]).
    cbn [existsb] in E. rewrite orb_false_r in E. exact E.
Qed.

Lemma item_first allowed lay it : forallb tok_ok allowed = true -> item_ok allowed it = true ->
  exists x s, print_item lay it = x :: s /\ is_ws x = false /\ N.eqb x 124 || N.eqb x 58 = false.
Proof.
  intros Hal Hok. destruct it as [v|k v|v|fl]; cbn [item_ok print_item] in *.
  - apply andb_true_iff in Hok as [Hok _]. apply andb_true_iff in Hok as [Hok _]. apply andb_true_iff in Hok as [Hv _].
    destruct (val_lead lay v Hv) as (x & s & E & Hx). exists x, s. split; [exact E|]. split.
    + unfold is_ws. eapply existsb_incl; [exact Hx | reflexivity].
    + assert (E' : existsb (N.eqb x) [124; 58]%N = false) by (eapply existsb_incl; [exact Hx | reflexivity]).
      cbn [existsb] in E'. rewrite orb_false_r in E'. exact E'.
  - apply andb_true_iff in Hok as [Hok _]. apply andb_true_iff in Hok as [Hok _]. apply andb_true_iff in Hok as [Hk _].
    destruct (key_ok_parts k Hk) as (x & k' & -> & H58 & Hx & _). eexists x, _. split; [reflexivity|].
    unfold key_char in Hx. apply negb_true_iff in Hx. split.
    + unfold is_ws. eapply existsb_incl; [exact Hx | reflexivity].
    + assert (E' : existsb (N.eqb x) [124]%N = false) by (eapply existsb_incl; [exact Hx | reflexivity]).
      cbn [existsb] in E'. rewrite orb_false_r in E'. rewrite E'. apply N.eqb_neq. exact H58.
  - eexists _, _. split; [reflexivity|]. split; reflexivity.
  - assert (Hf : tok_ok fl = true).
    { unfold str_in in Hok. apply existsb_exists in Hok as [a [Ha E]]. apply str_eqb_eq in E. subst a.
      rewrite forallb_forall in Hal. apply Hal. exact Ha. }
    apply tok_first. exact Hf.
Qed.

Lemma follows_cons w1 x s : forallb is_ws w1 = true -> w1 <> [] -> is_ws x = false -> N.eqb x 124 || N.eqb x 58 = false ->
  follows_ok (w1 ++ x :: s).
Proof.
  intros Hw Hne Hx Hf. exists w1, (x :: s). split; [reflexivity|]. split; [exact Hw|].
  cbn [end_ok nows]. rewrite Hx, Hf. destruct w1; [congruence | reflexivity].
Qed.

Lemma w1_nonempty lay i : w1 lay i <> [].
Proof. destruct (w1_cons lay i) as (y & w & E & _). rewrite E. discriminate. Qed.

Lemma items_run allowed : forall items lay d rst,
  forallb tok_ok allowed = true -> forallb (item_ok allowed) items = true -> follows_ok rst ->
  exists attrs', map kv attrs' = map item_kv items /\
    forall f A, attrs_loop (S (length items + f)) (mkcur d (print_items lay items ++ rst)) A
                = attrs_loop (S f) (mkcur (rev (print_items lay items) ++ d) rst) (A ++ attrs').
Proof.
  induction items as [|it items IH]; intros lay d rst Hal Hok Hfo.
  - exists []. split; [reflexivity|]. intros f A. cbn [print_items app rev length plus]. rewrite app_nil_r. reflexivity.
  - cbn [forallb] in Hok. apply andb_true_iff in Hok as [Hit Hok].
    cbn [print_items]. 
    (* what follows this argument *)
    assert (Hnext : follows_ok (print_items (sub lay 2) items ++ rst)).
    { destruct items as [|it' items']; [exact Hfo|]. cbn [forallb] in Hok. apply andb_true_iff in Hok as [Hit' _].
      destruct (item_first allowed (sub (sub lay 2) 1) it' Hal Hit') as (x & s & E & Hx & Hf).
      cbn [print_items]. rewrite E. rewrite <- !app_assoc. cbn [app].
      apply follows_cons; [apply w1_ws | apply w1_nonempty | exact Hx | exact Hf]. }
    destruct Hnext as (w & r & Erst & Hw & He).
    destruct (item_run allowed (sub lay 1) it d (w1 lay 0) w r Hal Hit (w1_ws _ _) Hw He) as (st & Hst).
    destruct (IH (sub lay 2) (rev (w1 lay 0 ++ print_item (sub lay 1) it) ++ d) rst Hal Hok Hfo) as (attrs' & Hkv & Hrun).
    exists (mkattr (item_key it) (item_node it) st :: attrs'). split; [cbn [map]; rewrite Hkv; reflexivity|].
    intros f A. cbn [length plus].
    replace ((w1 lay 0 ++ print_item (sub lay 1) it ++ print_items (sub lay 2) items) ++ rst)
      with (w1 lay 0 ++ print_item (sub lay 1) it ++ w ++ r) by (rewrite <- Erst, <- !app_assoc; reflexivity).
    rewrite Hst. rewrite <- Erst. rewrite Hrun. rewrite <- app_assoc. cbn [app].
    f_equal. f_equal. norm_rev. reflexivity.
Qed.

(* the slash is one more word; it is let through the flag test of item_ok by adding it to the flag names *)
Lemma item_ok_slash allowed it : item_ok allowed it = true -> item_ok ([47%N] :: allowed) it = true.
Proof.
  destruct it as [v|k v|v|fl]; cbn [item_ok]; intro H; try exact H.
  - apply andb_true_iff in H as [H H4]. apply andb_true_iff in H as [H H3]. rewrite H, H3. cbn [andb].
    destruct v as [l| |]; try reflexivity. cbn [not_slash] in H3. unfold str_in in *. cbn [existsb].
    rewrite negb_orb. rewrite H3. exact H4.
  - unfold str_in in *. cbn [existsb]. rewrite H. apply orb_true_r.
Qed.

Lemma follows_items allowed : forall items lay rst, forallb tok_ok allowed = true ->
  forallb (item_ok allowed) items = true -> follows_ok rst -> follows_ok (print_items lay items ++ rst).
Proof.
  intros items lay rst Hal Hok Hfo. destruct items as [|it items]; [exact Hfo|].
  cbn [forallb] in Hok. apply andb_true_iff in Hok as [Hit _].
  destruct (item_first allowed (sub lay 1) it Hal Hit) as (x & s & E & Hx & Hf).
  cbn [print_items]. rewrite E. rewrite <- !app_assoc. cbn [app].
  apply follows_cons; [apply w1_ws | apply w1_nonempty | exact Hx | exact Hf].
Qed.

Lemma follows_trailing lay i : follows_ok (w0 lay i).
Proof.
  exists (w0 lay i), []. split; [rewrite app_nil_r; reflexivity|]. split; [apply w0_ws|].
  cbn [end_ok nows]. destruct (w0 lay i); reflexivity.
Qed.

(* the text of a whole tag *)
Theorem parse_tag_print allowed lay tag a : arglist_ok tag allowed a = true ->
  exists attrs, parse_tag (print lay tag a) = Ok (print lay tag a, attrs) /\
    map kv attrs = (None, tok_node tag) :: map item_kv (items_with_slash a).
Proof.
  intro Hok. unfold arglist_ok in Hok.
  apply andb_true_iff in Hok as [Hok _]. apply andb_true_iff in Hok as [Hok Hitems].
  apply andb_true_iff in Hok as [Hok _]. apply andb_true_iff in Hok as [Htag Hal].
  set (allowed' := [47%N] :: allowed).
  assert (Hal' : forallb tok_ok allowed' = true) by (subst allowed'; cbn [forallb]; rewrite Hal; reflexivity).
  assert (Hits : forallb (item_ok allowed') (items_with_slash a) = true).
  { unfold items_with_slash. rewrite forallb_app. apply andb_true_iff. split.
    - rewrite forallb_forall in *. intros it Hit. apply item_ok_slash. apply Hitems. exact Hit.
    - destruct (al_slash a); reflexivity. }
  set (its := items_with_slash a) in *.
  pose proof (follows_items allowed' its (sub lay 0) (w0 lay 2) Hal' Hits (follows_trailing lay 2)) as Hfo.
  destruct Hfo as (w & r & Erst & Hw & He).
  (* 1. the tag name *)
  destruct (item_run [tag] lay (IFlag tag) [] [] w r) as (st & Htagrun); auto.
  { cbn [forallb]. rewrite Htag. reflexivity. }
  { cbn [item_ok]. unfold str_in. cbn [existsb]. rewrite str_eqb_refl. reflexivity. }
  (* 2. the arguments and the slash *)
  destruct (items_run allowed' its (sub lay 0) (rev tag) (w0 lay 2) Hal' Hits (follows_trailing lay 2)) as (attrs' & Hkv & Hrun).
  (* 3. put together, with more fuel than needed *)
  assert (Hbig : attrs_loop (S (S (length its + 0))) (mkcur [] (print lay tag a)) []
                 = Ok (rev (rev (w0 lay 2) ++ rev (print_items (sub lay 0) its) ++ rev tag),
                       [mkattr None (tok_node tag) st] ++ attrs')).
  { unfold print. fold its. rewrite Erst.
    specialize (Htagrun (length its + 0) []). cbn [print_item app rev] in Htagrun. rewrite !app_nil_r in Htagrun.
    rewrite Htagrun. rewrite <- Erst. rewrite Hrun. rewrite attrs_loop_end by apply w0_ws. reflexivity. }
  pose proof (parse_tag_spec (print lay tag a)) as Hspec. unfold parse_tag in *.
  destruct (attrs_loop (S (length (print lay tag a))) (mkcur [] (print lay tag a)) []) as [[n attrs]|k|] eqn:E; [| |contradiction].
  - pose proof (attrs_loop_det _ _ _ _ _ _ E ltac:(discriminate) Hbig ltac:(discriminate)) as Hd.
    injection Hd as _ Ha. exists attrs. split; [rewrite Hspec; reflexivity|].
    rewrite Ha. cbn [map app kv a_key a_value]. rewrite Hkv. reflexivity.
  - exfalso. pose proof (attrs_loop_det _ _ _ _ _ _ E ltac:(discriminate) Hbig ltac:(discriminate)). discriminate.
Qed.
