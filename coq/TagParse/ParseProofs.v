(* Property C02: parse_tag on a printed argument list builds exactly the AST of the argument list, whatever the
   layout.  Container stack first (lists / dicts to any depth), then the attribute loop. *)
From DJC Require Import Lib.Base TagParse.Model TagParse.Proofs TagParse.Resolve TagParse.Spec TagParse.ScanLemmas.

(* ================================================================================================ *)
(* A. runs of the container-stack loop                                                               *)
(* ================================================================================================ *)
Definition reaches (key : option str) (c : cur) (st : list frame) (tot : option frame)
           (c' : cur) (st' : list frame) (tot' : option frame) : Prop :=
  exists n, forall f, stack_loop (n + f) key c st tot = stack_loop f key c' st' tot'.

Lemma reaches_refl key c st tot : reaches key c st tot c st tot.
Proof. exists 0. reflexivity. Qed.

Lemma reaches_refl' key c c' st tot : c = c' -> reaches key c st tot c' st tot.
Proof. intros ->. apply reaches_refl. Qed.
Ltac subst_lets := repeat match goal with x := _ |- _ => subst x end.
Ltac done_reach := subst_lets; apply reaches_refl'; f_equal; norm_rev; reflexivity.

Lemma reaches_trans key c1 s1 t1 c2 s2 t2 c3 s3 t3 :
  reaches key c1 s1 t1 c2 s2 t2 -> reaches key c2 s2 t2 c3 s3 t3 -> reaches key c1 s1 t1 c3 s3 t3.
Proof.
  intros [n Hn] [m Hm]. exists (n + m). intro f. rewrite <- Nat.add_assoc, Hn, Hm. reflexivity.
Qed.

Lemma reaches_step key c top below tot c' st' tot' :
  stack_step key c top below tot = SCont c' st' tot' -> reaches key c (top :: below) tot c' st' tot'.
Proof. intro H. exists 1. intro f. cbn [plus stack_loop]. rewrite H. reflexivity. Qed.

Lemma stack_step_skip key c top below tot : stack_step key (skip_ws c) top below tot = stack_step key c top below tot.
Proof. unfold stack_step. rewrite skip_ws_idem. reflexivity. Qed.

Lemma reaches_skip key w d r top below tot : forallb is_ws w = true -> nows r = true ->
  reaches key (mkcur d (w ++ r)) (top :: below) tot (mkcur (rev w ++ d) r) (top :: below) tot.
Proof.
  intros Hw Hr. exists 0. intro f. cbn [plus]. destruct f as [|f]; [reflexivity|]. cbn [stack_loop].
  rewrite <- (stack_step_skip key (mkcur d (w ++ r))). rewrite (skip_ws_run w d r Hw Hr). reflexivity.
Qed.

(* where a finished value goes: into the frame below; a finished top-level value ends the loop *)
Definition attach (T : frame) (below : list frame) (tot : option frame) (n : node) : list frame * option frame :=
  if stype_eqb (f_ty T) TSimple then (below, Some (push_entry T n)) else (push_entry T n :: below, tot).

Lemma pop_closed_attach c F T below tot :
  pop_closed c F (T :: below) tot
  = SCont c (fst (attach T below tot (node_of_frame F))) (snd (attach T below tot (node_of_frame F))).
Proof. unfold pop_closed, attach. cbn [push_entry f_ty]. destruct (stype_eqb (f_ty T) TSimple); reflexivity. Qed.

(* ================================================================================================ *)
(* B. single steps                                                                                   *)
(* ================================================================================================ *)
(* the text at the cursor starts a plain value: none of the structural branches of stack_step applies *)
Definition vstart (s : str) : Prop :=
  nows s = true /\ s <> [] /\
  forall d, is_next OPEN_LIST (mkcur d s) = false /\ is_next [[93%N]] (mkcur d s) = false
            /\ is_next OPEN_DICT (mkcur d s) = false /\ is_next [[125%N]] (mkcur d s) = false
            /\ is_next [[44%N]] (mkcur d s) = false /\ is_next [[58%N]] (mkcur d s) = false.

Definition LEADX : list N := (46 :: WSCH ++ [124; 58; 44; 93; 125; 91; 123; 61; 42; 40; 41; 47])%N.

Lemma vstart_lead x s : existsb (N.eqb x) (WSCH ++ [124; 58; 44; 93; 125; 91; 123; 42; 46]%N) = false -> vstart (x :: s).
Proof.
  intro Hx. split; [|split; [discriminate|]].
  - cbn [nows]. apply negb_true_iff. unfold is_ws. eapply existsb_incl; [exact Hx | reflexivity].
  - intro d. repeat split; (eapply is_next_false_by_head; [exact Hx | reflexivity]).
Qed.

Lemma vstart_star y s : existsb (N.eqb y) [91; 123; 42]%N = false -> vstart (42%N :: y :: s).
Proof.
  intro Hy. split; [reflexivity|]. split; [discriminate|]. intro d.
  assert (H91 : N.eqb 91 y = false) by (eapply head_neq; [exact Hy | reflexivity]).
  assert (H123 : N.eqb 123 y = false) by (eapply head_neq; [exact Hy | reflexivity]).
  assert (H42 : N.eqb 42 y = false) by (eapply head_neq; [exact Hy | reflexivity]).
  unfold is_next, OPEN_LIST, OPEN_DICT. cbn [rest existsb starts_with]. rewrite H91, H123, H42. cbn. tauto.
Qed.

Lemma vstart_star2 y s : existsb (N.eqb y) [91; 123]%N = false -> vstart (42%N :: 42%N :: y :: s).
Proof.
  intro Hy. split; [reflexivity|]. split; [discriminate|]. intro d.
  assert (H91 : N.eqb 91 y = false) by (eapply head_neq; [exact Hy | reflexivity]).
  assert (H123 : N.eqb 123 y = false) by (eapply head_neq; [exact Hy | reflexivity]).
  unfold is_next, OPEN_LIST, OPEN_DICT. cbn [rest existsb starts_with]. rewrite H91, H123. cbn. tauto.
Qed.

Lemma vstart_dots y s : existsb (N.eqb y) [91; 123]%N = false -> vstart (46%N :: 46%N :: 46%N :: y :: s).
Proof.
  intro Hy. split; [reflexivity|]. split; [discriminate|]. intro d.
  assert (H91 : N.eqb 91 y = false) by (eapply head_neq; [exact Hy | reflexivity]).
  assert (H123 : N.eqb 123 y = false) by (eapply head_neq; [exact Hy | reflexivity]).
  unfold is_next, OPEN_LIST, OPEN_DICT. cbn [rest existsb starts_with]. rewrite H91, H123. cbn. tauto.
Qed.

(* stack_step on a plain value = the filter-parts loop + bookkeeping *)
Lemma step_value key d s T below tot : vstart s ->
  stack_step key (mkcur d s) T below tot =
  match parts_loop (S (S (length s))) (f_ty T) (f_meta T) key (mkcur d s) [] true (f_sp T) with
  | Err k => SErr k
  | OutOfFuel => SFuel
  | Ok (parts, c1, rsp) =>
    let top1 := push_entry (set_sp T rsp) (NVal parts) in
    match f_ty T with
    | TSimple => SCont c1 below (Some top1)
    | TList => SCont c1 (top1 :: below) tot
    | TDict =>
      match parts with
      | [] => SErr IndexError
      | p0 :: _ =>
        match f_meta T with
        | None => SErr KeyError
        | Some ek =>
          if is_some (p_spread p0) then
            if negb ek then SErr TemplateSyntaxError
            else let c2 := skip_ws c1 in
                 if is_next [[58%N]] c2 then SErr TemplateSyntaxError else SCont c2 (top1 :: below) tot
          else
            if ek then
              let c2 := skip_ws c1 in
              if negb (is_next [[58%N]] c2) then SErr TemplateSyntaxError else SCont c2 (top1 :: below) tot
            else SCont c1 (top1 :: below) tot
        end
      end
    end
  end.
Proof.
  intros (Hn & Hne & Hv). unfold stack_step. rewrite (skip_ws_none d s Hn).
  destruct (Hv d) as (H1 & H2 & H3 & H4 & H5 & H6). rewrite H1, H2, H3, H4, H5, H6.
  unfold at_end. cbn [rest]. destruct s as [|x s]; [congruence|]. rewrite andb_false_r. reflexivity.
Qed.

(* the parts loop with the fuel stack_step hands it *)
Lemma parts_loop_actual cx ty meta key sp l lay d pre w r rsp x0 s0 :
  ctx_match cx ty meta -> leaf_ok l = true ->
  (colon_ctx cx = true -> no_args l = true) ->
  (cx = CDictVal -> sp = None) -> (sp <> None -> spreadable l = true) ->
  pre ++ print_leaf lay l ++ w ++ r = x0 :: s0 -> is_ws x0 = false -> N.eqb x0 124 || N.eqb x0 58 = false ->
  extract_spread ty None key (mkcur d (pre ++ print_leaf lay l ++ w ++ r))
    = Ok (sp, mkcur (rev pre ++ d) (print_leaf lay l ++ w ++ r)) ->
  forallb is_ws w = true -> end_ok cx w r = true ->
  parts_loop (S (S (length (pre ++ print_leaf lay l ++ w ++ r)))) ty meta key
             (mkcur d (pre ++ print_leaf lay l ++ w ++ r)) [] true rsp
  = Ok (parts_of_leaf sp l, mkcur (rev (pre ++ print_leaf lay l ++ w) ++ d) r,
        if stype_eqb ty TSimple then sp else rsp).
Proof.
  intros Hcx Hl Hcol Hdv Hsp Htxt Hx0 Hf0 Hes Hw He.
  set (txt := pre ++ print_leaf lay l ++ w ++ r) in *.
  pose proof (parts_loop_leaf cx ty meta key sp l lay d pre w r (2 * length (lf_filters l) + 2) rsp x0 s0
                Hcx Hl Hcol Hdv Hsp Htxt Hx0 Hf0 Hes Hw He ltac:(lia)) as Hbig.
  fold txt in Hbig.
  pose proof (parts_loop_spec (S (S (length txt))) ty meta key (mkcur d txt) [] true rsp) as Hspec.
  assert (Hm : ty = TDict -> meta <> None).
  { intro E. destruct cx; cbn [ctx_match] in Hcx; try congruence; destruct Hcx as [_ ->]; discriminate. }
  specialize (Hspec Hm ltac:(discriminate) ltac:(unfold len; cbn [rest]; lia)).
  destruct (parts_loop (S (S (length txt))) ty meta key (mkcur d txt) [] true rsp) as [x|k|] eqn:E; [| |contradiction].
  - eapply (parts_loop_det _ _ _ _ _ _ _ _ _ _ _ E ltac:(discriminate) Hbig ltac:(discriminate)).
  - exfalso. pose proof (parts_loop_det _ _ _ _ _ _ _ _ _ _ _ E ltac:(discriminate) Hbig ltac:(discriminate)). discriminate.
Qed.

Lemma leaf_lead lay l : leaf_ok l = true ->
  exists x s, print_leaf lay l = x :: s /\ existsb (N.eqb x) LEADX = false.
Proof.
  unfold leaf_ok. intro H. apply andb_true_iff in H as [Hh _].
  destruct (atom_lead (sub lay 0) (lf_head l) Hh) as (x & s & E & Hx).
  exists x, (s ++ print_filters (sub lay 1) (lf_filters l)). split; [|exact Hx].
  unfold print_leaf. rewrite E. reflexivity.
Qed.

Lemma lead_facts x : existsb (N.eqb x) LEADX = false ->
  is_ws x = false /\ N.eqb x 124 || N.eqb x 58 = false /\ existsb (N.eqb x) [42; 46]%N = false
  /\ existsb (N.eqb x) (WSCH ++ [124; 58; 44; 93; 125; 91; 123; 42; 46]%N) = false
  /\ existsb (N.eqb x) [91; 123; 42]%N = false /\ existsb (N.eqb x) [91; 123]%N = false.
Proof.
  intro H.
  assert (E : existsb (N.eqb x) [124; 58]%N = false) by (eapply existsb_incl; [exact H | reflexivity]).
  cbn [existsb] in E. rewrite orb_false_r in E.
  split; [unfold is_ws; eapply existsb_incl; [exact H | reflexivity]|].
  split; [exact E|].
  repeat split; (eapply existsb_incl; [exact H | reflexivity]).
Qed.

Lemma p_spread_atom a sp f : p_spread (part_of_atom a sp f) = sp.
Proof. destruct a; reflexivity. Qed.

Lemma set_sp_same T : set_sp T (f_sp T) = T.
Proof. destruct T; reflexivity. Qed.

(* a leaf inside a list or dict: one step of the stack loop *)
Lemma step_leaf_gen cx key T below tot lay l d sp pre w r x0 s0 :
  cx <> CTop -> ctx_match cx (f_ty T) (f_meta T) -> leaf_ok l = true ->
  (colon_ctx cx = true -> no_args l = true) ->
  (cx = CDictVal -> sp = None) -> (sp <> None -> spreadable l = true) ->
  vstart (pre ++ print_leaf lay l ++ w ++ r) ->
  pre ++ print_leaf lay l ++ w ++ r = x0 :: s0 -> is_ws x0 = false -> N.eqb x0 124 || N.eqb x0 58 = false ->
  extract_spread (f_ty T) None key (mkcur d (pre ++ print_leaf lay l ++ w ++ r))
    = Ok (sp, mkcur (rev pre ++ d) (print_leaf lay l ++ w ++ r)) ->
  forallb is_ws w = true -> end_ok cx w r = true ->
  (cx = CDictKey -> match r with y :: _ => N.eqb y 58 = negb (is_some sp) | [] => False end) ->
  stack_step key (mkcur d (pre ++ print_leaf lay l ++ w ++ r)) T below tot
  = SCont (mkcur (rev (pre ++ print_leaf lay l ++ w) ++ d) r)
          (push_entry T (NVal (parts_of_leaf sp l)) :: below) tot.
Proof.
  intros Hnt Hcx Hl Hcol Hdv Hsp Hvs Htxt Hx0 Hf0 Hes Hw He Hkey.
  rewrite (step_value key d _ T below tot Hvs).
  rewrite (parts_loop_actual cx (f_ty T) (f_meta T) key sp l lay d pre w r (f_sp T) x0 s0
             Hcx Hl Hcol Hdv Hsp Htxt Hx0 Hf0 Hes Hw He).
  cbn beta iota zeta.
  pose proof (end_ok_nows _ _ _ He) as Hnr.
  destruct cx; [congruence| | |]; cbn [ctx_match] in Hcx.
  - rewrite Hcx. cbn [stype_eqb]. rewrite set_sp_same. reflexivity.
  - destruct Hcx as [Ety Em]. rewrite Ety, Em. cbn [stype_eqb]. rewrite set_sp_same.
    unfold parts_of_leaf. rewrite p_spread_atom. specialize (Hkey eq_refl).
    destruct r as [|y r]; [contradiction|].
    rewrite (skip_ws_none _ (y :: r) Hnr). unfold is_next. cbn [rest existsb starts_with negb].
    rewrite N.eqb_sym, Hkey. destruct (is_some sp); reflexivity.
  - destruct Hcx as [Ety Em]. rewrite Ety, Em. cbn [stype_eqb]. rewrite set_sp_same.
    rewrite (Hdv eq_refl). unfold parts_of_leaf. rewrite p_spread_atom. reflexivity.
Qed.

Lemma ws_not_in (y : N) l : is_ws y = true -> forallb (fun c => negb (is_ws c)) l = true -> existsb (N.eqb y) l = false.
Proof.
  intros Hy Hl. destruct (existsb (N.eqb y) l) eqn:E; [|reflexivity].
  apply existsb_exists in E as [c [Hc E]]. apply N.eqb_eq in E. subst c.
  rewrite forallb_forall in Hl. specialize (Hl y Hc). rewrite Hy in Hl. discriminate.
Qed.

Lemma head_ws_or (l : list N) ws x s :
  forallb is_ws ws = true -> existsb (N.eqb x) l = false -> forallb (fun c => negb (is_ws c)) l = true ->
  exists y s', ws ++ x :: s = y :: s' /\ existsb (N.eqb y) l = false.
Proof.
  intros Hws Hx Hl. destruct ws as [|y ws]; [exists x, s; auto|].
  cbn [forallb] in Hws. apply andb_true_iff in Hws as [Hy _]. exists y, (ws ++ x :: s). split; [reflexivity|].
  apply ws_not_in; assumption.
Qed.

Lemma step_leaf_list key T below tot lay l d w r :
  f_ty T = TList -> leaf_ok l = true -> forallb is_ws w = true -> end_ok CList w r = true ->
  stack_step key (mkcur d (print_leaf lay l ++ w ++ r)) T below tot
  = SCont (mkcur (rev (print_leaf lay l ++ w) ++ d) r) (push_entry T (NVal (parts_of_leaf None l)) :: below) tot.
Proof.
  intros HT Hl Hw He. destruct (leaf_lead lay l Hl) as (x & s & E & Hx).
  destruct (lead_facts x Hx) as (F1 & F2 & F3 & F4 & _).
  apply (step_leaf_gen CList key T below tot lay l d None [] w r x (s ++ w ++ r)); auto; try discriminate; try congruence.
  - cbn [app]. rewrite E. cbn [app]. apply vstart_lead. exact F4.
  - cbn [app]. rewrite E. reflexivity.
  - cbn [app]. rewrite E. cbn [app rev]. apply es_none. exact F3.
Qed.

Lemma step_leaf_list_star key T below tot lay l d ws w r :
  f_ty T = TList -> leaf_ok l = true -> spreadable l = true -> forallb is_ws ws = true ->
  forallb is_ws w = true -> end_ok CList w r = true ->
  stack_step key (mkcur d ((42%N :: ws) ++ print_leaf lay l ++ w ++ r)) T below tot
  = SCont (mkcur (rev ((42%N :: ws) ++ print_leaf lay l ++ w) ++ d) r)
          (push_entry T (NVal (parts_of_leaf (Some SpStar) l)) :: below) tot.
Proof.
  intros HT Hl Hspr Hws Hw He. destruct (leaf_lead lay l Hl) as (x & s & E & Hx).
  destruct (lead_facts x Hx) as (F1 & F2 & F3 & F4 & F5 & F6).
  apply (step_leaf_gen CList key T below tot lay l d (Some SpStar) (42%N :: ws) w r 42%N (ws ++ print_leaf lay l ++ w ++ r));
    auto; try discriminate; try congruence.
  - rewrite E. cbn [app]. destruct (head_ws_or [91; 123; 42]%N ws x (s ++ w ++ r) Hws F5 eq_refl) as (y & s' & Ey & Hy).
    rewrite Ey. apply vstart_star. exact Hy.
  - rewrite HT. cbn [app]. rewrite E. cbn [rev]. rewrite <- app_assoc. cbn [app].
    apply es_star; [exact Hws | cbn [app nows]; rewrite F1; reflexivity |].
    cbn [app]. apply negb_true_iff. cbn [existsb] in F3. apply orb_false_iff in F3 as [F3 _]. exact F3.
Qed.

Lemma step_leaf_dict_val key T below tot lay l d w r :
  f_ty T = TDict -> f_meta T = Some false -> leaf_ok l = true -> forallb is_ws w = true -> end_ok CDictVal w r = true ->
  stack_step key (mkcur d (print_leaf lay l ++ w ++ r)) T below tot
  = SCont (mkcur (rev (print_leaf lay l ++ w) ++ d) r) (push_entry T (NVal (parts_of_leaf None l)) :: below) tot.
Proof.
  intros HT Hm Hl Hw He. destruct (leaf_lead lay l Hl) as (x & s & E & Hx).
  destruct (lead_facts x Hx) as (F1 & F2 & F3 & F4 & _).
  apply (step_leaf_gen CDictVal key T below tot lay l d None [] w r x (s ++ w ++ r)); auto; try discriminate; try congruence.
  - cbn [ctx_match]. auto.
  - cbn [app]. rewrite E. cbn [app]. apply vstart_lead. exact F4.
  - cbn [app]. rewrite E. reflexivity.
  - cbn [app]. rewrite E. cbn [app rev]. apply es_none. exact F3.
Qed.

Lemma step_leaf_dict_key key T below tot lay l d w r :
  f_ty T = TDict -> f_meta T = Some true -> leaf_ok l = true -> no_args l = true -> forallb is_ws w = true ->
  stack_step key (mkcur d (print_leaf lay l ++ w ++ 58%N :: r)) T below tot
  = SCont (mkcur (rev (print_leaf lay l ++ w) ++ d) (58%N :: r)) (push_entry T (NVal (parts_of_leaf None l)) :: below) tot.
Proof.
  intros HT Hm Hl Hna Hw. destruct (leaf_lead lay l Hl) as (x & s & E & Hx).
  destruct (lead_facts x Hx) as (F1 & F2 & F3 & F4 & _).
  apply (step_leaf_gen CDictKey key T below tot lay l d None [] w (58%N :: r) x (s ++ w ++ 58%N :: r));
    auto; try discriminate; try congruence.
  - cbn [ctx_match]. auto.
  - cbn [app]. rewrite E. cbn [app]. apply vstart_lead. exact F4.
  - cbn [app]. rewrite E. reflexivity.
  - cbn [app]. rewrite E. cbn [app rev]. apply es_none. exact F3.
Qed.

Lemma step_leaf_dict_spread key T below tot lay l d ws w r :
  f_ty T = TDict -> f_meta T = Some true -> leaf_ok l = true -> no_args l = true -> spreadable l = true ->
  forallb is_ws ws = true -> forallb is_ws w = true ->
  match r with y :: _ => N.eqb y 44 || N.eqb y 125 | [] => false end = true ->
  stack_step key (mkcur d ((42%N :: 42%N :: ws) ++ print_leaf lay l ++ w ++ r)) T below tot
  = SCont (mkcur (rev ((42%N :: 42%N :: ws) ++ print_leaf lay l ++ w) ++ d) r)
          (push_entry T (NVal (parts_of_leaf (Some SpStar2) l)) :: below) tot.
Proof.
  intros HT Hm Hl Hna Hspr Hws Hw Hr. destruct (leaf_lead lay l Hl) as (x & s & E & Hx).
  destruct (lead_facts x Hx) as (F1 & F2 & F3 & F4 & F5 & F6).
  destruct r as [|y r]; [discriminate|].
  apply (step_leaf_gen CDictKey key T below tot lay l d (Some SpStar2) (42%N :: 42%N :: ws) w (y :: r) 42%N
           (42%N :: ws ++ print_leaf lay l ++ w ++ y :: r)); auto; try discriminate; try congruence.
  - cbn [ctx_match]. auto.
  - rewrite E. cbn [app]. destruct (head_ws_or [91; 123]%N ws x (s ++ w ++ y :: r) Hws F6 eq_refl) as (y' & s' & Ey & Hy).
    rewrite Ey. apply vstart_star2. exact Hy.
  - rewrite HT. cbn [app]. rewrite E. cbn [rev]. rewrite <- !app_assoc. cbn [app].
    apply es_star2; [exact Hws | cbn [app nows]; rewrite F1; reflexivity].
  - cbn [end_ok ctx_tcs existsb]. apply orb_true_iff in Hr as [Hr|Hr]; rewrite Hr; rewrite ?orb_true_r; reflexivity.
  - intros _. cbn [is_some negb]. apply orb_true_iff in Hr as [Hr|Hr]; apply N.eqb_eq in Hr; subst; reflexivity.
Qed.

(* --- structural steps --- *)
(* positions at which a list / dict literal may open, with the spread prefix that is legal there *)
Inductive opos : frame -> option spread -> str -> option str -> Prop :=
| op_list T key : f_ty T = TList -> opos T None [] key
| op_list_star T key : f_ty T = TList -> opos T (Some SpStar) [42%N] key
| op_dictval T key : f_ty T = TDict -> f_meta T = Some false -> opos T None [] key
| op_dictspread T key : f_ty T = TDict -> f_meta T = Some true -> opos T (Some SpStar2) [42; 42]%N key
| op_top T key : f_ty T = TSimple -> opos T None [] key
| op_top_dots T : f_ty T = TSimple -> opos T (Some SpDots) [46; 46; 46]%N None.

Lemma set_meta_same T m : f_meta T = m -> set_meta T m = T.
Proof. destruct T; cbn; intros ->; reflexivity. Qed.

Lemma step_open_list key T below tot sp pre d r :
  opos T sp pre key -> sp <> Some SpStar2 -> length (T :: below) <= 100 ->
  stack_step key (mkcur d (pre ++ 91%N :: r)) T below tot
  = SCont (mkcur (91%N :: rev pre ++ d) r) (mkframe TList sp [] None :: T :: below) tot.
Proof.
  intros Hp Hsp Hlen. unfold stack_step, push_struct.
  replace (Nat.ltb MAX_NESTING_DEPTH (length (T :: below))) with false
    by (symmetry; apply Nat.ltb_ge; unfold MAX_NESTING_DEPTH; exact Hlen).
  destruct Hp as [T key HT|T key HT|T key HT Hm|T key HT Hm|T key HT|T HT]; try congruence;
    cbn [app]; rewrite skip_ws_none by reflexivity; rewrite HT.
  - replace (is_next OPEN_LIST (mkcur d (91%N :: r))) with true by reflexivity.
    rewrite es_none by reflexivity. cbn [is_some andb]. rewrite take_n_1. reflexivity.
  - replace (is_next OPEN_LIST (mkcur d (42%N :: 91%N :: r))) with true by reflexivity.
    pose proof (es_star key d [] (91%N :: r) eq_refl eq_refl eq_refl) as X; cbn [app rev] in X; rewrite X; clear X.
    cbn [is_some andb stype_eqb rev app].
    rewrite take_n_1. reflexivity.
  - replace (is_next OPEN_LIST (mkcur d (91%N :: r))) with true by reflexivity.
    rewrite es_none by reflexivity. cbn [is_some andb]. rewrite take_n_1. reflexivity.
  - replace (is_next OPEN_LIST (mkcur d (91%N :: r))) with true by reflexivity.
    rewrite es_none by reflexivity. cbn [is_some andb]. rewrite take_n_1. reflexivity.
  - replace (is_next OPEN_LIST (mkcur d (46%N :: 46%N :: 46%N :: 91%N :: r))) with true by reflexivity.
    rewrite (es_dots d 91%N r eq_refl). cbn [is_some andb stype_eqb rev app].
    rewrite take_n_1. reflexivity.
Qed.

Lemma step_open_dict key T below tot sp pre d r :
  opos T sp pre key -> sp <> Some SpStar -> length (T :: below) <= 100 ->
  stack_step key (mkcur d (pre ++ 123%N :: r)) T below tot
  = SCont (mkcur (123%N :: rev pre ++ d) r) (mkframe TDict sp [] (Some true) :: T :: below) tot.
Proof.
  intros Hp Hsp Hlen. unfold stack_step, push_struct.
  replace (Nat.ltb MAX_NESTING_DEPTH (length (T :: below))) with false
    by (symmetry; apply Nat.ltb_ge; unfold MAX_NESTING_DEPTH; exact Hlen).
  destruct Hp as [T key HT|T key HT|T key HT Hm|T key HT Hm|T key HT|T HT]; try congruence;
    cbn [app]; rewrite skip_ws_none by reflexivity; rewrite HT.
  - replace (is_next OPEN_LIST (mkcur d (123%N :: r))) with false by reflexivity.
    replace (is_next [[93%N]] (mkcur d (123%N :: r))) with false by reflexivity.
    replace (is_next OPEN_DICT (mkcur d (123%N :: r))) with true by reflexivity.
    rewrite es_none by reflexivity. cbn [is_some andb stype_eqb]. rewrite take_n_1. reflexivity.
  - replace (is_next OPEN_LIST (mkcur d (123%N :: r))) with false by reflexivity.
    replace (is_next [[93%N]] (mkcur d (123%N :: r))) with false by reflexivity.
    replace (is_next OPEN_DICT (mkcur d (123%N :: r))) with true by reflexivity.
    rewrite es_none by reflexivity. cbn [is_some andb stype_eqb]. rewrite take_n_1, Hm. reflexivity.
  - replace (is_next OPEN_LIST (mkcur d (42%N :: 42%N :: 123%N :: r))) with false by reflexivity.
    replace (is_next [[93%N]] (mkcur d (42%N :: 42%N :: 123%N :: r))) with false by reflexivity.
    replace (is_next OPEN_DICT (mkcur d (42%N :: 42%N :: 123%N :: r))) with true by reflexivity.
    pose proof (es_star2 key d [] (123%N :: r) eq_refl eq_refl) as X; cbn [app rev] in X; rewrite X; clear X.
    cbn [is_some andb stype_eqb rev app].
    rewrite take_n_1, Hm. cbn [snd]. rewrite (set_meta_same T (Some true) Hm).
    replace (Nat.ltb MAX_NESTING_DEPTH (length (T :: below))) with false
      by (symmetry; apply Nat.ltb_ge; unfold MAX_NESTING_DEPTH; exact Hlen).
    reflexivity.
  - replace (is_next OPEN_LIST (mkcur d (123%N :: r))) with false by reflexivity.
    replace (is_next [[93%N]] (mkcur d (123%N :: r))) with false by reflexivity.
    replace (is_next OPEN_DICT (mkcur d (123%N :: r))) with true by reflexivity.
    rewrite es_none by reflexivity. cbn [is_some andb stype_eqb]. rewrite take_n_1. reflexivity.
  - replace (is_next OPEN_LIST (mkcur d (46%N :: 46%N :: 46%N :: 123%N :: r))) with false by reflexivity.
    replace (is_next [[93%N]] (mkcur d (46%N :: 46%N :: 46%N :: 123%N :: r))) with false by reflexivity.
    replace (is_next OPEN_DICT (mkcur d (46%N :: 46%N :: 46%N :: 123%N :: r))) with true by reflexivity.
    rewrite (es_dots d 123%N r eq_refl). cbn [is_some andb stype_eqb rev app].
    rewrite take_n_1. reflexivity.
Qed.

Lemma step_close_list key F T below tot d r : f_ty F = TList ->
  stack_step key (mkcur d (93%N :: r)) F (T :: below) tot
  = SCont (mkcur (93%N :: d) r) (fst (attach T below tot (node_of_frame F))) (snd (attach T below tot (node_of_frame F))).
Proof.
  intro HF. unfold stack_step. rewrite skip_ws_none by reflexivity. rewrite HF.
  replace (is_next OPEN_LIST (mkcur d (93%N :: r))) with false by reflexivity.
  replace (is_next [[93%N]] (mkcur d (93%N :: r))) with true by reflexivity.
  cbn [stype_eqb negb]. rewrite take_n_1. cbn [snd]. apply pop_closed_attach.
Qed.

Lemma step_close_dict key F T below tot d r m : f_ty F = TDict -> f_meta F = Some m ->
  validate_dict (f_ents F) false = true ->
  stack_step key (mkcur d (125%N :: r)) F (T :: below) tot
  = SCont (mkcur (125%N :: d) r) (fst (attach T below tot (node_of_frame (set_meta F None))))
          (snd (attach T below tot (node_of_frame (set_meta F None)))).
Proof.
  intros HF Hm Hv. unfold stack_step. rewrite skip_ws_none by reflexivity. rewrite HF, Hm, Hv.
  replace (is_next OPEN_LIST (mkcur d (125%N :: r))) with false by reflexivity.
  replace (is_next [[93%N]] (mkcur d (125%N :: r))) with false by reflexivity.
  replace (is_next OPEN_DICT (mkcur d (125%N :: r))) with false by reflexivity.
  replace (is_next [[125%N]] (mkcur d (125%N :: r))) with true by reflexivity.
  cbn [stype_eqb negb]. rewrite take_n_1. cbn [snd]. apply pop_closed_attach.
Qed.

Lemma step_comma_list key F below tot d r : f_ty F = TList ->
  stack_step key (mkcur d (44%N :: r)) F below tot = SCont (mkcur (44%N :: d) r) (F :: below) tot.
Proof.
  intro HF. unfold stack_step. rewrite skip_ws_none by reflexivity. rewrite HF.
  replace (is_next OPEN_LIST (mkcur d (44%N :: r))) with false by reflexivity.
  replace (is_next [[93%N]] (mkcur d (44%N :: r))) with false by reflexivity.
  replace (is_next OPEN_DICT (mkcur d (44%N :: r))) with false by reflexivity.
  replace (is_next [[125%N]] (mkcur d (44%N :: r))) with false by reflexivity.
  replace (is_next [[44%N]] (mkcur d (44%N :: r))) with true by reflexivity.
  rewrite take_n_1. reflexivity.
Qed.

Lemma step_comma_dict key F below tot d r : f_ty F = TDict ->
  stack_step key (mkcur d (44%N :: r)) F below tot = SCont (mkcur (44%N :: d) r) (set_meta F (Some true) :: below) tot.
Proof.
  intro HF. unfold stack_step. rewrite skip_ws_none by reflexivity. rewrite HF.
  replace (is_next OPEN_LIST (mkcur d (44%N :: r))) with false by reflexivity.
  replace (is_next [[93%N]] (mkcur d (44%N :: r))) with false by reflexivity.
  replace (is_next OPEN_DICT (mkcur d (44%N :: r))) with false by reflexivity.
  replace (is_next [[125%N]] (mkcur d (44%N :: r))) with false by reflexivity.
  replace (is_next [[44%N]] (mkcur d (44%N :: r))) with true by reflexivity.
  rewrite take_n_1. reflexivity.
Qed.

Lemma step_colon key F below tot d r : f_ty F = TDict -> f_meta F = Some true ->
  stack_step key (mkcur d (58%N :: r)) F below tot = SCont (mkcur (58%N :: d) r) (set_meta F (Some false) :: below) tot.
Proof.
  intros HF Hm. unfold stack_step. rewrite skip_ws_none by reflexivity. rewrite HF, Hm.
  replace (is_next OPEN_LIST (mkcur d (58%N :: r))) with false by reflexivity.
  replace (is_next [[93%N]] (mkcur d (58%N :: r))) with false by reflexivity.
  replace (is_next OPEN_DICT (mkcur d (58%N :: r))) with false by reflexivity.
  replace (is_next [[125%N]] (mkcur d (58%N :: r))) with false by reflexivity.
  replace (is_next [[44%N]] (mkcur d (58%N :: r))) with false by reflexivity.
  replace (is_next [[58%N]] (mkcur d (58%N :: r))) with true by reflexivity.
  cbn [stype_eqb negb]. rewrite take_n_1. reflexivity.
Qed.

(* ================================================================================================ *)
(* C. list and dict literals, any nesting                                                            *)
(* ================================================================================================ *)
Definition sp_kind (sp : option spread) (v : sval) : Prop :=
  match v with SLeaf _ => False | SList _ => sp <> Some SpStar2 | SDict _ => sp <> Some SpStar end.

(* a literal v written at a position where a literal may open is consumed whole and attached below *)
Definition Pv (v : sval) : Prop :=
  forall lay sp pre T below tot key d r,
    opos T sp pre key -> sp_kind sp v -> length (T :: below) + vdepth v <= 101 ->
    reaches key (mkcur d (pre ++ print_val lay v ++ r)) (T :: below) tot
            (mkcur (rev (pre ++ print_val lay v) ++ d) r)
            (fst (attach T below tot (ast_val sp v))) (snd (attach T below tot (ast_val sp v))).

Lemma print_val_list lay items :
  print_val lay (SList items) = 91%N :: w0 lay 0 ++ print_litems (sub lay 1) items ++ [93%N].
Proof. reflexivity. Qed.
Lemma print_val_dict lay ents :
  print_val lay (SDict ents) = 123%N :: w0 lay 0 ++ print_dents (sub lay 1) ents ++ [125%N].
Proof. reflexivity. Qed.

Definition litem_ast (p : bool * sval) : node := ast_val (if fst p then Some SpStar else None) (snd p).
Definition litem_ok (p : bool * sval) : bool :=
  val_ok (snd p) &&
  (if fst p then match snd p with SLeaf l => spreadable l | SList _ => true | SDict _ => false end else true).

Definition add_ents (F : frame) (ns : list node) : frame := mkframe (f_ty F) (f_sp F) (f_ents F ++ ns) (f_meta F).
Lemma add_ents_nil F : add_ents F [] = F.
Proof. destruct F. unfold add_ents. cbn. rewrite app_nil_r. reflexivity. Qed.
Lemma add_ents_push F n ns : add_ents (push_entry F n) ns = add_ents F (n :: ns).
Proof. unfold add_ents, push_entry. cbn. rewrite <- app_assoc. reflexivity. Qed.

(* first character of a printed value *)
Lemma val_lead lay v : val_ok v = true ->
  exists x s, print_val lay v = x :: s /\ existsb (N.eqb x) (WSCH ++ [44; 93; 125; 58; 124; 42]%N) = false.
Proof.
  destruct v as [l|items|ents]; intro H.
  - cbn [val_ok] in H. destruct (leaf_lead lay l H) as (x & s & E & Hx). exists x, s. split; [exact E|].
    eapply existsb_incl; [exact Hx | reflexivity].
  - rewrite print_val_list. eexists _, _. split; reflexivity.
  - rewrite print_val_dict. eexists _, _. split; reflexivity.
Qed.

Lemma nows_of (x : N) s l : existsb (N.eqb x) (WSCH ++ l) = false -> nows (x :: s) = true.
Proof.
  intro H. cbn [nows]. apply negb_true_iff. unfold is_ws. rewrite existsb_app in H. apply orb_false_iff in H. apply H.
Qed.

(* the separator after an item: nothing (last item, no trailing comma), or a comma and white space *)
Definition sep_text (lay : layout) (last : bool) : str :=
  if last then (if opt lay 3 then 44%N :: w0 lay 4 else []) else 44%N :: w0 lay 4.

Lemma print_litems_cons lay sp x r :
  print_litems lay ((sp, x) :: r)
  = (if sp then 42%N :: (if is_leaf x then w0 lay 0 else []) else [])
    ++ print_val (sub lay 1) x ++ w0 lay 2
    ++ sep_text lay (match r with [] => true | _ => false end) ++ print_litems (sub lay 5) r.
Proof.
  cbn [print_litems]. unfold sep_text. destruct r as [|p r].
  - cbn [print_litems]. rewrite app_nil_r. reflexivity.
  - rewrite <- app_comm_cons. reflexivity.
Qed.

Lemma list_items_run key below tot : forall items lay F d w r,
  f_ty F = TList ->
  Forall (fun p => is_leaf (snd p) = false -> Pv (snd p)) items ->
  forallb litem_ok items = true ->
  Forall (fun p => S (length (F :: below)) + vdepth (snd p) <= 101) items ->
  forallb is_ws w = true ->
  reaches key (mkcur d (w ++ print_litems lay items ++ 93%N :: r)) (F :: below) tot
          (mkcur (rev (w ++ print_litems lay items) ++ d) (93%N :: r))
          (add_ents F (map litem_ast items) :: below) tot.
Proof.
  induction items as [|[sp x] rest IH]; intros lay F d w r HF HP Hok Hdep Hw.
  - cbn [print_litems map app]. rewrite add_ents_nil, app_nil_r. apply reaches_skip; [exact Hw | reflexivity].
  - inversion HP as [|? ? HPx HPr]; subst. inversion Hdep as [|? ? Hdx Hdr]; subst.
    cbn [forallb] in Hok. apply andb_true_iff in Hok as [Hx Hok]. unfold litem_ok in Hx. cbn [fst snd] in *.
    apply andb_true_iff in Hx as [Hvx Hshape].
    rewrite print_litems_cons.
    set (last := match rest with [] => true | _ => false end).
    (* the text that follows the item and its trailing white space *)
    set (after := sep_text lay last ++ print_litems (sub lay 5) rest ++ 93%N :: r).
    assert (Hafter : exists y s, after = y :: s /\ (y = 44%N \/ y = 93%N)).
    { subst after. unfold sep_text. destruct last eqn:El.
      - destruct rest; [|discriminate]. cbn [print_litems app]. destruct (opt lay 3); eexists _, _; (split; [reflexivity | auto]).
      - eexists _, _. split; [reflexivity | auto]. }
    destruct Hafter as (ya & sa & Ea & Hya).
    assert (Hend : end_ok CList (w0 lay 2) after = true).
    { rewrite Ea. cbn [end_ok ctx_tcs existsb]. destruct Hya as [->| ->]; reflexivity. }
    assert (Hnowsa : nows after = true) by (rewrite Ea; destruct Hya as [->| ->]; reflexivity).
    (* 1. the item itself, up to `after` *)
    set (itxt := (if sp then 42%N :: (if is_leaf x then w0 lay 0 else []) else []) ++ print_val (sub lay 1) x ++ w0 lay 2).
    assert (Hitem : reaches key (mkcur d (w ++ itxt ++ after)) (F :: below) tot
                            (mkcur (rev (w ++ itxt) ++ d) after)
                            (push_entry F (litem_ast (sp, x)) :: below) tot).
    { subst itxt. unfold litem_ast. cbn [fst snd].
      destruct x as [l|xitems|xents].
      - (* leaf *) cbn [val_ok] in Hvx. cbn [is_leaf print_val].
        destruct (leaf_lead (sub lay 1) l Hvx) as (x0 & s0 & E0 & Hx0).
        destruct sp.
        + eapply reaches_trans.
          * apply (reaches_skip key w d _ F below tot Hw). rewrite <- !app_assoc. reflexivity.
          * rewrite <- !app_assoc. 
            change (42%N :: w0 lay 0 ++ print_leaf (sub lay 1) l ++ w0 lay 2 ++ after)
              with ((42%N :: w0 lay 0) ++ print_leaf (sub lay 1) l ++ w0 lay 2 ++ after).
            eapply reaches_trans; [apply reaches_step; apply step_leaf_list_star; auto using w0_ws|].
            done_reach.
        + cbn [app]. eapply reaches_trans.
          * apply (reaches_skip key w d _ F below tot Hw). rewrite <- !app_assoc, E0. cbn [app].
            cbn [nows]. destruct (lead_facts x0 Hx0) as (F1 & _). rewrite F1. reflexivity.
          * rewrite <- !app_assoc.
            eapply reaches_trans; [apply reaches_step; apply step_leaf_list; auto using w0_ws|].
            done_reach.
      - (* nested list *)
        specialize (HPx eq_refl). cbn [is_leaf].
        set (pre := if sp then [42%N] else @nil N).
        replace ((if sp then [42%N] else []) ++ print_val (sub lay 1) (SList xitems) ++ w0 lay 2)
          with (pre ++ print_val (sub lay 1) (SList xitems) ++ w0 lay 2) by reflexivity.
        eapply reaches_trans.
        { apply (reaches_skip key w d _ F below tot Hw). subst pre. rewrite print_val_list. destruct sp; reflexivity. }
        rewrite <- !app_assoc.
        eapply reaches_trans.
        { apply (HPx (sub lay 1) (if sp then Some SpStar else None) pre F below tot key).
          - subst pre. destruct sp; [apply op_list_star | apply op_list]; exact HF.
          - cbn [sp_kind]. destruct sp; discriminate.
          - cbn [length] in *. lia. }
        unfold attach. rewrite HF. cbn [stype_eqb fst snd].
        eapply reaches_trans.
        { apply (reaches_skip key (w0 lay 2) _ after _ below tot (w0_ws _ _) Hnowsa). }
        done_reach.
      - (* nested dict: only without `*` *)
        destruct sp; [discriminate|]. specialize (HPx eq_refl). cbn [is_leaf app].
        eapply reaches_trans.
        { apply (reaches_skip key w d _ F below tot Hw). rewrite print_val_dict. reflexivity. }
        rewrite <- !app_assoc.
        eapply reaches_trans.
        { apply (HPx (sub lay 1) None [] F below tot key).
          - apply op_list; exact HF.
          - cbn [sp_kind]. discriminate.
          - cbn [length] in *. lia. }
        unfold attach. rewrite HF. cbn [stype_eqb fst snd app].
        eapply reaches_trans.
        { apply (reaches_skip key (w0 lay 2) _ after _ below tot (w0_ws _ _) Hnowsa). }
        done_reach. }
    (* 2. separator and the remaining items *)
    match goal with |- reaches _ (mkcur _ ?t) _ _ _ _ _ =>
      replace t with (w ++ itxt ++ after) by (subst itxt after; norm_app; reflexivity) end.
    eapply reaches_trans; [exact Hitem|].
    cbn [map]. rewrite <- add_ents_push.
    assert (HF' : f_ty (push_entry F (litem_ast (sp, x))) = TList) by exact HF.
    assert (Hdep' : Forall (fun p => S (length (push_entry F (litem_ast (sp, x)) :: below)) + vdepth (snd p) <= 101) rest)
      by exact Hdr.
    subst after. unfold sep_text.
    destruct last eqn:El.
    + destruct rest as [|? ?]; [|discriminate]. cbn [print_litems app].
      destruct (opt lay 3).
      * (* trailing comma *)
        cbn [app]. eapply reaches_trans; [apply reaches_step; apply step_comma_list; exact HF'|].
        eapply reaches_trans.
        { apply (IH (sub lay 5) (push_entry F (litem_ast (sp, x))) _ (w0 lay 4) r HF' HPr Hok Hdep' (w0_ws _ _)). }
        cbn [print_litems map]. rewrite !app_nil_r.
        done_reach.
      * cbn [app map]. rewrite add_ents_nil, !app_nil_r. apply reaches_refl.
    + cbn [app]. eapply reaches_trans; [apply reaches_step; apply step_comma_list; exact HF'|].
      eapply reaches_trans.
      { apply (IH (sub lay 5) (push_entry F (litem_ast (sp, x))) _ (w0 lay 4) r HF' HPr Hok Hdep' (w0_ws _ _)). }
      done_reach.
Qed.
