(* Property C12 - "for every template source": totality of parse_template, from C09's Lexer model (read-only reuse).
   Lexer.Model.parse_template transliterates django_components.util.template_parser.parse_template: the `while index_start <
   index_end` loop (fuel |s|+1), Django's DebugLexer.tokenize on the rest of the text at every restart, and
   _detailed_tag_parser as the character automaton dfa_run.  Its only error outcomes are the two TemplateSyntaxError
   messages of _detailed_tag_parser (perr: unterminated string / unterminated tag). *)
From DJC Require Import Lib.Base.
From DJC Require Lexer.Model Lexer.Proofs.
From DJC Require Import TagParse.Model TagParse.Extra.

Lemma template_total_lemma (d : bool) (s : str) :
  (exists toks, Lexer.Model.parse_template d s = Lexer.Model.POk toks)
  \/ (exists e, Lexer.Model.parse_template d s = Lexer.Model.PErr e).
Proof.
  destruct (Lexer.Proofs.terminates d s) as [H _].
  destruct (Lexer.Model.parse_template d s) as [l|e|]; [left; eauto | right; eauto | congruence].
Qed.

(* the restart loop ends within |s|+1 iterations: any surplus fuel leaves the result unchanged *)
Lemma template_restarts_lemma (d : bool) (s : str) (k : nat) :
  Lexer.Model.pt_go (S (length s) + k) d s 0 0 None [] = Lexer.Model.parse_template d s.
Proof. destruct (Lexer.Proofs.terminates d s) as [_ H]. apply H. Qed.

Lemma template_obs_some (d : bool) (s : str) : template_obs d s <> None.
Proof.
  unfold template_obs. destruct (template_total_lemma d s) as [[l ->]|[e ->]]; [discriminate|].
  destruct e; discriminate.
Qed.

(* ---------- TagFormatter.parse ---------- *)
Lemma pick_name_spec : forall args name acc,
  match pick_name args name acc with
  | Ok (_, final) => length final <= length acc + length args
  | Err k => k = TemplateSyntaxError
  | OutOfFuel => False
  end.
Proof.
  induction args as [|k r IH]; intros name acc; cbn [pick_name].
  - rewrite rev_length. cbn. lia.
  - destruct (starts_with NAME_EQ k).
    + destruct name; [|reflexivity]. specialize (IH (skipn 5 k) acc).
      destruct (pick_name r (skipn 5 k) acc) as [[n f]|e|]; cbn [length] in *; [lia | exact IH | exact IH].
    + specialize (IH name (k :: acc)).
      destruct (pick_name r name (k :: acc)) as [[n f]|e|]; cbn [length] in *; [lia | exact IH | exact IH].
Qed.

(* the pre-processing of the bits of a component tag is total: a name and at most the given arguments, or TemplateSyntaxError *)
Lemma component_formatter_total_lemma (tokens : list str) : tokens <> [] ->
  match component_formatter_parse tokens with
  | Ok (_, final) => length final < length tokens
  | Err k => k = TemplateSyntaxError
  | OutOfFuel => False
  end.
Proof.
  intro Hne. destruct tokens as [|tag [|a0 rest]]; [congruence | reflexivity |].
  unfold component_formatter_parse.
  destruct (existsb (N.eqb 61) a0).
  - pose proof (pick_name_spec (a0 :: rest) [] []) as H.
    destruct (pick_name (a0 :: rest) [] []) as [[name final]|e|]; [|exact H|exact H].
    destruct name as [|x name]; [reflexivity|]. destruct (wrapped_in_quotes (x :: name)); [|reflexivity].
    cbn [length] in *. lia.
  - destruct a0 as [|x a0]; [reflexivity|]. destruct (wrapped_in_quotes (x :: a0)); [|reflexivity]. cbn [length]. lia.
Qed.
