(* Property C12 - "for every tag written in the documented syntax, re-parsing its canonical serialisation yields the same
   arguments".

   Built on C02's specification of the documented grammar (TagParse/Spec.v: `print lay tag a` writes an argument list under
   an arbitrary layout) and its main parser theorem `parse_tag_print` (TagParse/ParseProofs.v: parse_tag of a printed
   argument list returns exactly its AST).  This file shows that TagValueStruct.serialize / TagAttr.serialize of that AST,
   joined by single spaces, IS a printing of the same argument list - under the layout `ser_layout` that writes nothing
   anywhere except one space between arguments, after each `,` and after each dict `:`.  parse_tag_print applied to both
   printings gives the round trip. *)
From DJC Require Import Lib.Base TagParse.Model TagParse.Proofs TagParse.Resolve TagParse.Spec TagParse.ScanLemmas
     TagParse.ParseProofs.

(* ================================================================================================ *)
(* A. the layout of serialize()                                                                      *)
(* ================================================================================================ *)
(* what serialize() writes at the layout position whose LAST path index is i: a space after `,` (4) and after the `:` of a
   dict pair (8), nothing elsewhere *)
Definition ser_ix (i : nat) : str := if Nat.eqb i 4 || Nat.eqb i 8 then [32%N] else [].
Definition is_ser (l : layout) : Prop := forall p i, l (p ++ [i]) = ser_ix i.
Definition ser_layout : layout := fun p => match rev p with i :: _ => ser_ix i | [] => [] end.

Lemma ser_layout_is_ser : is_ser ser_layout.
Proof. intros p i. unfold ser_layout. rewrite rev_app_distr. reflexivity. Qed.

Lemma is_ser_sub l j : is_ser l -> is_ser (sub l j).
Proof. intros H p i. unfold sub. exact (H (j :: p) i). Qed.

Lemma is_ser_at l i : is_ser l -> l [i] = ser_ix i.
Proof. intro H. exact (H [] i). Qed.

Lemma is_ser_w0 l i : is_ser l -> w0 l i = ser_ix i.
Proof. intro H. unfold w0. rewrite (is_ser_at l i H). unfold ser_ix. destruct (_ || _); reflexivity. Qed.

Lemma is_ser_w1 l : is_ser l -> w1 l 0 = [32%N].
Proof. intro H. unfold w1. rewrite (is_ser_at l 0 H). reflexivity. Qed.

Lemma is_ser_opt l : is_ser l -> opt l 3 = false.
Proof. intro H. unfold opt. rewrite (is_ser_at l 3 H). reflexivity. Qed.

Ltac napp := unfold str in *; rewrite ?app_nil_r; repeat first [rewrite <- app_assoc | progress cbn [app]]; rewrite ?app_nil_r.

(* ================================================================================================ *)
(* B. leaves                                                                                         *)
(* ================================================================================================ *)
Lemma ser_atom lay a f : is_ser lay ->
  serialize_part (part_of_atom a None f) = match f with Some c => c :: print_atom lay a | None => print_atom lay a end.
Proof.
  intro Hs. destruct a as [t|q b|q b]; unfold serialize_part; cbn [part_of_atom p_value p_quoted p_transl p_spread p_filter quote_wrap print_atom].
  - reflexivity.
  - reflexivity.
  - rewrite (is_ser_w0 lay 0 Hs), (is_ser_w0 lay 1 Hs). cbn [ser_ix Nat.eqb orb app]. unfold quoted.
    destruct f; cbn [app]; rewrite <- ?app_assoc; reflexivity.
Qed.

Lemma ser_head lay a sp : is_ser lay -> (sp <> None -> match a with ATrans _ _ => False | _ => True end) ->
  serialize_part (part_of_atom a sp None) = spread_prefix sp ++ print_atom lay a.
Proof.
  intros Hs Hsp. destruct sp as [s|].
  - destruct a as [t|q b|q b]; [reflexivity | reflexivity |]. exfalso. apply Hsp. discriminate.
  - apply (ser_atom lay a None Hs).
Qed.

Lemma ser_filters : forall fs lay, is_ser lay ->
  concat (map serialize_part (flat_map parts_of_filt fs)) = print_filters lay fs.
Proof.
  induction fs as [|[name arg] fs IH]; intros lay Hs; [reflexivity|].
  cbn [flat_map parts_of_filt fst snd print_filters].
  rewrite (is_ser_w0 lay 0 Hs), (is_ser_w0 lay 1 Hs). cbn [ser_ix Nat.eqb orb app].
  rewrite map_app, concat_app. rewrite (IH (sub lay 5) (is_ser_sub lay 5 Hs)).
  destruct arg as [x|]; unfold parts_of_filt; cbn [fst snd].
  - cbn [map concat]. rewrite (ser_atom (sub lay 4) x (Some 58%N) (is_ser_sub lay 4 Hs)).
    rewrite (is_ser_w0 lay 2 Hs), (is_ser_w0 lay 3 Hs). cbn [ser_ix Nat.eqb orb app].
    unfold serialize_part. cbn [p_value p_quoted p_transl p_spread p_filter quote_wrap].
    napp. reflexivity.
  - cbn [map concat]. unfold serialize_part. cbn [p_value p_quoted p_transl p_spread p_filter quote_wrap].
    napp. reflexivity.
Qed.

Lemma ser_leaf lay sp l : is_ser lay -> (sp <> None -> spreadable l = true) ->
  serialize_value (parts_of_leaf sp l) = spread_prefix sp ++ print_leaf lay l.
Proof.
  intros Hs Hsp. unfold serialize_value, parts_of_leaf, print_leaf. cbn [map concat].
  rewrite (ser_head (sub lay 0) (lf_head l) sp (is_ser_sub lay 0 Hs)).
  - rewrite (ser_filters (lf_filters l) (sub lay 1) (is_ser_sub lay 1 Hs)). rewrite <- app_assoc. reflexivity.
  - intro H. specialize (Hsp H). unfold spreadable in Hsp. destruct (lf_head l); [exact I | exact I | discriminate].
Qed.

(* ================================================================================================ *)
(* C. values of any depth                                                                            *)
(* ================================================================================================ *)
Definition sp_leaf_ok (sp : option spread) (v : sval) : Prop :=
  match v with SLeaf l => sp <> None -> spreadable l = true | _ => True end.

Definition Sv (d : nat) (sp : option spread) (v : sval) : Prop :=
  forall lay, is_ser lay -> serialize_node d (ast_val sp v) = Ok (spread_prefix sp ++ print_val lay v).

Lemma join_cons2 sep (x y : str) l : join sep (x :: y :: l) = x ++ sep ++ join sep (y :: l).
Proof. reflexivity. Qed.

Lemma litem_sp_ok p : litem_ok p = true -> sp_leaf_ok (if fst p then Some SpStar else None) (snd p).
Proof.
  destruct p as [b x]. unfold litem_ok. cbn [fst snd]. intro H. apply andb_true_iff in H as [_ H].
  destruct x as [l| |]; cbn [sp_leaf_ok]; try exact I. destruct b; [intros _; exact H | intro C; congruence].
Qed.

Theorem ser_val_all : forall n v, vsize v <= n -> val_ok v = true ->
  forall sp d, sp_leaf_ok sp v -> vdepth v <= d -> Sv d sp v.
Proof.
  induction n as [|n IH]; intros v Hn Hok sp d Hsp Hd lay Hs.
  { destruct v; cbn in Hn; lia. }
  destruct v as [l|items|ents].
  - (* leaf *)
    cbn [ast_val print_val]. destruct d; cbn [serialize_node]; rewrite (ser_leaf lay sp l Hs Hsp); reflexivity.
  - (* list *)
    cbn [vsize] in Hn. cbn [vdepth] in Hd. cbn [val_ok] in Hok.
    destruct d as [|d]; [lia|].
    cbn [ast_val]. rewrite print_val_list. cbn [serialize_node].
    set (ser_all := fix ser_all (l : list node) : res (list str) := _).
    assert (Hall : forall its lay', is_ser lay' -> (forall p, In p its -> In p items) ->
              exists ss, ser_all (map (fun p : bool * sval => ast_val (if fst p then Some SpStar else None) (snd p)) its) = Ok ss
                         /\ join [44; 32]%N ss = print_litems lay' its).
    { induction its as [|[b x] its IHi]; intros lay' Hs' Hin.
      - exists []. split; reflexivity.
      - assert (Hp : In (b, x) items) by (apply Hin; left; reflexivity).
        assert (Hpok : litem_ok (b, x) = true) by (rewrite forallb_forall in Hok; exact (Hok _ Hp)).
        assert (Hx : Sv d (if b then Some SpStar else None) x).
        { apply (IH x).
          - pose proof (fold_sum_in (fun p : bool * sval => vsize (snd p)) items _ Hp). cbn [snd] in *. lia.
          - unfold litem_ok in Hpok. apply andb_true_iff in Hpok as [Hv _]. exact Hv.
          - exact (litem_sp_ok _ Hpok).
          - pose proof (fold_max_in (fun p : bool * sval => vdepth (snd p)) items _ Hp). cbn [snd] in *. lia. }
        destruct (IHi (sub lay' 5) (is_ser_sub lay' 5 Hs') (fun p H => Hin p (or_intror H))) as (ss & Hss & Hj).
        cbn [map fst snd]. cbn [ser_all]. fold ser_all.
        rewrite (Hx (sub lay' 1) (is_ser_sub lay' 1 Hs')). rewrite Hss.
        eexists. split; [reflexivity|].
        rewrite print_litems_cons. unfold sep_text.
        rewrite (is_ser_w0 lay' 0 Hs'), (is_ser_w0 lay' 2 Hs'), (is_ser_w0 lay' 4 Hs'), (is_ser_opt lay' Hs').
        cbn [ser_ix Nat.eqb orb app].
        assert (Hgen : forall pre : str,
                  join [44; 32]%N ((pre ++ print_val (sub lay' 1) x) :: ss)
                  = pre ++ print_val (sub lay' 1) x
                    ++ (if match its with [] => true | _ :: _ => false end then [] else [44; 32]%N) ++ print_litems (sub lay' 5) its).
        { intro pre. destruct its as [|q its'].
          - cbn [map] in Hss. cbn [ser_all] in Hss. injection Hss as <-. cbn [join print_litems]. napp. reflexivity.
          - destruct ss as [|s1 ss].
            { exfalso. cbn [map] in Hss. cbn [ser_all] in Hss. fold ser_all in Hss.
              repeat match type of Hss with context [match ?x with _ => _ end] => destruct x end; discriminate. }
            rewrite join_cons2. rewrite Hj. napp. reflexivity. }
        destruct b; [destruct (is_leaf x)|]; apply Hgen. }
    destruct (Hall items (sub lay 1) (is_ser_sub lay 1 Hs) (fun p H => H)) as (ss & Hss & Hj).
    rewrite Hss. rewrite Hj. rewrite (is_ser_w0 lay 0 Hs). cbn [ser_ix Nat.eqb orb app].
    napp. reflexivity.
  - (* dict *)
    cbn [vsize] in Hn. cbn [vdepth] in Hd. cbn [val_ok] in Hok.
    destruct d as [|d]; [lia|].
    cbn [ast_val]. rewrite print_val_dict. cbn [serialize_node].
    set (ser_all := fix ser_all (l : list node) : res (list str) := _).
    set (dast := fun p : option leaf * sval =>
                   match fst p with
                   | Some kl => [NVal (parts_of_leaf None kl); ast_val None (snd p)]
                   | None => [ast_val (Some SpStar2) (snd p)]
                   end).
    assert (Hall : forall es lay', is_ser lay' -> (forall p, In p es -> In p ents) ->
              exists ss ps, ser_all (flat_map dast es) = Ok ss
                            /\ dict_pairs (combine (flat_map dast es) ss) None = Ok ps
                            /\ join [44; 32]%N ps = print_dents lay' es /\ (es <> [] -> ps <> [])).
    { induction es as [|[k x] es IHe]; intros lay' Hs' Hin.
      - exists [], []. repeat split; try reflexivity. congruence.
      - assert (Hp : In (k, x) ents) by (apply Hin; left; reflexivity).
        assert (Hpok : dent_ok (k, x) = true) by (rewrite forallb_forall in Hok; exact (Hok _ Hp)).
        unfold dent_ok in Hpok. cbn [fst snd] in Hpok. apply andb_true_iff in Hpok as [Hv Hkk].
        assert (Hsz : vsize x <= n).
        { pose proof (fold_sum_in (fun p : option leaf * sval => vsize (snd p)) ents _ Hp). cbn [snd] in *. lia. }
        assert (Hdx : vdepth x <= d).
        { pose proof (fold_max_in (fun p : option leaf * sval => vdepth (snd p)) ents _ Hp). cbn [snd] in *. lia. }
        destruct (IHe (sub lay' 5) (is_ser_sub lay' 5 Hs') (fun p H => Hin p (or_intror H))) as (ss & ps & Hss & Hps & Hj & Hne).
        rewrite print_dents_cons. unfold sep_text.
        rewrite (is_ser_w0 lay' 0 Hs'), (is_ser_w0 lay' 2 Hs'), (is_ser_w0 lay' 4 Hs'), (is_ser_opt lay' Hs').
        rewrite (is_ser_w0 lay' 7 Hs'), (is_ser_w0 lay' 8 Hs').
        cbn [ser_ix Nat.eqb orb app].
        (* what follows this entry *)
        assert (Htail : forall s0 : str,
                  join [44; 32]%N (s0 :: ps)
                  = s0 ++ (if match es with [] => true | _ => false end then [] else [44; 32]%N) ++ print_dents (sub lay' 5) es).
        { intro s0. destruct es as [|q es'].
          - cbn [flat_map] in Hss. cbn [ser_all] in Hss. injection Hss as <-. cbn [combine dict_pairs] in Hps.
            injection Hps as <-. cbn [join print_dents]. rewrite app_nil_r. reflexivity.
          - destruct ps as [|p1 ps].
            + exfalso. apply Hne; [discriminate | reflexivity].
            + rewrite join_cons2. rewrite Hj. reflexivity. }
        destruct k as [kl|].
        + (* key: value *)
          apply andb_true_iff in Hkk as [Hkl Hna].
          assert (Hx : Sv d None x).
          { apply (IH x Hsz Hv). - destruct x; cbn [sp_leaf_ok]; [intro C; congruence | exact I | exact I]. - exact Hdx. }
          cbn [flat_map]. unfold dast at 1 3. cbn [fst snd app].
          cbn [ser_all]. fold ser_all.
          assert (Ek : serialize_node d (NVal (parts_of_leaf None kl)) = Ok (print_leaf (sub lay' 6) kl)).
          { destruct d; cbn [serialize_node];
              rewrite (ser_leaf (sub lay' 6) None kl (is_ser_sub lay' 6 Hs') (fun C => ltac:(congruence))); reflexivity. }
          rewrite Ek. rewrite (Hx (sub lay' 1) (is_ser_sub lay' 1 Hs')). rewrite Hss. cbn [spread_prefix app].
          eexists _, _. split; [reflexivity|].
          cbn [combine dict_pairs entry_is_spread parts_of_leaf]. rewrite p_spread_atom. cbn [is_some].
          rewrite ast_not_spread. rewrite Hps. split; [reflexivity|]. split; [|discriminate].
          rewrite Htail. rewrite <- !app_assoc. cbn [app]. destruct es; rewrite <- ?app_assoc; reflexivity.
        + (* double-star spread *)
          assert (Hx : Sv d (Some SpStar2) x).
          { apply (IH x Hsz Hv).
            - destruct x as [l| |]; cbn [sp_leaf_ok]; try exact I. intros _. apply andb_true_iff in Hkk as [Hk1 _]. exact Hk1.
            - exact Hdx. }
          cbn [flat_map]. unfold dast at 1 3. cbn [fst snd app].
          cbn [ser_all]. fold ser_all.
          rewrite (Hx (sub lay' 1) (is_ser_sub lay' 1 Hs')). rewrite Hss. cbn [spread_prefix spread_str].
          eexists _, _. split; [reflexivity|].
          cbn [combine dict_pairs]. rewrite ast_is_spread. cbn [is_some]. rewrite Hps. split; [reflexivity|]. split; [|discriminate].
          rewrite Htail. destruct (is_leaf x); cbn [app]; rewrite <- ?app_assoc; cbn [app];
            destruct es; rewrite <- ?app_assoc; reflexivity. }
    destruct (Hall ents (sub lay 1) (is_ser_sub lay 1 Hs) (fun p H => H)) as (ss & ps & Hss & Hps & Hj & _).
    change (flat_map (fun p : option leaf * sval =>
                        match fst p with
                        | Some kl => [NVal (parts_of_leaf None kl); ast_val None (snd p)]
                        | None => [ast_val (Some SpStar2) (snd p)]
                        end) ents) with (flat_map dast ents).
    rewrite Hss. rewrite Hps. rewrite Hj. rewrite (is_ser_w0 lay 0 Hs). cbn [ser_ix Nat.eqb orb app].
    napp. reflexivity.
Qed.

Corollary ser_val v sp d : val_ok v = true -> sp_leaf_ok sp v -> vdepth v <= d -> Sv d sp v.
Proof. intros. eapply (ser_val_all (vsize v)); eauto. Qed.

(* ================================================================================================ *)
(* D. top-level values, attributes, the whole tag                                                    *)
(* ================================================================================================ *)
Lemma ser_top v sp d lay : val_ok v = true -> sp_leaf_ok sp v -> vdepth v < d -> is_ser lay ->
  serialize_node d (top_ast sp v) = Ok (spread_prefix sp ++ print_val lay v).
Proof.
  intros Hok Hsp Hd Hs. destruct v as [l|items|ents].
  - destruct d as [|d]; [lia|]. cbn [top_ast serialize_node print_val].
    destruct d; cbn [serialize_node]; rewrite (ser_leaf lay sp l Hs Hsp); reflexivity.
  - cbn [top_ast]. apply (ser_val (SList items) sp d Hok Hsp); [lia | exact Hs].
  - cbn [top_ast]. apply (ser_val (SDict ents) sp d Hok Hsp); [lia | exact Hs].
Qed.

Lemma ser_item allowed it st d lay : forallb tok_ok allowed = true -> item_ok allowed it = true -> 101 < d -> is_ser lay ->
  serialize_attr d (mkattr (item_key it) (item_node it) st) = Ok (print_item lay it).
Proof.
  intros Hal Hok Hd Hs. unfold serialize_attr. cbn [a_value a_key].
  destruct it as [v|k v|v|fl]; cbn [item_ok item_key item_node print_item] in *.
  - apply andb_true_iff in Hok as [Hok _]. apply andb_true_iff in Hok as [Hok _]. apply andb_true_iff in Hok as [Hv Hdp].
    apply Nat.leb_le in Hdp.
    rewrite (ser_top v None d lay Hv); [reflexivity| |lia|exact Hs].
    destruct v; cbn [sp_leaf_ok]; [intro C; congruence | exact I | exact I].
  - apply andb_true_iff in Hok as [Hok _]. apply andb_true_iff in Hok as [Hok Hdp]. apply andb_true_iff in Hok as [Hk Hv].
    apply Nat.leb_le in Hdp.
    rewrite (ser_top v None d lay Hv); [| |lia|exact Hs].
    + destruct (key_ok_parts k Hk) as (x & k' & -> & _). cbn [spread_prefix app]. reflexivity.
    + destruct v; cbn [sp_leaf_ok]; [intro C; congruence | exact I | exact I].
  - apply andb_true_iff in Hok as [Hok Hsp]. apply andb_true_iff in Hok as [Hv Hdp]. apply Nat.leb_le in Hdp.
    rewrite (ser_top v (Some SpDots) d lay Hv); [reflexivity| |lia|exact Hs].
    destruct v; cbn [sp_leaf_ok]; [intros _; exact Hsp | exact I | exact I].
  - rewrite (ser_top (SLeaf (tok_leaf fl)) None d lay); [| | |cbn [vdepth]; lia|exact Hs].
    + cbn [print_val spread_prefix app]. rewrite print_tok_leaf. reflexivity.
    + cbn [val_ok]. apply tok_leaf_ok.
      unfold str_in in Hok. apply existsb_exists in Hok as [a [Ha E]]. apply str_eqb_eq in E. subst a.
      rewrite forallb_forall in Hal. apply Hal. exact Ha.
    + cbn [sp_leaf_ok]. intro C; congruence.
Qed.

(* serialize() reads the key and the value of an attribute, not its position *)
Lemma serialize_attrs_kv d : forall a1 a2, map kv a1 = map kv a2 -> serialize_attrs d a1 = serialize_attrs d a2.
Proof.
  induction a1 as [|x a1 IH]; intros [|y a2] H; try discriminate; [reflexivity|].
  cbn [map] in H. unfold kv at 1 3 in H. injection H as Hk Hv Hr. cbn [serialize_attrs]. rewrite (IH a2 Hr).
  unfold serialize_attr. rewrite Hk, Hv. reflexivity.
Qed.

Definition attr_of_item (it : item) : attr := mkattr (item_key it) (item_node it) 0%N.

Lemma ser_items allowed d : forallb tok_ok allowed = true -> 101 < d ->
  forall items lay, is_ser lay -> forallb (item_ok allowed) items = true ->
  exists ss, serialize_attrs d (map attr_of_item items) = Ok ss
             /\ forall t : str, join [32]%N (t :: ss) = t ++ print_items lay items.
Proof.
  intros Hal Hd. induction items as [|it items IH]; intros lay Hs Hok.
  - exists []. split; [reflexivity|]. intro t. cbn [join print_items]. rewrite app_nil_r. reflexivity.
  - cbn [forallb] in Hok. apply andb_true_iff in Hok as [Hit Hok].
    destruct (IH (sub lay 2) (is_ser_sub lay 2 Hs) Hok) as (ss & Hss & Hj).
    cbn [map serialize_attrs]. unfold attr_of_item at 1.
    rewrite (ser_item allowed it 0%N d (sub lay 1) Hal Hit Hd (is_ser_sub lay 1 Hs)). rewrite Hss.
    eexists. split; [reflexivity|]. intro t.
    rewrite join_cons2. rewrite Hj. cbn [print_items]. rewrite (is_ser_w1 lay Hs). napp. reflexivity.
Qed.

Lemma ser_tok t st d lay : tok_ok t = true -> 1 < d -> is_ser lay -> serialize_attr d (mkattr None (tok_node t) st) = Ok t.
Proof.
  intros Ht Hd Hs. unfold serialize_attr, tok_node. cbn [a_value a_key].
  rewrite (ser_top (SLeaf (tok_leaf t)) None d lay); [| | |cbn [vdepth]; lia|exact Hs].
  - cbn [print_val spread_prefix app]. rewrite print_tok_leaf. reflexivity.
  - cbn [val_ok]. apply tok_leaf_ok, Ht.
  - cbn [sp_leaf_ok]. intro C; congruence.
Qed.

(* the canonical serialisation of the AST of a printed argument list is the same argument list printed under ser_layout *)
Theorem serialize_is_print allowed tag a attrs d : arglist_ok tag allowed a = true -> 101 < d ->
  map kv attrs = (None, tok_node tag) :: map item_kv (items_with_slash a) ->
  serialize_tag d attrs = Ok (print ser_layout tag a).
Proof.
  intros Hok Hd Hkv. unfold arglist_ok in Hok.
  apply andb_true_iff in Hok as [Hok _]. apply andb_true_iff in Hok as [Hok Hitems].
  apply andb_true_iff in Hok as [Hok _]. apply andb_true_iff in Hok as [Htag Hal].
  set (allowed' := [47%N] :: allowed).
  assert (Hal' : forallb tok_ok allowed' = true) by (subst allowed'; cbn [forallb]; rewrite Hal; reflexivity).
  assert (Hits : forallb (item_ok allowed') (items_with_slash a) = true).
  { unfold items_with_slash. rewrite forallb_app. apply andb_true_iff. split.
    - rewrite forallb_forall in *. intros it Hit. apply item_ok_slash. apply Hitems. exact Hit.
    - destruct (al_slash a); reflexivity. }
  set (its := items_with_slash a) in *.
  pose proof ser_layout_is_ser as Hs.
  destruct (ser_items allowed' d Hal' Hd its (sub ser_layout 0) (is_ser_sub _ 0 Hs) Hits) as (ss & Hss & Hj).
  unfold serialize_tag.
  rewrite (serialize_attrs_kv d attrs (mkattr None (tok_node tag) 0%N :: map attr_of_item its)).
  2:{ rewrite Hkv. cbn [map kv a_key a_value]. f_equal. rewrite map_map. reflexivity. }
  cbn [serialize_attrs]. rewrite (ser_tok tag 0%N d ser_layout Htag ltac:(lia) Hs). rewrite Hss.
  rewrite Hj. unfold print. fold its. rewrite (is_ser_w0 ser_layout 2 Hs). cbn [ser_ix Nat.eqb orb]. rewrite app_nil_r. reflexivity.
Qed.

(* ================================================================================================ *)
(* E. the round trip                                                                                 *)
(* ================================================================================================ *)
Theorem serialize_reparse_lemma allowed lay tag a d : arglist_ok tag allowed a = true -> 101 < d ->
  exists attrs s attrs',
    parse_tag (print lay tag a) = Ok (print lay tag a, attrs)
    /\ serialize_tag d attrs = Ok s
    /\ parse_tag s = Ok (s, attrs')
    /\ map kv attrs' = map kv attrs.
Proof.
  intros Hok Hd.
  destruct (parse_tag_print allowed lay tag a Hok) as (attrs & Hp & Hkv).
  destruct (parse_tag_print allowed ser_layout tag a Hok) as (attrs' & Hp' & Hkv').
  exists attrs, (print ser_layout tag a), attrs'.
  split; [exact Hp|]. split; [exact (serialize_is_print allowed tag a attrs d Hok Hd Hkv)|].
  split; [exact Hp'|]. rewrite Hkv, Hkv'. reflexivity.
Qed.

(* serialize() is idempotent on its own output: the canonical text is a fixed point of parse ; serialize *)
Corollary canonical_fixed_point allowed tag a d : arglist_ok tag allowed a = true -> 101 < d ->
  exists attrs, parse_tag (print ser_layout tag a) = Ok (print ser_layout tag a, attrs)
                /\ serialize_tag d attrs = Ok (print ser_layout tag a).
Proof.
  intros Hok Hd. destruct (parse_tag_print allowed ser_layout tag a Hok) as (attrs & Hp & Hkv).
  exists attrs. split; [exact Hp | exact (serialize_is_print allowed tag a attrs d Hok Hd Hkv)].
Qed.
