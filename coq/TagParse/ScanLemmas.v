(* Exact behaviour of the scanner primitives of TagParse/Model.v on texts of a known shape, and independence of the
   loops from surplus fuel.  Used by TagParse/ParseProofs.v (property C02). *)
From DJC Require Import Lib.Base TagParse.Model TagParse.Proofs TagParse.Resolve TagParse.Spec.

(* `str` is a definition: implicit type arguments elaborated as `str` resp. `list N` block syntactic matching *)
Ltac rw L := let X := fresh "X" in pose proof L as X; unfold str in X |- *; rewrite X; clear X.

Ltac norm_app := repeat first [rewrite <- app_assoc | progress cbn [app]].
Ltac norm_rev := repeat first [rewrite rev_app_distr | progress cbn [rev app] | rewrite <- app_assoc].

Definition single (c : N) : str := [c].
Definition at_cur (d : str) (x r : str) : cur := mkcur (rev x ++ d) r.   (* cursor after consuming x *)

(* ================================================================================================ *)
(* A. characters                                                                                     *)
(* ================================================================================================ *)
Lemma notin_eqb (x : N) l c : existsb (N.eqb x) l = false -> In c l -> N.eqb x c = false /\ N.eqb c x = false.
Proof.
  intros H Hin. assert (N.eqb x c = false).
  { destruct (N.eqb x c) eqn:E; [|reflexivity]. rewrite <- H. symmetry. apply existsb_exists. eauto. }
  split; [assumption|]. rewrite N.eqb_sym. assumption.
Qed.

Lemma existsb_incl (x : N) small big :
  existsb (N.eqb x) big = false -> forallb (fun c => existsb (N.eqb c) big) small = true ->
  existsb (N.eqb x) small = false.
Proof.
  intros H Hs. destruct (existsb (N.eqb x) small) eqn:E; [|reflexivity].
  apply existsb_exists in E as [c [Hc E]]. apply N.eqb_eq in E. subst c.
  rewrite forallb_forall in Hs. specialize (Hs x Hc). congruence.
Qed.

Lemma is_ws_cases x : is_ws x = true -> x = 32%N \/ x = 9%N \/ x = 10%N \/ x = 13%N \/ x = 12%N.
Proof.
  unfold is_ws, WSCH. cbn [existsb]. rewrite !orb_true_iff, !N.eqb_eq. intuition discriminate.
Qed.

(* every token of `toks` starts with a character of `big`; the next character is none of them *)
Definition heads_in (big : list N) (toks : list str) : bool :=
  forallb (fun t => match t with [] => false | y :: _ => existsb (N.eqb y) big end) toks.

Lemma starts_with_head t x r : starts_with t (x :: r) = true -> match t with [] => True | y :: _ => y = x end.
Proof. destruct t as [|y t]; simpl; [trivial|]. intro H. apply andb_true_iff in H as [H _]. apply N.eqb_eq, H. Qed.

Lemma is_next_false_by_head toks big d x r :
  existsb (N.eqb x) big = false -> heads_in big toks = true -> is_next toks (mkcur d (x :: r)) = false.
Proof.
  intros Hx Hh. unfold is_next. cbn [rest].
  destruct (existsb (fun t => starts_with t (x :: r)) toks) eqn:E; [|reflexivity].
  apply existsb_exists in E as [t [Ht E]]. apply starts_with_head in E.
  unfold heads_in in Hh. rewrite forallb_forall in Hh. specialize (Hh t Ht).
  destruct t as [|y t]; [discriminate|]. subst y. congruence.
Qed.

Lemma is_next_nil toks d : is_next toks (mkcur d []) = true -> existsb (fun t => match t with [] => true | _ => false end) toks = true.
Proof.
  unfold is_next. cbn [rest]. intro H. apply existsb_exists in H as [t [Ht H]]. apply existsb_exists. exists t.
  split; [assumption|]. destruct t; [reflexivity | discriminate].
Qed.

(* single-character token lists *)
Lemma is_next_singles cs d x r : is_next (map single cs) (mkcur d (x :: r)) = existsb (fun c => N.eqb c x) cs.
Proof.
  unfold is_next. cbn [rest]. induction cs as [|c cs IH]; [reflexivity|].
  cbn [map existsb single starts_with]. rewrite IH, andb_true_r. reflexivity.
Qed.

Lemma is_next_singles_nil cs d : is_next (map single cs) (mkcur d []) = false.
Proof. unfold is_next. cbn [rest]. induction cs as [|c cs IH]; [reflexivity|]. cbn. exact IH. Qed.

Lemma existsb_sym (x : N) l : existsb (fun c => N.eqb c x) l = existsb (N.eqb x) l.
Proof. induction l as [|c l IH]; [reflexivity|]. cbn. rewrite IH, N.eqb_sym. reflexivity. Qed.

Lemma WS_singles : WS = map single WSCH.
Proof. reflexivity. Qed.
Lemma FILTER_singles : FILTER = map single [124; 58]%N.
Proof. reflexivity. Qed.

Lemma is_next_WS d x r : is_next WS (mkcur d (x :: r)) = is_ws x.
Proof. rewrite WS_singles, is_next_singles, existsb_sym. reflexivity. Qed.

Lemma is_next_WS_nil d : is_next WS (mkcur d []) = false.
Proof. reflexivity. Qed.

Lemma is_next_FILTER d x r : is_next FILTER (mkcur d (x :: r)) = (N.eqb x 124 || N.eqb x 58).
Proof. rewrite FILTER_singles, is_next_singles, existsb_sym. cbn. rewrite orb_false_r. reflexivity. Qed.

(* first character not white space (or the text is over) *)
Definition nows (r : str) : bool := match r with [] => true | x :: _ => negb (is_ws x) end.

(* ================================================================================================ *)
(* B. skip_ws, take_n, take_until                                                                    *)
(* ================================================================================================ *)
Lemma skip_ws_run : forall w d r, forallb is_ws w = true -> nows r = true ->
  skip_ws (mkcur d (w ++ r)) = mkcur (rev w ++ d) r.
Proof.
  unfold skip_ws, take_while. cbn [done rest].
  induction w as [|x w IH]; intros d r Hw Hr.
  - cbn [app rev]. destruct r as [|y r]; [reflexivity|]. cbn [take_while_go].
    change (existsb (fun t => starts_with t (y :: r)) WS) with (is_next WS (mkcur d (y :: r))).
    rewrite is_next_WS. cbn [nows] in Hr. apply negb_true_iff in Hr. rewrite Hr. reflexivity.
  - cbn [forallb] in Hw. apply andb_true_iff in Hw as [Hx Hw]. cbn [app take_while_go].
    change (existsb (fun t => starts_with t (x :: w ++ r)) WS) with (is_next WS (mkcur d (x :: w ++ r))).
    rewrite is_next_WS, Hx. specialize (IH (x :: d) r Hw Hr).
    destruct (take_while_go WS (x :: d) (w ++ r)) as [s c]. cbn [snd] in *. rewrite IH.
    cbn [rev]. rewrite <- app_assoc. reflexivity.
Qed.

Lemma skip_ws_none d r : nows r = true -> skip_ws (mkcur d r) = mkcur d r.
Proof. intro H. exact (skip_ws_run [] d r eq_refl H). Qed.

Lemma take_n_1 d a r : take_n 1 (mkcur d (a :: r)) = ([a], mkcur (a :: d) r).
Proof. reflexivity. Qed.
Lemma take_n_2 d a b r : take_n 2 (mkcur d (a :: b :: r)) = ([a; b], mkcur (b :: a :: d) r).
Proof. reflexivity. Qed.
Lemma take_n_3 d a b c r : take_n 3 (mkcur d (a :: b :: c :: r)) = ([a; b; c], mkcur (c :: b :: a :: d) r).
Proof. reflexivity. Qed.

(* take_until without an ignore token: the scanner does not stop inside t ... *)
Fixpoint clean (toks : list str) (t r : str) : bool :=
  match t with
  | [] => true
  | _ :: t' => negb (existsb (fun tk => starts_with tk (t ++ r)) toks) && clean toks t' r
  end.
(* ... and stops at r *)
Definition stops (toks : list str) (r : str) : bool :=
  match r with [] => true | _ :: _ => existsb (fun tk => starts_with tk r) toks end.

Lemma take_until_exact toks : forall t d r, clean toks t r = true -> stops toks r = true ->
  take_until toks [] (mkcur d (t ++ r)) = (t, mkcur (rev t ++ d) r).
Proof.
  unfold take_until. cbn [done rest].
  induction t as [|x t IH]; intros d r Hc Hs.
  - cbn [app rev]. destruct r as [|y r]; [reflexivity|]. cbn [take_until_go ign_match fold_left].
    cbn [stops] in Hs. rewrite Hs. reflexivity.
  - cbn [clean] in Hc. apply andb_true_iff in Hc as [Hx Hc]. apply negb_true_iff in Hx.
    cbn [app take_until_go ign_match fold_left]. cbn [app] in Hx. rewrite Hx.
    rewrite (IH (x :: d) r Hc Hs). cbn [rev]. rewrite <- app_assoc. reflexivity.
Qed.

(* single-character stop tokens *)
Lemma clean_singles cs : forall t r, forallb (fun x => negb (existsb (N.eqb x) cs)) t = true ->
  clean (map single cs) t r = true.
Proof.
  induction t as [|x t IH]; intros r H; [reflexivity|]. cbn [forallb] in H. apply andb_true_iff in H as [Hx H].
  cbn [clean]. rewrite (IH r H), andb_true_r. cbn [app].
  change (existsb (fun tk => starts_with tk (x :: t ++ r)) (map single cs))
    with (is_next (map single cs) (mkcur [] (x :: t ++ r))).
  rewrite is_next_singles, existsb_sym. exact Hx.
Qed.

Lemma stops_singles cs r :
  match r with [] => true | y :: _ => existsb (N.eqb y) cs end = true -> stops (map single cs) r = true.
Proof.
  destruct r as [|y r]; [reflexivity|]. intro H. cbn [stops].
  change (existsb (fun tk => starts_with tk (y :: r)) (map single cs)) with (is_next (map single cs) (mkcur [] (y :: r))).
  rewrite is_next_singles, existsb_sym. exact H.
Qed.

(* the quoted body: take_until([q], ignore=[backslash backslash, backslash q]) *)
Lemma ign_match_2 (q : N) (r : str) :
  ign_match [[92; 92]; [92; q]]%N r
  = if starts_with [92; q]%N r then 2 else if starts_with [92; 92]%N r then 2 else 0.
Proof. reflexivity. Qed.

Lemma take_until_body q : q <> 92%N -> forall n b d r, length b <= n -> body_ok q b = true ->
  take_until [[q]] [[cBSL; cBSL]; [cBSL; q]] (mkcur d (b ++ q :: r)) = (b, mkcur (rev b ++ d) (q :: r)).
Proof.
  intro Hq. unfold take_until, cBSL. cbn [done rest].
  assert (Hq' : N.eqb 92 q = false) by (apply N.eqb_neq; congruence).
  assert (Hq'' : N.eqb q 92 = false) by (apply N.eqb_neq; congruence).
  assert (Hstop : forall d r, take_until_go [[q]] [[92; 92]; [92; q]]%N 0 d (q :: r) = ([], mkcur d (q :: r))).
  { intros d0 r0. cbn [take_until_go]. rewrite ign_match_2. cbn [starts_with]. rewrite Hq'. cbn [andb].
    cbn [existsb starts_with]. rewrite N.eqb_refl. reflexivity. }
  induction n as [|n IH]; intros b d r Hl Hb.
  - destruct b; [|cbn in Hl; lia]. cbn [app rev]. apply Hstop.
  - destruct b as [|x b]; [cbn [app rev]; apply Hstop|].
    cbn [body_ok] in Hb. cbn [length] in Hl.
    destruct (N.eqb_spec x q) as [E|Exq]; [discriminate|].
    cbn [app take_until_go]. rewrite ign_match_2. cbn [starts_with].
    destruct (N.eqb_spec x 92) as [E92|E92].
    + subst x. rewrite N.eqb_refl. destruct b as [|y b]; [discriminate|].
      cbn [app andb].
      destruct (N.eqb_spec y q) as [Eyq|Eyq]; [|destruct (N.eqb_spec y 92) as [Ey9|Ey9]].
      * subst y. rewrite N.eqb_refl. cbn [andb orb] in *. cbn [take_until_go].
        cbn [length] in Hl. rewrite (IH b (q :: 92%N :: d) r ltac:(lia) Hb).
        cbn [rev]. rewrite <- !app_assoc. reflexivity.
      * subst y. rewrite Hq'', N.eqb_refl. cbn [andb orb] in *. cbn [take_until_go].
        cbn [length] in Hl. rewrite (IH b (92%N :: 92%N :: d) r ltac:(lia) Hb).
        cbn [rev]. rewrite <- !app_assoc. reflexivity.
      * replace (N.eqb q y) with false by (symmetry; apply N.eqb_neq; congruence).
        replace (N.eqb 92 y) with false by (symmetry; apply N.eqb_neq; congruence). cbn [andb orb] in *.
        cbn [existsb starts_with]. rewrite Hq''. cbn [andb orb].
        pose proof (IH (y :: b) (92%N :: d) r ltac:(cbn [length] in *; lia) Hb) as IH'.
        cbn [app] in IH'. rewrite IH'. cbn [rev]. rewrite <- !app_assoc. reflexivity.
    + replace (N.eqb 92 x) with false by (symmetry; apply N.eqb_neq; congruence). cbn [andb].
      cbn [existsb starts_with]. replace (N.eqb q x) with false by (symmetry; apply N.eqb_neq; congruence).
      cbn [andb orb]. rewrite (IH b (x :: d) r ltac:(lia) Hb). cbn [rev]. rewrite <- !app_assoc. reflexivity.
Qed.

(* ================================================================================================ *)
(* C. keys                                                                                           *)
(* ================================================================================================ *)
Lemma starts_with_sep : forall tk s c r, existsb (N.eqb c) tk = false -> starts_with tk (s ++ c :: r) = starts_with tk s.
Proof.
  induction tk as [|a tk IH]; intros s c r H; [reflexivity|].
  cbn [existsb] in H. apply orb_false_iff in H as [Ha H].
  destruct s as [|y s]; cbn [app starts_with].
  - rewrite N.eqb_sym, Ha. reflexivity.
  - rewrite (IH s c r H). reflexivity.
Qed.

Lemma head_neq x big c : existsb (N.eqb x) big = false -> existsb (N.eqb c) big = true -> N.eqb c x = false.
Proof.
  intros Hx Hc. destruct (N.eqb_spec c x) as [E|E]; [|reflexivity]. subst. congruence.
Qed.

Lemma key_char_not x c : key_char x = true -> existsb (N.eqb c) (WSCH ++ KEY_SPECIALS) = true -> N.eqb c x = false.
Proof. unfold key_char. intros Hx Hc. apply negb_true_iff in Hx. eapply head_neq; eauto. Qed.

Lemma contains_cons p x s : contains p (x :: s) = false -> starts_with p (x :: s) = false /\ contains p s = false.
Proof. cbn [contains]. intro H. apply orb_false_iff in H. exact H. Qed.

Lemma key_no_stop x k r : key_char x = true -> forallb key_char k = true -> contains [46; 46; 46]%N (x :: k) = false ->
  existsb (fun tk => starts_with tk (x :: k ++ 61%N :: r)) KEY_STOP = false.
Proof.
  intros Hx Hk Hd.
  assert (Hq : forall q, q = 34%N \/ q = 39%N ->
               starts_with [95; 40; q]%N (x :: k ++ 61%N :: r) = false).
  { intros q Hq. change (x :: k ++ 61%N :: r) with ((x :: k) ++ 61%N :: r).
    rewrite starts_with_sep by (destruct Hq as [->| ->]; reflexivity).
    destruct k as [|y [|z k]]; cbn [starts_with]; rewrite ?andb_false_r; try reflexivity.
    cbn [forallb] in Hk. apply andb_true_iff in Hk as [_ Hk]. apply andb_true_iff in Hk as [Hz _].
    rewrite (key_char_not z q Hz) by (destruct Hq as [->| ->]; reflexivity). rewrite ?andb_false_r. reflexivity. }
  assert (Hdots : starts_with [46; 46; 46]%N (x :: k ++ 61%N :: r) = false).
  { change (x :: k ++ 61%N :: r) with ((x :: k) ++ 61%N :: r). rewrite starts_with_sep by reflexivity.
    apply contains_cons in Hd. apply Hd. }
  unfold KEY_STOP, SPREAD, WS. cbn [app existsb].
  rewrite (Hq 34%N (or_introl eq_refl)), (Hq 39%N (or_intror eq_refl)), Hdots.
  cbn [starts_with].
  repeat match goal with
         | |- context [N.eqb ?c x] => rewrite (key_char_not x c Hx eq_refl)
         end.
  reflexivity.
Qed.

Lemma key_clean : forall k r, forallb key_char k = true -> contains [46; 46; 46]%N k = false ->
  clean KEY_STOP k (61%N :: r) = true.
Proof.
  induction k as [|x k IH]; intros r Hk Hd; [reflexivity|].
  cbn [forallb] in Hk. apply andb_true_iff in Hk as [Hx Hk].
  cbn [clean app]. rewrite (key_no_stop x k r Hx Hk Hd). cbn [negb andb].
  apply IH; [exact Hk|]. apply contains_cons in Hd. apply Hd.
Qed.

Lemma existsb_sub {A} (f : A -> bool) small big :
  (forall a, In a small -> In a big) -> existsb f big = false -> existsb f small = false.
Proof.
  intros Hi Hb. destruct (existsb f small) eqn:E; [|reflexivity].
  apply existsb_exists in E as [a [Ha E]]. rewrite <- Hb. symmetry. apply existsb_exists. exists a. auto.
Qed.

Lemma VALUE_START_sub : forall a, In a VALUE_START -> In a KEY_STOP.
Proof. intros a H. cbv [VALUE_START KEY_STOP SPREAD WS app In] in *. intuition. Qed.

Lemma key_ok_parts k : key_ok k = true ->
  exists x k', k = x :: k' /\ x <> 58%N /\ key_char x = true /\ forallb key_char k' = true
               /\ contains [46; 46; 46]%N k = false.
Proof.
  destruct k as [|x k]; [discriminate|]. cbn [key_ok]. intro H.
  apply andb_true_iff in H as [H H3]. apply andb_true_iff in H as [H1 H2].
  cbn [forallb] in H2. apply andb_true_iff in H2 as [Hx Hk].
  exists x, k. repeat split; auto.
  - apply negb_true_iff, N.eqb_neq in H1. exact H1.
  - apply negb_true_iff in H3. exact H3.
Qed.

(* `key=`: the key is taken whole and the cursor ends after the `=` *)
Lemma parse_key_kw k d r : key_ok k = true ->
  parse_key (mkcur d (k ++ 61%N :: r)) = KKey (Some k) (mkcur (61%N :: rev k ++ d) r).
Proof.
  intro Hk. destruct (key_ok_parts k Hk) as (x & k' & -> & Hx58 & Hx & Hk' & Hd).
  unfold parse_key.
  assert (Hns : existsb (fun tk => starts_with tk (x :: k' ++ 61%N :: r)) KEY_STOP = false)
    by (apply key_no_stop; auto).
  assert (Hvs : is_next VALUE_START (mkcur d ((x :: k') ++ 61%N :: r)) = false).
  { unfold is_next. cbn [rest app]. eapply existsb_sub; [apply VALUE_START_sub | exact Hns]. }
  rewrite Hvs.
  rewrite (take_until_exact KEY_STOP (x :: k') d (61%N :: r)).
  - cbn [rev]. unfold is_next. cbn [rest existsb starts_with]. rewrite N.eqb_refl. cbn [andb orb negb].
    unfold add_token. cbn [rev app done rest length skipn]. reflexivity.
  - apply key_clean; [cbn [forallb]; rewrite Hx, Hk'; reflexivity | exact Hd].
  - reflexivity.
Qed.

(* a positional value: whatever the key scan consumed, it did not end at an `=`, so the cursor is restored *)
Definition stopper (y : N) : bool := is_ws y || N.eqb y 124.

Lemma stopper_stops y r : stopper y = true -> existsb (fun tk => starts_with tk (y :: r)) KEY_STOP = true.
Proof.
  unfold stopper. intro H. apply orb_true_iff in H as [H|H].
  - apply is_ws_cases in H. destruct H as [->|[->|[->|[->| ->]]]]; reflexivity.
  - apply N.eqb_eq in H. subst. reflexivity.
Qed.

Lemma take_until_no_eq : forall t d r,
  forallb (fun x => negb (N.eqb x 61)) t = true ->
  match r with [] => true | y :: _ => stopper y end = true ->
  is_next [[61%N]] (snd (take_until_go KEY_STOP [] O d (t ++ r))) = false.
Proof.
  induction t as [|x t IH]; intros d r Ht Hr.
  - cbn [app]. destruct r as [|y r]; [reflexivity|]. cbn [take_until_go ign_match fold_left].
    rewrite (stopper_stops y r Hr). cbn [snd]. unfold is_next. cbn [rest existsb starts_with].
    destruct (N.eqb_spec 61 y) as [E|E]; [|reflexivity]. subst y. discriminate.
  - cbn [forallb] in Ht. apply andb_true_iff in Ht as [Hx Ht]. cbn [app take_until_go ign_match fold_left].
    destruct (existsb (fun t0 => starts_with t0 (x :: t ++ r)) KEY_STOP).
    + cbn [snd]. unfold is_next. cbn [rest existsb starts_with].
      apply negb_true_iff in Hx. rewrite N.eqb_sym, Hx. reflexivity.
    + specialize (IH (x :: d) r Ht Hr). destruct (take_until_go KEY_STOP [] 0 (x :: d) (t ++ r)). exact IH.
Qed.

Definition no_eq_word (s : str) : Prop :=
  exists t r, s = t ++ r /\ forallb (fun x => negb (N.eqb x 61)) t = true
              /\ match r with [] => true | y :: _ => stopper y end = true.

Lemma parse_key_pos d x s : no_eq_word (x :: s) -> parse_key (mkcur d (x :: s)) = KKey None (mkcur d (x :: s)).
Proof.
  intros (t & r & E & Ht & Hr). unfold parse_key.
  destruct (is_next VALUE_START (mkcur d (x :: s))); [reflexivity|].
  pose proof (take_until_no_eq t d r Ht Hr) as Hn. rewrite <- E in Hn.
  unfold take_until. cbn [done rest].
  destruct (take_until_go KEY_STOP [] 0 d (x :: s)) as [k c2] eqn:Eg. cbn [snd] in Hn. rewrite Hn.
  cbn [negb]. destruct k as [|? ?]; [|reflexivity].
  (* nothing consumed: the cursor did not move, and the text is not over *)
  cbn [take_until_go ign_match fold_left] in Eg.
  destruct (existsb (fun t0 => starts_with t0 (x :: s)) KEY_STOP).
  - inversion Eg; subst. reflexivity.
  - destruct (take_until_go KEY_STOP [] 0 (x :: d) s). discriminate.
Qed.

(* ================================================================================================ *)
(* D. extract_spread, scan_value, mk_part                                                            *)
(* ================================================================================================ *)
Lemma es_none ty f key d x r : existsb (N.eqb x) [42; 46]%N = false ->
  extract_spread ty f key (mkcur d (x :: r)) = Ok (None, mkcur d (x :: r)).
Proof.
  intro H. unfold extract_spread. rewrite (is_next_false_by_head SPREAD [42; 46]%N d x r H eq_refl). reflexivity.
Qed.

Lemma es_star key d w r : forallb is_ws w = true -> nows r = true ->
  match r with [] => true | y :: _ => negb (N.eqb y 42) end = true ->
  extract_spread TList None key (mkcur d (42%N :: w ++ r)) = Ok (Some SpStar, mkcur (rev w ++ 42%N :: d) r).
Proof.
  intros Hw Hr H42. unfold extract_spread.
  assert (H2 : is_next [[42; 42]%N] (mkcur d (42%N :: w ++ r)) = false).
  { unfold is_next. cbn [rest existsb starts_with]. rewrite N.eqb_refl. cbn [andb].
    destruct w as [|y w]; cbn [app].
    - destruct r as [|y r]; [reflexivity|]. apply negb_true_iff in H42. rewrite N.eqb_sym, H42. reflexivity.
    - cbn [forallb] in Hw. apply andb_true_iff in Hw as [Hy _]. apply is_ws_cases in Hy.
      destruct Hy as [->|[->|[->|[->| ->]]]]; reflexivity. }
  rewrite H2.
  replace (is_next SPREAD (mkcur d (42%N :: w ++ r))) with true by reflexivity.
  replace (is_next [[46; 46; 46]%N] (mkcur d (42%N :: w ++ r))) with false by reflexivity.
  replace (is_next [[42%N]] (mkcur d (42%N :: w ++ r))) with true by reflexivity.
  cbn [stype_eqb is_some andb spread_str length]. rewrite take_n_1. cbn [snd].
  rewrite (skip_ws_run w (42%N :: d) r Hw Hr). reflexivity.
Qed.

Lemma es_star2 key d w r : forallb is_ws w = true -> nows r = true ->
  extract_spread TDict None key (mkcur d (42%N :: 42%N :: w ++ r)) = Ok (Some SpStar2, mkcur (rev w ++ 42%N :: 42%N :: d) r).
Proof.
  intros Hw Hr. unfold extract_spread.
  replace (is_next SPREAD (mkcur d (42%N :: 42%N :: w ++ r))) with true by reflexivity.
  replace (is_next [[46; 46; 46]%N] (mkcur d (42%N :: 42%N :: w ++ r))) with false by reflexivity.
  replace (is_next [[42; 42]%N] (mkcur d (42%N :: 42%N :: w ++ r))) with true by reflexivity.
  cbn [stype_eqb is_some andb spread_str length]. rewrite take_n_2. cbn [snd].
  rewrite (skip_ws_run w (42%N :: 42%N :: d) r Hw Hr). reflexivity.
Qed.

Lemma es_dots d y r : is_ws y = false ->
  extract_spread TSimple None None (mkcur d (46%N :: 46%N :: 46%N :: y :: r))
  = Ok (Some SpDots, mkcur (46%N :: 46%N :: 46%N :: d) (y :: r)).
Proof.
  intro Hy. unfold extract_spread.
  replace (is_next SPREAD (mkcur d (46%N :: 46%N :: 46%N :: y :: r))) with true by reflexivity.
  replace (is_next [[46; 46; 46]%N] (mkcur d (46%N :: 46%N :: 46%N :: y :: r))) with true by reflexivity.
  cbn [stype_eqb is_some andb spread_str length]. rewrite take_n_3. cbn [snd].
  rewrite is_next_WS, Hy. unfold at_end. cbn [rest orb]. reflexivity.
Qed.

(* --- one value part --- *)
Definition atom_value (a : atom) : str := match a with AVar t => t | AStr _ b | ATrans _ b => b end.
Definition atom_quote (a : atom) : option N := match a with AVar _ => None | AStr q _ | ATrans q _ => Some q end.
Definition atom_tr (a : atom) : bool := match a with ATrans _ _ => true | _ => false end.

(* what may follow a plain token: nothing, white space, a filter character, a terminal of the container *)
Definition follow (tcs : list N) (r : str) : bool :=
  match r with [] => true | y :: _ => existsb (N.eqb y) (WSCH ++ [124; 58]%N ++ tcs) end.
Definition tcs_ok (tcs : list N) : bool := forallb (fun c => existsb (N.eqb c) (WSCH ++ SPECIALS)) tcs.

Lemma tok_ok_parts t : tok_ok t = true ->
  exists x t', t = x :: t' /\ existsb (N.eqb x) (46%N :: 95%N :: WSCH ++ SPECIALS) = false
               /\ forallb var_char t = true.
Proof.
  destruct t as [|x t]; [discriminate|]. cbn [tok_ok]. intro H.
  apply andb_true_iff in H as [H H3]. apply andb_true_iff in H as [H1 H2].
  exists x, t. split; [reflexivity|]. split; [|exact H3].
  cbn [forallb] in H3. apply andb_true_iff in H3 as [Hx _]. unfold var_char in Hx. apply negb_true_iff in Hx.
  cbn [existsb]. apply negb_true_iff in H1, H2. rewrite H1, H2. exact Hx.
Qed.

Lemma var_chars_clean tcs t r : tcs_ok tcs = true -> forallb var_char t = true ->
  clean (map single (WSCH ++ [124; 58]%N ++ tcs)) t r = true.
Proof.
  intros Htc Ht. apply clean_singles. rewrite forallb_forall in *. intros x Hx. specialize (Ht x Hx).
  unfold var_char in Ht. apply negb_true_iff in Ht. apply negb_true_iff.
  eapply existsb_incl; [exact Ht|]. rewrite !forallb_app. rewrite andb_true_iff. split; [reflexivity|].
  rewrite andb_true_iff. split; [reflexivity | exact Htc].
Qed.

Lemma scan_value_var tcs t d r : tcs_ok tcs = true -> tok_ok t = true -> follow tcs r = true ->
  scan_value (map single tcs) (mkcur d (t ++ r)) = Ok (t, None, false, mkcur (rev t ++ d) r).
Proof.
  intros Htc Ht Hf. destruct (tok_ok_parts t Ht) as (x & t' & -> & Hx & Hv).
  unfold scan_value. cbn [app].
  rewrite (is_next_false_by_head [[39]; [34]; [95; 40]]%N (46%N :: 95%N :: WSCH ++ SPECIALS) d x (t' ++ r) Hx eq_refl).
  rewrite WS_singles, FILTER_singles, <- !map_app.
  change (x :: t' ++ r) with ((x :: t') ++ r).
  rewrite (take_until_exact _ (x :: t') d r); [reflexivity | apply var_chars_clean; assumption |].
  apply stops_singles. exact Hf.
Qed.

Lemma quote_cases q : quote_ok q = true -> q = 39%N \/ q = 34%N.
Proof. unfold quote_ok. rewrite orb_true_iff, !N.eqb_eq. tauto. Qed.

Lemma scan_value_str terms q b d r : quote_ok q = true -> body_ok q b = true ->
  scan_value terms (mkcur d (q :: b ++ q :: r)) = Ok (b, Some q, false, mkcur (q :: rev b ++ q :: d) r).
Proof.
  intros Hq Hb. unfold scan_value.
  assert (Hq92 : q <> 92%N) by (destruct (quote_cases q Hq) as [->| ->]; discriminate).
  replace (is_next [[39]; [34]; [95; 40]]%N (mkcur d (q :: b ++ q :: r))) with true
    by (destruct (quote_cases q Hq) as [->| ->]; reflexivity).
  replace (is_next [[95; 40]%N] (mkcur d (q :: b ++ q :: r))) with false
    by (destruct (quote_cases q Hq) as [->| ->]; reflexivity).
  rewrite take_n_1. cbn beta iota zeta. rw (take_until_body q Hq92 (length b) b (q :: d) r (le_n _) Hb).
  cbn beta iota zeta.
  unfold is_next. cbn [rest existsb starts_with]. rewrite N.eqb_refl. cbn [andb orb].
  unfold add_token. cbn [rev app done rest length skipn]. reflexivity.
Qed.

Lemma scan_value_trans terms q b wa wb d r : quote_ok q = true -> body_ok q b = true ->
  forallb is_ws wa = true -> forallb is_ws wb = true ->
  scan_value terms (mkcur d (95%N :: 40%N :: wa ++ q :: b ++ q :: wb ++ 41%N :: r))
  = Ok (b, Some q, true, mkcur (41%N :: rev wb ++ q :: rev b ++ q :: rev wa ++ 40%N :: 95%N :: d) r).
Proof.
  intros Hq Hb Hwa Hwb. unfold scan_value.
  assert (Hq92 : q <> 92%N) by (destruct (quote_cases q Hq) as [->| ->]; discriminate).
  assert (Hqw : is_ws q = false) by (destruct (quote_cases q Hq) as [->| ->]; reflexivity).
  replace (is_next [[39]; [34]; [95; 40]]%N (mkcur d (95%N :: 40%N :: wa ++ q :: b ++ q :: wb ++ 41%N :: r)))
    with true by reflexivity.
  replace (is_next [[95; 40]%N] (mkcur d (95%N :: 40%N :: wa ++ q :: b ++ q :: wb ++ 41%N :: r)))
    with true by reflexivity.
  rewrite take_n_2. cbn [snd]. cbn beta iota zeta.
  rewrite (skip_ws_run wa (40%N :: 95%N :: d) (q :: b ++ q :: wb ++ 41%N :: r) Hwa)
    by (cbn [nows]; rewrite Hqw; reflexivity).
  rewrite take_n_1. cbn beta iota zeta.
  rw (take_until_body q Hq92 (length b) b (q :: rev wa ++ 40%N :: 95%N :: d) (wb ++ 41%N :: r) (le_n _) Hb).
  cbn beta iota zeta.
  unfold is_next. cbn [rest existsb starts_with]. rewrite N.eqb_refl. cbn [andb orb].
  unfold add_token. cbn [rev app done rest length skipn].
  rewrite (skip_ws_run wb _ (41%N :: r) Hwb eq_refl). rewrite take_n_1. reflexivity.
Qed.

Lemma filter_ws_all s : forallb is_ws (filter is_ws s) = true.
Proof.
  induction s as [|x s IH]; [reflexivity|]. cbn [filter].
  destruct (is_ws x) eqn:E; [cbn [forallb]; rewrite E; exact IH | exact IH].
Qed.
Lemma w0_ws lay i : forallb is_ws (w0 lay i) = true.
Proof. apply filter_ws_all. Qed.
Lemma w1_ws lay i : forallb is_ws (w1 lay i) = true.
Proof. unfold w1. pose proof (filter_ws_all (lay [i])). destruct (filter is_ws (lay [i])); [reflexivity | assumption]. Qed.
Lemma w1_cons lay i : exists y w, w1 lay i = y :: w /\ is_ws y = true /\ forallb is_ws w = true.
Proof.
  pose proof (w1_ws lay i) as H. unfold w1 in *. destruct (filter is_ws (lay [i])) as [|y w].
  - exists 32%N, []. auto.
  - cbn [forallb] in H. apply andb_true_iff in H as [Hy Hw]. exists y, w. auto.
Qed.

Lemma scan_value_atom tcs lay a d r : tcs_ok tcs = true -> atom_ok a = true -> follow tcs r = true ->
  scan_value (map single tcs) (mkcur d (print_atom lay a ++ r))
  = Ok (atom_value a, atom_quote a, atom_tr a, mkcur (rev (print_atom lay a) ++ d) r).
Proof.
  intros Htc Ha Hf. destruct a as [t|q b|q b]; cbn [atom_ok print_atom atom_value atom_quote atom_tr] in *.
  - apply scan_value_var; assumption.
  - apply andb_true_iff in Ha as [Hq Hb]. unfold quoted. norm_app.
    rewrite (scan_value_str _ q b d r Hq Hb). norm_rev. reflexivity.
  - apply andb_true_iff in Ha as [Hq Hb]. unfold quoted. norm_app.
    rewrite (scan_value_trans _ q b (w0 lay 0) (w0 lay 1) d r Hq Hb (w0_ws _ _) (w0_ws _ _)).
    norm_rev. reflexivity.
Qed.

Lemma mk_part_atom a sp f :
  (atom_tr a = true -> sp = None) -> (sp <> None -> f = None) -> (f = None \/ f = Some 124%N \/ f = Some 58%N) ->
  mk_part (atom_value a) (atom_quote a) sp (atom_tr a) f = Ok (part_of_atom a sp f).
Proof.
  intros Ht Hs Hf. unfold mk_part.
  assert (E1 : atom_tr a && negb (is_some (atom_quote a)) = false) by (destruct a; reflexivity).
  rewrite E1.
  assert (E2 : atom_tr a && is_some sp = false).
  { destruct (atom_tr a); [rewrite (Ht eq_refl)|]; reflexivity. }
  rewrite E2.
  assert (E3 : is_some sp && is_some f = false).
  { destruct sp; [rewrite (Hs ltac:(discriminate))|]; reflexivity. }
  rewrite E3.
  destruct Hf as [->|[->| ->]]; destruct a; reflexivity.
Qed.

(* ================================================================================================ *)
(* E. surplus fuel does not change a result                                                          *)
(* ================================================================================================ *)
Lemma parts_loop_mono : forall f ty meta key c parts first rsp r,
  parts_loop f ty meta key c parts first rsp = r -> r <> OutOfFuel ->
  parts_loop (S f) ty meta key c parts first rsp = r.
Proof.
  induction f as [|f IH]; intros ty meta key c parts first rsp r H Hr.
  - cbn in H. subst. congruence.
  - remember (S f) as f1 eqn:Ef. rewrite Ef in H. cbn [parts_loop] in H |- *.
    repeat match type of H with
           | context [match ?x with _ => _ end] => destruct x eqn:?
           end;
    try exact H; subst f1; apply IH; assumption.
Qed.

Lemma parts_loop_more g : forall f ty meta key c parts first rsp r,
  parts_loop f ty meta key c parts first rsp = r -> r <> OutOfFuel ->
  parts_loop (g + f) ty meta key c parts first rsp = r.
Proof. induction g as [|g IH]; intros; [assumption|]. cbn [plus]. apply parts_loop_mono; auto. Qed.

Lemma parts_loop_det f1 f2 ty meta key c parts first rsp r1 r2 :
  parts_loop f1 ty meta key c parts first rsp = r1 -> r1 <> OutOfFuel ->
  parts_loop f2 ty meta key c parts first rsp = r2 -> r2 <> OutOfFuel -> r1 = r2.
Proof.
  intros H1 N1 H2 N2. destruct (Nat.le_ge_cases f1 f2) as [L|L].
  - pose proof (parts_loop_more (f2 - f1) _ _ _ _ _ _ _ _ _ H1 N1) as H. replace (f2 - f1 + f1) with f2 in H by lia. congruence.
  - pose proof (parts_loop_more (f1 - f2) _ _ _ _ _ _ _ _ _ H2 N2) as H. replace (f1 - f2 + f2) with f1 in H by lia. congruence.
Qed.

Lemma stack_loop_mono : forall f key c st tot r,
  stack_loop f key c st tot = r -> r <> OutOfFuel -> stack_loop (S f) key c st tot = r.
Proof.
  induction f as [|f IH]; intros key c st tot r H Hr; destruct st as [|top below].
  - exact H.
  - cbn in H. subst. congruence.
  - exact H.
  - remember (S f) as f1 eqn:Ef. rewrite Ef in H. cbn [stack_loop] in H |- *.
    destruct (stack_step key c top below tot); try exact H. subst f1. apply IH; assumption.
Qed.

Lemma stack_loop_more g : forall f key c st tot r,
  stack_loop f key c st tot = r -> r <> OutOfFuel -> stack_loop (g + f) key c st tot = r.
Proof. induction g as [|g IH]; intros; [assumption|]. cbn [plus]. apply stack_loop_mono; auto. Qed.

Lemma stack_loop_det f1 f2 key c st tot r1 r2 :
  stack_loop f1 key c st tot = r1 -> r1 <> OutOfFuel ->
  stack_loop f2 key c st tot = r2 -> r2 <> OutOfFuel -> r1 = r2.
Proof.
  intros H1 N1 H2 N2. destruct (Nat.le_ge_cases f1 f2) as [L|L].
  - pose proof (stack_loop_more (f2 - f1) _ _ _ _ _ _ H1 N1) as H. replace (f2 - f1 + f1) with f2 in H by lia. congruence.
  - pose proof (stack_loop_more (f1 - f2) _ _ _ _ _ _ H2 N2) as H. replace (f1 - f2 + f2) with f1 in H by lia. congruence.
Qed.

Lemma attrs_loop_mono : forall f c attrs r,
  attrs_loop f c attrs = r -> r <> OutOfFuel -> attrs_loop (S f) c attrs = r.
Proof.
  induction f as [|f IH]; intros c attrs r H Hr.
  - cbn in H. destruct (at_end c) eqn:E; [cbn [attrs_loop]; rewrite E; exact H | subst; congruence].
  - remember (S f) as f1 eqn:Ef. rewrite Ef in H. cbn [attrs_loop] in H |- *.
    repeat match type of H with
           | context [match ?x with _ => _ end] => destruct x eqn:?
           end;
    try exact H; subst f1; apply IH; assumption.
Qed.

Lemma attrs_loop_more g : forall f c attrs r,
  attrs_loop f c attrs = r -> r <> OutOfFuel -> attrs_loop (g + f) c attrs = r.
Proof. induction g as [|g IH]; intros; [assumption|]. cbn [plus]. apply attrs_loop_mono; auto. Qed.

Lemma attrs_loop_det f1 f2 c attrs r1 r2 :
  attrs_loop f1 c attrs = r1 -> r1 <> OutOfFuel -> attrs_loop f2 c attrs = r2 -> r2 <> OutOfFuel -> r1 = r2.
Proof.
  intros H1 N1 H2 N2. destruct (Nat.le_ge_cases f1 f2) as [L|L].
  - pose proof (attrs_loop_more (f2 - f1) _ _ _ _ H1 N1) as H. replace (f2 - f1 + f1) with f2 in H by lia. congruence.
  - pose proof (attrs_loop_more (f1 - f2) _ _ _ _ H2 N2) as H. replace (f1 - f2 + f2) with f1 in H by lia. congruence.
Qed.

(* ================================================================================================ *)
(* F. the filter-parts loop on a printed leaf                                                        *)
(* ================================================================================================ *)
(* the position of a value: top level of the tag / list item / dict key (or `**` spread) / dict value *)
Inductive vctx := CTop | CList | CDictKey | CDictVal.
Definition ctx_tcs (cx : vctx) : list N :=
  match cx with CTop => [] | CList => [44; 93] | CDictKey => [58; 44; 125] | CDictVal => [44; 125] end%N.
Definition ctx_match (cx : vctx) (ty : stype) (meta : option bool) : Prop :=
  match cx with
  | CTop => ty = TSimple
  | CList => ty = TList
  | CDictKey => ty = TDict /\ meta = Some true
  | CDictVal => ty = TDict /\ meta = Some false
  end.
Definition colon_ctx (cx : vctx) : bool := match cx with CDictKey => true | _ => false end.

Lemma ctx_tcs_ok cx : tcs_ok (ctx_tcs cx) = true.
Proof. destruct cx; reflexivity. Qed.

Lemma ctx_terminals cx ty meta sp : ctx_match cx ty meta -> (cx = CDictVal -> sp = None) ->
  terminal_tokens ty meta sp = Ok (map single (ctx_tcs cx)).
Proof.
  destruct cx; cbn [ctx_match]; intros H Hs.
  - subst; reflexivity.
  - subst; reflexivity.
  - destruct H as [-> ->]; reflexivity.
  - destruct H as [-> ->]. rewrite (Hs eq_refl). reflexivity.
Qed.

(* what ends a leaf: at the top level the end of the text or white space followed by something that is not a
   filter character; inside a container one of its terminals *)
Definition end_ok (cx : vctx) (w r : str) : bool :=
  match cx with
  | CTop => nows r && match r with [] => true | y :: _ => negb (N.eqb y 124 || N.eqb y 58) end
            && match w with [] => match r with [] => true | _ => false end | _ => true end
  | _ => match r with [] => false | y :: _ => existsb (N.eqb y) (ctx_tcs cx) end
  end.

Ltac term_cases H :=
  cbn [ctx_tcs existsb] in H; rewrite ?orb_true_iff, ?N.eqb_eq in H;
  repeat (destruct H as [H|H]; [subst|]); try discriminate; try subst.

Lemma end_ok_nows cx w r : end_ok cx w r = true -> nows r = true.
Proof.
  destruct cx; cbn [end_ok].
  - intro H. apply andb_true_iff in H as [H _]. apply andb_true_iff in H as [H _]. exact H.
  - destruct r as [|y r]; [discriminate|]. intro H. cbn [nows]. term_cases H; reflexivity.
  - destruct r as [|y r]; [discriminate|]. intro H. cbn [nows]. term_cases H; reflexivity.
  - destruct r as [|y r]; [discriminate|]. intro H. cbn [nows]. term_cases H; reflexivity.
Qed.

Lemma end_ok_follow cx w r : forallb is_ws w = true -> end_ok cx w r = true -> follow (ctx_tcs cx) (w ++ r) = true.
Proof.
  intros Hw He. destruct w as [|y w].
  - cbn [app]. destruct cx; cbn [end_ok] in He.
    + destruct r; [reflexivity|]. apply andb_true_iff in He as [_ He]. discriminate.
    + destruct r as [|y r]; [discriminate|]. unfold follow. rewrite !existsb_app, He, !orb_true_r. reflexivity.
    + destruct r as [|y r]; [discriminate|]. unfold follow. rewrite !existsb_app, He, !orb_true_r. reflexivity.
    + destruct r as [|y r]; [discriminate|]. unfold follow. rewrite !existsb_app, He, !orb_true_r. reflexivity.
  - cbn [forallb] in Hw. apply andb_true_iff in Hw as [Hy _]. cbn [app follow]. rewrite existsb_app.
    unfold is_ws in Hy. rewrite Hy. reflexivity.
Qed.

(* raw parts: white space, `|` or `:`, white space, atom *)
Record rpart := mkrp { rp_pre : str; rp_tok : N; rp_mid : str; rp_atom : atom; rp_lay : layout }.
Definition rp_text (p : rpart) : str := rp_pre p ++ rp_tok p :: rp_mid p ++ print_atom (rp_lay p) (rp_atom p).
Definition rp_part (p : rpart) : part := part_of_atom (rp_atom p) None (Some (rp_tok p)).
Definition rp_ok (p : rpart) : bool :=
  forallb is_ws (rp_pre p) && forallb is_ws (rp_mid p) && atom_ok (rp_atom p)
  && (N.eqb (rp_tok p) 124 || N.eqb (rp_tok p) 58).
Definition is_pipe (f : option N) : bool := match f with Some 124%N => true | _ => false end.
Lemma is_pipe_eqb t : is_pipe (Some t) = N.eqb t 124.
Proof.
  destruct (N.eqb_spec t 124) as [->|E]; [reflexivity|]. destruct t as [|q]; [reflexivity|].
  do 7 (destruct q as [q|q|]; try reflexivity). congruence.
Qed.
Fixpoint seq_ok (prev_pipe : bool) (ps : list rpart) : bool :=
  match ps with
  | [] => true
  | p :: r => (if N.eqb (rp_tok p) 58 then prev_pipe else true) && seq_ok (N.eqb (rp_tok p) 124) r
  end.

Lemma follow_rps cx rps w r : forallb rp_ok rps = true -> forallb is_ws w = true -> end_ok cx w r = true ->
  follow (ctx_tcs cx) (concat (map rp_text rps) ++ w ++ r) = true.
Proof.
  intros Hr Hw He. destruct rps as [|p rps]; [cbn [map concat app]; apply end_ok_follow; assumption|].
  cbn [forallb] in Hr. apply andb_true_iff in Hr as [Hp _]. unfold rp_ok in Hp.
  apply andb_true_iff in Hp as [Hp Htok]. apply andb_true_iff in Hp as [Hp _]. apply andb_true_iff in Hp as [Hpre _].
  cbn [map concat]. unfold rp_text. destruct (rp_pre p) as [|y pre].
  - cbn [app follow]. rewrite !existsb_app. cbn [existsb].
    apply orb_true_iff in Htok as [E|E]; rewrite E; rewrite ?orb_true_r; reflexivity.
  - cbn [forallb] in Hpre. apply andb_true_iff in Hpre as [Hy _]. cbn [app follow]. rewrite existsb_app.
    unfold is_ws in Hy. rewrite Hy. reflexivity.
Qed.

(* the tail of one iteration of parts_loop, after the part has been scanned *)
Definition finish_part (fuel : nat) (ty : stype) (meta : option bool) (key : option str) (terms : list str)
           (c4 : cur) (parts : list part) (p : part) (rsp : option spread) : res (list part * cur * option spread) :=
  let c5 := skip_ws c4 in
  if match terms with [] => false | _ => is_next terms c5 end then Ok (parts ++ [p], c5, rsp)
  else parts_loop fuel ty meta key c5 (parts ++ [p]) false rsp.

Lemma atom_lead lay a : atom_ok a = true ->
  exists x s, print_atom lay a = x :: s /\ existsb (N.eqb x) (46%N :: WSCH ++ [124; 58; 44; 93; 125; 91; 123; 61; 42; 40; 41]%N) = false.
Proof.
  destruct a as [t|q b|q b]; cbn [atom_ok print_atom]; intro H.
  - destruct (tok_ok_parts t H) as (x & t' & -> & Hx & _). exists x, t'. split; [reflexivity|].
    eapply existsb_incl; [exact Hx | reflexivity].
  - apply andb_true_iff in H as [Hq _]. exists q, (b ++ [q]). split; [reflexivity|].
    destruct (quote_cases q Hq) as [->| ->]; reflexivity.
  - eexists _, _. split; [reflexivity | reflexivity].
Qed.

Lemma finish_parts : forall rps fuel cx ty meta key d w r parts p rsp,
  ctx_match cx ty meta -> forallb rp_ok rps = true -> seq_ok (is_pipe (p_filter p)) rps = true ->
  (colon_ctx cx = true -> forallb (fun rp => N.eqb (rp_tok rp) 124) rps = true) ->
  forallb is_ws w = true -> end_ok cx w r = true -> length rps < fuel ->
  finish_part fuel ty meta key (map single (ctx_tcs cx)) (mkcur d (concat (map rp_text rps) ++ w ++ r)) parts p rsp
  = Ok ((parts ++ [p]) ++ map rp_part rps, mkcur (rev (concat (map rp_text rps) ++ w) ++ d) r, rsp).
Proof.
  induction rps as [|rp rps IH]; intros fuel cx ty meta key d w r parts p rsp Hcx Hok Hseq Hcol Hw He Hfu.
  - cbn [map concat app]. unfold finish_part.
    rewrite (skip_ws_run w d r Hw (end_ok_nows _ _ _ He)). rewrite !app_nil_r.
    destruct cx.
    + (* top level: the loop is entered once more and stops at the end / at a non-filter character *)
      cbn [ctx_tcs map]. destruct fuel as [|fuel]; [cbn in Hfu; lia|]. cbn [parts_loop].
      cbn [end_ok] in He. apply andb_true_iff in He as [He _]. apply andb_true_iff in He as [Hn Hf].
      rewrite (skip_ws_none _ r Hn). destruct r as [|y r]; [reflexivity|].
      unfold at_end. cbn [rest negb andb]. rewrite is_next_FILTER. apply negb_true_iff in Hf. rewrite Hf. reflexivity.
    + cbn [end_ok] in He. destruct r as [|y r]; [discriminate|]. rewrite is_next_singles, existsb_sym, He. reflexivity.
    + cbn [end_ok] in He. destruct r as [|y r]; [discriminate|]. rewrite is_next_singles, existsb_sym, He. reflexivity.
    + cbn [end_ok] in He. destruct r as [|y r]; [discriminate|]. rewrite is_next_singles, existsb_sym, He. reflexivity.
  - cbn [forallb] in Hok. apply andb_true_iff in Hok as [Hrp Hok].
    pose proof Hrp as Hrp0. unfold rp_ok in Hrp.
    apply andb_true_iff in Hrp as [Hrp Htok]. apply andb_true_iff in Hrp as [Hrp Hat].
    apply andb_true_iff in Hrp as [Hpre Hmid].
    cbn [seq_ok] in Hseq. apply andb_true_iff in Hseq as [Hcolon Hseq].
    destruct fuel as [|fuel]; [cbn in Hfu; lia|]. cbn [length] in Hfu.
    destruct (atom_lead (rp_lay rp) (rp_atom rp) Hat) as (x & s & Ex & Hx).
    assert (Htokws : is_ws (rp_tok rp) = false).
    { apply orb_true_iff in Htok as [E|E]; apply N.eqb_eq in E; rewrite E; reflexivity. }
    assert (Hxws : is_ws x = false).
    { unfold is_ws. eapply existsb_incl; [exact Hx | reflexivity]. }
    (* the text: pre tok mid atom rest *)
    cbn [map concat]. unfold rp_text at 1. norm_app.
    set (rest1 := concat (map rp_text rps) ++ w ++ r).
    unfold finish_part.
    rewrite (skip_ws_run (rp_pre rp) d _ Hpre) by (cbn [nows]; rewrite Htokws; reflexivity).
    (* not a terminal *)
    assert (Hnt : match map single (ctx_tcs cx) with
                  | [] => false
                  | _ => is_next (map single (ctx_tcs cx)) (mkcur (rev (rp_pre rp) ++ d) (rp_tok rp :: rp_mid rp ++ print_atom (rp_lay rp) (rp_atom rp) ++ rest1))
                  end = false).
    { destruct (map single (ctx_tcs cx)) eqn:Em; [reflexivity|]. rewrite <- Em. rewrite is_next_singles, existsb_sym.
      destruct cx; cbn [ctx_tcs] in *; try discriminate.
      - apply orb_true_iff in Htok as [E|E]; apply N.eqb_eq in E; rewrite E; reflexivity.
      - specialize (Hcol eq_refl). cbn [forallb] in Hcol. apply andb_true_iff in Hcol as [E _].
        apply N.eqb_eq in E. rewrite E. reflexivity.
      - apply orb_true_iff in Htok as [E|E]; apply N.eqb_eq in E; rewrite E; reflexivity. }
    rewrite Hnt. cbn [parts_loop].
    rewrite skip_ws_none by (cbn [nows]; rewrite Htokws; reflexivity).
    unfold at_end. cbn [rest negb andb]. rewrite is_next_FILTER, Htok. cbn [negb andb].
    rewrite take_n_1. cbn beta iota zeta.
    rewrite (skip_ws_run (rp_mid rp) _ _ Hmid) by (rewrite Ex; cbn [app nows]; rewrite Hxws; reflexivity).
    (* `:` must follow a `|` part *)
    assert (Hr1 : (if N.eqb (rp_tok rp) 58
                   then match rev (parts ++ [p]) with
                        | [] => Err IndexError
                        | lastp :: _ => match p_filter lastp with
                                        | Some 124%N => Ok (Some (rp_tok rp), mkcur (rev (rp_mid rp) ++ rp_tok rp :: rev (rp_pre rp) ++ d) (print_atom (rp_lay rp) (rp_atom rp) ++ rest1))
                                        | _ => Err TemplateSyntaxError
                                        end
                        end
                   else Ok (Some (rp_tok rp), mkcur (rev (rp_mid rp) ++ rp_tok rp :: rev (rp_pre rp) ++ d) (print_atom (rp_lay rp) (rp_atom rp) ++ rest1)))
                  = Ok (Some (rp_tok rp), mkcur (rev (rp_mid rp) ++ rp_tok rp :: rev (rp_pre rp) ++ d) (print_atom (rp_lay rp) (rp_atom rp) ++ rest1))).
    { destruct (N.eqb (rp_tok rp) 58); [|reflexivity]. rewrite rev_app_distr. cbn [rev app].
      unfold is_pipe in Hcolon. destruct (p_filter p) as [f|]; [|discriminate].
      destruct f as [|f]; [discriminate|]. repeat (destruct f as [f|f|]; try discriminate). reflexivity. }
    rewrite Hr1. clear Hr1.
    rewrite Ex. cbn [app]. rewrite es_none by (eapply existsb_incl; [exact Hx | reflexivity]).
    assert (Hterm : terminal_tokens ty meta None = Ok (map single (ctx_tcs cx))) by (apply ctx_terminals; auto).
    rewrite Hterm.
    change (x :: s ++ rest1) with ((x :: s) ++ rest1). rewrite <- Ex.
    rewrite (scan_value_atom (ctx_tcs cx) (rp_lay rp) (rp_atom rp) _ rest1 (ctx_tcs_ok cx) Hat)
      by (apply follow_rps; assumption).
    rewrite mk_part_atom; [|reflexivity|congruence|].
    2:{ apply orb_true_iff in Htok as [E|E]; apply N.eqb_eq in E; rewrite E; auto. }
    cbn [is_some negb andb].
    replace (if stype_eqb ty TSimple && false then None else rsp) with rsp by (rewrite andb_false_r; reflexivity).
    (* the rest of the iteration is finish_part again *)
    transitivity (finish_part fuel ty meta key (map single (ctx_tcs cx))
              (mkcur (rev (print_atom (rp_lay rp) (rp_atom rp)) ++ rev (rp_mid rp) ++ rp_tok rp :: rev (rp_pre rp) ++ d) rest1)
              (parts ++ [p]) (rp_part rp) rsp); [reflexivity|].
    subst rest1. rewrite (IH fuel cx ty meta key _ w r (parts ++ [p]) (rp_part rp) rsp Hcx Hok); auto.
    + unfold rp_text. norm_rev. reflexivity.
    + assert (Ef : p_filter (rp_part rp) = Some (rp_tok rp)) by (unfold rp_part; destruct (rp_atom rp); reflexivity).
      rewrite Ef, is_pipe_eqb. exact Hseq.
    + intro Hc. specialize (Hcol Hc). cbn [forallb] in Hcol. apply andb_true_iff in Hcol as [_ Hcol]. exact Hcol.
    + lia.
Qed.

Fixpoint rps_of_filters (lay : layout) (fs : list filt) : list rpart :=
  match fs with
  | [] => []
  | f :: r =>
    mkrp (w0 lay 0) 124%N (w0 lay 1) (AVar (fst f)) lay
    :: match snd f with Some x => [mkrp (w0 lay 2) 58%N (w0 lay 3) x (sub lay 4)] | None => [] end
    ++ rps_of_filters (sub lay 5) r
  end.

Lemma rps_text : forall fs lay, concat (map rp_text (rps_of_filters lay fs)) = print_filters lay fs.
Proof.
  induction fs as [|[n a] fs IH]; intro lay; [reflexivity|].
  cbn [rps_of_filters print_filters fst snd]. destruct a as [x|]; cbn [map app concat]; rewrite IH;
    unfold rp_text; cbn [rp_pre rp_tok rp_mid rp_atom rp_lay print_atom]; norm_app; reflexivity.
Qed.

Lemma rps_parts : forall fs lay, map rp_part (rps_of_filters lay fs) = flat_map parts_of_filt fs.
Proof.
  induction fs as [|[n a] fs IH]; intro lay; [reflexivity|].
  cbn [rps_of_filters flat_map fst snd]. destruct a as [x|]; cbn [map app]; rewrite IH; reflexivity.
Qed.

Lemma rps_ok : forall fs lay, forallb filt_ok fs = true -> forallb rp_ok (rps_of_filters lay fs) = true.
Proof.
  induction fs as [|[n a] fs IH]; intros lay H; [reflexivity|].
  cbn [forallb] in H. apply andb_true_iff in H as [Hf H]. unfold filt_ok in Hf. cbn [fst snd] in Hf.
  apply andb_true_iff in Hf as [Hn Ha].
  cbn [rps_of_filters fst snd]. destruct a as [x|]; cbn [app forallb]; rewrite (IH _ H); unfold rp_ok;
    cbn [rp_pre rp_tok rp_mid rp_atom atom_ok]; rewrite !w0_ws, ?Hn, ?Ha; reflexivity.
Qed.

Lemma rps_seq : forall fs lay b, seq_ok b (rps_of_filters lay fs) = true.
Proof.
  induction fs as [|[n a] fs IH]; intros lay b; [reflexivity|].
  cbn [rps_of_filters fst snd]. destruct a as [x|]; cbn [app seq_ok rp_tok]; rewrite IH; reflexivity.
Qed.

Lemma rps_nocolon : forall fs lay,
  forallb (fun f : filt => match snd f with None => true | Some _ => false end) fs = true ->
  forallb (fun rp => N.eqb (rp_tok rp) 124) (rps_of_filters lay fs) = true.
Proof.
  induction fs as [|[n a] fs IH]; intros lay H; [reflexivity|].
  cbn [forallb snd] in H. apply andb_true_iff in H as [Ha H]. destruct a; [discriminate|].
  cbn [rps_of_filters fst snd app forallb rp_tok]. rewrite (IH _ H). reflexivity.
Qed.

Lemma rps_len : forall fs lay, length (rps_of_filters lay fs) <= 2 * length fs.
Proof.
  induction fs as [|[n a] fs IH]; intro lay; [cbn; lia|].
  cbn [rps_of_filters fst snd]. specialize (IH (sub lay 5)).
  destruct a; cbn [app length] in *; lia.
Qed.

(* the loop on a whole leaf, with an optional spread prefix `pre` that extract_spread removes *)
Lemma parts_loop_leaf cx ty meta key sp l lay d pre w r fuel rsp x0 s0 :
  ctx_match cx ty meta -> leaf_ok l = true ->
  (colon_ctx cx = true -> no_args l = true) ->
  (cx = CDictVal -> sp = None) -> (sp <> None -> spreadable l = true) ->
  pre ++ print_leaf lay l ++ w ++ r = x0 :: s0 -> is_ws x0 = false -> N.eqb x0 124 || N.eqb x0 58 = false ->
  extract_spread ty None key (mkcur d (pre ++ print_leaf lay l ++ w ++ r))
    = Ok (sp, mkcur (rev pre ++ d) (print_leaf lay l ++ w ++ r)) ->
  forallb is_ws w = true -> end_ok cx w r = true -> 2 * length (lf_filters l) + 1 < fuel ->
  parts_loop fuel ty meta key (mkcur d (pre ++ print_leaf lay l ++ w ++ r)) [] true rsp
  = Ok (parts_of_leaf sp l, mkcur (rev (pre ++ print_leaf lay l ++ w) ++ d) r,
        if stype_eqb ty TSimple then sp else rsp).
Proof.
  intros Hcx Hl Hcol Hdv Hsp Htxt Hx0 Hf0 Hes Hw He Hfu.
  destruct fuel as [|fuel]; [lia|]. cbn [parts_loop].
  rewrite skip_ws_none by (rewrite Htxt; cbn [nows]; rewrite Hx0; reflexivity).
  rewrite Hes. rewrite Htxt. unfold at_end. cbn [rest andb negb]. rewrite is_next_FILTER, Hf0.
  cbn [is_some negb andb]. rewrite andb_true_r.
  rewrite (ctx_terminals cx ty meta sp Hcx Hdv).
  unfold leaf_ok in Hl. apply andb_true_iff in Hl as [Hh Hfs].
  unfold print_leaf. norm_app.
  set (rps := rps_of_filters (sub lay 1) (lf_filters l)).
  rewrite <- (rps_text (lf_filters l) (sub lay 1)). fold rps.
  assert (Hrok : forallb rp_ok rps = true) by (apply rps_ok; exact Hfs).
  rewrite (scan_value_atom (ctx_tcs cx) (sub lay 0) (lf_head l) _ _ (ctx_tcs_ok cx) Hh)
    by (apply follow_rps; assumption).
  rewrite mk_part_atom; [| |congruence|auto].
  2:{ intro Ht. destruct sp as [s|]; [|reflexivity]. specialize (Hsp ltac:(discriminate)).
      unfold spreadable in Hsp. destruct (lf_head l); discriminate. }
  transitivity (finish_part fuel ty meta key (map single (ctx_tcs cx))
                  (mkcur (rev (print_atom (sub lay 0) (lf_head l)) ++ rev pre ++ d) (concat (map rp_text rps) ++ w ++ r))
                  [] (part_of_atom (lf_head l) sp None) (if stype_eqb ty TSimple then sp else rsp)); [reflexivity|].
  rewrite (finish_parts rps fuel cx ty meta key _ w r [] _ _ Hcx Hrok).
  - unfold parts_of_leaf. rewrite <- (rps_parts (lf_filters l) (sub lay 1)). fold rps. cbn [app].
    f_equal. f_equal. f_equal. norm_rev. reflexivity.
  - apply rps_seq.
  - intro Hc. apply rps_nocolon. apply (Hcol Hc).
  - exact Hw.
  - exact He.
  - pose proof (rps_len (lf_filters l) (sub lay 1)). fold rps in H. lia.
Qed.
