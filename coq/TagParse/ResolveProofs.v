(* Lemmas for property C02 (model: TagParse/Resolve.v on top of TagParse/Model.v; specification: TagParse/Spec.v).
   ParseProofs.v shows that parse_tag turns a printed argument list into the AST of the argument list; this file
   shows that resolving that AST gives the denotation, and puts the two together. *)
From DJC Require Import Lib.Base TagParse.Model TagParse.Proofs TagParse.Resolve TagParse.Spec TagParse.ScanLemmas
     TagParse.ParseProofs.

(* ================================================================================================ *)
(* A. the text handed to the leaf evaluator                                                          *)
(* ================================================================================================ *)
Lemma serialize_atom a sp f : (atom_tr a = true -> sp = None) ->
  serialize_part (part_of_atom a sp f)
  = match f with Some c => [c] | None => [] end ++ spread_prefix sp ++ canon_atom a.
Proof.
  intro Ht. destruct a as [t|q b|q b]; unfold serialize_part; cbn [part_of_atom p_value p_quoted p_transl p_spread p_filter quote_wrap canon_atom].
  - destruct sp, f; reflexivity.
  - unfold quoted. destruct sp, f; reflexivity.
  - rewrite (Ht eq_refl). unfold quoted. destruct f; cbn [app spread_prefix]; rewrite <- ?app_assoc; reflexivity.
Qed.

Lemma serialize_filters fs : concat (map serialize_part (flat_map parts_of_filt fs)) = concat (map canon_filt fs).
Proof.
  induction fs as [|[n a] fs IH]; [reflexivity|].
  cbn [flat_map]. rewrite map_app, concat_app, IH. cbn [map concat]. f_equal.
  unfold parts_of_filt, canon_filt. cbn [fst snd]. destruct a as [x|]; cbn [map concat].
  - rewrite (serialize_atom x None (Some 58%N)) by reflexivity. unfold serialize_part. cbn. rewrite app_nil_r. reflexivity.
  - unfold serialize_part. cbn. rewrite app_nil_r. reflexivity.
Qed.

Lemma serialize_leaf sp l : (sp <> None -> spreadable l = true) ->
  serialize_value (parts_of_leaf sp l) = spread_prefix sp ++ canon_leaf l.
Proof.
  intro Hs. unfold serialize_value, parts_of_leaf, canon_leaf. cbn [map concat].
  rewrite serialize_filters. rewrite serialize_atom.
  - cbn [app]. rewrite <- app_assoc. reflexivity.
  - intro Ht. destruct sp; [|reflexivity]. specialize (Hs ltac:(discriminate)). unfold spreadable in Hs.
    destruct (lf_head l); discriminate.
Qed.

(* leaf_text_canonical: whatever the layout was, the evaluator receives the canonical text of the leaf - the
   expression as written inside {{ }}, no white space around | and :, no spread operator *)
Lemma leaf_text_canon sp l : (sp <> None -> spreadable l = true) -> leaf_text (parts_of_leaf sp l) = canon_leaf l.
Proof.
  intro Hs. unfold leaf_text. rewrite (serialize_leaf sp l Hs). unfold parts_of_leaf. rewrite p_spread_atom.
  destruct sp as [[| |]|]; reflexivity.
Qed.

(* ================================================================================================ *)
(* B. resolving the AST of a value = its denotation                                                  *)
(* ================================================================================================ *)
Section Loops.
Variable ev : str -> rres value.
Fixpoint rlist (l : list node) (acc : list value) : rres value :=
  match l with
  | [] => ROk (VList acc)
  | x :: r =>
    match resolve_node ev x with
    | RErr k => RErr k
    | ROk v =>
      match x with
      | NStruct xty (Some _) _ _ =>
        if negb (stype_eqb xty TList) then RErr ETemplateSyntax
        else match iter_value v with Some vs => rlist r (acc ++ vs) | None => RErr EType end
      | NVal parts =>
        if value_is_spread parts
        then match iter_value v with Some vs => rlist r (acc ++ vs) | None => RErr EType end
        else rlist r (acc ++ [v])
      | _ => rlist r (acc ++ [v])
      end
    end
  end.
Fixpoint rdict (l : list node) (acc : list (value * value)) (pending : option value) : rres value :=
  match l with
  | [] => ROk (VDict acc)
  | x :: r =>
    match resolve_node ev x with
    | RErr k => RErr k
    | ROk v =>
      let is_sp := match x with NStruct _ sp _ _ => is_some sp | NVal parts => value_is_spread parts end in
      if is_sp then
        if is_some pending then RErr ETemplateSyntax
        else match dict_update_any acc v with ROk acc' => rdict r acc' pending | RErr e => RErr e end
      else
        match pending with
        | None => rdict r acc (Some v)
        | Some k => if hashable k then rdict r (dict_set k v acc) None else RErr EType
        end
    end
  end.
Lemma resolve_list sp ents m : resolve_node ev (NStruct TList sp ents m) = rlist ents [].
Proof. reflexivity. Qed.
Lemma resolve_dict sp ents m : resolve_node ev (NStruct TDict sp ents m) = rdict ents [] None.
Proof. reflexivity. Qed.

Fixpoint dlist (items : list (bool * sval)) (acc : list value) : rres value :=
  match items with
  | [] => ROk (VList acc)
  | (sp, x) :: r =>
    match den_val ev x with
    | RErr e => RErr e
    | ROk d =>
      if sp then match iter_value d with Some ds => dlist r (acc ++ ds) | None => RErr EType end
      else dlist r (acc ++ [d])
    end
  end.
Fixpoint ddict (ents : list (option leaf * sval)) (acc : list (value * value)) : rres value :=
  match ents with
  | [] => ROk (VDict acc)
  | (Some kl, x) :: r =>
    match ev (canon_leaf kl) with
    | RErr e => RErr e
    | ROk kv =>
      match den_val ev x with
      | RErr e => RErr e
      | ROk d => if hashable kv then ddict r (dict_set kv d acc) else RErr EType
      end
    end
  | (None, x) :: r =>
    match den_val ev x with
    | RErr e => RErr e
    | ROk d => match dict_update_any acc d with ROk acc' => ddict r acc' | RErr e => RErr e end
    end
  end.
Lemma den_list items : den_val ev (SList items) = dlist items [].
Proof. reflexivity. Qed.
Lemma den_dict ents : den_val ev (SDict ents) = ddict ents [].
Proof. reflexivity. Qed.
End Loops.

Definition sp_ok (sp : option spread) (v : sval) : Prop :=
  sp <> None -> match v with SLeaf l => spreadable l = true | _ => True end.

Lemma resolve_leaf ev sp l : (sp <> None -> spreadable l = true) ->
  resolve_node ev (NVal (parts_of_leaf sp l)) = ev (canon_leaf l).
Proof. intro H. cbn [resolve_node]. unfold eval_parts. rewrite leaf_text_canon by exact H. reflexivity. Qed.

Theorem resolve_ast ev : forall n v, vsize v <= n -> val_ok v = true -> forall sp, sp_ok sp v ->
  resolve_node ev (ast_val sp v) = den_val ev v.
Proof.
  induction n as [|n IH]; intros v Hn Hok sp Hsp.
  { destruct v; cbn in Hn; lia. }
  destruct v as [l|items|ents].
  - cbn [ast_val den_val]. apply resolve_leaf. exact Hsp.
  - cbn [ast_val]. rewrite resolve_list, den_list. cbn [vsize] in Hn. cbn [val_ok] in Hok.
    assert (Hgo : forall its acc,
               (forall p, In p its -> vsize (snd p) <= n) -> forallb litem_ok its = true ->
               rlist ev (map litem_ast its) acc = dlist ev its acc).
    { induction its as [|[s x] its IHi]; intros acc Hsz Hk; [reflexivity|].
      cbn [forallb] in Hk. apply andb_true_iff in Hk as [Hx Hk]. unfold litem_ok in Hx. cbn [fst snd] in Hx.
      apply andb_true_iff in Hx as [Hvx Hshape].
      cbn [map rlist dlist]. unfold litem_ast at 1 2. cbn [fst snd].
      rewrite (IH x (Hsz (s, x) (or_introl eq_refl)) Hvx).
      2:{ intro Hne. destruct s; [|congruence]. destruct x; auto. }
      destruct (den_val ev x) as [d|e]; [|reflexivity].
      specialize (IHi) as IHi'.
      destruct s.
      + destruct x as [l|xi|xe]; [| |discriminate].
        * cbn [ast_val value_is_spread parts_of_leaf]. rewrite p_spread_atom. cbn [is_some].
          destruct (iter_value d); [|reflexivity]. apply IHi; [intros p Hp; apply Hsz; right; exact Hp | exact Hk].
        * cbn [ast_val stype_eqb negb]. destruct (iter_value d); [|reflexivity].
          apply IHi; [intros p Hp; apply Hsz; right; exact Hp | exact Hk].
      + destruct x as [l|xi|xe]; cbn [ast_val value_is_spread parts_of_leaf]; rewrite ?p_spread_atom; cbn [is_some];
          (apply IHi; [intros p Hp; apply Hsz; right; exact Hp | exact Hk]). }
    apply Hgo; [|exact Hok].
    intros p Hp. pose proof (fold_sum_in (fun p => vsize (snd p)) items p Hp). cbn beta in *. lia.
  - cbn [ast_val]. rewrite resolve_dict, den_dict. cbn [vsize] in Hn. cbn [val_ok] in Hok.
    assert (Hgo : forall es acc,
               (forall p, In p es -> vsize (snd p) <= n) -> forallb dent_ok es = true ->
               rdict ev (flat_map dent_ast es) acc None = ddict ev es acc).
    { induction es as [|[k x] es IHe]; intros acc Hsz Hk; [reflexivity|].
      cbn [forallb] in Hk. apply andb_true_iff in Hk as [Hx Hk]. unfold dent_ok in Hx. cbn [fst snd] in Hx.
      apply andb_true_iff in Hx as [Hvx Hshape].
      cbn [flat_map]. unfold dent_ast at 1. cbn [fst snd].
      destruct k as [kl|].
      + apply andb_true_iff in Hshape as [Hkl _].
        cbn [app rdict ddict]. rewrite (resolve_leaf ev None kl) by congruence.
        destruct (ev (canon_leaf kl)) as [kv|e]; [|reflexivity].
        cbn [value_is_spread parts_of_leaf]. rewrite p_spread_atom. cbn [is_some].
        rewrite (IH x (Hsz (Some kl, x) (or_introl eq_refl)) Hvx None) by (intro; congruence).
        destruct (den_val ev x) as [d|e]; [|reflexivity].
        assert (Hns : match ast_val None x with NStruct _ sp _ _ => is_some sp | NVal parts => value_is_spread parts end = false).
        { destruct x as [l| |]; try reflexivity. cbn [ast_val value_is_spread parts_of_leaf]. rewrite p_spread_atom. reflexivity. }
        rewrite Hns. destruct (hashable kv); [|reflexivity].
        apply IHe; [intros p Hp; apply Hsz; right; exact Hp | exact Hk].
      + cbn [app rdict ddict].
        rewrite (IH x (Hsz (None, x) (or_introl eq_refl)) Hvx (Some SpStar2)).
        2:{ intros _. destruct x as [l| |]; auto. apply andb_true_iff in Hshape as [Hs _]. exact Hs. }
        destruct (den_val ev x) as [d|e]; [|reflexivity].
        assert (Hns : match ast_val (Some SpStar2) x with NStruct _ sp _ _ => is_some sp | NVal parts => value_is_spread parts end = true).
        { destruct x as [l| |]; try reflexivity. cbn [ast_val value_is_spread parts_of_leaf]. rewrite p_spread_atom. reflexivity. }
        rewrite Hns. cbn [is_some]. destruct (dict_update_any acc d); [|reflexivity].
        apply IHe; [intros p Hp; apply Hsz; right; exact Hp | exact Hk]. }
    apply Hgo; [|exact Hok].
    intros p Hp. pose proof (fold_sum_in (fun p => vsize (snd p)) ents p Hp). cbn beta in *. lia.
Qed.

Lemma resolve_top ev sp v : val_ok v = true -> sp_ok sp v -> resolve_node ev (top_ast sp v) = den_val ev v.
Proof.
  intros Hok Hsp. destruct v as [l| |].
  - cbn [top_ast resolve_node den_val]. unfold eval_parts. rewrite leaf_text_canon by exact Hsp. reflexivity.
  - apply (resolve_ast ev (vsize (SList items))); auto.
  - apply (resolve_ast ev (vsize (SDict ents))); auto.
Qed.

(* ================================================================================================ *)
(* C. serialising the AST (what the flag test and the self-closing test look at)                     *)
(* ================================================================================================ *)
Section Ser.
Variable d : nat.
Fixpoint ser_all (l : list node) : res (list str) :=
  match l with
  | [] => Ok []
  | e :: r => match serialize_node d e with
              | Ok s => match ser_all r with Ok ss => Ok (s :: ss) | Err k => Err k | OutOfFuel => OutOfFuel end
              | Err k => Err k
              | OutOfFuel => OutOfFuel
              end
  end.
Lemma ser_list sp ents m :
  serialize_node (S d) (NStruct TList sp ents m)
  = match ser_all ents with
    | Ok ss => Ok (spread_prefix sp ++ [91%N] ++ join [44; 32]%N ss ++ [93%N])
    | Err k => Err k
    | OutOfFuel => OutOfFuel
    end.
Proof. reflexivity. Qed.
Lemma ser_dict sp ents m :
  serialize_node (S d) (NStruct TDict sp ents m)
  = match ser_all ents with
    | Ok ss => match dict_pairs (combine ents ss) None with
               | Ok ps => Ok (spread_prefix sp ++ [123%N] ++ join [44; 32]%N ps ++ [125%N])
               | Err k => Err k
               | OutOfFuel => OutOfFuel
               end
    | Err k => Err k
    | OutOfFuel => OutOfFuel
    end.
Proof. reflexivity. Qed.

Lemma ser_all_ok : forall l, Forall (fun e => exists s, serialize_node d e = Ok s) l ->
  exists ss, ser_all l = Ok ss /\ length ss = length l.
Proof.
  induction l as [|e l IH]; intro H; [exists []; auto|].
  inversion H as [|? ? [s Hs] Hl]; subst. destruct (IH Hl) as (ss & E & Hlen).
  exists (s :: ss). cbn [ser_all]. rewrite Hs, E. split; [reflexivity | cbn; lia].
Qed.
End Ser.

Lemma dict_pairs_ok : forall es ss, length ss = length (flat_map dent_ast es) ->
  exists ps, dict_pairs (combine (flat_map dent_ast es) ss) None = Ok ps.
Proof.
  induction es as [|[k x] es IH]; intros ss Hl; [exists []; reflexivity|].
  cbn [flat_map] in *. unfold dent_ast at 1 in Hl. unfold dent_ast at 1. cbn [fst snd] in *. destruct k as [kl|].
  - cbn [app length] in Hl. destruct ss as [|s1 [|s2 ss]]; try discriminate. cbn [app combine dict_pairs].
    cbn [entry_is_spread parts_of_leaf]. rewrite p_spread_atom. cbn [is_some]. rewrite ast_not_spread.
    destruct (IH ss ltac:(cbn [length] in Hl; lia)) as (ps & E). rewrite E. eexists; reflexivity.
  - cbn [app length] in Hl. destruct ss as [|s1 ss]; try discriminate. cbn [app combine dict_pairs].
    rewrite ast_is_spread. cbn [is_some].
    destruct (IH ss ltac:(cbn [length] in Hl; lia)) as (ps & E). rewrite E. eexists; reflexivity.
Qed.

Lemma ser_val : forall n v, vsize v <= n -> val_ok v = true -> forall sp d, vdepth v <= d ->
  exists s, serialize_node d (ast_val sp v) = Ok s /\
    match v with
    | SLeaf l => s = serialize_value (parts_of_leaf sp l)
    | SList _ => exists s', s = spread_prefix sp ++ 91%N :: s'
    | SDict _ => exists s', s = spread_prefix sp ++ 123%N :: s'
    end.
Proof.
  induction n as [|n IH]; intros v Hn Hok sp d Hd.
  { destruct v; cbn in Hn; lia. }
  destruct v as [l|items|ents].
  - eexists. split; [destruct d; reflexivity | reflexivity].
  - cbn [vdepth] in Hd. destruct d as [|d]; [lia|]. cbn [ast_val]. rewrite ser_list.
    change (fun p : bool * sval => ast_val (if fst p then Some SpStar else None) (snd p)) with litem_ast.
    cbn [vsize] in Hn. cbn [val_ok] in Hok.
    destruct (ser_all_ok d (map litem_ast items)) as (ss & E & _).
    { apply Forall_forall. intros e He. apply in_map_iff in He as (p & <- & Hp).
      pose proof (fold_sum_in (fun p => vsize (snd p)) items p Hp). pose proof (fold_max_in (fun p => vdepth (snd p)) items p Hp).
      cbn beta in *. rewrite forallb_forall in Hok. specialize (Hok p Hp). apply andb_true_iff in Hok as [Hv _].
      destruct (IH (snd p) ltac:(lia) Hv (if fst p then Some SpStar else None) d ltac:(lia)) as (s & Hs & _).
      exists s. exact Hs. }
    rewrite E. eexists. split; [reflexivity|]. eexists. reflexivity.
  - cbn [vdepth] in Hd. destruct d as [|d]; [lia|]. cbn [ast_val]. rewrite ser_dict.
    match goal with |- context [flat_map ?f ents] => change f with dent_ast end.
    cbn [vsize] in Hn. cbn [val_ok] in Hok.
    destruct (ser_all_ok d (flat_map dent_ast ents)) as (ss & E & Hlen).
    { apply Forall_forall. intros e He. apply in_flat_map in He as (p & Hp & He).
      pose proof (fold_sum_in (fun p => vsize (snd p)) ents p Hp). pose proof (fold_max_in (fun p => vdepth (snd p)) ents p Hp).
      cbn beta in *. rewrite forallb_forall in Hok. specialize (Hok p Hp). apply andb_true_iff in Hok as [Hv _].
      unfold dent_ast in He. destruct (fst p) as [kl|].
      - destruct He as [<-|[<-|[]]].
        + eexists. destruct d; reflexivity.
        + destruct (IH (snd p) ltac:(lia) Hv None d ltac:(lia)) as (s & Hs & _). exists s. exact Hs.
      - destruct He as [<-|[]].
        destruct (IH (snd p) ltac:(lia) Hv (Some SpStar2) d ltac:(lia)) as (s & Hs & _). exists s. exact Hs. }
    rewrite E. destruct (dict_pairs_ok ents ss Hlen) as (ps & Ep). rewrite Ep.
    eexists. split; [reflexivity|]. eexists. reflexivity.
Qed.

(* serialisation of a top-level attribute value *)
Lemma ser_top sp v : val_ok v = true -> vdepth v <= 100 -> sp_ok sp v ->
  exists s, serialize_node 1000 (top_ast sp v) = Ok s /\
    match v with
    | SLeaf l => s = spread_prefix sp ++ canon_leaf l
    | SList _ => exists s', s = spread_prefix sp ++ 91%N :: s'
    | SDict _ => exists s', s = spread_prefix sp ++ 123%N :: s'
    end.
Proof.
  intros Hok Hd Hsp. destruct v as [l|items|ents].
  - eexists. split; [reflexivity|]. apply serialize_leaf. exact Hsp.
  - destruct (ser_val (vsize (SList items)) (SList items) (le_n _) Hok sp 1000 ltac:(lia)) as (s & Hs & Hc).
    exists s. split; [exact Hs | exact Hc].
  - destruct (ser_val (vsize (SDict ents)) (SDict ents) (le_n _) Hok sp 1000 ltac:(lia)) as (s & Hs & Hc).
    exists s. split; [exact Hs | exact Hc].
Qed.

Lemma not_allowed_by_head allowed x s : forallb tok_ok allowed = true ->
  existsb (N.eqb x) (46%N :: 95%N :: WSCH ++ SPECIALS) = true -> str_in (x :: s) allowed = false.
Proof.
  intros Hal Hx. unfold str_in. destruct (existsb (str_eqb (x :: s)) allowed) eqn:E; [|reflexivity].
  apply existsb_exists in E as [t [Ht E]]. apply str_eqb_eq in E. subst t.
  rewrite forallb_forall in Hal. specialize (Hal _ Ht). destruct (tok_ok_parts _ Hal) as (x' & t' & E' & Hx' & _).
  inversion E'; subst. congruence.
Qed.

Lemma canon_tok_leaf t : canon_leaf (tok_leaf t) = t.
Proof. unfold canon_leaf, tok_leaf. cbn. apply app_nil_r. Qed.

(* per argument: its serialisation exists; flags serialise to their name, other positional arguments to something
   that is not a flag name; nothing but the slash serialises to "/" *)
Lemma ser_item allowed it : forallb tok_ok allowed = true -> str_in [47%N] allowed = false -> item_ok allowed it = true ->
  exists s, serialize_node 1000 (item_node it) = Ok s /\ s <> [47%N] /\
    match it with
    | IFlag f => s = f
    | IKw _ _ => True
    | _ => str_in s allowed = false
    end.
Proof.
  intros Hal Hns Hok. destruct it as [v|k v|v|fl]; cbn [item_ok item_node] in *.
  - apply andb_true_iff in Hok as [Hok Hfl]. apply andb_true_iff in Hok as [Hok Hsl]. apply andb_true_iff in Hok as [Hv Hd].
    apply Nat.leb_le in Hd. destruct (ser_top None v Hv Hd ltac:(intro; congruence)) as (s & Hs & Hc).
    exists s. split; [exact Hs|]. destruct v as [l|items|ents]; cbn [spread_prefix app] in Hc.
    + subst s. cbn [not_slash] in Hsl. split; [|apply negb_true_iff in Hfl; exact Hfl].
      intro E. rewrite E in Hsl. discriminate.
    + destruct Hc as (s' & ->). split; [discriminate|]. apply not_allowed_by_head; [exact Hal | reflexivity].
    + destruct Hc as (s' & ->). split; [discriminate|]. apply not_allowed_by_head; [exact Hal | reflexivity].
  - apply andb_true_iff in Hok as [Hok Hsl]. apply andb_true_iff in Hok as [Hok Hd]. apply andb_true_iff in Hok as [_ Hv].
    apply Nat.leb_le in Hd. destruct (ser_top None v Hv Hd ltac:(intro; congruence)) as (s & Hs & Hc).
    exists s. split; [exact Hs|]. split; [|trivial]. destruct v as [l|items|ents]; cbn [spread_prefix app] in Hc.
    + subst s. cbn [not_slash] in Hsl. intro E. rewrite E in Hsl. discriminate.
    + destruct Hc as (s' & ->). discriminate.
    + destruct Hc as (s' & ->). discriminate.
  - apply andb_true_iff in Hok as [Hok Hspr]. apply andb_true_iff in Hok as [Hv Hd]. apply Nat.leb_le in Hd.
    destruct (ser_top (Some SpDots) v Hv Hd) as (s & Hs & Hc).
    { intros _. destruct v; auto. }
    exists s. split; [exact Hs|].
    assert (Hhead : exists s', s = 46%N :: s').
    { destruct v; [subst s | destruct Hc as (s' & ->) | destruct Hc as (s' & ->)]; eexists; reflexivity. }
    destruct Hhead as (s' & ->). split; [discriminate|]. apply not_allowed_by_head; [exact Hal | reflexivity].
  - exists fl. split; [cbn; rewrite app_nil_r; reflexivity|]. split; [|reflexivity].
    intros ->. congruence.
Qed.

(* ================================================================================================ *)
(* D. flags, self-closing slash, parameters                                                          *)
(* ================================================================================================ *)
Lemma cons_inj {A} (x y : A) l l' : x :: l = y :: l' -> x = y /\ l = l'.
Proof. intro H. inversion H. auto. Qed.

Definition nonflag (it : item) : bool := match it with IFlag _ => false | _ => true end.

Lemma str_eqb_sym a b : str_eqb a b = str_eqb b a.
Proof.
  destruct (str_eqb a b) eqn:E.
  - apply str_eqb_eq in E. subst. symmetry. apply str_eqb_refl.
  - destruct (str_eqb b a) eqn:E'; [|reflexivity]. apply str_eqb_eq in E'. subst. rewrite str_eqb_refl in E. discriminate.
Qed.

Lemma nodup_mid : forall l x r, nodup_str (l ++ x :: r) = true ->
  str_in x l = false /\ nodup_str ((l ++ [x]) ++ r) = true.
Proof.
  induction l as [|y l IH]; intros x r H.
  - split; [reflexivity | exact H].
  - cbn [app nodup_str] in H. apply andb_true_iff in H as [Hy H]. destruct (IH x r H) as [H1 H2].
    apply negb_true_iff in Hy. unfold str_in in Hy. rewrite existsb_app in Hy. apply orb_false_iff in Hy as [Hy1 Hy2].
    cbn [existsb] in Hy2. apply orb_false_iff in Hy2 as [Hyx Hy2]. split.
    + unfold str_in in *. cbn [existsb]. rewrite str_eqb_sym, Hyx. exact H1.
    + cbn [app nodup_str]. rewrite H2, andb_true_r. apply negb_true_iff. unfold str_in.
      rewrite !existsb_app. cbn [existsb]. rewrite Hy1, Hyx, Hy2. reflexivity.
Qed.

Lemma ser_omit_key_of a it s : kv a = item_kv it -> serialize_node 1000 (item_node it) = Ok s -> ser_omit_key a = Some s.
Proof. unfold kv, item_kv. intros E Hs. inversion E as [[Ek Ev]]. unfold ser_omit_key. rewrite Ev, Hs. reflexivity. Qed.

Lemma item_node_spread it : node_spread (item_node it) = match it with ISpread _ => Some SpDots | _ => None end.
Proof. destruct it as [v|k v|v|f]; cbn [item_node]; try (destruct v; reflexivity). reflexivity. Qed.

Lemma extract_flags_items allowed : forall items attrs found,
  map kv attrs = map item_kv items -> forallb tok_ok allowed = true -> str_in [47%N] allowed = false ->
  forallb (item_ok allowed) items = true -> nodup_str (found ++ flags_of items) = true ->
  exists rem, extract_flags allowed attrs found = ROk (rem, found ++ flags_of items)
              /\ map kv rem = map item_kv (filter nonflag items).
Proof.
  induction items as [|it items IH]; intros attrs found Hm Hal Hns Hok Hnd.
  - destruct attrs; [|discriminate]. exists []. cbn [flags_of flat_map]. rewrite app_nil_r. auto.
  - destruct attrs as [|a attrs]; [discriminate|]. cbn [map] in Hm. apply cons_inj in Hm as [Ha Hm'].
    cbn [forallb] in Hok. apply andb_true_iff in Hok as [Hit Hok].
    destruct (ser_item allowed it Hal Hns Hit) as (s & Hs & _ & Hcls).
    cbn [extract_flags]. rewrite (ser_omit_key_of a it s Ha Hs).
    assert (Hkey : a_key a = item_key it) by (unfold kv, item_kv in Ha; congruence).
    assert (Hval : a_value a = item_node it) by (unfold kv, item_kv in Ha; congruence).
    rewrite Hkey.
    assert (Hkeep : flags_of (it :: items) = flags_of items ->
              is_some (item_key it) || negb (str_in s allowed) = true -> nonflag it = true ->
              exists rem, rbind (extract_flags allowed attrs found) (fun '(rem, fl) => ROk (a :: rem, fl))
                          = ROk (rem, found ++ flags_of (it :: items))
                          /\ map kv rem = map item_kv (filter nonflag (it :: items))).
    { intros Hfl _ Hnf. rewrite Hfl in *. destruct (IH attrs found Hm' Hal Hns Hok Hnd) as (rem & E & Hk).
      exists (a :: rem). rewrite E. cbn [rbind]. split; [reflexivity|]. cbn [filter]. rewrite Hnf. cbn [map]. rewrite Ha, Hk. reflexivity. }
    destruct it as [v|k v|v|f].
    + rewrite Hcls. cbn [item_key is_some negb orb]. apply Hkeep; [reflexivity | rewrite Hcls; reflexivity | reflexivity].
    + cbn [item_key is_some orb]. apply Hkeep; reflexivity.
    + rewrite Hcls. cbn [item_key is_some negb orb]. apply Hkeep; [reflexivity | rewrite Hcls; reflexivity | reflexivity].
    + subst s. cbn [item_ok] in Hit. rewrite Hit. cbn [item_key is_some negb orb].
      rewrite Hval, item_node_spread. cbn [is_some].
      cbn [flags_of flat_map app] in Hnd |- *. destruct (nodup_mid found f _ Hnd) as [Hnf Hnd'].
      rewrite Hnf. fold (flags_of items) in *.
      destruct (IH attrs (found ++ [f]) Hm' Hal Hns Hok Hnd') as (rem & E & Hk).
      exists rem. rewrite E. rewrite <- app_assoc. split; [reflexivity|]. cbn [filter nonflag]. exact Hk.
Qed.

Lemma not_slash_match (r : res str) (A : Type) (x y : A) : r <> Ok [47%N] ->
  match r with Ok [47%N] => x | _ => y end = y.
Proof.
  intro H. destruct r as [s|k|]; try reflexivity.
  destruct s as [|c s]; [reflexivity|].
  destruct (N.eqb_spec c 47) as [->|Hc].
  - destruct s as [|c' s']; [exfalso; apply H; reflexivity | reflexivity].
  - destruct c as [|p]; [destruct s; reflexivity|].
    assert (Hp : p <> 47%positive) by congruence.
    do 6 (destruct p as [p|p|]; try (destruct s; reflexivity)); congruence.
Qed.

Lemma ser_tok_node t : serialize_node 1000 (tok_node t) = Ok t.
Proof. cbn. rewrite app_nil_r. reflexivity. Qed.

(* parse_template_tag on a printed argument list: the flags, the self-closing slash, the remaining attributes *)
Theorem parse_template_tag_print allowed lay tag a : arglist_ok tag allowed a = true ->
  exists rem, parse_template_tag tag allowed (print lay tag a) = ROk (rem, flags_of (al_items a), al_slash a)
              /\ map kv rem = map item_kv (filter nonflag (al_items a)).
Proof.
  intro Hok. destruct (parse_tag_print allowed lay tag a Hok) as (attrs & Hp & Hkv).
  unfold arglist_ok in Hok.
  apply andb_true_iff in Hok as [Hok Hnd]. apply andb_true_iff in Hok as [Hok Hitems].
  apply andb_true_iff in Hok as [Hok Hns]. apply andb_true_iff in Hok as [Htag Hal]. apply negb_true_iff in Hns.
  unfold parse_template_tag. rewrite Hp.
  destruct attrs as [|ta rest_attrs]; [discriminate|]. cbn [map] in Hkv. apply cons_inj in Hkv as [Hta Hrest].
  assert (Etag : ser_omit_key ta = Some tag).
  { unfold ser_omit_key. assert (Hv : a_value ta = tok_node tag) by (unfold kv in Hta; congruence).
    rewrite Hv, ser_tok_node. reflexivity. }
  rewrite Etag, str_eqb_refl. cbn [negb].
  (* the slash *)
  assert (Hsl : exists ritems, map kv ritems = map item_kv (al_items a) /\
            (match rev rest_attrs with
             | last :: before => match serialize_node 1000 (a_value last) with
                                 | Ok [47%N] => (rev before, true)
                                 | _ => (rest_attrs, false)
                                 end
             | [] => (rest_attrs, false)
             end) = (ritems, al_slash a)).
  { unfold items_with_slash in Hrest. destruct (al_slash a).
    - rewrite map_app in Hrest. apply map_eq_app in Hrest as (ritems & sl & -> & Hri & Hsl).
      destruct sl as [|sa [|? ?]]; try discriminate. cbn [map] in Hsl. apply cons_inj in Hsl as [Hsa _].
      exists ritems. split; [exact Hri|]. rewrite rev_app_distr. cbn [rev app].
      assert (Hv : a_value sa = item_node slash_item) by (unfold kv, item_kv in Hsa; congruence). rewrite Hv.
      change (item_node slash_item) with (tok_node [47%N]). rewrite ser_tok_node. rewrite rev_involutive. reflexivity.
    - rewrite app_nil_r in Hrest. exists rest_attrs. split; [exact Hrest|].
      destruct (rev rest_attrs) as [|last before] eqn:Er; [reflexivity|].
      (* the last attribute is the last argument, which does not serialise to a slash *)
      assert (Hin : In last rest_attrs) by (apply in_rev; rewrite Er; left; reflexivity).
      apply (in_map kv) in Hin. rewrite Hrest in Hin. apply in_map_iff in Hin as (it & Hit & Hin').
      rewrite forallb_forall in Hitems. specialize (Hitems it Hin').
      destruct (ser_item allowed it Hal Hns Hitems) as (s & Hs & Hne & _).
      assert (Hv : a_value last = item_node it) by (unfold kv, item_kv in Hit; congruence). rewrite Hv.
      apply not_slash_match. rewrite Hs. congruence. }
  destruct Hsl as (ritems & Hri & ->).
  destruct (extract_flags_items allowed (al_items a) ritems [] Hri Hal Hns Hitems Hnd) as (rem & E & Hk).
  exists rem. rewrite E. cbn [rbind app]. split; [reflexivity | exact Hk].
Qed.

Lemma kv_split a it : kv a = item_kv it -> a_key a = item_key it /\ a_value a = item_node it.
Proof. unfold kv, item_kv. intro H. inversion H. auto. Qed.

Lemma rbind_ret {A} (r : rres A) : rbind r (fun x => ROk x) = r.
Proof. destruct r; reflexivity. Qed.

Lemma resolve_items ev allowed : forall items rem,
  map kv rem = map item_kv (filter nonflag items) -> forallb (item_ok allowed) items = true ->
  resolve_params_go ev rem = den_items ev items.
Proof.
  induction items as [|it items IH]; intros rem Hm Hok.
  - destruct rem; [reflexivity | discriminate].
  - cbn [forallb] in Hok. apply andb_true_iff in Hok as [Hit Hok].
    destruct it as [v|k v|v|f]; cbn [filter nonflag] in Hm.
    4:{ cbn [den_items]. cbn [rbind app]. rewrite rbind_ret. apply IH; assumption. }
    all: destruct rem as [|a rem]; [discriminate|]; cbn [map] in Hm; apply cons_inj in Hm as [Ha Hm'];
      destruct (kv_split _ _ Ha) as [Hk Hv];
      cbn [resolve_params_go den_items]; rewrite Hv, Hk, item_node_spread; cbn [item_node item_key is_some];
      rewrite (IH rem Hm' Hok); cbn [item_ok] in Hit.
    + apply andb_true_iff in Hit as [Hit _]. apply andb_true_iff in Hit as [Hit _]. apply andb_true_iff in Hit as [Hvok _].
      rewrite (resolve_top ev None v Hvok) by (intro; congruence).
      destruct (den_val ev v); reflexivity.
    + apply andb_true_iff in Hit as [Hit _]. apply andb_true_iff in Hit as [Hit _]. apply andb_true_iff in Hit as [_ Hvok].
      rewrite (resolve_top ev None v Hvok) by (intro; congruence).
      destruct (den_val ev v); reflexivity.
    + apply andb_true_iff in Hit as [Hit Hspr]. apply andb_true_iff in Hit as [Hvok _].
      rewrite (resolve_top ev (Some SpDots) v Hvok) by (intros _; destruct v; auto).
      destruct (den_val ev v) as [d|e]; [|reflexivity]. cbn [key_truthy rbind]. reflexivity.
Qed.

(* ================================================================================================ *)
(* E. the main statement                                                                             *)
(* ================================================================================================ *)
Theorem run_tag_print_denote keywords tag allowed ev lay a : arglist_ok tag allowed a = true ->
  run_tag keywords tag allowed ev (print lay tag a) = denote keywords ev a.
Proof.
  intro Hok. destruct (parse_template_tag_print allowed lay tag a Hok) as (rem & Hp & Hk).
  unfold run_tag, denote. rewrite Hp. cbn [rbind].
  assert (Hitems : forallb (item_ok allowed) (al_items a) = true).
  { unfold arglist_ok in Hok. apply andb_true_iff in Hok as [Hok _]. apply andb_true_iff in Hok as [_ Hok]. exact Hok. }
  rewrite (resolve_items ev allowed (al_items a) rem Hk Hitems). reflexivity.
Qed.

(* layout-invariance: two renderings of the same argument list give the same result *)
Corollary layout_invariance keywords tag allowed ev lay lay' a : arglist_ok tag allowed a = true ->
  run_tag keywords tag allowed ev (print lay tag a) = run_tag keywords tag allowed ev (print lay' tag a).
Proof. intro H. rewrite !run_tag_print_denote by exact H. reflexivity. Qed.

(* the self-closing slash changes nothing but the `self-closing` bit *)
Definition drop_closed (r : rres (list value * list (value * value) * list str * bool))
  : rres (list value * list (value * value) * list str) :=
  rbind r (fun '(a, k, f, _) => ROk (a, k, f)).

Corollary slash_invariance keywords tag allowed ev lay lay' items :
  arglist_ok tag allowed (mkarglist items true) = true ->
  drop_closed (run_tag keywords tag allowed ev (print lay tag (mkarglist items true)))
  = drop_closed (run_tag keywords tag allowed ev (print lay' tag (mkarglist items false))).
Proof.
  intro H. rewrite (run_tag_print_denote keywords tag allowed ev lay _ H).
  rewrite (run_tag_print_denote keywords tag allowed ev lay' (mkarglist items false)) by exact H.
  unfold denote, drop_closed. cbn [al_items al_slash].
  destruct (den_items ev items) as [ps|e]; [|reflexivity]. cbn [rbind].
  destruct (bind_params keywords ps) as [[args kw]|e]; reflexivity.
Qed.

(* the canonical text is the leaf printed with the canonical (empty) layout *)
Lemma print_atom_canonical a : print_atom canonical_layout a = canon_atom a.
Proof. destruct a; reflexivity. Qed.
Lemma print_filters_canonical : forall fs lay, (forall p, lay p = []) -> print_filters lay fs = concat (map canon_filt fs).
Proof.
  induction fs as [|[n x] fs IH]; intros lay Hl; [reflexivity|].
  cbn [print_filters map concat]. unfold w0. rewrite !Hl. cbn [filter app]. unfold canon_filt at 1. cbn [fst snd].
  rewrite (IH (sub lay 5)) by (intro p; apply Hl).
  destruct x as [x|]; cbn [app]; [|rewrite <- app_assoc; reflexivity].
  assert (E : print_atom (sub lay 4) x = canon_atom x).
  { destruct x; cbn [print_atom canon_atom]; try reflexivity. unfold w0, sub. rewrite !Hl. reflexivity. }
  rewrite E. rewrite <- !app_assoc. reflexivity.
Qed.
Lemma print_leaf_canonical l : print_leaf canonical_layout l = canon_leaf l.
Proof.
  unfold print_leaf, canon_leaf. rewrite (print_filters_canonical _ (sub canonical_layout 1)) by reflexivity.
  destruct (lf_head l); reflexivity.
Qed.

(* leaf_text_canonical, end to end: a tag with one positional leaf, printed in any layout - the attribute that
   parse_tag builds hands the evaluator the leaf printed WITHOUT any insignificant white space *)
Theorem leaf_text_canonical_lemma allowed lay tag l :
  arglist_ok tag allowed (mkarglist [IPos (SLeaf l)] false) = true ->
  exists n ta a parts,
    parse_tag (print lay tag (mkarglist [IPos (SLeaf l)] false)) = Ok (n, [ta; a])
    /\ a_value a = NStruct TSimple None [NVal parts] None
    /\ leaf_text parts = print_leaf canonical_layout l.
Proof.
  intro Hok. destruct (parse_tag_print allowed lay tag _ Hok) as (attrs & Hp & Hkv).
  cbn [items_with_slash al_items al_slash app map] in Hkv.
  destruct attrs as [|ta [|a [|? ?]]]; try discriminate.
  apply cons_inj in Hkv as [_ Hkv]. apply cons_inj in Hkv as [Ha _].
  destruct (kv_split _ _ Ha) as [_ Hv]. cbn [item_node top_ast] in Hv.
  exists (print lay tag (mkarglist [IPos (SLeaf l)] false)), ta, a, (parts_of_leaf None l).
  split; [exact Hp|]. split; [exact Hv|]. rewrite print_leaf_canonical. apply leaf_text_canon. congruence.
Qed.

(* ================================================================================================ *)
(* F. rewriting leaves (quote style)                                                                 *)
(* ================================================================================================ *)
Section LeafMap.
Variable ev : str -> rres value.
Variable f : leaf -> leaf.
Hypothesis Hf : forall l, ev (canon_leaf (f l)) = ev (canon_leaf l).

Lemma den_vmap : forall n v, vsize v <= n -> den_val ev (vmap f v) = den_val ev v.
Proof.
  induction n as [|n IH]; intros v Hn.
  { destruct v; cbn in Hn; lia. }
  destruct v as [l|items|ents]; cbn [vmap].
  - cbn [den_val]. apply Hf.
  - rewrite !den_list. cbn [vsize] in Hn.
    assert (Hgo : forall its acc, (forall p, In p its -> vsize (snd p) <= n) ->
               dlist ev (map (fun p : bool * sval => (fst p, vmap f (snd p))) its) acc = dlist ev its acc).
    { induction its as [|[s x] its IHi]; intros acc Hsz; [reflexivity|].
      cbn [map dlist fst snd]. rewrite (IH x (Hsz (s, x) (or_introl eq_refl))).
      destruct (den_val ev x) as [d|e]; [|reflexivity].
      destruct s; [destruct (iter_value d); [|reflexivity]|]; apply IHi; intros p Hp; apply Hsz; right; exact Hp. }
    apply Hgo. intros p Hp. pose proof (fold_sum_in (fun p => vsize (snd p)) items p Hp). cbn beta in *. lia.
  - rewrite !den_dict. cbn [vsize] in Hn.
    assert (Hgo : forall es acc, (forall p, In p es -> vsize (snd p) <= n) ->
               ddict ev (map (fun p : option leaf * sval => (option_map f (fst p), vmap f (snd p))) es) acc = ddict ev es acc).
    { induction es as [|[k x] es IHe]; intros acc Hsz; [reflexivity|].
      cbn [map fst snd]. destruct k as [kl|]; cbn [option_map ddict].
      - rewrite Hf. destruct (ev (canon_leaf kl)) as [kv|e]; [|reflexivity].
        rewrite (IH x (Hsz (Some kl, x) (or_introl eq_refl))).
        destruct (den_val ev x) as [d|e]; [|reflexivity]. destruct (hashable kv); [|reflexivity].
        apply IHe. intros p Hp. apply Hsz. right. exact Hp.
      - rewrite (IH x (Hsz (None, x) (or_introl eq_refl))).
        destruct (den_val ev x) as [d|e]; [|reflexivity]. destruct (dict_update_any acc d); [|reflexivity].
        apply IHe. intros p Hp. apply Hsz. right. exact Hp. }
    apply Hgo. intros p Hp. pose proof (fold_sum_in (fun p => vsize (snd p)) ents p Hp). cbn beta in *. lia.
Qed.

Lemma den_items_imap : forall items, den_items ev (map (imap f) items) = den_items ev items.
Proof.
  induction items as [|it items IH]; [reflexivity|]. cbn [map den_items]. rewrite IH.
  destruct it as [v|k v|v|fl]; cbn [imap]; try rewrite (den_vmap (vsize v) v (le_n _)); reflexivity.
Qed.

Lemma flags_imap : forall items, flags_of (map (imap f) items) = flags_of items.
Proof.
  induction items as [|it items IH]; [reflexivity|]. cbn [map flags_of flat_map]. fold (flags_of (map (imap f) items)).
  fold (flags_of items). rewrite IH. destruct it; reflexivity.
Qed.

Lemma denote_amap keywords a : denote keywords ev (amap f a) = denote keywords ev a.
Proof. unfold denote, amap. cbn [al_items al_slash]. rewrite den_items_imap, flags_imap. reflexivity. Qed.
End LeafMap.

(* quote style: if the evaluator does not distinguish the two quote characters around a body that contains neither a
   quote nor a backslash (Django does not), writing the argument list with the other quote style - in any layout -
   gives the same result *)
Corollary quote_style_invariance keywords tag allowed ev lay lay' a :
  (forall l, ev (canon_leaf (swap_leaf l)) = ev (canon_leaf l)) ->
  arglist_ok tag allowed a = true -> arglist_ok tag allowed (swap_quotes a) = true ->
  run_tag keywords tag allowed ev (print lay tag (swap_quotes a)) = run_tag keywords tag allowed ev (print lay' tag a).
Proof.
  intros Hq H1 H2. rewrite !run_tag_print_denote by assumption. apply denote_amap. exact Hq.
Qed.
