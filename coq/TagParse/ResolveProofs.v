(* Lemmas for property C02 (model: TagParse/Resolve.v on top of TagParse/Model.v). *)
From DJC Require Import Lib.Base TagParse.Model TagParse.Proofs TagParse.Resolve.
Import Coq.Strings.String.StringSyntax.
Delimit Scope string_scope with string.

(* ================================================================================================ *)
(* A. documented-invalid spreads are refused whatever follows them                                   *)
(* ================================================================================================ *)
Local Arguments take_n : simpl nomatch.
Local Arguments take_until : simpl nomatch.
Local Arguments take_while : simpl nomatch.
Local Arguments skip_ws : simpl nomatch.
Local Arguments add_token : simpl nomatch.
Local Arguments is_next : simpl nomatch.
Local Arguments at_end : simpl nomatch.

(* symbolic execution of the scanner on a concrete prefix followed by an arbitrary tail: comparisons between
   concrete characters are computed, comparisons with a character of the tail are case-split *)
Ltac eqb_step :=
  match goal with
  | |- context [N.eqb ?a ?b] =>
      let r := eval vm_compute in (N.eqb a b) in
      match r with
      | true => change (N.eqb a b) with true
      | false => change (N.eqb a b) with false
      end
  | |- context [N.eqb ?a ?b] => destruct (N.eqb a b) eqn:?
  end.
Ltac crunch :=
  repeat (cbn -[N.eqb];
          first [ match goal with |- Err _ = Err _ => reflexivity end
                | match goal with |- context [match ?t with [] => _ | _ :: _ => _ end] => is_var t; destruct t end
                | eqb_step ]).

