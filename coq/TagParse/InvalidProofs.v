(* Property C02: the combinations documented as invalid are refused with TemplateSyntaxError - whatever the valid
   arguments before them, whatever the layout, and WHATEVER FOLLOWS (the offending text `b` below is only constrained
   in its first characters). *)
From DJC Require Import Lib.Base TagParse.Model TagParse.Proofs TagParse.Resolve TagParse.Spec TagParse.ScanLemmas
     TagParse.ParseProofs.

(* ================================================================================================ *)
(* A. a spread operator that is wrong for the container it stands in                                 *)
(* ================================================================================================ *)
(* `...` anywhere but at the top level of the tag, or after `key=`;  `**` anywhere but in a dict;  `*` anywhere but
   in a list *)
Definition bad_spread (ty : stype) (key : option str) (r : str) : bool :=
  if starts_with [46; 46; 46]%N r then negb (stype_eqb ty TSimple) || is_some key
  else if starts_with [42; 42]%N r then negb (stype_eqb ty TDict)
  else if starts_with [42]%N r then negb (stype_eqb ty TList)
  else false.

Lemma bad_spread_head ty key r : bad_spread ty key r = true ->
  exists x s, r = x :: s /\ (x = 46%N \/ x = 42%N).
Proof.
  unfold bad_spread. destruct r as [|x s]; [discriminate|]. intro H. exists x, s. split; [reflexivity|].
  cbn [starts_with] in H. destruct (N.eqb_spec 46 x) as [<-|E1]; [auto|]. cbn [andb] in H.
  destruct (N.eqb_spec 42 x) as [<-|E2]; [auto|]. discriminate.
Qed.

Lemma extract_spread_bad ty f key c : bad_spread ty key (rest c) = true ->
  extract_spread ty f key c = Err TemplateSyntaxError.
Proof.
  unfold bad_spread, extract_spread. intro H.
  assert (Hs : is_next SPREAD c = starts_with [42]%N (rest c) || (starts_with [42; 42]%N (rest c) || (starts_with [46; 46; 46]%N (rest c) || false)))
    by reflexivity.
  rewrite Hs, !is_next_single.
  destruct (starts_with [46; 46; 46]%N (rest c)) eqn:E3.
  - rewrite !orb_true_r. destruct (stype_eqb ty TSimple) eqn:Et; [|reflexivity].
    cbn [negb orb] in H. rewrite H. destruct (is_some f); reflexivity.
  - destruct (starts_with [42; 42]%N (rest c)) eqn:E2.
    + rewrite orb_true_r. apply negb_true_iff in H. rewrite H. reflexivity.
    + destruct (starts_with [42]%N (rest c)) eqn:E1; [|discriminate]. cbn [orb]. apply negb_true_iff in H. rewrite H. reflexivity.
Qed.

(* the first part of a value *)
Lemma parts_loop_bad fuel ty meta key d r rsp : bad_spread ty key r = true ->
  parts_loop (S fuel) ty meta key (mkcur d r) [] true rsp = Err TemplateSyntaxError.
Proof.
  intro H. destruct (bad_spread_head _ _ _ H) as (x & s & -> & Hx). cbn [parts_loop].
  assert (Hn : nows (x :: s) = true) by (destruct Hx as [->| ->]; reflexivity).
  rewrite (skip_ws_none d _ Hn). unfold at_end. cbn [rest andb negb]. rewrite is_next_FILTER.
  replace (N.eqb x 124 || N.eqb x 58) with false by (destruct Hx as [->| ->]; reflexivity).
  rewrite (extract_spread_bad ty None key (mkcur d (x :: s)) H). reflexivity.
Qed.

(* one step of the container-stack loop: whatever the frame is, whatever is on the stack *)
Lemma stack_step_bad key c0 T below tot : bad_spread (f_ty T) key (rest (skip_ws c0)) = true ->
  stack_step key c0 T below tot = SErr TemplateSyntaxError.
Proof.
  intro H. unfold stack_step. set (c := skip_ws c0) in *.
  destruct (bad_spread_head _ _ _ H) as (x & s & Er & Hx).
  pose proof (extract_spread_bad (f_ty T) None key c H) as He.
  destruct (is_next OPEN_LIST c); [rewrite He; reflexivity|].
  assert (Hc : c = mkcur (done c) (x :: s)) by (destruct c; cbn in *; subst; reflexivity).
  assert (H93 : is_next [[93%N]] c = false) by (rewrite Hc; destruct Hx as [->| ->]; reflexivity).
  assert (H125 : is_next [[125%N]] c = false) by (rewrite Hc; destruct Hx as [->| ->]; reflexivity).
  assert (H44 : is_next [[44%N]] c = false) by (rewrite Hc; destruct Hx as [->| ->]; reflexivity).
  assert (H58 : is_next [[58%N]] c = false) by (rewrite Hc; destruct Hx as [->| ->]; reflexivity).
  rewrite H93. destruct (is_next OPEN_DICT c); [rewrite He; reflexivity|]. rewrite H125, H44, H58.
  replace (at_end c) with false by (unfold at_end; rewrite Er; reflexivity). rewrite andb_false_r.
  rewrite Hc. rewrite <- Er at 1. cbn [rest] in H. rewrite Er in H.
  cbn [length]. rewrite (parts_loop_bad _ (f_ty T) (f_meta T) key (done c) (x :: s) (f_sp T) H). reflexivity.
Qed.

(* ================================================================================================ *)
(* B. from a failing step to parse_tag                                                               *)
(* ================================================================================================ *)
Lemma reaches_bad key c c' T below tot' :
  reaches key c [root_frame] None c' (T :: below) tot' ->
  stack_step key c' T below tot' = SErr TemplateSyntaxError ->
  stack_loop (S (length (rest c))) key c [root_frame] None = Err TemplateSyntaxError.
Proof.
  intros [n Hn] Hs.
  assert (Hbig : stack_loop (n + 1) key c [root_frame] None = Err TemplateSyntaxError).
  { rewrite Hn. cbn [stack_loop]. rewrite Hs. reflexivity. }
  pose proof (stack_loop_spec (S (length (rest c))) key c [root_frame] None) as Hspec.
  assert (Hi : st_inv [root_frame] None) by (cbn; apply so_root; reflexivity).
  specialize (Hspec Hi (fun _ => Nat.lt_succ_diag_r _)).
  destruct (stack_loop (S (length (rest c))) key c [root_frame] None) as [x|k|] eqn:E; [| |contradiction].
  - exfalso. pose proof (stack_loop_det _ _ _ _ _ _ _ _ E ltac:(discriminate) Hbig ltac:(discriminate)). discriminate.
  - apply (stack_loop_det _ _ _ _ _ _ _ _ E ltac:(discriminate) Hbig ltac:(discriminate)).
Qed.

(* the attribute that fails: after `w1`, `pre0` is what parse_key consumes (`key=` or nothing) *)
Lemma attrs_word_bad d w1 txt key c2 :
  forallb is_ws w1 = true -> nows txt = true -> txt <> [] ->
  parse_key (mkcur (rev w1 ++ d) txt) = KKey key c2 ->
  stack_loop (S (length (rest c2))) key c2 [root_frame] None = Err TemplateSyntaxError ->
  forall f A, attrs_loop (S f) (mkcur d (w1 ++ txt)) A = Err TemplateSyntaxError.
Proof.
  intros Hw Hn Hne Hk Hs f A. cbn [attrs_loop].
  assert (Hsk : skip_ws (mkcur d (w1 ++ txt)) = mkcur (rev w1 ++ d) txt) by (apply skip_ws_run; assumption).
  replace (at_end (mkcur d (w1 ++ txt))) with false.
  2:{ unfold at_end. cbn [rest]. destruct (w1 ++ txt) eqn:E; [|reflexivity]. apply app_eq_nil in E as [_ E]. congruence. }
  rewrite Hsk, Hk, Hs. reflexivity.
Qed.

(* a tag whose valid arguments are followed by a failing one *)
Lemma parse_tag_bad allowed lay tag items w1 txt key c2 :
  tok_ok tag = true -> forallb tok_ok allowed = true -> forallb (item_ok allowed) items = true ->
  forallb is_ws w1 = true -> w1 <> [] ->
  (exists x s, txt = x :: s /\ is_ws x = false /\ N.eqb x 124 || N.eqb x 58 = false) ->
  (forall d, parse_key (mkcur d txt) = KKey key (c2 d) /\
             stack_loop (S (length (rest (c2 d)))) key (c2 d) [root_frame] None = Err TemplateSyntaxError) ->
  parse_tag (tag ++ print_items lay items ++ w1 ++ txt) = Err TemplateSyntaxError.
Proof.
  intros Htag Hal Hitems Hw Hne (x & s & Etxt & Hx & Hf) Hbad.
  assert (Hfo : follows_ok (w1 ++ txt)) by (rewrite Etxt; apply follows_cons; assumption).
  pose proof (follows_items allowed items lay (w1 ++ txt) Hal Hitems Hfo) as Hfo'.
  destruct Hfo' as (w & r & Erst & Hww & He).
  destruct (item_run [tag] lay (IFlag tag) [] [] w r) as (st & Htagrun); auto.
  { cbn [forallb]. rewrite Htag. reflexivity. }
  { cbn [item_ok]. unfold str_in. cbn [existsb]. rewrite str_eqb_refl. reflexivity. }
  destruct (items_run allowed items lay (rev tag) (w1 ++ txt) Hal Hitems Hfo) as (attrs' & _ & Hrun).
  assert (Hbig : attrs_loop (S (S (length items + 1))) (mkcur [] (tag ++ print_items lay items ++ w1 ++ txt)) []
                 = Err TemplateSyntaxError).
  { rewrite Erst. specialize (Htagrun (length items + 1) []). cbn [print_item app rev] in Htagrun. rewrite !app_nil_r in Htagrun.
    rewrite Htagrun. rewrite <- Erst. rewrite Hrun.
    destruct (Hbad (rev w1 ++ rev (print_items lay items) ++ rev tag)) as [Hk Hs].
    apply (attrs_word_bad _ w1 txt key (c2 (rev w1 ++ rev (print_items lay items) ++ rev tag)) Hw); auto.
    - rewrite Etxt. cbn [nows]. rewrite Hx. reflexivity.
    - rewrite Etxt. discriminate. }
  pose proof (parse_tag_spec (tag ++ print_items lay items ++ w1 ++ txt)) as Hspec. unfold parse_tag in *.
  destruct (attrs_loop (S (length (tag ++ print_items lay items ++ w1 ++ txt))) (mkcur [] (tag ++ print_items lay items ++ w1 ++ txt)) []) as [[n a]|k|] eqn:E; [| |contradiction].
  - exfalso. pose proof (attrs_loop_det _ _ _ _ _ _ E ltac:(discriminate) Hbig ltac:(discriminate)). discriminate.
  - apply (attrs_loop_det _ _ _ _ _ _ E ltac:(discriminate) Hbig ltac:(discriminate)).
Qed.

(* ================================================================================================ *)
(* C. `[ [ ... {` : the containers that are open when the offending operator is met                  *)
(* ================================================================================================ *)
Fixpoint opens_text (os : list str) : str :=
  match os with [] => [] | w :: r => 91%N :: filter is_ws w ++ opens_text r end.
Definition last_text (last : option str) : str :=
  match last with Some w => 123%N :: filter is_ws w | None => [] end.
Definition inner_ty (os : list str) (last : option str) : stype :=
  match last with Some _ => TDict | None => match os with [] => TSimple | _ => TList end end.
Definition lf : frame := mkframe TList None [] None.
Definition df : frame := mkframe TDict None [] (Some true).

Lemma repeat_comm {A} (x : A) n l : repeat x n ++ x :: l = x :: repeat x n ++ l.
Proof. induction n as [|n IH]; [reflexivity|]. cbn [repeat app]. rewrite IH. reflexivity. Qed.

Lemma opens_nows os r : nows r = true -> nows (opens_text os ++ r) = true.
Proof. destruct os; [auto | reflexivity]. Qed.

Lemma opens_reach key : forall os d r T below tot,
  f_ty T = TList \/ f_ty T = TSimple -> length (T :: below) + length os <= 100 -> nows r = true ->
  reaches key (mkcur d (opens_text os ++ r)) (T :: below) tot
          (mkcur (rev (opens_text os) ++ d) r) (repeat lf (length os) ++ T :: below) tot.
Proof.
  induction os as [|w os IH]; intros d r T below tot HT Hlen Hr.
  - apply reaches_refl.
  - cbn [opens_text length repeat app]. cbn [length] in Hlen.
    eapply reaches_trans.
    { apply reaches_step. apply (step_open_list key T below tot None [] d).
      - destruct HT as [HT|HT]; [apply op_list | apply op_top]; exact HT.
      - discriminate.
      - cbn [length]. lia. }
    rewrite <- app_assoc.
    eapply reaches_trans.
    { apply (reaches_skip key (filter is_ws w) _ (opens_text os ++ r) lf (T :: below) tot (filter_ws_all w)).
      apply opens_nows. exact Hr. }
    eapply reaches_trans.
    { apply (IH _ r lf (T :: below) tot); [left; reflexivity | cbn [length]; lia | exact Hr]. }
    rewrite repeat_comm. apply reaches_refl2; [|reflexivity]. f_equal. norm_rev. reflexivity.
Qed.

Lemma last_reach key last d r T below tot :
  f_ty T = TList \/ f_ty T = TSimple -> length (T :: below) <= 100 -> nows r = true ->
  reaches key (mkcur d (last_text last ++ r)) (T :: below) tot
          (mkcur (rev (last_text last) ++ d) r)
          (match last with Some _ => df :: T :: below | None => T :: below end) tot.
Proof.
  intros HT Hlen Hr. destruct last as [w|]; [|apply reaches_refl].
  cbn [last_text app].
  eapply reaches_trans.
  { apply reaches_step. apply (step_open_dict key T below tot None [] d).
    - destruct HT as [HT|HT]; [apply op_list | apply op_top]; exact HT.
    - discriminate.
    - exact Hlen. }
  eapply reaches_trans.
  { apply (reaches_skip key (filter is_ws w) _ r df (T :: below) tot (filter_ws_all w) Hr). }
  apply reaches_refl2; [|reflexivity]. f_equal. norm_rev. reflexivity.
Qed.

(* the state in front of the offending text: innermost frame of type inner_ty *)
Lemma containers_reach key (os : list str) (last : option str) d b :
  length os + (if last then 1 else 0) <= 99 -> nows b = true ->
  exists T below,
    reaches key (mkcur d (opens_text os ++ last_text last ++ b)) [root_frame] None
            (mkcur (rev (opens_text os ++ last_text last) ++ d) b) (T :: below) None
    /\ f_ty T = inner_ty os last.
Proof.
  intros Hlen Hb.
  pose proof (opens_reach key os d (last_text last ++ b) root_frame [] None (or_intror eq_refl)
                ltac:(cbn [length]; destruct last; lia)) as H1.
  assert (Hn : nows (last_text last ++ b) = true) by (destruct last; [reflexivity | exact Hb]).
  specialize (H1 Hn).
  destruct os as [|w os].
  - cbn [length repeat app opens_text] in *.
    pose proof (last_reach key last d b root_frame [] None (or_intror eq_refl) ltac:(cbn; lia) Hb) as H2.
    destruct last as [w|]; eexists _, _; (split; [exact H2 | reflexivity]).
  - set (stk := repeat lf (length (w :: os)) ++ [root_frame]) in *.
    assert (Es : stk = lf :: repeat lf (length os) ++ [root_frame]) by reflexivity.
    rewrite Es in H1.
    pose proof (last_reach key last (rev (opens_text (w :: os)) ++ d) b lf (repeat lf (length os) ++ [root_frame]) None
                  (or_introl eq_refl)) as H2.
    assert (Hl : length (lf :: repeat lf (length os) ++ [root_frame]) <= 100).
    { cbn [length]. rewrite app_length, repeat_length. cbn [length] in *. destruct last; lia. }
    specialize (H2 Hl Hb).
    destruct last as [w'|]; eexists _, _; (split; [eapply reaches_trans; [exact H1|]; 
      eapply reaches_trans; [exact H2|]; apply reaches_refl2; [f_equal; norm_rev; reflexivity | reflexivity] | reflexivity]).
Qed.

(* the general form: `pre` is any text after which the container stack has an innermost frame of type `ty` *)
Lemma invalid_after_prefix allowed lay tag items w1 (kopt : option str) pre b ty :
  tok_ok tag = true -> forallb tok_ok allowed = true -> forallb (item_ok allowed) items = true ->
  forallb is_ws w1 = true -> w1 <> [] ->
  match kopt with Some k => key_ok k = true | None => True end ->
  (forall d, exists T below tot,
     reaches kopt (mkcur d (pre ++ b)) [root_frame] None (mkcur (rev pre ++ d) b) (T :: below) tot /\ f_ty T = ty) ->
  (pre = [] \/ exists t, pre = 91%N :: t \/ pre = 123%N :: t) ->
  bad_spread ty kopt b = true ->
  parse_tag (tag ++ print_items lay items ++ w1 ++ match kopt with Some k => k ++ [61%N] | None => [] end ++ pre ++ b)
  = Err TemplateSyntaxError.
Proof.
  intros Htag Hal Hitems Hw Hne Hk Hreach Hpre Hbad.
  destruct (bad_spread_head _ _ _ Hbad) as (x & s & Eb & Hx).
  assert (Hnb : nows b = true) by (rewrite Eb; destruct Hx as [->| ->]; reflexivity).
  set (body := pre ++ b).
  assert (Hbody : forall d, stack_loop (S (length body)) kopt (mkcur d body) [root_frame] None = Err TemplateSyntaxError).
  { intros d. destruct (Hreach d) as (T & below & tot & Hr & HT).
    apply (reaches_bad kopt (mkcur d body) (mkcur (rev pre ++ d) b) T below tot).
    - exact Hr.
    - apply stack_step_bad. rewrite (skip_ws_none _ b Hnb). cbn [rest]. rewrite HT. exact Hbad. }
  assert (Hvs : forall d, is_next VALUE_START (mkcur d body) = true).
  { intro d. subst body. destruct Hpre as [->|(t & [->| ->])]; cbn [app]; try reflexivity.
    unfold is_next, VALUE_START. cbn [rest]. rewrite existsb_app. apply orb_true_iff. right.
    unfold bad_spread in Hbad. unfold SPREAD. cbn [existsb].
    destruct (starts_with [46; 46; 46]%N b); [rewrite !orb_true_r; reflexivity|].
    destruct (starts_with [42; 42]%N b); [rewrite !orb_true_r; reflexivity|].
    destruct (starts_with [42]%N b); [reflexivity | discriminate]. }
  assert (Hbody_head : exists y t, body = y :: t /\ existsb (N.eqb y) [91; 123; 46; 42]%N = true).
  { subst body. destruct Hpre as [->|(t & [->| ->])]; cbn [app].
    - rewrite Eb. eexists _, _. split; [reflexivity|]. destruct Hx as [->| ->]; reflexivity.
    - eexists _, _. split; reflexivity.
    - eexists _, _. split; reflexivity. }
  destruct Hbody_head as (y & t & Ey & Hy).
  destruct kopt as [k|].
  - rewrite <- (app_assoc k).
    apply (parse_tag_bad allowed lay tag items w1 (k ++ [61%N] ++ body) (Some k)
             (fun d => mkcur (61%N :: rev k ++ d) body)); auto.
    + destruct (key_ok_parts k Hk) as (x0 & k' & -> & H58 & Hx0 & _). eexists x0, _. split; [reflexivity|].
      unfold key_char in Hx0. apply negb_true_iff in Hx0. split.
      * unfold is_ws. eapply existsb_incl; [exact Hx0 | reflexivity].
      * assert (E' : existsb (N.eqb x0) [124]%N = false) by (eapply existsb_incl; [exact Hx0 | reflexivity]).
        cbn [existsb] in E'. rewrite orb_false_r in E'. rewrite E'. apply N.eqb_neq. exact H58.
    + intro d. split.
      * cbn [app]. apply parse_key_kw. exact Hk.
      * cbn [rest]. apply Hbody.
  - apply (parse_tag_bad allowed lay tag items w1 body None (fun d => mkcur d body)); auto.
    + exists y, t. split; [exact Ey|].
      cbn [existsb] in Hy. rewrite !orb_true_iff, !N.eqb_eq in Hy.
      destruct Hy as [->|[->|[->|[->|H]]]]; try discriminate; split; reflexivity.
    + intro d. split.
      * specialize (Hvs d). rewrite Ey in *. apply parse_key_pos'. left. exact Hvs.
      * cbn [rest]. apply Hbody.
Qed.

(* invalid_spreads_rejected: any valid arguments, any layout, then an argument - with or without `key=` - that opens
   lists (and possibly a dict) and then has a spread operator that is wrong there:  a=[...x  a={...x  a=[**x  a={*x
   a=[[ {...  key=...x  **x  *x ... - whatever follows in `b` *)
Theorem invalid_spread_rejected allowed lay tag items w1 (kopt : option str) (os : list str) (last : option str) b :
  tok_ok tag = true -> forallb tok_ok allowed = true -> forallb (item_ok allowed) items = true ->
  forallb is_ws w1 = true -> w1 <> [] ->
  match kopt with Some k => key_ok k = true | None => True end ->
  length os + (if last then 1 else 0) <= 99 ->
  bad_spread (inner_ty os last) kopt b = true ->
  parse_tag (tag ++ print_items lay items ++ w1
             ++ match kopt with Some k => k ++ [61%N] | None => [] end ++ (opens_text os ++ last_text last) ++ b)
  = Err TemplateSyntaxError.
Proof.
  intros Htag Hal Hitems Hw Hne Hk Hlen Hbad.
  destruct (bad_spread_head _ _ _ Hbad) as (x & s & Eb & Hx).
  assert (Hnb : nows b = true) by (rewrite Eb; destruct Hx as [->| ->]; reflexivity).
  apply (invalid_after_prefix allowed lay tag items w1 kopt (opens_text os ++ last_text last) b (inner_ty os last)); auto.
  - intro d. destruct (containers_reach kopt os last d b Hlen Hnb) as (T & below & Hr & HT).
    exists T, below, None. split; [|exact HT]. rewrite <- app_assoc. exact Hr.
  - destruct os as [|w os]; [destruct last as [w|]|]; cbn [opens_text last_text app]; eauto.
Qed.



(* ================================================================================================ *)
(* D. a spread in the VALUE position of a dict:  a={"key": ...x   a=[{k: *x                          *)
(* ================================================================================================ *)
Definition dkey_text (lay : layout) (w w7 w8 : str) (kl : leaf) : str :=
  123%N :: filter is_ws w ++ print_leaf lay kl ++ filter is_ws w7 ++ 58%N :: filter is_ws w8.

Theorem invalid_spread_in_dict_value allowed lay tag items w1 (kopt : option str) (os : list str) klay w w7 w8 kl b :
  tok_ok tag = true -> forallb tok_ok allowed = true -> forallb (item_ok allowed) items = true ->
  forallb is_ws w1 = true -> w1 <> [] ->
  match kopt with Some k => key_ok k = true | None => True end ->
  length os <= 98 -> leaf_ok kl = true -> no_args kl = true ->
  bad_spread TDict kopt b = true ->
  parse_tag (tag ++ print_items lay items ++ w1
             ++ match kopt with Some k => k ++ [61%N] | None => [] end ++ (opens_text os ++ dkey_text klay w w7 w8 kl) ++ b)
  = Err TemplateSyntaxError.
Proof.
  intros Htag Hal Hitems Hw Hne Hk Hlen Hkl Hna Hbad.
  destruct (bad_spread_head _ _ _ Hbad) as (x & s & Eb & Hx).
  assert (Hnb : nows b = true) by (rewrite Eb; destruct Hx as [->| ->]; reflexivity).
  apply (invalid_after_prefix allowed lay tag items w1 kopt (opens_text os ++ dkey_text klay w w7 w8 kl) b TDict); auto.
  - intro d.
    destruct (leaf_lead klay kl Hkl) as (k0 & ks & Ek & Hk0). destruct (lead_facts k0 Hk0) as (K1 & _).
    (* up to the `{` and the white space after it *)
    destruct (containers_reach kopt os (Some w) d (print_leaf klay kl ++ filter is_ws w7 ++ 58%N :: filter is_ws w8 ++ b))
      as (T & below & Hr & HT); [lia | rewrite Ek; cbn [app nows]; rewrite K1; reflexivity |].
    cbn [inner_ty] in HT.
    (* the frame reached is the fresh dict frame: we need its meta; redo the last step explicitly *)
    clear T below Hr HT.
    pose proof (opens_reach kopt os d (dkey_text klay w w7 w8 kl ++ b) root_frame [] None (or_intror eq_refl)
                  ltac:(cbn [length]; lia) eq_refl) as H1.
    set (stk := repeat lf (length os) ++ [root_frame]) in *.
    assert (Hstk : exists T0 below0, stk = T0 :: below0 /\ (f_ty T0 = TList \/ f_ty T0 = TSimple) /\ length stk <= 100).
    { subst stk. destruct os as [|w0 os]; cbn [length repeat app].
      - eexists _, _. split; [reflexivity|]. split; [right; reflexivity | cbn; lia].
      - eexists _, _. split; [reflexivity|]. split; [left; reflexivity|].
        cbn [length]. rewrite app_length, repeat_length. cbn [length] in *. lia. }
    destruct Hstk as (T0 & below0 & Es & HT0 & Hl0). rewrite Es in *.
    set (F1 := push_entry df (NVal (parts_of_leaf None kl))).
    exists (set_meta F1 (Some false)), (T0 :: below0), None. split; [|reflexivity].
    rewrite <- app_assoc. eapply reaches_trans; [exact H1|].
    unfold dkey_text. cbn [app].
    eapply reaches_trans.
    { apply reaches_step. apply (step_open_dict kopt T0 below0 None None []).
      - destruct HT0 as [E|E]; [apply op_list | apply op_top]; exact E.
      - discriminate.
      - exact Hl0. }
    rewrite <- !app_assoc.
    eapply reaches_trans.
    { apply (reaches_skip kopt (filter is_ws w) _ _ df (T0 :: below0) None (filter_ws_all w)).
      rewrite Ek. cbn [app nows]. rewrite K1. reflexivity. }
    cbn [app].
    eapply reaches_trans.
    { apply reaches_step. apply (step_leaf_dict_key kopt df (T0 :: below0) None klay kl _ (filter is_ws w7)); auto using filter_ws_all. }
    eapply reaches_trans.
    { apply reaches_step. apply step_colon; reflexivity. }
    eapply reaches_trans.
    { apply (reaches_skip kopt (filter is_ws w8) _ b _ (T0 :: below0) None (filter_ws_all w8) Hnb). }
    apply reaches_refl2; [|reflexivity]. f_equal. norm_rev. reflexivity.
  - destruct os as [|w0 os]; unfold dkey_text; cbn [opens_text app]; eauto.
Qed.

(* ================================================================================================ *)
(* E. a spread inside a filter:  a=val|...x   val | *x                                               *)
(* ================================================================================================ *)
Definition spread_start (r : str) : bool := starts_with [46; 46; 46]%N r || starts_with [42]%N r.

Lemma extract_spread_in_filter ty f key c : spread_start (rest c) = true ->
  extract_spread ty (Some f) key c = Err TemplateSyntaxError.
Proof.
  unfold spread_start, extract_spread. intro H.
  assert (Hs : is_next SPREAD c = starts_with [42]%N (rest c) || (starts_with [42; 42]%N (rest c) || (starts_with [46; 46; 46]%N (rest c) || false)))
    by reflexivity.
  rewrite Hs, !is_next_single.
  destruct (starts_with [46; 46; 46]%N (rest c)) eqn:E3.
  - rewrite !orb_true_r. destruct (stype_eqb ty TSimple); reflexivity.
  - cbn [orb] in H. rewrite H. cbn [orb].
    destruct (starts_with [42; 42]%N (rest c)); destruct (stype_eqb ty TDict); destruct (stype_eqb ty TList); reflexivity.
Qed.

Lemma parts_loop_filter_spread key t wa wb b d n : tok_ok t = true ->
  forallb is_ws wa = true -> forallb is_ws wb = true -> spread_start b = true ->
  parts_loop (S (S n)) TSimple None key (mkcur d (t ++ wa ++ 124%N :: wb ++ b)) [] true None = Err TemplateSyntaxError.
Proof.
  intros Ht Hwa Hwb Hb.
  destruct (tok_ok_parts t Ht) as (x & t' & Et & Hx & Hv).
  assert (Hxw : is_ws x = false) by (unfold is_ws; eapply existsb_incl; [exact Hx | reflexivity]).
  assert (Hxf : N.eqb x 124 || N.eqb x 58 = false).
  { assert (E : existsb (N.eqb x) [124; 58]%N = false) by (eapply existsb_incl; [exact Hx | reflexivity]).
    cbn [existsb] in E. rewrite orb_false_r in E. exact E. }
  assert (Hnb : nows b = true).
  { unfold spread_start in Hb. destruct b as [|y b']; [discriminate|]. cbn [starts_with] in Hb. cbn [nows].
    destruct (N.eqb_spec 46 y) as [<-|E1]; [reflexivity|]. destruct (N.eqb_spec 42 y) as [<-|E2]; [reflexivity|]. discriminate. }
  cbn [parts_loop].
  rewrite skip_ws_none by (rewrite Et; cbn [app nows]; rewrite Hxw; reflexivity).
  unfold at_end. rewrite Et. cbn [app rest andb negb]. rewrite is_next_FILTER, Hxf.
  rewrite es_none by (eapply existsb_incl; [exact Hx | reflexivity]).
  cbn [terminal_tokens is_some negb andb stype_eqb].
  change (x :: t' ++ wa ++ 124%N :: wb ++ b) with ((x :: t') ++ wa ++ 124%N :: wb ++ b). rewrite <- Et.
  change (@nil str) with (map single []).
  rewrite (scan_value_var [] t d (wa ++ 124%N :: wb ++ b) eq_refl Ht).
  2:{ destruct wa as [|y wa']; [reflexivity|]. cbn [forallb] in Hwa. apply andb_true_iff in Hwa as [Hy _].
      cbn [app follow]. rewrite existsb_app. unfold is_ws in Hy. rewrite Hy. reflexivity. }
  cbn [mk_part is_some andb negb map].
  rewrite (skip_ws_run wa _ (124%N :: wb ++ b) Hwa eq_refl).
  (* second iteration: the filter part *)
  cbn [parts_loop]. rewrite skip_ws_none by reflexivity.
  unfold at_end. cbn [rest andb negb]. rewrite is_next_FILTER. cbn [N.eqb orb negb andb].
  replace (N.eqb 124 124) with true by reflexivity. cbn [orb negb andb].
  rewrite take_n_1. cbn beta iota zeta.
  rewrite (skip_ws_run wb _ b Hwb Hnb).
  replace (N.eqb 124 58) with false by reflexivity.
  rewrite extract_spread_in_filter by exact Hb. reflexivity.
Qed.

Theorem invalid_spread_in_filter allowed lay tag items w1 (kopt : option str) t wa wb b :
  tok_ok tag = true -> forallb tok_ok allowed = true -> forallb (item_ok allowed) items = true ->
  forallb is_ws w1 = true -> w1 <> [] ->
  match kopt with Some k => key_ok k = true | None => True end ->
  tok_ok t = true -> forallb is_ws wa = true -> forallb is_ws wb = true -> spread_start b = true ->
  parse_tag (tag ++ print_items lay items ++ w1
             ++ match kopt with Some k => k ++ [61%N] | None => [] end ++ t ++ wa ++ 124%N :: wb ++ b)
  = Err TemplateSyntaxError.
Proof.
  intros Htag Hal Hitems Hw Hne Hk Ht Hwa Hwb Hb.
  set (body := t ++ wa ++ 124%N :: wb ++ b).
  destruct (tok_ok_parts t Ht) as (x & t' & Et & Hx & Hv).
  assert (Hlead : existsb (N.eqb x) (WSCH ++ [124; 58; 44; 93; 125; 91; 123; 42; 46]%N) = false)
    by (eapply existsb_incl; [exact Hx | reflexivity]).
  assert (Hbody : forall key d, stack_loop (S (length body)) key (mkcur d body) [root_frame] None = Err TemplateSyntaxError).
  { intros key d. cbn [stack_loop]. rewrite (step_value key d body root_frame [] None).
    - cbn [root_frame f_ty f_meta f_sp]. subst body.
      rewrite (parts_loop_filter_spread key t wa wb b d _ Ht Hwa Hwb Hb). reflexivity.
    - subst body. rewrite Et. cbn [app]. apply vstart_lead. exact Hlead. }
  assert (Hxw : is_ws x = false) by (unfold is_ws; eapply existsb_incl; [exact Hx | reflexivity]).
  assert (Hxf : N.eqb x 124 || N.eqb x 58 = false).
  { assert (E : existsb (N.eqb x) [124; 58]%N = false) by (eapply existsb_incl; [exact Hx | reflexivity]).
    cbn [existsb] in E. rewrite orb_false_r in E. exact E. }
  destruct kopt as [k|].
  - rewrite <- (app_assoc k).
    apply (parse_tag_bad allowed lay tag items w1 (k ++ [61%N] ++ body) (Some k)
             (fun d => mkcur (61%N :: rev k ++ d) body)); auto.
    + destruct (key_ok_parts k Hk) as (x0 & k' & -> & H58 & Hx0 & _). eexists x0, _. split; [reflexivity|].
      unfold key_char in Hx0. apply negb_true_iff in Hx0. split.
      * unfold is_ws. eapply existsb_incl; [exact Hx0 | reflexivity].
      * assert (E' : existsb (N.eqb x0) [124]%N = false) by (eapply existsb_incl; [exact Hx0 | reflexivity]).
        cbn [existsb] in E'. rewrite orb_false_r in E'. rewrite E'. apply N.eqb_neq. exact H58.
    + intro d. split; [cbn [app]; apply parse_key_kw; exact Hk | cbn [rest]; apply Hbody].
  - apply (parse_tag_bad allowed lay tag items w1 body None (fun d => mkcur d body)); auto.
    + subst body. rewrite Et. eexists _, _. split; [reflexivity|]. auto.
    + intro d. split; [|cbn [rest]; apply Hbody].
      subst body. rewrite Et. cbn [app]. apply parse_key_pos'. right.
      exists (x :: t'), (wa ++ 124%N :: wb ++ b). split; [reflexivity|]. split.
      * rewrite <- Et. apply var_char_not61. exact Hv.
      * destruct wa as [|y wa']; [reflexivity|]. cbn [forallb] in Hwa. apply andb_true_iff in Hwa as [Hy _].
        cbn [app]. unfold stopper. rewrite Hy. reflexivity.
Qed.
