(* Model for property C11 - a tag accepts its arguments exactly when the Python call would.

   S-model:  py_call  (Python's argument binding, per parameter) and py_bind (the "equivalent Python call"
             of a tag's argument sequence: positional after keyword = error, repeated keyword = error,
             else bind  render(self, context, *positional, **keywords)).
   M-model:  transliteration of (line numbers of /repo at 87d326f)
               template_tag.py:68-100      resolve_params (spreads flattened; non-str mapping key refused, 85-88)
               node.py:137-161             wsplit        (NodeMeta.wrapper_render: special kwargs -> dict)
               template_tag.py:296-338,
                               408-452     vstep/vloop   (the argument loop, same text in both validators)
               template_tag.py:382-401,
                               444-448,
                               461-476     code_view / code_action   (_validate_params_with_code, fast path)
               template_tag.py:272-294,
                               334, 347-364 sig_view / sig_action    (_validate_params_with_signature)
               node.py:66, 83-85           sparams_of    (inspect.signature(orig_render, follow_wrapped=False) - the signature
                                                          of the callable the tag calls, also when it is a functools.wraps
                                                          wrapper - then validation_params[2:])
               node.py:195                 the final call orig_render(self, context, *args, **kwargs) = py_call
             impl_bind = py_call o validator o wsplit o resolve_params.
   The model is the code of /repo as it is after the fix commits 3c868d2 (no keyword default for positional-only
   parameters), 8478320 (repeated non-identifier key refused in wrapper_render), 81cf028 (name of a
   positional-only parameter accepted as a key of **kwargs), 87d326f (non-str key of a spread mapping refused) and
   e295553 (validation signature no longer follows __wrapped__).  `sig` is always the signature of the callable that is
   called: for a decorated render() that is the wrapper (its __code__ on the fast path, its own signature on the fallback).
   Definitions only; proofs in Bind/Proofs.v. *)
From DJC Require Import Lib.Base.

(* ---------- small dictionary / set helpers over str keys ---------- *)
Notation kwl := (list (str * N)) (only parsing).

Definition smem (x : str) (l : list str) : bool := existsb (str_eqb x) l.

Fixpoint klookup (x : str) (l : kwl) : option N :=
  match l with
  | [] => None
  | (k, v) :: r => if str_eqb x k then Some v else klookup x r
  end.
Definition kmem (x : str) (l : kwl) : bool :=
  match klookup x l with Some _ => true | None => false end.

(* d[k] = v : replace in place, else append (Python dict keeps first-insertion order) *)
Fixpoint dset (k : str) (v : N) (l : kwl) : kwl :=
  match l with
  | [] => [(k, v)]
  | (k', v') :: r => if str_eqb k k' then (k, v) :: r else (k', v') :: dset k v r
  end.
(* d.update(e) *)
Definition dupdate (d e : kwl) : kwl := fold_left (fun acc kv => dset (fst kv) (snd kv) acc) e d.

Definition nonempty {A} (l : list A) : bool := match l with [] => false | _ => true end.
Definition is_some {A} (o : option A) : bool := match o with Some _ => true | None => false end.

(* ---------- signatures ---------- *)
Record param := mkP { pname : str; pdef : option N }.
(* def render(<s_po>, /, <s_pk>, *<s_va>, <s_ko>, **<s_vk>) - the FULL signature, `self` and `context`
   (whatever they are called) are its first two positional parameters. *)
Record sig := mkSig { s_po : list param; s_pk : list param; s_va : option str;
                      s_ko : list param; s_vk : option str }.

Definition pos_params (F : sig) : list param := s_po F ++ s_pk F.
Definition opt_list {A} (o : option A) : list A := match o with Some x => [x] | None => [] end.
Definition all_names (F : sig) : list str :=
  map pname (pos_params F) ++ opt_list (s_va F) ++ map pname (s_ko F) ++ opt_list (s_vk F).

(* ---------- results ---------- *)
Inductive errk := TypeError | SyntaxError | IndexError | OtherError.
Inductive res (A : Type) := Ok (a : A) | Err (e : errk).
Arguments Ok {A} a.
Arguments Err {A} e.

(* what locals() of the called function shows: parameter values in signature order, *args, **kwargs *)
Record binding := mkB { b_vals : list (str * N); b_va : option (list N); b_kw : option kwl }.

(* ---------- S: binding of a Python call f( *args, **kws ) ---------- *)
(* positional parameters, npo = how many of the remaining ones are positional-only *)
Fixpoint bind_pos (npo : nat) (ps : list param) (args : list N) (kws : kwl) : option (list (str * N)) :=
  match ps with
  | [] => Some []
  | p :: ps' =>
      let is_po := match npo with O => false | S _ => true end in
      let v := match args with
               | a :: _ => if negb is_po && kmem (pname p) kws then None (* multiple values *) else Some a
               | [] => match (if is_po then None else klookup (pname p) kws) with
                       | Some v => Some v
                       | None => pdef p (* None = missing required argument *)
                       end
               end in
      match v, bind_pos (pred npo) ps' (tl args) kws with
      | Some v, Some r => Some ((pname p, v) :: r)
      | _, _ => None
      end
  end.

Fixpoint bind_ko (ps : list param) (kws : kwl) : option (list (str * N)) :=
  match ps with
  | [] => Some []
  | p :: ps' =>
      match (match klookup (pname p) kws with Some v => Some v | None => pdef p end), bind_ko ps' kws with
      | Some v, Some r => Some ((pname p, v) :: r)
      | _, _ => None
      end
  end.

(* keywords that name no keyword-capable parameter: they go to **kwargs or are an error *)
Definition kw_extra (F : sig) (kws : kwl) : kwl :=
  filter (fun kv => negb (smem (fst kv) (map pname (s_pk F ++ s_ko F)))) kws.

Definition py_call (F : sig) (args : list N) (kws : kwl) : res binding :=
  let P := pos_params F in
  if (length P <? length args) && negb (is_some (s_va F)) then Err TypeError      (* too many positional *)
  else if nonempty (kw_extra F kws) && negb (is_some (s_vk F)) then Err TypeError (* unexpected keyword *)
  else match bind_pos (length (s_po F)) P args kws, bind_ko (s_ko F) kws with
       | Some a, Some b =>
           Ok (mkB (a ++ b)
                   (if is_some (s_va F) then Some (skipn (length P) args) else None)
                   (if is_some (s_vk F) then Some (kw_extra F kws) else None))
       | _, _ => Err TypeError
       end.

(* ---------- tag arguments ---------- *)
(* key of a mapping that is spread into the tag ( ...d ): a str, None, or any other object that is not a str *)
Inductive dkey := DStr (s : str) | DNone | DOther.
Inductive targ := TPos (v : N) | TKw (k : str) (v : N) | TSpreadL (vs : list N) | TSpreadD (kvs : list (dkey * N)).
Notation entry := (option str * N)%type (only parsing).

Definition dkey_is_str (k : dkey) : bool := match k with DStr _ => true | _ => false end.
Definition dkey_name (k : dkey) : str := match k with DStr s => s | _ => [] end.
Definition keys_all_str (l : list targ) : bool :=
  forallb (fun a => match a with TSpreadD kvs => forallb (fun kv => dkey_is_str (fst kv)) kvs | _ => true end) l.

(* the arguments in order, spreads flattened: `...list` = its items as positional arguments, `...mapping` = its items
   as keywords (every item of a mapping is a keyword whatever its key; the name of a non-str key is not used) *)
Definition resolve1 (a : targ) : list entry :=
  match a with
  | TPos v => [(None, v)]
  | TKw k v => [(Some k, v)]
  | TSpreadL vs => map (fun v => (None, v)) vs
  | TSpreadD kvs => map (fun kv => (Some (dkey_name (fst kv)), snd kv)) kvs
  end.
Definition resolve (l : list targ) : list entry := flat_map resolve1 l.

Fixpoint pos_after_kw (l : list entry) (seen : bool) : bool :=
  match l with
  | [] => false
  | (None, _) :: r => seen || pos_after_kw r seen
  | (Some _, _) :: r => pos_after_kw r true
  end.
Definition entries_pos (l : list entry) : list N :=
  flat_map (fun e => match e with (None, v) => [v] | _ => [] end) l.
Definition entries_kw (l : list entry) : kwl :=
  flat_map (fun e => match e with (Some k, v) => [(k, v)] | _ => [] end) l.
Fixpoint has_dup_keys (l : kwl) : bool :=
  match l with [] => false | (k, _) :: r => kmem k r || has_dup_keys r end.

(* the equivalent Python call  render(self, context, <entries in order>) *)
Definition py_bind_entries (sv cv : N) (F : sig) (es : list entry) : res binding :=
  if pos_after_kw es false then Err SyntaxError
  else if has_dup_keys (entries_kw es) then Err TypeError
  else py_call F (sv :: cv :: entries_pos es) (entries_kw es).
(* f( **{None: 1} ) : TypeError "keywords must be strings" (after the compile-time order check) *)
Definition py_bind (sv cv : N) (F : sig) (call : list targ) : res binding :=
  if pos_after_kw (resolve call) false then Err SyntaxError
  else if keys_all_str call then py_bind_entries sv cv F (resolve call)
  else Err TypeError.

(* ---------- M: the implementation ---------- *)
(* template_tag.py:68-100 resolve_params: spreads become entries; a mapping key that is not a str is refused
   (lines 85-88, commit 87d326f) before anything else looks at the entries *)
Definition resolve_params (l : list targ) : res (list entry) :=
  if keys_all_str l then Ok (resolve l) else Err TypeError.

Section Impl.
  Variable special : str -> bool.   (* `not key.isidentifier() or keyword.iskeyword(key)` *)

  (* node.py:137-161.  inv = invalid_kwargs (a dict), seen = did_see_special_kwarg.
     Result: (resolved_params_without_invalid_kwargs, invalid_kwargs). *)
  Fixpoint wsplit (l : list entry) (seen : bool) (inv : kwl) : res (list entry * kwl) :=
    match l with
    | [] => Ok ([], inv)
    | (Some k, v) :: r =>
        if special k then
          if kmem k inv then Err TypeError                 (* node.py:148 `if key in invalid_kwargs` *)
          else wsplit r true (dset k v inv)
        else match wsplit r seen inv with
             | Ok (reg, i) => Ok ((Some k, v) :: reg, i)
             | Err e => Err e
             end
    | (None, v) :: r =>
        if seen then Err SyntaxError
        else match wsplit r seen inv with
             | Ok (reg, i) => Ok ((None, v) :: reg, i)
             | Err e => Err e
             end
    end.

  (* What the argument loop reads from the signature. *)
  Record vview := mkView { w_names : list str;      (* param_names / valid_params *)
                           w_pc : nat;              (* positional_count / max_positional_index *)
                           w_va : bool; w_vk : bool;
                           w_valid : str -> bool;   (* keyword-name test of the loop *)
                           w_ponames : list str     (* posonly_names / param_names[:posonly_count] *) }.
  Record vstate := mkV { v_seen : bool; v_used : list str; v_args : list N; v_kwargs : kwl; v_idx : nat }.
  Definition vinit : vstate := mkV false [] [] [] 0.

  (* one iteration of `for param in params:` (identical text in both validators) *)
  Definition vstep (w : vview) (s : vstate) (e : entry) : res vstate :=
    match e with
    | (None, v) =>
        if v_seen s then Err TypeError
        else if negb (w_va w) && (w_pc w <=? v_idx s) then Err TypeError
        else
          let named :=
            if v_idx s <? w_pc w then
              match nth_error (w_names w) (v_idx s) with
              | Some nm => if smem nm (v_used s) then Err TypeError else Ok (nm :: v_used s)
              | None => Err IndexError
              end
            else Ok (v_used s) in
          match named with
          | Err e => Err e
          | Ok u => Ok (mkV false u (v_args s ++ [v]) (v_kwargs s) (S (v_idx s)))
          end
    | (Some k, v) =>
        (* template_tag.py:328-330 / 439-441: the name of a positional-only parameter may still be a key of **kwargs *)
        let exempt := w_vk w && smem k (w_ponames w) && negb (kmem k (v_kwargs s)) in
        if smem k (v_used s) && negb exempt then Err TypeError
        else if negb (w_valid w k) then Err TypeError
        else Ok (mkV true (k :: v_used s) (v_args s) (dset k v (v_kwargs s)) (v_idx s))
    end.

  Fixpoint vloop (w : vview) (s : vstate) (l : list entry) : res vstate :=
    match l with
    | [] => Ok s
    | e :: r => match vstep w s e with Ok s' => vloop w s' r | Err x => Err x end
    end.

  (* what the "missing / defaults" loop does for one parameter that was not supplied *)
  Inductive action := ARequired | ADefault (d : N) | ASkip | AIndexErr.

  Fixpoint vpost (acts : list (str * action)) (used : list str) (kwargs : kwl) : res kwl :=
    match acts with
    | [] => Ok kwargs
    | (nm, a) :: r =>
        if smem nm used || kmem nm kwargs then vpost r used kwargs
        else match a with
             | ARequired => Err TypeError
             | ADefault d => vpost r used (dset nm d kwargs)
             | ASkip => vpost r used kwargs
             | AIndexErr => Err IndexError
             end
    end.

  (* acts nargs idx : the per-parameter actions given len(validated_args) and next_positional_index *)
  Definition validate (w : vview) (acts : nat -> nat -> list (str * action))
             (ps : list entry) (extra : kwl) : res (list N * kwl) :=
    match vloop w vinit ps with
    | Err e => Err e
    | Ok s =>
        if nonempty extra && negb (w_vk w) then Err TypeError
        else match vpost (acts (length (v_args s)) (v_idx s)) (v_used s) (dupdate (v_kwargs s) extra) with
             | Err e => Err e
             | Ok kw => Ok (v_args s, kw)
             end
    end.

  (* ----- fast path: _validate_params_with_code over fn.__code__ ----- *)
  Record codeinfo := mkCode { co_varnames : list str; co_argcount : nat; co_posonly : nat; co_kwonly : nat;
                              co_va : bool; co_vk : bool; fn_defaults : list N; fn_kwdefaults : kwl }.
  Definition code_names ci := skipn 2 (firstn (co_argcount ci + co_kwonly ci) (co_varnames ci)).
  Definition code_pc ci := co_argcount ci - 2.      (* max(0, co_argcount - 2) : nat subtraction truncates *)
  Definition code_poc ci := co_posonly ci - 2.      (* max(0, co_posonlyargcount - 2) *)
  Definition code_required ci : Z := (Z.of_nat (code_pc ci) - Z.of_nat (length (fn_defaults ci)))%Z.
  Definition znth {A} (l : list A) (z : Z) : option A :=
    if (z <? 0)%Z then None else nth_error l (Z.to_nat z).
  Definition code_valid ci (k : str) : bool :=
    smem k (firstn (code_pc ci + co_kwonly ci) (code_names ci)) || (co_vk ci && negb (smem k (code_names ci))).
  Definition code_view ci : vview :=
    mkView (code_names ci) (code_pc ci) (co_va ci) (co_vk ci) (code_valid ci)
           (firstn (code_poc ci) (code_names ci)).
  Definition code_action ci (nargs i : nat) (nm : str) : action :=
    if i <? code_pc ci then
      if (Z.of_nat i <? code_required ci)%Z then ARequired
      else if (code_poc ci <=? i) && (nargs <=? i) then
        match znth (fn_defaults ci) (Z.of_nat i - code_required ci)%Z with
        | Some d => ADefault d
        | None => AIndexErr
        end
      else ASkip
    else if i <? code_pc ci + co_kwonly ci then
      match klookup nm (fn_kwdefaults ci) with Some d => ADefault d | None => ARequired end
    else ASkip.
  Fixpoint code_actions_from ci (nargs i : nat) (names : list str) : list (str * action) :=
    match names with
    | [] => []
    | nm :: r => (nm, code_action ci nargs i nm) :: code_actions_from ci nargs (S i) r
    end.
  Definition validate_code ci := validate (code_view ci) (fun nargs _ => code_actions_from ci nargs 0 (code_names ci)).

  (* ----- fallback: _validate_params_with_signature over inspect.Signature ----- *)
  Inductive kind := KPo | KPk | KVa | KKo | KVk.
  Record sparam := mkSP { sp_name : str; sp_kind : kind; sp_def : option N }.
  Definition is_positional (p : sparam) : bool := match sp_kind p with KPo | KPk => true | _ => false end.
  Definition has_kind (k : kind) (sp : list sparam) : bool :=
    existsb (fun p => match sp_kind p, k with KVa, KVa => true | KVk, KVk => true | _, _ => false end) sp.
  (* max_positional_index: length of the leading run of positional parameters *)
  Fixpoint sig_pc (sp : list sparam) : nat :=
    match sp with p :: r => if is_positional p then S (sig_pc r) else 0 | [] => 0 end.
  Definition sig_names (sp : list sparam) : list str := map sp_name sp.
  Definition sig_valid sp (k : str) : bool := has_kind KVk sp || smem k (sig_names sp).
  Definition sig_view sp : vview :=
    mkView (sig_names sp) (sig_pc sp) (has_kind KVa sp) (has_kind KVk sp) (sig_valid sp)
           (map sp_name (filter (fun p => match sp_kind p with KPo => true | _ => false end) sp)).
  Definition sig_action (nargs idx : nat) (p : sparam) : action :=
    match sp_kind p with
    | KPo => match sp_def p with None => ARequired | Some _ => ASkip end
    | KPk => match sp_def p with
             | None => ARequired
             | Some d => if nargs <=? idx then ADefault d else ASkip
             end
    | KKo => match sp_def p with None => ARequired | Some d => ADefault d end
    | KVa | KVk => ASkip
    end.
  Definition sig_actions sp (nargs idx : nat) : list (str * action) :=
    map (fun p => (sp_name p, sig_action nargs idx p)) sp.
  Definition validate_sig sp := validate (sig_view sp) (sig_actions sp).

  (* ----- what Python hands to the validators for a function with signature F ----- *)
  Definition filter_defs (ps : list param) : list N :=
    flat_map (fun p => opt_list (pdef p)) ps.
  Definition code_of (F : sig) : codeinfo :=
    mkCode (map pname (pos_params F) ++ map pname (s_ko F) ++ opt_list (s_va F) ++ opt_list (s_vk F))
           (length (pos_params F)) (length (s_po F)) (length (s_ko F))
           (is_some (s_va F)) (is_some (s_vk F))
           (filter_defs (pos_params F))
           (flat_map (fun p => match pdef p with Some d => [(pname p, d)] | None => [] end) (s_ko F)).
  Definition full_sparams (F : sig) : list sparam :=
    map (fun p => mkSP (pname p) KPo (pdef p)) (s_po F) ++ map (fun p => mkSP (pname p) KPk (pdef p)) (s_pk F)
    ++ map (fun n => mkSP n KVa None) (opt_list (s_va F))
    ++ map (fun p => mkSP (pname p) KKo (pdef p)) (s_ko F)
    ++ map (fun n => mkSP n KVk None) (opt_list (s_vk F)).
  (* node.py:83-85  validation_params[2:] *)
  Definition sparams_of (F : sig) : list sparam := skipn 2 (full_sparams F).

  (* validate_params: fast path when func has __code__, else the signature path *)
  Definition validate_params (use_code : bool) (F : sig) (ps : list entry) (extra : kwl) :=
    if use_code then validate_code (code_of F) ps extra else validate_sig (sparams_of F) ps extra.

  (* wrapper_render as a whole, ending in orig_render(self, context, *args, **kwargs) *)
  Definition impl_bind_entries (use_code : bool) (sv cv : N) (F : sig) (es : list entry) : res binding :=
    match wsplit es false [] with
    | Err e => Err e
    | Ok (reg, inv) =>
        match validate_params use_code F reg inv with
        | Err e => Err e
        | Ok (args, kwargs) => py_call F (sv :: cv :: args) kwargs
        end
    end.
  Definition impl_bind (use_code : bool) (sv cv : N) (F : sig) (call : list targ) : res binding :=
    match resolve_params call with
    | Err e => Err e
    | Ok es => impl_bind_entries use_code sv cv F es
    end.
End Impl.


(* ---------- well-formed signatures (what `def` accepts) ---------- *)
Fixpoint nodup_str (l : list str) : bool :=
  match l with [] => true | x :: r => negb (smem x r) && nodup_str r end.
(* parameters with defaults form a suffix of the positional parameters *)
Fixpoint dsuffix (l : list param) : bool :=
  match l with
  | [] => true
  | p :: r => match pdef p with Some _ => forallb (fun q => is_some (pdef q)) r | None => dsuffix r end
  end.
Definition wfb (special : str -> bool) (F : sig) : bool :=
  (2 <=? length (pos_params F)) && nodup_str (all_names F) && dsuffix (pos_params F)
  && forallb (fun x => negb (special x)) (all_names F).

(* ---------- concrete `special` for ASCII keys: not isidentifier() or iskeyword() ---------- *)
Definition is_alpha_ (c : N) : bool :=
  ((65 <=? c) && (c <=? 90) || (97 <=? c) && (c <=? 122) || (c =? 95))%N.
Definition is_digit (c : N) : bool := ((48 <=? c) && (c <=? 57))%N.
Definition is_identifier (s : str) : bool :=
  match s with
  | [] => false
  | c :: r => is_alpha_ c && forallb (fun x => is_alpha_ x || is_digit x) r
  end.
Import Coq.Strings.String.StringSyntax.
Local Open Scope string_scope.
Definition py_keywords : list str := Eval compute in
  map s2n ["False"; "None"; "True"; "and"; "as"; "assert"; "async"; "await"; "break"; "class"; "continue";
           "def"; "del"; "elif"; "else"; "except"; "finally"; "for"; "from"; "global"; "if"; "import"; "in";
           "is"; "lambda"; "nonlocal"; "not"; "or"; "pass"; "raise"; "return"; "try"; "while"; "with";
           "yield"].
Local Close Scope string_scope.
Definition py_special (s : str) : bool := negb (is_identifier s) || smem s py_keywords.

(* ---------- correspondence cases ---------- *)
Fixpoint str_leb (a b : str) : bool :=
  match a, b with
  | [], _ => true
  | _ :: _, [] => false
  | x :: a', y :: b' => if (x <? y)%N then true else if (y <? x)%N then false else str_leb a' b'
  end.
Fixpoint kins (kv : str * N) (l : kwl) : kwl :=
  match l with
  | [] => [kv]
  | x :: r => if str_leb (fst kv) (fst x) then kv :: l else x :: kins kv r
  end.
Definition ksort (l : kwl) : kwl := fold_right kins [] l.

Definition kv_eqb (a b : str * N) : bool := str_eqb (fst a) (fst b) && N.eqb (snd a) (snd b).
Definition kwl_eqb (a b : kwl) : bool := list_eqb kv_eqb a b.
Definition binding_eqb (a b : binding) : bool :=
  kwl_eqb (b_vals a) (b_vals b)
  && option_eqb (list_eqb N.eqb) (b_va a) (b_va b)
  && option_eqb kwl_eqb (option_map ksort (b_kw a)) (option_map ksort (b_kw b)).
(* exact error class *)
Definition errk_eqb (a b : errk) : bool :=
  match a, b with
  | TypeError, TypeError | SyntaxError, SyntaxError | IndexError, IndexError | OtherError, OtherError => true
  | _, _ => false
  end.
(* argument errors: the property allows TypeError or SyntaxError *)
Definition arg_error (e : errk) : bool := match e with TypeError | SyntaxError => true | _ => false end.
Definition errk_sim (a b : errk) : bool := (arg_error a && arg_error b) || errk_eqb a b.

Definition res_eqb {A} (eqb : A -> A -> bool) (ee : errk -> errk -> bool) (a b : res A) : bool :=
  match a, b with
  | Ok x, Ok y => eqb x y
  | Err x, Err y => ee x y
  | _, _ => false
  end.

Definition SV : N := 1000%N.
Definition CV : N := 1001%N.

(* (i) py_bind against a real Python call: (signature, call, what Python did) *)
Definition pybind_case := (sig * list targ * res binding)%type.
Definition check_pybind (x : pybind_case) : bool :=
  let '(F, call, obs) := x in
  wfb py_special F && res_eqb binding_eqb errk_eqb (py_bind SV CV F call) obs.

(* (ii) the tag against impl_bind: (fast path?, signature, call, what the tag did) *)
Definition tag_case := (bool * sig * list targ * res binding)%type.
Definition check_tag (x : tag_case) : bool :=
  let '(use_code, F, call, obs) := x in
  res_eqb binding_eqb errk_sim (impl_bind py_special use_code SV CV F call) obs.

(* (iii) one validation path (fast path?) followed by the real call of render() with what it returned:
   (fast path?, signature, params, extra_kwargs, what the call did) *)
Definition validate_case := (bool * sig * list (option str * N) * list (str * N) * res binding)%type.
Definition check_validate (x : validate_case) : bool :=
  let '(use_code, F, ps, extra, obs) := x in
  res_eqb binding_eqb errk_sim
          (match validate_params use_code F ps extra with
           | Err e => Err e
           | Ok (args, kwargs) => py_call F (SV :: CV :: args) kwargs
           end) obs.

(* (i)+(ii) on one literal: (fast path?, signature, call, what Python did, what the tag did) *)
Definition both_case := (bool * sig * list targ * res binding * res binding)%type.
Definition check_both (x : both_case) : bool :=
  let '(use_code, F, call, p, t) := x in check_pybind (F, call, p) && check_tag (use_code, F, call, t).

(* ---------- the relation the theorems are stated with ---------- *)
(* **kwargs is a dictionary: equal as a mapping, insertion order is not part of the claim *)
Definition dict_equiv (d1 d2 : list (str * N)) : Prop := forall x, klookup x d1 = klookup x d2.
Definition binding_equiv (b1 b2 : binding) : Prop :=
  b_vals b1 = b_vals b2 /\ b_va b1 = b_va b2 /\
  match b_kw b1, b_kw b2 with
  | None, None => True
  | Some d1, Some d2 => dict_equiv d1 d2
  | _, _ => False
  end.

(* same bindings, or both refuse with TypeError / SyntaxError *)
Definition res_equiv (r1 r2 : res binding) : Prop :=
  match r1, r2 with
  | Ok b1, Ok b2 => binding_equiv b1 b2
  | Err e1, Err e2 => arg_error e1 = true /\ arg_error e2 = true
  | _, _ => False
  end.

