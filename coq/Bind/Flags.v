(* C11, parse-time step in front of the binding: util/template_tag.py:166-194 _extract_flags.
   A tag class may declare flags (allowed_flags); parse_template_tag removes the flag attributes from the attribute list
   BEFORE the remaining attributes become the arguments of render().  What is removed decides what is bound, so the
   step is part of "the tag accepts a sequence of positional, keyword and spread arguments exactly when ...".
   Definitions only; proofs in Bind/FlagsProofs.v. *)
From DJC Require Import Lib.Base Bind.Model.

(* how the value of an attribute is WRITTEN (its serialized text decides whether it is a flag) *)
Inductive vform :=
  | VBare (w : str)            (* a bare word: a variable name - or a flag *)
  | VFiltered (w f : str)      (* word|filter:arg... : text = w ++ "|" ++ f *)
  | VQuoted (s : str)          (* "s" *)
  | VOther (t : str).          (* number, list / dict literal, translation _("..") : text t, not an identifier *)

(* an attribute = how it is written + the argument it resolves to (key and spread marker are those of the argument) *)
Record tattr := mkA { a_form : vform; a_arg : targ }.

Definition a_key (a : tattr) : option str := match a_arg a with TKw k _ => Some k | _ => None end.
Definition a_spread (a : tattr) : bool := match a_arg a with TSpreadL _ | TSpreadD _ => true | _ => false end.

Definition form_text (f : vform) : str :=
  match f with
  | VBare w => w
  | VFiltered w f => w ++ 124%N :: f
  | VQuoted s => 34%N :: s ++ [34%N]
  | VOther t => t
  end.
(* tag_parser.py:168-178, 226-242  serialize(omit_key=True): the spread token is part of the text *)
Definition ser (a : tattr) : str := (if a_spread a then [46; 46; 46]%N else []) ++ form_text (a_form a).

(* M: _extract_flags.  found = found_flags; the result keeps the remaining attributes in order.
   TemplateSyntaxError is rendered as OtherError (it is not an argument error). *)
Fixpoint extract_flags (allowed : list str) (attrs : list tattr) (found : list str) : res (list tattr * list str) :=
  match attrs with
  | [] => Ok ([], found)
  | a :: r =>
      let value := ser a in
      if is_some (a_key a) || negb (smem value allowed) then
        match extract_flags allowed r found with
        | Ok (rem, fl) => Ok (a :: rem, fl)
        | Err e => Err e
        end
      else if a_spread a then Err OtherError            (* "is a reserved flag, and cannot be spread" *)
      else if smem value found then Err OtherError      (* "received flag multiple times" *)
      else extract_flags allowed r (value :: found)
  end.

(* S: a flag is exactly a key-less, un-spread attribute written as a bare word that the tag declares *)
Definition flag_word (allowed : list str) (a : tattr) : option str :=
  match a_arg a, a_form a with
  | TPos _, VBare w => if smem w allowed then Some w else None
  | _, _ => None
  end.
Definition is_flag (allowed : list str) (a : tattr) : bool := is_some (flag_word allowed a).

Fixpoint flags_spec (allowed : list str) (attrs : list tattr) (found : list str) : res (list tattr * list str) :=
  match attrs with
  | [] => Ok ([], found)
  | a :: r =>
      match flag_word allowed a with
      | Some w => if smem w found then Err OtherError else flags_spec allowed r (w :: found)
      | None => match flags_spec allowed r found with
                | Ok (rem, fl) => Ok (a :: rem, fl)
                | Err e => Err e
                end
      end
  end.

(* what can be written: the text of VOther is not an identifier (numbers, brackets, _( ) *)
Definition wf_attr (a : tattr) : bool :=
  match a_form a with VOther t => negb (is_identifier t) | _ => true end.

(* the whole tag: flags first, the remaining attributes are the call *)
Definition impl_tag (special : str -> bool) (use_code : bool) (sv cv : N) (F : sig)
           (allowed : list str) (attrs : list tattr) : res binding :=
  match extract_flags allowed attrs [] with
  | Err e => Err e
  | Ok (rem, _) => impl_bind special use_code sv cv F (map a_arg rem)
  end.
Definition py_tag (sv cv : N) (F : sig) (allowed : list str) (attrs : list tattr) : res binding :=
  match flags_spec allowed attrs [] with
  | Err e => Err e
  | Ok (rem, _) => py_bind sv cv F (map a_arg rem)
  end.
Definition tag_flags (allowed : list str) (attrs : list tattr) : option (list str) :=
  match extract_flags allowed attrs [] with Ok (_, fl) => Some fl | Err _ => None end.

(* ---------- correspondence: (fast path?, signature, declared flags, attributes, Python's result of the call of the
   non-flag arguments, the tag's result, the flags the node reports - sorted) ---------- *)
Fixpoint sins (x : str) (l : list str) : list str :=
  match l with [] => [x] | y :: r => if str_leb x y then x :: l else y :: sins x r end.
Definition ssort (l : list str) : list str := fold_right sins [] l.

Definition flag_case := (bool * sig * list str * list tattr * res binding * res binding * option (list str))%type.
Definition check_flagged (x : flag_case) : bool :=
  let '(use_code, F, allowed, attrs, p, t, fl) := x in
  forallb is_identifier allowed && forallb wf_attr attrs
  && wfb py_special F
  && res_eqb binding_eqb errk_eqb (py_tag SV CV F allowed attrs) p
  && res_eqb binding_eqb errk_sim (impl_tag py_special use_code SV CV F allowed attrs) t
  && match t, fl with
     | Ok _, Some obs => option_eqb (list_eqb str_eqb) (option_map ssort (tag_flags allowed attrs)) (Some obs)
     | Ok _, None => false
     | Err _, _ => true
     end.
