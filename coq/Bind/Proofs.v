(* Proofs for property C11 (model: Bind/Model.v). *)
From DJC Require Import Lib.Base Bind.Model.

(* ================================================================================================ *)
(* strings, sets, dictionaries *)
(* ================================================================================================ *)
Lemma str_eqb_true a b : str_eqb a b = true -> a = b.
Proof. apply str_eqb_eq. Qed.

Lemma str_eqb_false a b : str_eqb a b = false <-> a <> b.
Proof.
  split; intro H.
  - intro E. subst. rewrite str_eqb_refl in H. discriminate.
  - destruct (str_eqb a b) eqn:E; [apply str_eqb_true in E; contradiction | reflexivity].
Qed.

Lemma smem_In x l : smem x l = true <-> In x l.
Proof.
  unfold smem. rewrite existsb_exists. split.
  - intros [y [Hy E]]. apply str_eqb_true in E. subst. exact Hy.
  - intro H. exists x. split; [exact H | apply str_eqb_refl].
Qed.

Lemma smem_false x l : smem x l = false <-> ~ In x l.
Proof.
  rewrite <- smem_In. destruct (smem x l); split; intro H; try reflexivity; try discriminate;
    try (intro; discriminate); exfalso; apply H; reflexivity.
Qed.

Lemma klookup_In x l v : klookup x l = Some v -> In (x, v) l.
Proof.
  induction l as [|[k w] l IH]; simpl; [discriminate|].
  destruct (str_eqb x k) eqn:E.
  - apply str_eqb_true in E. subst. intro H. inversion H. left. reflexivity.
  - intro H. right. auto.
Qed.

Lemma klookup_none x l : klookup x l = None <-> ~ In x (map fst l).
Proof.
  induction l as [|[k w] l IH]; simpl; [tauto|].
  destruct (str_eqb x k) eqn:E.
  - apply str_eqb_true in E. subst. split; [discriminate | intro H; exfalso; apply H; left; reflexivity].
  - apply str_eqb_false in E. rewrite IH. split; intro H.
    + intros [H1|H1]; [congruence | contradiction].
    + intro H1. apply H. right. exact H1.
Qed.

Lemma kmem_In x l : kmem x l = true <-> In x (map fst l).
Proof.
  unfold kmem. destruct (klookup x l) eqn:E.
  - split; [intros _ | reflexivity]. apply klookup_In in E. apply in_map_iff. exists (x, n). auto.
  - apply klookup_none in E. split; [discriminate | contradiction].
Qed.

Lemma kmem_false x l : kmem x l = false <-> ~ In x (map fst l).
Proof.
  rewrite <- kmem_In. destruct (kmem x l); split; intro H; try reflexivity; try discriminate;
    try (intro; discriminate); exfalso; apply H; reflexivity.
Qed.

Lemma klookup_app x a b :
  klookup x (a ++ b) = match klookup x a with Some v => Some v | None => klookup x b end.
Proof.
  induction a as [|[k w] a IH]; simpl; [reflexivity|]. destruct (str_eqb x k); auto.
Qed.

Lemma kmem_app x a b : kmem x (a ++ b) = kmem x a || kmem x b.
Proof. unfold kmem. rewrite klookup_app. destruct (klookup x a); reflexivity. Qed.

Lemma dset_fresh k v l : kmem k l = false -> dset k v l = l ++ [(k, v)].
Proof.
  induction l as [|[k' w] l IH]; simpl; [reflexivity|]. unfold kmem in *. simpl.
  destruct (str_eqb k k'); [discriminate|]. intro H. rewrite IH; auto.
Qed.

Lemma klookup_filter (f : str -> bool) x l :
  klookup x (filter (fun kv => f (fst kv)) l) = if f x then klookup x l else None.
Proof.
  induction l as [|[k w] l IH]; simpl; [destruct (f x); reflexivity|].
  destruct (f k) eqn:Fk; simpl; destruct (str_eqb x k) eqn:E; auto.
  - apply str_eqb_true in E. subst. rewrite Fk. reflexivity.
  - apply str_eqb_true in E. subst. rewrite Fk in IH. rewrite Fk. exact IH.
Qed.


Lemma dict_equiv_kmem d1 d2 x : dict_equiv d1 d2 -> kmem x d1 = kmem x d2.
Proof. intro H. unfold kmem. rewrite (H x). reflexivity. Qed.

(* duplicates *)
Lemma has_dup_false_NoDup l : has_dup_keys l = false <-> NoDup (map fst l).
Proof.
  induction l as [|[k v] l IH]; simpl.
  - split; [constructor | reflexivity].
  - rewrite orb_false_iff, IH, kmem_false. split.
    + intros [H1 H2]. constructor; auto.
    + intro H. inversion H; subst. auto.
Qed.

Lemma has_dup_app_false a b :
  has_dup_keys (a ++ b) = false ->
  has_dup_keys a = false /\ has_dup_keys b = false /\ (forall x, kmem x a = true -> kmem x b = false).
Proof.
  induction a as [|[k v] a IH]; simpl; intro H.
  - repeat split; auto. intros x Hx. discriminate.
  - apply orb_false_iff in H as [H1 H2]. rewrite kmem_app in H1. apply orb_false_iff in H1 as [H1a H1b].
    destruct (IH H2) as [Ha [Hb Hab]]. repeat split; auto.
    + rewrite H1a, Ha. reflexivity.
    + intros x Hx. unfold kmem in Hx. simpl in Hx. destruct (str_eqb x k) eqn:E.
      * apply str_eqb_true in E. subst. exact H1b.
      * apply Hab. exact Hx.
Qed.

Lemma has_dup_app_intro a b :
  has_dup_keys a = false -> has_dup_keys b = false -> (forall x, kmem x a = true -> kmem x b = false) ->
  has_dup_keys (a ++ b) = false.
Proof.
  induction a as [|[k v] a IH]; simpl; intros Ha Hb Hab; [exact Hb|].
  apply orb_false_iff in Ha as [Ha1 Ha2]. apply orb_false_iff. split.
  - rewrite kmem_app, Ha1. simpl. apply Hab. unfold kmem. simpl. rewrite str_eqb_refl. reflexivity.
  - apply IH; auto. intros x Hx. apply Hab. unfold kmem in *. simpl. destruct (str_eqb x k); auto.
Qed.

Lemma kmem_filter (f : str -> bool) x l :
  kmem x (filter (fun kv => f (fst kv)) l) = f x && kmem x l.
Proof. unfold kmem. rewrite klookup_filter. destruct (f x); reflexivity. Qed.

Lemma has_dup_filter (f : str -> bool) l :
  has_dup_keys l = false -> has_dup_keys (filter (fun kv => f (fst kv)) l) = false.
Proof.
  induction l as [|[k v] l IH]; simpl; [reflexivity|]. intro H. apply orb_false_iff in H as [H1 H2].
  destruct (f k) eqn:Fk; simpl; auto. rewrite (IH H2), kmem_filter, H1, andb_false_r. reflexivity.
Qed.

(* a repeated key shows up in one of the two classes of any partition by key *)
Lemma has_dup_partition (f : str -> bool) l :
  has_dup_keys (filter (fun kv => f (fst kv)) l) = false ->
  has_dup_keys (filter (fun kv => negb (f (fst kv))) l) = false ->
  has_dup_keys l = false.
Proof.
  induction l as [|[k v] l IH]; simpl; [reflexivity|].
  destruct (f k) eqn:Fk; simpl; intros H1 H2.
  - apply orb_false_iff in H1 as [H1a H1b]. rewrite (IH H1b H2), orb_false_r.
    rewrite kmem_filter, Fk in H1a. exact H1a.
  - apply orb_false_iff in H2 as [H2a H2b]. rewrite (IH H1 H2b), orb_false_r.
    rewrite (kmem_filter (fun x => negb (f x))), Fk in H2a. exact H2a.
Qed.

Lemma partition_dict_equiv (f : str -> bool) l :
  has_dup_keys l = false ->
  dict_equiv (filter (fun kv => negb (f (fst kv))) l ++ filter (fun kv => f (fst kv)) l) l.
Proof.
  intros _ x. rewrite klookup_app, (klookup_filter (fun x => negb (f x))), klookup_filter.
  destruct (f x); simpl; [reflexivity|]. destruct (klookup x l); reflexivity.
Qed.

(* ================================================================================================ *)
(* results *)
(* ================================================================================================ *)
Lemma binding_equiv_refl b : binding_equiv b b.
Proof. unfold binding_equiv. repeat split. destruct (b_kw b); [intro; reflexivity | exact I]. Qed.

Lemma res_equiv_sym r1 r2 : res_equiv r1 r2 -> res_equiv r2 r1.
Proof.
  destruct r1 as [b1|e1], r2 as [b2|e2]; simpl; auto; [|tauto].
  unfold binding_equiv. intros [H1 [H2 H3]]. repeat split; auto.
  destruct (b_kw b1), (b_kw b2); auto. intro x. symmetry. apply H3.
Qed.

Lemma res_equiv_trans r1 r2 r3 : res_equiv r1 r2 -> res_equiv r2 r3 -> res_equiv r1 r3.
Proof.
  destruct r1 as [b1|e1], r2 as [b2|e2], r3 as [b3|e3]; simpl; try tauto.
  unfold binding_equiv. intros [H1 [H2 H3]] [G1 [G2 G3]]. repeat split; try congruence.
  destruct (b_kw b1), (b_kw b2), (b_kw b3); auto; try contradiction.
  intro x. rewrite H3. apply G3.
Qed.

(* ================================================================================================ *)
(* S: facts about Python's binding *)
(* ================================================================================================ *)
Lemma bind_pos_ext k1 k2 : dict_equiv k1 k2 ->
  forall ps npo args, bind_pos npo ps args k1 = bind_pos npo ps args k2.
Proof.
  intros H ps. induction ps as [|p ps IH]; intros npo args; simpl; [reflexivity|].
  rewrite (IH (pred npo) (tl args)), (dict_equiv_kmem _ _ (pname p) H), (H (pname p)). reflexivity.
Qed.

Lemma bind_ko_ext k1 k2 : dict_equiv k1 k2 -> forall ps, bind_ko ps k1 = bind_ko ps k2.
Proof.
  intros H ps. induction ps as [|p ps IH]; simpl; [reflexivity|]. rewrite IH, (H (pname p)). reflexivity.
Qed.

Lemma kw_extra_lookup F kws x :
  klookup x (kw_extra F kws) = if smem x (map pname (s_pk F ++ s_ko F)) then None else klookup x kws.
Proof.
  unfold kw_extra. rewrite (klookup_filter (fun k => negb (smem k (map pname (s_pk F ++ s_ko F))))).
  destruct (smem x _); reflexivity.
Qed.

Lemma nonempty_kmem (l : list (str * N)) : nonempty l = true <-> exists x, kmem x l = true.
Proof.
  destruct l as [|[k v] l]; simpl; split; try discriminate.
  - intros [x Hx]. discriminate.
  - intros _. exists k. unfold kmem. simpl. rewrite str_eqb_refl. reflexivity.
  - reflexivity.
Qed.

Lemma nonempty_ext (a b : list (str * N)) : dict_equiv a b -> nonempty a = nonempty b.
Proof.
  intro H. destruct (nonempty a) eqn:Ea, (nonempty b) eqn:Eb; try reflexivity.
  - apply nonempty_kmem in Ea as [x Hx]. rewrite (dict_equiv_kmem _ _ x H) in Hx.
    assert (nonempty b = true) by (apply nonempty_kmem; eauto). congruence.
  - apply nonempty_kmem in Eb as [x Hx]. rewrite <- (dict_equiv_kmem _ _ x H) in Hx.
    assert (nonempty a = true) by (apply nonempty_kmem; eauto). congruence.
Qed.

Lemma kw_extra_ext F k1 k2 : dict_equiv k1 k2 -> dict_equiv (kw_extra F k1) (kw_extra F k2).
Proof. intros H x. rewrite !kw_extra_lookup, (H x). reflexivity. Qed.

(* Python's result depends on the keywords only as a dictionary *)
Lemma py_call_ext F args k1 k2 : dict_equiv k1 k2 -> res_equiv (py_call F args k1) (py_call F args k2).
Proof.
  intro H. unfold py_call.
  destruct ((length (pos_params F) <? length args) && negb (is_some (s_va F))); [simpl; auto|].
  rewrite (nonempty_ext _ _ (kw_extra_ext F _ _ H)).
  destruct (nonempty (kw_extra F k2) && negb (is_some (s_vk F))); [simpl; auto|].
  rewrite (bind_pos_ext _ _ H), (bind_ko_ext _ _ H).
  destruct (bind_pos _ _ _ k2); [|simpl; auto]. destruct (bind_ko _ k2); [|simpl; auto].
  simpl. unfold binding_equiv. simpl. repeat split.
  destruct (is_some (s_vk F)); [apply kw_extra_ext; exact H | exact I].
Qed.

(* keywords D that only repeat defaults of parameters Python would default anyway change nothing *)
Lemma bind_pos_defaults K D : forall ps npo args,
  (forall j p d, nth_error ps j = Some p -> klookup (pname p) D = Some d ->
                 kmem (pname p) K = false /\ npo <= j /\ length args <= j /\ pdef p = Some d) ->
  bind_pos npo ps args (K ++ D) = bind_pos npo ps args K.
Proof.
  induction ps as [|p ps IH]; intros npo args H; simpl; [reflexivity|].
  rewrite (IH (pred npo) (tl args)).
  2:{ intros j q d Hj Hd. destruct (H (S j) q d Hj Hd) as [A [B [C E]]]. repeat split; auto; [lia|].
      destruct args; simpl in *; lia. }
  rewrite kmem_app, klookup_app.
  destruct (klookup (pname p) D) as [d|] eqn:ED.
  - destruct (H 0 p d eq_refl ED) as [A [B [C E]]].
    assert (npo = 0) by lia. subst npo. destruct args; [|simpl in C; lia].
    unfold kmem in A. destruct (klookup (pname p) K); [discriminate|]. rewrite E. reflexivity.
  - assert (kmem (pname p) D = false) as -> by (unfold kmem; rewrite ED; reflexivity).
    rewrite orb_false_r. destruct (klookup (pname p) K); reflexivity.
Qed.

Lemma bind_ko_defaults K D : forall ps,
  (forall p d, In p ps -> klookup (pname p) D = Some d -> kmem (pname p) K = false /\ pdef p = Some d) ->
  bind_ko ps (K ++ D) = bind_ko ps K.
Proof.
  induction ps as [|p ps IH]; intro H; simpl; [reflexivity|].
  rewrite IH by (intros q d Hq; apply H; right; exact Hq).
  rewrite klookup_app. destruct (klookup (pname p) D) as [d|] eqn:ED.
  - destruct (H p d (or_introl eq_refl) ED) as [A E]. unfold kmem in A.
    destruct (klookup (pname p) K); [discriminate|]. rewrite E. reflexivity.
  - destruct (klookup (pname p) K); reflexivity.
Qed.

Lemma filter_app_nil {A} (f : A -> bool) a b : (forall x, In x b -> f x = false) -> filter f (a ++ b) = filter f a.
Proof.
  intro H. rewrite filter_app. replace (filter f b) with (@nil A); [apply app_nil_r|].
  induction b as [|x b IH]; simpl; [reflexivity|]. rewrite (H x (or_introl eq_refl)). apply IH.
  intros y Hy. apply H. right. exact Hy.
Qed.

Lemma py_call_defaults F args K D :
  (forall j p d, nth_error (pos_params F) j = Some p -> klookup (pname p) D = Some d ->
                 kmem (pname p) K = false /\ length (s_po F) <= j /\ length args <= j /\ pdef p = Some d) ->
  (forall p d, In p (s_ko F) -> klookup (pname p) D = Some d -> kmem (pname p) K = false /\ pdef p = Some d) ->
  (forall x, In x (map fst D) -> In x (map pname (s_pk F ++ s_ko F))) ->
  py_call F args (K ++ D) = py_call F args K.
Proof.
  intros H1 H2 H3. unfold py_call.
  assert (kw_extra F (K ++ D) = kw_extra F K) as ->.
  { unfold kw_extra. apply filter_app_nil. intros [k v] Hkv. simpl.
    assert (In k (map pname (s_pk F ++ s_ko F))) as Hin by (apply H3; apply in_map_iff; exists (k, v); auto).
    apply smem_In in Hin. rewrite Hin. reflexivity. }
  rewrite (bind_pos_defaults K D _ _ _ H1), (bind_ko_defaults K D _ H2). reflexivity.
Qed.

(* --- when Python refuses --- *)
Lemma bind_pos_none kws : forall ps npo args i p,
  nth_error ps i = Some p ->
  (npo <= i /\ i < length args /\ kmem (pname p) kws = true) \/
  (length args <= i /\ pdef p = None /\ (i < npo \/ klookup (pname p) kws = None)) ->
  bind_pos npo ps args kws = None.
Proof.
  induction ps as [|q ps IH]; intros npo args i p Hi Hbad; [destruct i; discriminate|].
  destruct i as [|i]; simpl in Hi.
  - inversion Hi; subst q. simpl. destruct Hbad as [[A [B C]]|[A [B C]]].
    + assert (npo = 0) by lia. subst. destruct args; [simpl in B; lia|]. simpl. rewrite C. reflexivity.
    + destruct args; [|simpl in A; lia]. rewrite B. destruct npo; simpl.
      * destruct C as [C|C]; [lia|]. rewrite C. reflexivity.
      * reflexivity.
  - simpl. rewrite (IH (pred npo) (tl args) i p Hi).
    + destruct (match args with [] => _ | _ :: _ => _ end); reflexivity.
    + destruct Hbad as [[A [B C]]|[A [B C]]]; [left | right]; repeat split; auto; try lia.
      * destruct args; simpl in *; lia.
      * destruct args; simpl in *; lia.
      * destruct C as [C|C]; [left; lia | right; exact C].
Qed.

Lemma bind_ko_none kws : forall ps p,
  In p ps -> pdef p = None -> klookup (pname p) kws = None -> bind_ko ps kws = None.
Proof.
  induction ps as [|q ps IH]; intros p Hin Hd Hk; [contradiction|]. simpl. destruct Hin as [->|Hin].
  - rewrite Hk, Hd. reflexivity.
  - rewrite (IH p Hin Hd Hk). destruct (match klookup (pname q) kws with Some _ => _ | None => _ end); reflexivity.
Qed.

Definition py_refuses (F : sig) (args : list N) (kws : list (str * N)) : Prop :=
  py_call F args kws = Err TypeError.

Lemma refuse_too_many F args kws :
  length (pos_params F) < length args -> s_va F = None -> py_refuses F args kws.
Proof.
  intros H1 H2. unfold py_refuses, py_call. apply Nat.ltb_lt in H1. rewrite H1, H2. reflexivity.
Qed.

Lemma refuse_unexpected F args kws k :
  kmem k kws = true -> ~ In k (map pname (s_pk F ++ s_ko F)) -> s_vk F = None -> py_refuses F args kws.
Proof.
  intros H1 H2 H3. unfold py_refuses, py_call.
  destruct ((length (pos_params F) <? length args) && negb (is_some (s_va F))); [reflexivity|].
  assert (nonempty (kw_extra F kws) = true) as ->.
  { apply nonempty_kmem. exists k. unfold kmem in *. rewrite kw_extra_lookup.
    apply smem_false in H2. rewrite H2. exact H1. }
  rewrite H3. reflexivity.
Qed.

Lemma refuse_pos F args kws i p :
  nth_error (pos_params F) i = Some p ->
  (length (s_po F) <= i /\ i < length args /\ kmem (pname p) kws = true) \/
  (length args <= i /\ pdef p = None /\ (i < length (s_po F) \/ klookup (pname p) kws = None)) ->
  py_refuses F args kws.
Proof.
  intros H1 H2. unfold py_refuses, py_call.
  destruct ((length (pos_params F) <? length args) && negb (is_some (s_va F))); [reflexivity|].
  destruct (nonempty (kw_extra F kws) && negb (is_some (s_vk F))); [reflexivity|].
  rewrite (bind_pos_none kws _ _ _ i p H1 H2). reflexivity.
Qed.

Lemma refuse_ko F args kws p :
  In p (s_ko F) -> pdef p = None -> klookup (pname p) kws = None -> py_refuses F args kws.
Proof.
  intros H1 H2 H3. unfold py_refuses, py_call.
  destruct ((length (pos_params F) <? length args) && negb (is_some (s_va F))); [reflexivity|].
  destruct (nonempty (kw_extra F kws) && negb (is_some (s_vk F))); [reflexivity|].
  rewrite (bind_ko_none kws _ p H1 H2 H3). destruct (bind_pos _ _ _ _); reflexivity.
Qed.

(* ================================================================================================ *)
(* list facts *)
(* ================================================================================================ *)
Lemma nth_error_skipn' {A} (l : list A) n j : nth_error (skipn n l) j = nth_error l (n + j).
Proof. revert l. induction n as [|n IH]; intros [|x l]; simpl; auto. destruct j; reflexivity. Qed.

Lemma nth_error_firstn_lt {A} (l : list A) n i : i < n -> nth_error (firstn n l) i = nth_error l i.
Proof.
  revert l i. induction n as [|n IH]; intros l i H; [lia|]. destruct l as [|x l]; simpl.
  - destruct i; reflexivity.
  - destruct i as [|i]; simpl; [reflexivity|]. apply IH. lia.
Qed.

Lemma firstn_snoc {A} (l : list A) i x : nth_error l i = Some x -> firstn (S i) l = firstn i l ++ [x].
Proof.
  revert l. induction i as [|i IH]; intros [|y l] H; simpl in *; try discriminate.
  - inversion H. reflexivity.
  - f_equal. apply IH. exact H.
Qed.

Lemma firstn_all' {A} (l : list A) n : length l <= n -> firstn n l = l.
Proof.
  revert l. induction n as [|n IH]; intros [|x l] H; simpl in *; try reflexivity; try lia.
  f_equal. apply IH. lia.
Qed.

Lemma In_firstn_nth {A} (l : list A) n x : In x (firstn n l) <-> exists j, j < n /\ nth_error l j = Some x.
Proof.
  revert l. induction n as [|n IH]; intros l; simpl.
  - split; [contradiction | intros [j [H _]]; lia].
  - destruct l as [|y l]; simpl.
    + split; [contradiction | intros [j [_ H]]; destruct j; discriminate].
    + rewrite IH. split.
      * intros [->|[j [H1 H2]]]; [exists 0; split; [lia | reflexivity] | exists (S j); split; [lia | exact H2]].
      * intros [[|j] [H1 H2]]; simpl in H2; [left; congruence | right; exists j; split; [lia | exact H2]].
Qed.

Lemma NoDup_app_disj {A} (a b : list A) x : NoDup (a ++ b) -> In x a -> In x b -> False.
Proof.
  induction a as [|y a IH]; simpl; intros H Ha Hb; [contradiction|]. inversion H; subst.
  destruct Ha as [->|Ha]; [apply H2; apply in_or_app; right; exact Hb | apply IH; auto].
Qed.

Lemma NoDup_app_l {A} (a b : list A) : NoDup (a ++ b) -> NoDup a.
Proof.
  induction a as [|y a IH]; simpl; intro H; [constructor|]. inversion H; subst. constructor; auto.
  intro Hin. apply H2. apply in_or_app. left. exact Hin.
Qed.

Lemma NoDup_app_r {A} (a b : list A) : NoDup (a ++ b) -> NoDup b.
Proof. induction a as [|y a IH]; simpl; intro H; [exact H|]. inversion H; subst. auto. Qed.

Lemma NoDup_map_inj {A B} (f : A -> B) l a b :
  NoDup (map f l) -> In a l -> In b l -> f a = f b -> a = b.
Proof.
  induction l as [|x l IH]; simpl; intros H Ha Hb E; [contradiction|]. inversion H; subst.
  destruct Ha as [->|Ha], Hb as [->|Hb]; auto.
  - exfalso. apply H2. rewrite E. apply in_map. exact Hb.
  - exfalso. apply H2. rewrite <- E. apply in_map. exact Ha.
Qed.

Lemma NoDup_map_nth {A B} (f : A -> B) l i j a b :
  NoDup (map f l) -> nth_error l i = Some a -> nth_error l j = Some b -> f a = f b -> i = j.
Proof.
  intros H Hi Hj E. apply (proj1 (NoDup_nth_error (map f l)) H).
  - rewrite map_length. apply nth_error_Some. congruence.
  - rewrite !nth_error_map, Hi, Hj. simpl. congruence.
Qed.

Lemma nodup_str_NoDup l : nodup_str l = true -> NoDup l.
Proof.
  induction l as [|x l IH]; simpl; intro H; [constructor|]. apply andb_true_iff in H as [H1 H2].
  constructor; auto. apply smem_false. destruct (smem x l); [discriminate | reflexivity].
Qed.

(* ================================================================================================ *)
(* order of arguments *)
(* ================================================================================================ *)
Definition pe (v : N) : option str * N := (None, v).
Definition kwe (kv : str * N) : option str * N := (Some (fst kv), snd kv).

Lemma all_kw es : pos_after_kw es true = false -> entries_pos es = [] /\ es = map kwe (entries_kw es).
Proof.
  induction es as [|[[k|] v] es IH]; simpl; intro H; [auto | | discriminate].
  destruct (IH H) as [A B]. split; [exact A|]. unfold kwe at 1. simpl. f_equal. exact B.
Qed.

Lemma no_pak es : pos_after_kw es false = false -> es = map pe (entries_pos es) ++ map kwe (entries_kw es).
Proof.
  induction es as [|[[k|] v] es IH]; simpl; intro H; [reflexivity | |].
  - destruct (all_kw es H) as [A B]. rewrite A. simpl. unfold kwe at 1. simpl. f_equal. exact B.
  - unfold pe at 1. f_equal. apply IH. exact H.
Qed.

Lemma entries_pos_app a b : entries_pos (a ++ b) = entries_pos a ++ entries_pos b.
Proof. unfold entries_pos. apply flat_map_app. Qed.
Lemma entries_kw_app a b : entries_kw (a ++ b) = entries_kw a ++ entries_kw b.
Proof. unfold entries_kw. apply flat_map_app. Qed.
Lemma entries_pos_pe vs : entries_pos (map pe vs) = vs.
Proof. induction vs; simpl; congruence. Qed.
Lemma entries_kw_pe vs : entries_kw (map pe vs) = [].
Proof. induction vs; simpl; congruence. Qed.
Lemma entries_pos_kwe l : entries_pos (map kwe l) = [].
Proof. induction l; simpl; congruence. Qed.
Lemma entries_kw_kwe l : entries_kw (map kwe l) = l.
Proof. induction l as [|[k v] l IH]; simpl; congruence. Qed.

(* ================================================================================================ *)
(* M: wrapper_render's split *)
(* ================================================================================================ *)
Section Split.
  Variable special : str -> bool.
  Notation sp := (fun kv : str * N => special (fst kv)).
  Notation nsp := (fun kv : str * N => negb (special (fst kv))).

  Lemma wsplit_pos_prefix vs l inv :
    wsplit special (map pe vs ++ l) false inv =
    match wsplit special l false inv with Ok (reg, i) => Ok (map pe vs ++ reg, i) | Err e => Err e end.
  Proof.
    induction vs as [|v vs IH]; simpl.
    - destruct (wsplit special l false inv) as [[reg i]|e]; reflexivity.
    - rewrite IH. destruct (wsplit special l false inv) as [[reg i]|e]; reflexivity.
  Qed.

  Lemma wsplit_kws : forall kws seen inv,
    has_dup_keys (inv ++ filter sp kws) = false ->
    wsplit special (map kwe kws) seen inv = Ok (map kwe (filter nsp kws), inv ++ filter sp kws).
  Proof.
    induction kws as [|[k v] kws IH]; intros seen inv H; simpl.
    - rewrite app_nil_r. reflexivity.
    - simpl in H. destruct (special k) eqn:Sk; simpl in *.
      + destruct (has_dup_app_false _ _ H) as [_ [_ H3]].
        assert (kmem k inv = false) as Hk.
        { destruct (kmem k inv) eqn:E; [|reflexivity]. specialize (H3 k E). unfold kmem in H3. simpl in H3.
          rewrite str_eqb_refl in H3. discriminate. }
        rewrite Hk, (dset_fresh _ _ _ Hk), IH; rewrite <- app_assoc; simpl; auto.
      + rewrite IH by exact H. reflexivity.
  Qed.

  Lemma wsplit_kws_dup : forall kws seen inv,
    has_dup_keys inv = false -> has_dup_keys (inv ++ filter sp kws) = true ->
    wsplit special (map kwe kws) seen inv = Err TypeError.
  Proof.
    induction kws as [|[k v] kws IH]; intros seen inv H0 H; simpl in *.
    - rewrite app_nil_r in H. congruence.
    - destruct (special k) eqn:Sk; simpl in *.
      + destruct (kmem k inv) eqn:Hk; [reflexivity|].
        rewrite (dset_fresh _ _ _ Hk). apply IH.
        * apply has_dup_app_intro; auto. intros x Hx. unfold kmem. simpl.
          destruct (str_eqb x k) eqn:E; [|reflexivity]. apply str_eqb_true in E. subst. congruence.
        * rewrite <- app_assoc. exact H.
      + rewrite IH; auto.
  Qed.

  (* a positional argument after a keyword one survives the split (or the split itself refuses) *)
  Lemma wsplit_pak : forall es seen inv,
    match wsplit special es seen inv with
    | Err e => arg_error e = true
    | Ok (reg, _) => forall sr, pos_after_kw es (seen || sr) = true -> pos_after_kw reg sr = true
    end.
  Proof.
    induction es as [|[[k|] v] es IH]; intros seen inv; simpl.
    - intros sr H. discriminate.
    - destruct (special k).
      + destruct (kmem k inv); [reflexivity|].
        specialize (IH true (dset k v inv)).
        destruct (wsplit special es true (dset k v inv)) as [[reg i]|e]; [|exact IH].
        intros sr H. apply (IH sr). exact H.
      + specialize (IH seen inv). destruct (wsplit special es seen inv) as [[reg i]|e]; [|exact IH].
        intros sr H. simpl. apply (IH true). rewrite orb_true_r. exact H.
    - destruct seen; [reflexivity|]. specialize (IH false inv).
      destruct (wsplit special es false inv) as [[reg i]|e]; [|exact IH].
      intros sr H. simpl in *. destruct sr; [reflexivity|]. simpl in *. apply (IH false). exact H.
  Qed.
End Split.

(* ================================================================================================ *)
(* M: the validators, for any view of the signature that satisfies view_ok *)
(* ================================================================================================ *)
Definition NP (F : sig) : list str := map pname (skipn 2 (pos_params F)).

Record view_ok (F : sig) (w : vview) (acts : nat -> nat -> list (str * action)) : Prop := {
  vo_pc : w_pc w = length (NP F);
  vo_names : firstn (w_pc w) (w_names w) = NP F;
  vo_va : w_va w = is_some (s_va F);
  vo_vk : w_vk w = is_some (s_vk F);
  vo_valid : forall k, w_valid w k = false -> w_vk w = false /\ ~ In k (NP F ++ map pname (s_ko F));
  vo_po : w_ponames w = skipn 2 (map pname (s_po F));
  vo_noidx : forall n nm, ~ In (nm, AIndexErr) (acts n n);
  vo_req : forall n nm, In (nm, ARequired) (acts n n) ->
    (exists j p, nth_error (skipn 2 (pos_params F)) j = Some p /\ pname p = nm /\ pdef p = None) \/
    (exists p, In p (s_ko F) /\ pname p = nm /\ pdef p = None);
  vo_def : forall n nm d, In (nm, ADefault d) (acts n n) ->
    (exists j p, nth_error (skipn 2 (pos_params F)) j = Some p /\ pname p = nm /\ pdef p = Some d /\
                 length (s_po F) <= j + 2) \/
    (exists p, In p (s_ko F) /\ pname p = nm /\ pdef p = Some d)
}.

Definition impl_generic (special : str -> bool) (w : vview) (acts : nat -> nat -> list (str * action))
           (sv cv : N) (F : sig) (es : list (option str * N)) : res binding :=
  match wsplit special es false [] with
  | Err e => Err e
  | Ok (reg, inv) =>
      match validate w acts reg inv with
      | Err e => Err e
      | Ok (args, kwargs) => py_call F (sv :: cv :: args) kwargs
      end
  end.

Lemma vloop_app w : forall a s b,
  vloop w s (a ++ b) = match vloop w s a with Ok s' => vloop w s' b | Err e => Err e end.
Proof.
  induction a as [|e a IH]; intros s b; simpl; [reflexivity|].
  destruct (vstep w s e); [apply IH | reflexivity].
Qed.

Lemma dupdate_fresh : forall e d, has_dup_keys (d ++ e) = false -> dupdate d e = d ++ e.
Proof.
  induction e as [|[k v] e IH]; intros d H; unfold dupdate in *; simpl.
  - rewrite app_nil_r. reflexivity.
  - destruct (has_dup_app_false _ _ H) as [_ [_ H3]].
    assert (kmem k d = false) as Hk.
    { destruct (kmem k d) eqn:E; [|reflexivity]. specialize (H3 k E). unfold kmem in H3. simpl in H3.
      rewrite str_eqb_refl in H3. discriminate. }
    rewrite (dset_fresh _ _ _ Hk), IH; rewrite <- app_assoc; simpl; auto.
Qed.

Section Generic.
  Variable special : str -> bool.
  Variable F : sig.
  Variable w : vview.
  Variable acts : nat -> nat -> list (str * action).
  Hypothesis VO : view_ok F w acts.
  Hypothesis WF : wfb special F = true.

  Let P := pos_params F.

  Lemma wf_len : 2 <= length P.
  Proof.
    unfold wfb in WF. repeat (apply andb_true_iff in WF as [WF ?]). apply Nat.leb_le. exact WF.
  Qed.
  Lemma wf_nodup : NoDup (all_names F).
  Proof.
    unfold wfb in WF. repeat (apply andb_true_iff in WF as [WF ?]). apply nodup_str_NoDup. assumption.
  Qed.
  Lemma wf_nsp x : In x (all_names F) -> special x = false.
  Proof.
    unfold wfb in WF. apply andb_true_iff in WF as [_ H]. rewrite forallb_forall in H. intro Hx.
    specialize (H x Hx). destruct (special x); [discriminate | reflexivity].
  Qed.
  Lemma nd_P : NoDup (map pname P).
  Proof. pose proof wf_nodup as H. unfold all_names in H. apply NoDup_app_l in H. exact H. Qed.
  Lemma nd_ko : NoDup (map pname (s_ko F)).
  Proof.
    pose proof wf_nodup as H. unfold all_names in H.
    apply NoDup_app_r in H. apply NoDup_app_r in H. apply NoDup_app_l in H. exact H.
  Qed.
  Lemma P_ko_disj x : In x (map pname P) -> In x (map pname (s_ko F)) -> False.
  Proof.
    intros H1 H2. apply (NoDup_app_disj _ _ x wf_nodup H1). unfold all_names.
    apply in_or_app. right. apply in_or_app. left. exact H2.
  Qed.
  Lemma in_P_names x : In x (map pname (s_po F)) \/ In x (map pname (s_pk F)) -> In x (all_names F).
  Proof.
    intro H. unfold all_names, pos_params. apply in_or_app. left. rewrite map_app. apply in_or_app. exact H.
  Qed.
  Lemma po_pk_disj x : In x (map pname (s_po F)) -> In x (map pname (s_pk F)) -> False.
  Proof.
    pose proof nd_P as H. unfold P, pos_params in H. rewrite map_app in H. apply NoDup_app_disj. exact H.
  Qed.

  Lemma NP_len : length (NP F) = length P - 2.
  Proof. unfold NP. rewrite map_length, skipn_length. reflexivity. Qed.

  Lemma NP_nth j k : nth_error (NP F) j = Some k <-> exists p, nth_error P (2 + j) = Some p /\ pname p = k.
  Proof.
    unfold NP. rewrite nth_error_map, nth_error_skipn'. fold P. destruct (nth_error P (2 + j)) as [p|]; simpl.
    - split; [intro H; inversion H; eauto | intros [q [H1 H2]]; inversion H1; subst; reflexivity].
    - split; [discriminate | intros [q [H1 _]]; discriminate].
  Qed.

  Lemma nd_NP : NoDup (NP F).
  Proof.
    pose proof nd_P as H. rewrite <- (firstn_skipn 2 P), map_app in H. apply NoDup_app_r in H. exact H.
  Qed.

  (* ---------------- the loop never raises anything but TypeError ---------------- *)
  Lemma names_nth i : i < w_pc w -> nth_error (w_names w) i = nth_error (NP F) i.
  Proof. intro H. rewrite <- (vo_names _ _ _ VO). symmetry. apply nth_error_firstn_lt. exact H. Qed.

  Lemma vstep_err s e x : vstep w s e = Err x -> x = TypeError.
  Proof.
    destruct e as [[k|] v]; simpl.
    - destruct (smem k (v_used s) && _); [intro H; inversion H; reflexivity|].
      destruct (negb (w_valid w k)); intro H; inversion H; reflexivity.
    - destruct (v_seen s); [intro H; inversion H; reflexivity|].
      destruct (negb (w_va w) && (w_pc w <=? v_idx s)); [intro H; inversion H; reflexivity|].
      destruct (v_idx s <? w_pc w) eqn:E; [|discriminate].
      apply Nat.ltb_lt in E. rewrite (names_nth _ E).
      destruct (nth_error (NP F) (v_idx s)) as [nm|] eqn:En.
      + destruct (smem nm (v_used s)); intro H; inversion H; reflexivity.
      + apply nth_error_None in En. rewrite (vo_pc _ _ _ VO) in E. lia.
  Qed.

  Lemma vloop_err : forall l s x, vloop w s l = Err x -> x = TypeError.
  Proof.
    induction l as [|e l IH]; intros s x; simpl; [discriminate|].
    destruct (vstep w s e) as [s'|y] eqn:E; [apply IH|]. intro H. inversion H; subst. eapply vstep_err; eauto.
  Qed.

  Lemma vloop_pak : forall l s, pos_after_kw l (v_seen s) = true -> exists x, vloop w s l = Err x.
  Proof.
    induction l as [|[[k|] v] l IH]; intros s H; simpl in *; [discriminate | |].
    - destruct (smem k (v_used s) && _); [eauto|]. destruct (negb (w_valid w k)); [eauto|]. apply IH. exact H.
    - destruct (v_seen s) eqn:Es; [eauto|]. simpl in H.
      destruct (negb (w_va w) && (w_pc w <=? v_idx s)); [eauto|].
      destruct (if v_idx s <? w_pc w then _ else _) as [u|y]; [|eauto]. apply IH. exact H.
  Qed.

  (* ---------------- positional arguments ---------------- *)
  Lemma pos_phase : forall vs s,
    v_seen s = false ->
    (forall x, In x (v_used s) <-> In x (firstn (v_idx s) (NP F))) ->
    match vloop w s (map pe vs) with
    | Err e => e = TypeError /\ w_va w = false /\ w_pc w < v_idx s + length vs
    | Ok s' => v_seen s' = false /\ v_args s' = v_args s ++ vs /\ v_kwargs s' = v_kwargs s /\
               v_idx s' = v_idx s + length vs /\
               (forall x, In x (v_used s') <-> In x (firstn (v_idx s') (NP F)))
    end.
  Proof.
    induction vs as [|v vs IH]; intros s Hseen Hused; simpl.
    - rewrite app_nil_r, Nat.add_0_r. auto.
    - rewrite Hseen. destruct (negb (w_va w) && (w_pc w <=? v_idx s)) eqn:E1.
      + apply andb_true_iff in E1 as [A B]. apply Nat.leb_le in B. destruct (w_va w); [discriminate|].
        repeat split; auto. lia.
      + destruct (v_idx s <? w_pc w) eqn:E2.
        * apply Nat.ltb_lt in E2. rewrite (names_nth _ E2).
          destruct (nth_error (NP F) (v_idx s)) as [nm|] eqn:En.
          2:{ apply nth_error_None in En. rewrite (vo_pc _ _ _ VO) in E2. lia. }
          assert (smem nm (v_used s) = false) as ->.
          { apply smem_false. rewrite Hused. intro Hin. apply In_firstn_nth in Hin as [j [Hj1 Hj2]].
            assert (j = v_idx s).
            { apply (proj1 (NoDup_nth_error (NP F)) nd_NP); [apply nth_error_Some; congruence | congruence]. }
            lia. }
          set (s1 := mkV false (nm :: v_used s) (v_args s ++ [v]) (v_kwargs s) (S (v_idx s))).
          specialize (IH s1 eq_refl). simpl in IH.
          assert (forall x, In x (nm :: v_used s) <-> In x (firstn (S (v_idx s)) (NP F))) as H1.
          { intro x. rewrite (firstn_snoc _ _ _ En), in_app_iff. simpl. rewrite Hused. tauto. }
          specialize (IH H1). destruct (vloop w s1 (map pe vs)) as [s'|e].
          -- destruct IH as [A [B [C [D E]]]]. repeat split; auto; try apply E.
             ++ rewrite B, <- app_assoc. reflexivity.
             ++ lia.
          -- destruct IH as [A [B C]]. repeat split; auto. lia.
        * apply Nat.ltb_ge in E2.
          set (s1 := mkV false (v_used s) (v_args s ++ [v]) (v_kwargs s) (S (v_idx s))).
          specialize (IH s1 eq_refl). simpl in IH.
          assert (forall x, In x (v_used s) <-> In x (firstn (S (v_idx s)) (NP F))) as H1.
          { intro x. rewrite Hused. rewrite !firstn_all'; try tauto; rewrite <- (vo_pc _ _ _ VO); lia. }
          specialize (IH H1). destruct (vloop w s1 (map pe vs)) as [s'|e].
          -- destruct IH as [A [B [C [D E]]]]. repeat split; auto; try apply E.
             ++ rewrite B, <- app_assoc. reflexivity.
             ++ lia.
          -- destruct IH as [A [B C]]. repeat split; auto. lia.
  Qed.

  (* ---------------- keyword arguments ---------------- *)
  Definition exempt0 (k : str) : bool := w_vk w && smem k (w_ponames w).
  Definition bad_key (U0 : list str) (k : str) : Prop :=
    (In k U0 /\ exempt0 k = false) \/ w_valid w k = false.

  Lemma has_dup_mid K k v r : kmem k K = true -> has_dup_keys (K ++ (k, v) :: r) = true.
  Proof.
    intro H. destruct (has_dup_keys (K ++ (k, v) :: r)) eqn:E; [reflexivity|].
    destruct (has_dup_app_false _ _ E) as [_ [_ H3]]. specialize (H3 k H). unfold kmem in H3. simpl in H3.
    rewrite str_eqb_refl in H3. discriminate.
  Qed.

  Lemma kw_phase : forall rk s U0,
    (forall x, In x (v_used s) <-> In x U0 \/ In x (map fst (v_kwargs s))) ->
    has_dup_keys (v_kwargs s) = false ->
    match vloop w s (map kwe rk) with
    | Err e => e = TypeError /\
               (has_dup_keys (v_kwargs s ++ rk) = true \/ exists k, In k (map fst rk) /\ bad_key U0 k)
    | Ok s' => has_dup_keys (v_kwargs s ++ rk) = false /\ v_kwargs s' = v_kwargs s ++ rk /\
               v_args s' = v_args s /\ v_idx s' = v_idx s /\
               (forall x, In x (v_used s') <-> In x U0 \/ In x (map fst (v_kwargs s ++ rk)))
    end.
  Proof.
    induction rk as [|[k v] rk IH]; intros s U0 Hused Hnd; simpl.
    - rewrite app_nil_r. auto.
    - destruct (kmem k (v_kwargs s)) eqn:Hk.
      + (* repeated keyword *)
        assert (smem k (v_used s) = true) as ->.
        { apply smem_In. apply Hused. right. apply kmem_In. exact Hk. }
        rewrite andb_false_r. simpl. split; auto. left. apply has_dup_mid. exact Hk.
      + rewrite andb_true_r. fold (exempt0 k).
        destruct (smem k (v_used s) && negb (exempt0 k)) eqn:E1.
        * apply andb_true_iff in E1 as [A B]. split; auto. right. exists k. split; [left; reflexivity|].
          left. split.
          -- apply smem_In in A. apply Hused in A as [A|A]; [exact A|]. apply kmem_In in A. congruence.
          -- destruct (exempt0 k); [discriminate | reflexivity].
        * destruct (w_valid w k) eqn:E2; simpl.
          2:{ split; auto. right. exists k. split; [left; reflexivity | right; exact E2]. }
          rewrite (dset_fresh _ _ _ Hk).
          set (s1 := mkV true (k :: v_used s) (v_args s) (v_kwargs s ++ [(k, v)]) (v_idx s)).
          specialize (IH s1 U0). simpl in IH.
          assert (forall x, In x (k :: v_used s) <-> In x U0 \/ In x (map fst (v_kwargs s ++ [(k, v)]))) as H1.
          { intro x. rewrite map_app, in_app_iff. simpl. rewrite Hused. tauto. }
          assert (has_dup_keys (v_kwargs s ++ [(k, v)]) = false) as H2.
          { apply has_dup_app_intro; auto. intros x Hx. unfold kmem. simpl.
            destruct (str_eqb x k) eqn:E; [|reflexivity]. apply str_eqb_true in E. subst. congruence. }
          specialize (IH H1 H2). rewrite <- app_assoc in IH. simpl in IH.
          destruct (vloop w s1 (map kwe rk)) as [s'|e].
          -- exact IH.
          -- destruct IH as [A [B|[k' [B1 B2]]]]; split; auto. right. exists k'. split; [right; exact B1 | exact B2].
  Qed.

  (* ---------------- missing / defaults ---------------- *)
  Lemma vpost_spec : forall al used K,
    match vpost al used K with
    | Err e => (e = TypeError /\ exists nm K', In (nm, ARequired) al /\ ~ In nm used /\ kmem nm K' = false /\
                                              (forall x, kmem x K = true -> kmem x K' = true))
               \/ (e = IndexError /\ exists nm, In (nm, AIndexErr) al)
    | Ok K' => exists D, K' = K ++ D /\
               forall x d, klookup x D = Some d -> In (x, ADefault d) al /\ ~ In x used /\ kmem x K = false
    end.
  Proof.
    induction al as [|[nm a] al IH]; intros used K; simpl.
    - exists []. rewrite app_nil_r. split; [reflexivity | intros x d H; discriminate].
    - destruct (smem nm used || kmem nm K) eqn:E.
      + specialize (IH used K). destruct (vpost al used K) as [K'|e].
        * destruct IH as [D [H1 H2]]. exists D. split; auto. intros x d H. destruct (H2 x d H) as [A B]. auto.
        * destruct IH as [[A [nm' [K' [B1 [B2 [B3 B4]]]]]]|[A [nm' B]]]; [left | right; eauto].
          split; auto. exists nm', K'. auto.
      + apply orb_false_iff in E as [E1 E2]. apply smem_false in E1. destruct a.
        * left. split; auto. exists nm, K. auto.
        * rewrite (dset_fresh _ _ _ E2). specialize (IH used (K ++ [(nm, d)])).
          destruct (vpost al used (K ++ [(nm, d)])) as [K'|e].
          -- destruct IH as [D [H1 H2]]. exists ((nm, d) :: D). split; [rewrite H1, <- app_assoc; reflexivity|].
             intros x d0. simpl. destruct (str_eqb x nm) eqn:Ex.
             ++ apply str_eqb_true in Ex. subst. intro H. inversion H; subst. auto.
             ++ intro H. destruct (H2 x d0 H) as [A [B C]]. repeat split; auto.
                rewrite kmem_app in C. apply orb_false_iff in C. tauto.
          -- destruct IH as [[A [nm' [K' [B1 [B2 [B3 B4]]]]]]|[A [nm' B]]]; [left | right; eauto].
             split; auto. exists nm', K'. repeat split; auto. intros x Hx. apply B4. rewrite kmem_app, Hx. reflexivity.
        * specialize (IH used K). destruct (vpost al used K) as [K'|e].
          -- destruct IH as [D [H1 H2]]. exists D. split; auto. intros x d H. destruct (H2 x d H) as [A B]. auto.
          -- destruct IH as [[A [nm' [K' [B1 [B2 [B3 B4]]]]]]|[A [nm' B]]]; [left | right; eauto].
             split; auto. exists nm', K'. auto.
        * right. split; auto. exists nm. auto.
  Qed.

  (* ---------------- every refusal of the validators is a refusal of Python ---------------- *)
  Variables sv cv : N.
  Notation sp := (fun kv : str * N => special (fst kv)).
  Notation nsp := (fun kv : str * N => negb (special (fst kv))).

  Lemma es_pos vs kws : entries_pos (map pe vs ++ map kwe kws) = vs.
  Proof. rewrite entries_pos_app, entries_pos_pe, entries_pos_kwe. apply app_nil_r. Qed.
  Lemma es_kw vs kws : entries_kw (map pe vs ++ map kwe kws) = kws.
  Proof. rewrite entries_kw_app, entries_kw_pe, entries_kw_kwe. reflexivity. Qed.

  Lemma skipP_nth j p : nth_error (skipn 2 P) j = Some p -> nth_error P (2 + j) = Some p.
  Proof. rewrite nth_error_skipn'. auto. Qed.

  Lemma bad_key_refuses vs kws k :
    kmem k kws = true -> bad_key (firstn (length vs) (NP F)) k -> py_refuses F (sv :: cv :: vs) kws.
  Proof.
    intros Hk [[Hin Hex]|Hval].
    - apply In_firstn_nth in Hin as [j [Hj Hnth]]. apply NP_nth in Hnth as [p [Hp Hname]].
      destruct (le_lt_dec (length (s_po F)) (2 + j)) as [Hle|Hlt].
      + apply (refuse_pos F _ kws (2 + j) p Hp). left. simpl. rewrite Hname. repeat split; auto; lia.
      + (* k is a positional-only parameter that got a positional argument *)
        unfold P, pos_params in Hp. rewrite nth_error_app1 in Hp by exact Hlt.
        assert (nth_error (skipn 2 (map pname (s_po F))) j = Some k) as Hk2.
        { rewrite nth_error_skipn', nth_error_map, Hp. simpl. congruence. }
        assert (In k (map pname (s_po F))) as Hkpo.
        { rewrite <- Hname. apply in_map. eapply nth_error_In; eauto. }
        unfold exempt0 in Hex. rewrite (vo_po _ _ _ VO) in Hex.
        assert (smem k (skipn 2 (map pname (s_po F))) = true) as Hs.
        { apply smem_In. eapply nth_error_In; eauto. }
        rewrite Hs, andb_true_r in Hex. destruct (s_vk F) as [vkn|] eqn:Evk.
        * (* ... and **kwargs exists: the loop exempts it (81cf028), so it cannot be a bad key *)
          exfalso. rewrite (vo_vk _ _ _ VO), Evk in Hex. simpl in Hex. discriminate.
        * apply (refuse_unexpected F _ kws k Hk); [|exact Evk]. rewrite map_app, in_app_iff. intros [H|H].
          -- exact (po_pk_disj k Hkpo H).
          -- apply (P_ko_disj k); [|exact H]. unfold P, pos_params. rewrite map_app. apply in_or_app. left. exact Hkpo.
    - destruct (vo_valid _ _ _ VO k Hval) as [Hvk Hnot].
      assert (s_vk F = None) as Evk.
      { rewrite (vo_vk _ _ _ VO) in Hvk. destruct (s_vk F); [discriminate | reflexivity]. }
      destruct (smem k (map pname (s_pk F))) eqn:Epk.
      + apply smem_In in Epk. apply in_map_iff in Epk as [p [Hname Hin]].
        apply In_nth_error in Hin as [j' Hj'].
        assert (nth_error P (length (s_po F) + j') = Some p) as Hp.
        { unfold P, pos_params. rewrite nth_error_app2 by lia. rewrite <- Hj'. f_equal. lia. }
        destruct (le_lt_dec 2 (length (s_po F) + j')) as [Hge|Hlt].
        * exfalso. apply Hnot. apply in_or_app. left.
          assert (nth_error (NP F) (length (s_po F) + j' - 2) = Some k) as Hn.
          { apply NP_nth. exists p. split; [|exact Hname]. rewrite <- Hp. f_equal. lia. }
          eapply nth_error_In; eauto.
        * apply (refuse_pos F _ kws _ p Hp). left. simpl. rewrite Hname. repeat split; auto; lia.
      + apply smem_false in Epk. apply (refuse_unexpected F _ kws k Hk); [|exact Evk].
        rewrite map_app, in_app_iff. intros [H|H]; [contradiction|]. apply Hnot. apply in_or_app. right. exact H.
  Qed.

  Lemma missing_refuses vs kws nm :
    In (nm, ARequired) (acts (length vs) (length vs)) ->
    ~ In nm (firstn (length vs) (NP F)) -> klookup nm kws = None -> py_refuses F (sv :: cv :: vs) kws.
  Proof.
    intros Hreq Hnot Hk. destruct (vo_req _ _ _ VO _ _ Hreq) as [[j [p [Hj [Hname Hdef]]]]|[p [Hin [Hname Hdef]]]].
    - apply skipP_nth in Hj. apply (refuse_pos F _ kws (2 + j) p Hj). right. simpl. rewrite Hname.
      repeat split; auto.
      destruct (le_lt_dec (length vs) j) as [H|H]; [lia|]. exfalso. apply Hnot. apply In_firstn_nth.
      exists j. split; [exact H|]. apply NP_nth. eauto.
    - apply (refuse_ko F _ kws p Hin Hdef). rewrite Hname. exact Hk.
  Qed.

  Lemma defaults_harmless vs K D :
    (forall x d, klookup x D = Some d -> In (x, ADefault d) (acts (length vs) (length vs)) /\
                                         ~ In x (firstn (length vs) (NP F)) /\ kmem x K = false) ->
    py_call F (sv :: cv :: vs) (K ++ D) = py_call F (sv :: cv :: vs) K.
  Proof.
    intro H. apply py_call_defaults.
    - intros i p d Hi Hd. destruct (H _ _ Hd) as [Hact [HU HK]]. split; [exact HK|].
      destruct (vo_def _ _ _ VO _ _ _ Hact) as [[j [p' [Hj [Hname [Hdef Hpo]]]]]|[p' [Hin [Hname Hdef]]]].
      + assert (length vs <= j) as Hn.
        { destruct (le_lt_dec (length vs) j) as [L|L]; [exact L|]. exfalso. apply HU. apply In_firstn_nth.
          exists j. split; [exact L|]. apply NP_nth. exists p'. split; [apply skipP_nth; exact Hj | exact Hname]. }
        apply skipP_nth in Hj. assert (2 + j = i) by (eapply (NoDup_map_nth pname P); eauto using nd_P).
        subst i. unfold P in Hj. rewrite Hi in Hj. inversion Hj. subst p'. simpl. repeat split; auto; lia.
      + exfalso. apply (P_ko_disj (pname p)); [apply in_map; eapply nth_error_In; eauto|].
        rewrite <- Hname. apply in_map. exact Hin.
    - intros p d Hin Hd. destruct (H _ _ Hd) as [Hact [_ HK]]. split; [exact HK|].
      destruct (vo_def _ _ _ VO _ _ _ Hact) as [[j [p' [Hj [Hname [Hdef Hpo]]]]]|[p' [Hin' [Hname Hdef]]]].
      + exfalso. apply skipP_nth in Hj. apply (P_ko_disj (pname p)); [|apply in_map; exact Hin].
        rewrite <- Hname. apply in_map. eapply nth_error_In; eauto.
      + assert (p' = p) by (eapply (NoDup_map_inj pname (s_ko F)); eauto using nd_ko). subst. exact Hdef.
    - intros x Hx. apply kmem_In in Hx. unfold kmem in Hx. destruct (klookup x D) as [d|] eqn:Hd; [|discriminate].
      destruct (H _ _ Hd) as [Hact _]. rewrite map_app, in_app_iff.
      destruct (vo_def _ _ _ VO _ _ _ Hact) as [[j [p' [Hj [Hname [Hdef Hpo]]]]]|[p' [Hin' [Hname Hdef]]]].
      + left. apply skipP_nth in Hj. unfold P, pos_params in Hj. rewrite nth_error_app2 in Hj by lia.
        rewrite <- Hname. apply in_map. eapply nth_error_In; eauto.
      + right. rewrite <- Hname. apply in_map. exact Hin'.
  Qed.

  (* ---------------- the three cases ---------------- *)
  Lemma impl_pak es : pos_after_kw es false = true ->
    exists e, impl_generic special w acts sv cv F es = Err e /\ arg_error e = true.
  Proof.
    intro H. unfold impl_generic. pose proof (wsplit_pak special es false []) as S.
    destruct (wsplit special es false []) as [[reg inv]|e]; [|eauto].
    specialize (S false H). unfold validate.
    destruct (vloop_pak reg vinit S) as [x Hx]. rewrite Hx. exists x. split; [reflexivity|].
    rewrite (vloop_err _ _ _ Hx). reflexivity.
  Qed.

  Lemma impl_decomposed es vs kws :
    es = map pe vs ++ map kwe kws ->
    res_equiv (impl_generic special w acts sv cv F es)
              (if has_dup_keys kws then Err TypeError else py_call F (sv :: cv :: vs) kws).
  Proof.
    intros ->. unfold impl_generic. rewrite wsplit_pos_prefix.
    destruct (has_dup_keys (filter sp kws)) eqn:Dsk.
    - (* a special key twice *)
      assert (has_dup_keys kws = true) as ->.
      { destruct (has_dup_keys kws) eqn:E; [reflexivity|]. rewrite (has_dup_filter special kws E) in Dsk. discriminate. }
      rewrite (wsplit_kws_dup special kws false [] eq_refl Dsk). simpl. auto.
    - rewrite (wsplit_kws special kws false [] Dsk). simpl app.
      set (rk := filter nsp kws). set (sk := filter sp kws).
      unfold validate. rewrite vloop_app.
      pose proof (pos_phase vs vinit eq_refl) as P1. simpl in P1.
      assert (forall x : str, False <-> In x (firstn 0 (NP F))) as H0 by (intro x; simpl; tauto).
      specialize (P1 H0). clear H0.
      destruct (vloop w vinit (map pe vs)) as [s1|e1].
      2:{ (* too many positional arguments *)
        destruct P1 as [-> [Hva Hpc]].
        assert (py_refuses F (sv :: cv :: vs) kws) as R.
        { apply refuse_too_many.
          - simpl. rewrite (vo_pc _ _ _ VO), NP_len in Hpc. pose proof wf_len. fold P. lia.
          - rewrite (vo_va _ _ _ VO) in Hva. destruct (s_va F); [discriminate | reflexivity]. }
        rewrite R. destruct (has_dup_keys kws); simpl; auto. }
      destruct P1 as [Hseen [Hargs [Hkw [Hidx Hused]]]]. simpl in Hidx.
      pose proof (kw_phase rk s1 (firstn (length vs) (NP F))) as P2. rewrite Hkw in P2. simpl in P2.
      assert (forall x, In x (v_used s1) <-> In x (firstn (length vs) (NP F)) \/ False) as H1.
      { intro x. rewrite Hused, Hidx. tauto. }
      specialize (P2 H1 eq_refl). clear H1.
      destruct (has_dup_keys kws) eqn:Dk.
      + (* a regular key twice *)
        assert (has_dup_keys rk = true) as Drk.
        { destruct (has_dup_keys rk) eqn:E; [reflexivity|]. rewrite (has_dup_partition special kws Dsk E) in Dk. discriminate. }
        destruct (vloop w s1 (map kwe rk)) as [s2|e2].
        * destruct P2 as [A _]. congruence.
        * destruct P2 as [-> _]. simpl. auto.
      + assert (has_dup_keys rk = false) as Drk by (apply (has_dup_filter (fun x => negb (special x))); exact Dk).
        destruct (vloop w s1 (map kwe rk)) as [s2|e2].
        2:{ destruct P2 as [-> [A|[k [Hk Hbad]]]]; [congruence|].
            assert (kmem k kws = true) as Hkk.
            { apply kmem_In in Hk. unfold rk in Hk. rewrite (kmem_filter (fun x => negb (special x))) in Hk.
              apply andb_true_iff in Hk. tauto. }
            rewrite (bad_key_refuses vs kws k Hkk Hbad). simpl. auto. }
        destruct P2 as [_ [Hkw2 [Hargs2 [Hidx2 Hused2]]]].
        destruct (nonempty sk && negb (w_vk w)) eqn:Eex.
        * (* special keys without **kwargs *)
          apply andb_true_iff in Eex as [A B]. apply nonempty_kmem in A as [x Hx].
          unfold sk in Hx. rewrite kmem_filter in Hx. apply andb_true_iff in Hx as [Hsp Hxk].
          assert (py_refuses F (sv :: cv :: vs) kws) as R.
          { apply (refuse_unexpected F _ kws x Hxk).
            - intro Hin. assert (In x (all_names F)) as Hall.
              { unfold all_names. rewrite map_app, in_app_iff in Hin. destruct Hin as [Hin|Hin].
                - apply in_P_names. right. exact Hin.
                - apply in_or_app. right. apply in_or_app. right. apply in_or_app. left. exact Hin. }
              rewrite (wf_nsp x Hall) in Hsp. discriminate.
            - rewrite (vo_vk _ _ _ VO) in B. destruct (s_vk F); [discriminate | reflexivity]. }
          rewrite R. simpl. auto.
        * assert (has_dup_keys (rk ++ sk) = false) as Dall.
          { apply has_dup_app_intro; auto. intros x Hx. unfold rk in Hx. unfold sk.
            rewrite (kmem_filter (fun x => negb (special x))) in Hx. rewrite kmem_filter.
            apply andb_true_iff in Hx as [Hx _]. destruct (special x); [discriminate | reflexivity]. }
          rewrite Hkw2, Hargs2, Hidx2, Hargs, Hidx. simpl app. rewrite (dupdate_fresh _ _ Dall).
          pose proof (vpost_spec (acts (length vs) (length vs)) (v_used s2) (rk ++ sk)) as P3.
          assert (dict_equiv (rk ++ sk) kws) as Heq by (apply (partition_dict_equiv special kws Dk)).
          destruct (vpost (acts (length vs) (length vs)) (v_used s2) (rk ++ sk)) as [K'|e3].
          -- destruct P3 as [D [-> HD]].
             rewrite (defaults_harmless vs (rk ++ sk) D).
             ++ apply py_call_ext. exact Heq.
             ++ intros x d Hd. destruct (HD x d Hd) as [A [B1 B]]. repeat split; auto.
                intro Hin. apply B1. apply Hused2. left. exact Hin.
          -- destruct P3 as [[-> [nm [K' [Hreq [Hnu [HnK Hsub]]]]]]|[_ [nm Hbad]]].
             2:{ exfalso. exact (vo_noidx _ _ _ VO _ _ Hbad). }
             assert (kmem nm (rk ++ sk) = false) as Hn1.
             { destruct (kmem nm (rk ++ sk)) eqn:E; [|reflexivity]. rewrite (Hsub nm E) in HnK. discriminate. }
             rewrite (dict_equiv_kmem _ _ nm Heq) in Hn1. unfold kmem in Hn1.
             destruct (klookup nm kws) eqn:El; [discriminate|].
             assert (~ In nm (firstn (length vs) (NP F))) as Hn2.
             { intro Hin. apply Hnu. apply Hused2. left. exact Hin. }
             rewrite (missing_refuses vs kws nm Hreq Hn2 El). simpl. auto.
  Qed.

  (* the tag and the equivalent Python call agree, for every argument sequence *)
  Theorem generic_equiv es :
    res_equiv (impl_generic special w acts sv cv F es) (py_bind_entries sv cv F es).
  Proof.
    unfold py_bind_entries. destruct (pos_after_kw es false) eqn:PAK.
    - destruct (impl_pak es PAK) as [e [-> He]]. simpl. auto.
    - apply impl_decomposed. apply no_pak. exact PAK.
  Qed.

  (* SyntaxError is raised only for a positional argument after a keyword one; nothing but
     TypeError / SyntaxError is ever raised *)
  Lemma generic_error_class es e :
    impl_generic special w acts sv cv F es = Err e ->
    arg_error e = true /\ (e = SyntaxError -> pos_after_kw es false = true).
  Proof.
    intros H. pose proof (generic_equiv es) as E. rewrite H in E.
    destruct (py_bind_entries sv cv F es) eqn:Epy; simpl in E; [contradiction|]. split; [tauto|].
    intros ->. unfold py_bind_entries in Epy. destruct (pos_after_kw es false) eqn:PAK; [reflexivity|].
    exfalso. (* in the well-ordered case the split cannot raise SyntaxError and the rest raises TypeError *)
    unfold impl_generic in H. rewrite (no_pak es PAK), wsplit_pos_prefix in H.
    set (kws := entries_kw es) in *.
    destruct (has_dup_keys (filter sp kws)) eqn:Dsk.
    - rewrite (wsplit_kws_dup special kws false [] eq_refl Dsk) in H. discriminate.
    - rewrite (wsplit_kws special kws false [] Dsk) in H. simpl app in H. unfold validate in H.
      destruct (vloop w vinit _) as [s|x] eqn:El.
      + destruct (nonempty _ && negb (w_vk w)); [discriminate|].
        pose proof (vpost_spec (acts (length (v_args s)) (v_idx s)) (v_used s)
                               (dupdate (v_kwargs s) (filter sp kws))) as P3.
        destruct (vpost _ _ _) as [K'|e3].
        * unfold py_call in H. repeat (destruct (_ && _) in H; [discriminate|]).
          destruct (bind_pos _ _ _ _); [destruct (bind_ko _ _)|]; discriminate.
        * destruct P3 as [[-> _]|[-> _]]; discriminate.
      + apply vloop_err in El. subst. discriminate.
  Qed.
End Generic.

(* ================================================================================================ *)
(* the two concrete views satisfy view_ok *)
(* ================================================================================================ *)
Lemma firstn_app_exact {A} (a b : list A) : firstn (length a) (a ++ b) = a.
Proof. induction a; simpl; congruence. Qed.

Lemma firstn_app_le {A} (a b : list A) n : n <= length a -> firstn n (a ++ b) = firstn n a.
Proof.
  revert a. induction n as [|n IH]; intros [|x a] H; simpl in *; try reflexivity; try lia. f_equal. apply IH. lia.
Qed.

Lemma firstn_skipn_app {A} k : forall (a b : list A), firstn (length a - k) (skipn k (a ++ b)) = skipn k a.
Proof.
  induction k as [|k IH]; intros a b.
  - rewrite Nat.sub_0_r. simpl. apply firstn_app_exact.
  - destruct a as [|x a]; simpl; [reflexivity | apply IH].
Qed.

Lemma skipn_map' {A B} (f : A -> B) k : forall l, skipn k (map f l) = map f (skipn k l).
Proof. induction k as [|k IH]; intros [|x l]; simpl; auto. Qed.

Lemma firstn_map' {A B} (f : A -> B) k : forall l, firstn k (map f l) = map f (firstn k l).
Proof. induction k as [|k IH]; intros [|x l]; simpl; auto. f_equal. apply IH. Qed.

Lemma skipn_app_le {A} k : forall (a b : list A), k <= length a -> skipn k (a ++ b) = skipn k a ++ b.
Proof. induction k as [|k IH]; intros [|x a] b H; simpl in *; try reflexivity; try lia. apply IH. lia. Qed.

(* positional parameters as inspect.Parameter objects: the first npo are POSITIONAL_ONLY *)
Fixpoint psp (npo : nat) (ps : list param) : list sparam :=
  match ps with
  | [] => []
  | p :: r => mkSP (pname p) (match npo with O => KPk | S _ => KPo end) (pdef p) :: psp (pred npo) r
  end.

Lemma psp_split po : forall pk,
  map (fun p => mkSP (pname p) KPo (pdef p)) po ++ map (fun p => mkSP (pname p) KPk (pdef p)) pk
  = psp (length po) (po ++ pk).
Proof.
  induction po as [|p po IH]; intro pk; simpl.
  - induction pk as [|q pk IHk]; simpl; congruence.
  - f_equal. apply IH.
Qed.

Lemma psp_skipn k : forall n ps rest, k <= length ps -> skipn k (psp n ps ++ rest) = psp (n - k) (skipn k ps) ++ rest.
Proof.
  induction k as [|k IH]; intros n ps rest H.
  - rewrite Nat.sub_0_r. reflexivity.
  - destruct ps as [|p ps]; simpl in *; [lia|]. rewrite IH by lia. f_equal. f_equal. lia.
Qed.

Lemma psp_names n ps : map sp_name (psp n ps) = map pname ps.
Proof. revert n. induction ps as [|p ps IH]; intro n; simpl; [reflexivity|]. f_equal. apply IH. Qed.

Lemma psp_length n ps : length (psp n ps) = length ps.
Proof. revert n. induction ps as [|p ps IH]; intro n; simpl; auto. Qed.

Lemma psp_pc n ps rest : sig_pc (psp n ps ++ rest) = length ps + sig_pc rest.
Proof.
  revert n. induction ps as [|p ps IH]; intro n; simpl; [reflexivity|].
  unfold is_positional. simpl. destruct n; rewrite IH; reflexivity.
Qed.

Lemma psp_no_var k n ps : (k = KVa \/ k = KVk) -> has_kind k (psp n ps) = false.
Proof.
  intro H. revert n. induction ps as [|p ps IH]; intro n; simpl; [reflexivity|].
  unfold has_kind in *. rewrite IH. destruct n, H as [-> | ->]; reflexivity.
Qed.

Lemma psp_In n ps q : In q (psp n ps) ->
  exists j p, nth_error ps j = Some p /\ sp_name q = pname p /\ sp_def q = pdef p /\
              sp_kind q = (if j <? n then KPo else KPk).
Proof.
  revert n. induction ps as [|p ps IH]; intros n H; simpl in H; [contradiction|]. destruct H as [<-|H].
  - exists 0, p. simpl. repeat split. destruct n; reflexivity.
  - destruct (IH _ H) as [j [p' [A [B [C D]]]]]. exists (S j), p'. repeat split; auto. rewrite D.
    destruct n; simpl; [destruct (j <? 0) eqn:E; [apply Nat.ltb_lt in E; lia | reflexivity]|].
    reflexivity.
Qed.

Lemma psp_po_names n ps :
  map sp_name (filter (fun p => match sp_kind p with KPo => true | _ => false end) (psp n ps)) = map pname (firstn n ps).
Proof.
  revert n. induction ps as [|p ps IH]; intro n; simpl; [destruct n; reflexivity|].
  destruct n; simpl.
  - rewrite IH. reflexivity.
  - f_equal. apply IH.
Qed.

Section Views.
  Variable special : str -> bool.
  Variable F : sig.
  Hypothesis WF : wfb special F = true.

  Let P := pos_params F.
  Let rest : list sparam :=
    map (fun n => mkSP n KVa None) (opt_list (s_va F)) ++ map (fun p => mkSP (pname p) KKo (pdef p)) (s_ko F)
    ++ map (fun n => mkSP n KVk None) (opt_list (s_vk F)).

  Lemma sparams_shape : sparams_of F = psp (length (s_po F) - 2) (skipn 2 P) ++ rest.
  Proof.
    unfold sparams_of, full_sparams. rewrite app_assoc, psp_split. apply psp_skipn. apply (wf_len special F WF).
  Qed.

  Lemma rest_pc : sig_pc rest = 0.
  Proof. unfold rest. destruct (s_va F), (s_ko F), (s_vk F); reflexivity. Qed.

  Lemma rest_va : has_kind KVa rest = is_some (s_va F).
  Proof.
    unfold rest, has_kind. rewrite !existsb_app.
    assert (existsb (fun p => match sp_kind p, KVa with KVa, KVa => true | KVk, KVk => true | _, _ => false end)
                    (map (fun p => mkSP (pname p) KKo (pdef p)) (s_ko F)) = false) as ->.
    { induction (s_ko F); simpl; auto. }
    destruct (s_va F), (s_vk F); reflexivity.
  Qed.

  Lemma rest_vk : has_kind KVk rest = is_some (s_vk F).
  Proof.
    unfold rest, has_kind. rewrite !existsb_app.
    assert (existsb (fun p => match sp_kind p, KVk with KVa, KVa => true | KVk, KVk => true | _, _ => false end)
                    (map (fun p => mkSP (pname p) KKo (pdef p)) (s_ko F)) = false) as ->.
    { induction (s_ko F); simpl; auto. }
    destruct (s_va F), (s_vk F); reflexivity.
  Qed.

  Lemma rest_no_po : filter (fun p => match sp_kind p with KPo => true | _ => false end) rest = [].
  Proof.
    unfold rest. rewrite !filter_app.
    assert (filter (fun p => match sp_kind p with KPo => true | _ => false end)
                   (map (fun p => mkSP (pname p) KKo (pdef p)) (s_ko F)) = []) as ->.
    { induction (s_ko F); simpl; auto. }
    destruct (s_va F), (s_vk F); reflexivity.
  Qed.

  Lemma rest_In q : In q rest ->
    (sp_kind q = KVa \/ sp_kind q = KVk) \/
    (exists p, In p (s_ko F) /\ sp_name q = pname p /\ sp_def q = pdef p /\ sp_kind q = KKo).
  Proof.
    unfold rest. rewrite !in_app_iff, !in_map_iff. intros [[n [<- _]]|[[p [<- Hp]]|[n [<- _]]]]; simpl; eauto 8.
  Qed.

  Lemma rest_ko_names x : In x (map pname (s_ko F)) -> In x (map sp_name rest).
  Proof.
    intro H. unfold rest. rewrite !map_app, !in_app_iff. right. left. rewrite map_map. simpl. exact H.
  Qed.

  Lemma po_names_skip : map pname (firstn (length (s_po F) - 2) (skipn 2 P)) = skipn 2 (map pname (s_po F)).
  Proof. unfold P, pos_params. rewrite firstn_skipn_app, skipn_map'. reflexivity. Qed.

  Theorem sig_view_ok : view_ok F (sig_view (sparams_of F)) (sig_actions (sparams_of F)).
  Proof.
    rewrite sparams_shape. constructor; cbn [sig_view w_pc w_names w_va w_vk w_valid w_ponames].
    - rewrite psp_pc, rest_pc. unfold NP. fold P. rewrite map_length. lia.
    - rewrite psp_pc, rest_pc, Nat.add_0_r. unfold sig_names. rewrite map_app, psp_names.
      unfold NP. fold P. rewrite <- (map_length pname (skipn 2 P)). apply firstn_app_exact.
    - unfold has_kind. rewrite existsb_app. fold (has_kind KVa (psp (length (s_po F) - 2) (skipn 2 P))).
      rewrite psp_no_var by auto. apply rest_va.
    - unfold has_kind. rewrite existsb_app. fold (has_kind KVk (psp (length (s_po F) - 2) (skipn 2 P))).
      rewrite psp_no_var by auto. apply rest_vk.
    - intros k H. unfold sig_valid in H. apply orb_false_iff in H as [H1 H2]. split; [exact H1|].
      apply smem_false in H2. intro Hin. apply H2. unfold sig_names. rewrite map_app, psp_names, in_app_iff.
      apply in_app_iff in Hin as [Hin|Hin]; [left; exact Hin | right; apply rest_ko_names; exact Hin].
    - rewrite filter_app, rest_no_po, app_nil_r, psp_po_names. apply po_names_skip.
    - intros n nm H. unfold sig_actions in H. apply in_map_iff in H as [q [E _]]. inversion E.
      unfold sig_action in *. destruct (sp_kind q), (sp_def q); try discriminate. destruct (n <=? n); discriminate.
    - intros n nm H. unfold sig_actions in H. apply in_map_iff in H as [q [E Hq]]. inversion E as [[E1 E2]]. clear E.
      apply in_app_iff in Hq as [Hq|Hq].
      + destruct (psp_In _ _ _ Hq) as [j [p [A [B [C D]]]]]. left. exists j, p. fold P.
        split; [exact A|]. split; [congruence|].
        unfold sig_action in E2. rewrite C in E2. destruct (sp_kind q), (pdef p); try discriminate; auto.
        destruct (n <=? n); discriminate.
      + destruct (rest_In _ Hq) as [[K|K]|[p [A [B [C D]]]]].
        * unfold sig_action in E2. rewrite K in E2. discriminate.
        * unfold sig_action in E2. rewrite K in E2. discriminate.
        * right. exists p. split; [exact A|]. split; [congruence|]. unfold sig_action in E2. rewrite D, C in E2.
          destruct (pdef p); [discriminate | reflexivity].
    - intros n nm d H. unfold sig_actions in H. apply in_map_iff in H as [q [E Hq]]. inversion E as [[E1 E2]]. clear E.
      apply in_app_iff in Hq as [Hq|Hq].
      + destruct (psp_In _ _ _ Hq) as [j [p [A [B [C D]]]]]. left. exists j, p. fold P.
        unfold sig_action in E2. rewrite C, D in E2.
        destruct (j <? length (s_po F) - 2) eqn:Ej.
        * destruct (pdef p); discriminate.
        * apply Nat.ltb_ge in Ej. destruct (pdef p) as [d'|] eqn:Ed; [|discriminate].
          destruct (n <=? n); [|discriminate]. inversion E2; subst.
          split; [exact A|]. split; [congruence|]. split; [reflexivity | lia].
      + destruct (rest_In _ Hq) as [[K|K]|[p [A [B [C D]]]]].
        * unfold sig_action in E2. rewrite K in E2. discriminate.
        * unfold sig_action in E2. rewrite K in E2. discriminate.
        * right. exists p. unfold sig_action in E2. rewrite D, C in E2.
          destruct (pdef p) as [d'|]; [|discriminate]. inversion E2; subst.
          split; [exact A|]. split; [congruence | reflexivity].
  Qed.
End Views.

(* ---------------- fast path: index arithmetic over __code__ / __defaults__ ---------------- *)
Lemma filter_defs_len l : length (filter_defs l) <= length l.
Proof.
  induction l as [|p l IH]; simpl; [lia|]. unfold filter_defs in *. simpl. rewrite app_length.
  destruct (pdef p); simpl; lia.
Qed.

Lemma alldef_spec l : forallb (fun q => is_some (pdef q)) l = true ->
  length (filter_defs l) = length l /\
  forall j p, nth_error l j = Some p -> nth_error (filter_defs l) j = pdef p /\ pdef p <> None.
Proof.
  induction l as [|q l IH]; simpl; intro H.
  - split; [reflexivity|]. intros j p Hj. destruct j; discriminate.
  - apply andb_true_iff in H as [H1 H2]. destruct (IH H2) as [A B]. unfold filter_defs in *. simpl.
    destruct (pdef q) as [d|] eqn:Ed; [|discriminate]. simpl. split; [congruence|].
    intros [|j] p Hj; simpl in *.
    + inversion Hj; subst. rewrite Ed. split; [reflexivity | discriminate].
    + apply B. exact Hj.
Qed.

(* defaults[i - required_positional] is the default of the i-th positional parameter, and the
   parameters below required_positional have none - because `def` only accepts defaults as a suffix *)
Lemma dsuffix_spec l : dsuffix l = true -> forall j p, nth_error l j = Some p ->
  let r := (Z.of_nat (length l) - Z.of_nat (length (filter_defs l)))%Z in
  if (Z.of_nat j <? r)%Z then pdef p = None
  else znth (filter_defs l) (Z.of_nat j - r)%Z = pdef p /\ pdef p <> None.
Proof.
  induction l as [|q l IH]; intros H j p Hj; [destruct j; discriminate|]. cbv zeta. simpl in H.
  destruct (pdef q) as [d|] eqn:Ed.
  - destruct (alldef_spec l H) as [A B].
    assert (filter_defs (q :: l) = d :: filter_defs l) as E by (unfold filter_defs; simpl; rewrite Ed; reflexivity).
    rewrite E. simpl length. rewrite A.
    replace (Z.of_nat (S (length l)) - Z.of_nat (S (length l)))%Z with 0%Z by lia.
    destruct (Z.ltb_spec (Z.of_nat j) 0); [lia|]. unfold znth.
    destruct (Z.ltb_spec (Z.of_nat j - 0) 0); [lia|].
    replace (Z.to_nat (Z.of_nat j - 0)) with j by lia.
    destruct j as [|j]; simpl in *.
    + inversion Hj; subst. rewrite Ed. split; [reflexivity | discriminate].
    + apply B. exact Hj.
  - assert (filter_defs (q :: l) = filter_defs l) as E by (unfold filter_defs; simpl; rewrite Ed; reflexivity).
    rewrite E. pose proof (filter_defs_len l) as L. simpl length.
    destruct j as [|j]; simpl in Hj.
    + inversion Hj; subst. destruct (Z.ltb_spec (Z.of_nat 0) (Z.of_nat (S (length l)) - Z.of_nat (length (filter_defs l)))); [exact Ed | lia].
    + specialize (IH H j p Hj). cbv zeta in IH.
      replace (Z.of_nat (S j) <? Z.of_nat (S (length l)) - Z.of_nat (length (filter_defs l)))%Z
        with (Z.of_nat j <? Z.of_nat (length l) - Z.of_nat (length (filter_defs l)))%Z.
      2:{ destruct (Z.ltb_spec (Z.of_nat j) (Z.of_nat (length l) - Z.of_nat (length (filter_defs l))));
          destruct (Z.ltb_spec (Z.of_nat (S j)) (Z.of_nat (S (length l)) - Z.of_nat (length (filter_defs l)))); lia. }
      replace (Z.of_nat (S j) - (Z.of_nat (S (length l)) - Z.of_nat (length (filter_defs l))))%Z
        with (Z.of_nat j - (Z.of_nat (length l) - Z.of_nat (length (filter_defs l))))%Z by lia.
      exact IH.
Qed.

Definition kwdefs (ko : list param) : list (str * N) :=
  flat_map (fun p => match pdef p with Some d => [(pname p, d)] | None => [] end) ko.

Lemma kwdefs_keys ko x : In x (map fst (kwdefs ko)) -> In x (map pname ko).
Proof.
  induction ko as [|q ko IH]; simpl; [auto|]. unfold kwdefs in *. simpl. rewrite map_app, in_app_iff.
  intros [H|H]; [|right; apply IH; exact H]. destruct (pdef q); simpl in H; [|contradiction].
  destruct H as [H|[]]. left. exact H.
Qed.

Lemma kwdefs_lookup ko : NoDup (map pname ko) -> forall p, In p ko -> klookup (pname p) (kwdefs ko) = pdef p.
Proof.
  induction ko as [|q ko IH]; intros ND p Hin; [contradiction|]. inversion ND as [|? ? Hnot ND']; subst.
  unfold kwdefs in *. simpl. rewrite klookup_app. destruct Hin as [->|Hin].
  - destruct (pdef p) as [d|] eqn:Ed; simpl.
    + rewrite str_eqb_refl. reflexivity.
    + apply klookup_none. intro H. apply Hnot. apply kwdefs_keys. exact H.
  - assert (pname p <> pname q) as Hne.
    { intro E. apply Hnot. rewrite <- E. apply in_map. exact Hin. }
    apply str_eqb_false in Hne.
    destruct (pdef q); simpl; [rewrite Hne|]; apply IH; auto.
Qed.

Lemma code_actions_In ci n : forall names i0 nm a,
  In (nm, a) (code_actions_from ci n i0 names) ->
  exists j, nth_error names j = Some nm /\ a = code_action ci n (i0 + j) nm.
Proof.
  induction names as [|x names IH]; intros i0 nm a H; simpl in H; [contradiction|]. destruct H as [H|H].
  - inversion H; subst. exists 0. rewrite Nat.add_0_r. auto.
  - destruct (IH _ _ _ H) as [j [A B]]. exists (S j). split; [exact A|]. rewrite B. f_equal. lia.
Qed.

Section CodeView.
  Variable special : str -> bool.
  Variable F : sig.
  Hypothesis WF : wfb special F = true.

  Let P := pos_params F.
  Let ci := code_of F.

  Lemma wf_dsuffix : dsuffix P = true.
  Proof.
    unfold wfb in WF. apply andb_true_iff in WF as [H _]. apply andb_true_iff in H as [_ H]. exact H.
  Qed.

  Lemma code_names_eq : code_names ci = NP F ++ map pname (s_ko F).
  Proof.
    unfold code_names, ci, code_of. cbn [co_varnames co_argcount co_kwonly]. rewrite app_assoc.
    replace (length (pos_params F) + length (s_ko F)) with (length (map pname (pos_params F) ++ map pname (s_ko F)))
      by (rewrite app_length, !map_length; reflexivity).
    rewrite firstn_app_exact, skipn_app_le.
    - unfold NP. rewrite skipn_map'. reflexivity.
    - rewrite map_length. apply (wf_len special F WF).
  Qed.

  Lemma code_pc_eq : code_pc ci = length (NP F).
  Proof. unfold code_pc, ci, code_of. cbn [co_argcount]. rewrite NP_len. reflexivity. Qed.

  Lemma code_names_nth j nm : nth_error (NP F ++ map pname (s_ko F)) j = Some nm ->
    (j < length (NP F) /\ exists p, nth_error P (2 + j) = Some p /\ pname p = nm) \/
    (length (NP F) <= j /\ exists p, nth_error (s_ko F) (j - length (NP F)) = Some p /\ pname p = nm).
  Proof.
    intro H. destruct (le_lt_dec (length (NP F)) j) as [L|L].
    - right. split; [exact L|]. rewrite nth_error_app2 in H by exact L. rewrite nth_error_map in H.
      destruct (nth_error (s_ko F) (j - length (NP F))) as [p|]; [|discriminate]. inversion H. eauto.
    - left. split; [exact L|]. rewrite nth_error_app1 in H by exact L. apply NP_nth in H. exact H.
  Qed.

  (* what code_action does for a positional parameter, in terms of the signature *)
  Lemma code_action_pos n j p : j < length (NP F) -> nth_error P (2 + j) = Some p ->
    code_action ci n j (pname p) =
      match pdef p with
      | None => ARequired
      | Some d => if (length (s_po F) - 2 <=? j) && (n <=? j) then ADefault d else ASkip
      end.
  Proof.
    intros Hj Hp. unfold code_action. rewrite code_pc_eq. apply Nat.ltb_lt in Hj as Hj'. rewrite Hj'.
    pose proof (dsuffix_spec P wf_dsuffix (2 + j) p Hp) as S. cbv zeta in S.
    unfold code_required. rewrite code_pc_eq, NP_len. fold P.
    unfold ci, code_of. cbn [fn_defaults co_posonly code_poc]. fold P.
    pose proof (wf_len special F WF) as L2. fold P in L2.
    replace (Z.of_nat j <? Z.of_nat (length P - 2) - Z.of_nat (length (filter_defs P)))%Z
      with (Z.of_nat (2 + j) <? Z.of_nat (length P) - Z.of_nat (length (filter_defs P)))%Z.
    2:{ destruct (Z.ltb_spec (Z.of_nat (2 + j)) (Z.of_nat (length P) - Z.of_nat (length (filter_defs P))));
        destruct (Z.ltb_spec (Z.of_nat j) (Z.of_nat (length P - 2) - Z.of_nat (length (filter_defs P)))); lia. }
    destruct (Z.of_nat (2 + j) <? Z.of_nat (length P) - Z.of_nat (length (filter_defs P)))%Z.
    - rewrite S. reflexivity.
    - destruct S as [S1 S2].
      replace (Z.of_nat j - (Z.of_nat (length P - 2) - Z.of_nat (length (filter_defs P))))%Z
        with (Z.of_nat (2 + j) - (Z.of_nat (length P) - Z.of_nat (length (filter_defs P))))%Z by lia.
      rewrite S1. unfold code_poc. cbn [co_posonly]. destruct (pdef p); [|congruence].
      destruct ((length (s_po F) - 2 <=? j) && (n <=? j)); reflexivity.
  Qed.

  Lemma code_action_ko n j p : length (NP F) <= j -> nth_error (s_ko F) (j - length (NP F)) = Some p ->
    code_action ci n j (pname p) = match pdef p with Some d => ADefault d | None => ARequired end.
  Proof.
    intros Hj Hp. unfold code_action. rewrite code_pc_eq.
    destruct (j <? length (NP F)) eqn:E; [apply Nat.ltb_lt in E; lia|].
    assert (j < length (NP F) + co_kwonly ci) as L.
    { unfold ci, code_of. cbn [co_kwonly]. assert (j - length (NP F) < length (s_ko F)) by (apply nth_error_Some; congruence). lia. }
    apply Nat.ltb_lt in L. rewrite L. unfold ci, code_of. cbn [fn_kwdefaults]. fold (kwdefs (s_ko F)).
    rewrite (kwdefs_lookup _ (nd_ko special F WF) p (nth_error_In _ _ Hp)). reflexivity.
  Qed.

  Theorem code_view_ok :
    view_ok F (code_view ci) (fun nargs _ => code_actions_from ci nargs 0 (code_names ci)).
  Proof.
    constructor; cbn [code_view w_pc w_names w_va w_vk w_valid w_ponames].
    - apply code_pc_eq.
    - rewrite code_pc_eq, code_names_eq. apply firstn_app_exact.
    - reflexivity.
    - reflexivity.
    - intros k H. unfold code_valid in H. apply orb_false_iff in H as [H1 H2].
      rewrite code_pc_eq, code_names_eq in H1.
      assert (length (NP F) + co_kwonly ci = length (NP F ++ map pname (s_ko F))) as E
        by (unfold ci, code_of; cbn [co_kwonly]; rewrite app_length, map_length; reflexivity).
      rewrite E, firstn_all in H1. rewrite code_names_eq, H1 in H2. simpl in H2. rewrite andb_true_r in H2.
      split; [exact H2 | apply smem_false; exact H1].
    - rewrite code_names_eq. unfold code_poc, ci, code_of. cbn [co_posonly].
      rewrite firstn_app_le.
      + unfold NP. rewrite firstn_map'. apply (po_names_skip F).
      + rewrite NP_len. unfold pos_params. rewrite app_length. lia.
    - intros n nm H. rewrite code_names_eq in H. destruct (code_actions_In _ _ _ _ _ _ H) as [j [A B]]. simpl in B.
      destruct (code_names_nth _ _ A) as [[L [p [Hp <-]]]|[L [p [Hp <-]]]].
      + rewrite (code_action_pos n j p L Hp) in B. destruct (pdef p); [|discriminate].
        destruct (_ && _); discriminate.
      + rewrite (code_action_ko n j p L Hp) in B. destruct (pdef p); discriminate.
    - intros n nm H. rewrite code_names_eq in H. destruct (code_actions_In _ _ _ _ _ _ H) as [j [A B]]. simpl in B.
      destruct (code_names_nth _ _ A) as [[L [p [Hp <-]]]|[L [p [Hp <-]]]].
      + left. exists j, p. rewrite nth_error_skipn'. split; [exact Hp|]. split; [reflexivity|].
        rewrite (code_action_pos n j p L Hp) in B. destruct (pdef p); [|reflexivity].
        destruct (_ && _); discriminate.
      + right. exists p. split; [eapply nth_error_In; eauto|]. split; [reflexivity|].
        rewrite (code_action_ko n j p L Hp) in B. destruct (pdef p); [discriminate | reflexivity].
    - intros n nm d H. rewrite code_names_eq in H. destruct (code_actions_In _ _ _ _ _ _ H) as [j [A B]]. simpl in B.
      destruct (code_names_nth _ _ A) as [[L [p [Hp <-]]]|[L [p [Hp <-]]]].
      + left. exists j, p. rewrite nth_error_skipn'. split; [exact Hp|]. split; [reflexivity|].
        rewrite (code_action_pos n j p L Hp) in B. destruct (pdef p) as [d'|]; [|discriminate].
        destruct (length (s_po F) - 2 <=? j) eqn:E1; simpl in B; [|discriminate].
        destruct (n <=? j); [|discriminate]. inversion B; subst. apply Nat.leb_le in E1. split; [reflexivity | lia].
      + right. exists p. split; [eapply nth_error_In; eauto|]. split; [reflexivity|].
        rewrite (code_action_ko n j p L Hp) in B. destruct (pdef p); [|discriminate]. inversion B. reflexivity.
  Qed.
End CodeView.

(* ================================================================================================ *)
(* the statements used by Props/C11.v *)
(* ================================================================================================ *)
Lemma impl_bind_generic special use_code sv cv F es :
  impl_bind_entries special use_code sv cv F es =
  if use_code
  then impl_generic special (code_view (code_of F))
                    (fun nargs _ => code_actions_from (code_of F) nargs 0 (code_names (code_of F))) sv cv F es
  else impl_generic special (sig_view (sparams_of F)) (sig_actions (sparams_of F)) sv cv F es.
Proof. destruct use_code; reflexivity. Qed.

(* ---- entries level: whatever entries resolve_params hands to wrapper_render ---- *)
Lemma bind_equiv_entries : forall special use_code sv cv F es,
  wfb special F = true ->
  res_equiv (impl_bind_entries special use_code sv cv F es) (py_bind_entries sv cv F es).
Proof.
  intros special use_code sv cv F es WF. rewrite impl_bind_generic.
  destruct use_code.
  - apply (generic_equiv special F _ _ (code_view_ok special F WF) WF sv cv).
  - apply (generic_equiv special F _ _ (sig_view_ok special F WF) WF sv cv).
Qed.

Lemma error_class_entries : forall special use_code sv cv F es e,
  wfb special F = true ->
  impl_bind_entries special use_code sv cv F es = Err e ->
  (e = TypeError \/ e = SyntaxError) /\ (e = SyntaxError -> pos_after_kw es false = true).
Proof.
  intros special use_code sv cv F es e WF H. rewrite impl_bind_generic in H.
  assert (arg_error e = true /\ (e = SyntaxError -> pos_after_kw es false = true)) as [A B].
  { destruct use_code.
    - apply (generic_error_class special F _ _ (code_view_ok special F WF) WF sv cv _ e H).
    - apply (generic_error_class special F _ _ (sig_view_ok special F WF) WF sv cv _ e H). }
  split; [|exact B]. destruct e; simpl in A; auto; discriminate.
Qed.

(* ---- keys of spread mappings ---- *)
Lemma py_bind_all_str sv cv F call :
  keys_all_str call = true -> py_bind sv cv F call = py_bind_entries sv cv F (resolve call).
Proof.
  intro H. unfold py_bind, py_bind_entries. rewrite H. destruct (pos_after_kw (resolve call) false); reflexivity.
Qed.

Lemma py_bind_not_str sv cv F call :
  keys_all_str call = false -> exists e, py_bind sv cv F call = Err e /\ arg_error e = true.
Proof.
  intro H. unfold py_bind. rewrite H. destruct (pos_after_kw (resolve call) false); eauto.
Qed.

(* ---- call level ---- *)
Lemma bind_equiv_lemma : forall special use_code sv cv F call,
  wfb special F = true ->
  res_equiv (impl_bind special use_code sv cv F call) (py_bind sv cv F call).
Proof.
  intros special use_code sv cv F call WF. unfold impl_bind, resolve_params. destruct (keys_all_str call) eqn:R.
  - rewrite (py_bind_all_str sv cv F call R). apply bind_equiv_entries. exact WF.
  - destruct (py_bind_not_str sv cv F call R) as [e [-> He]]. simpl. auto.
Qed.

Lemma fast_fallback_lemma : forall special sv cv F call,
  wfb special F = true ->
  res_equiv (impl_bind special true sv cv F call) (impl_bind special false sv cv F call).
Proof.
  intros special sv cv F call WF. eapply res_equiv_trans.
  - apply bind_equiv_lemma; eauto.
  - apply res_equiv_sym. apply bind_equiv_lemma; eauto.
Qed.

Lemma error_class_lemma : forall special use_code sv cv F call e,
  wfb special F = true ->
  impl_bind special use_code sv cv F call = Err e ->
  (e = TypeError \/ e = SyntaxError) /\ (e = SyntaxError -> pos_after_kw (resolve call) false = true).
Proof.
  intros special use_code sv cv F call e WF H. unfold impl_bind, resolve_params in H.
  destruct (keys_all_str call).
  - apply (error_class_entries special use_code sv cv F _ e WF H).
  - inversion H. split; [auto | discriminate].
Qed.

(* the tag accepts exactly the calls Python accepts *)
Lemma accepts_iff_lemma : forall special use_code sv cv F call,
  wfb special F = true ->
  ((exists b, impl_bind special use_code sv cv F call = Ok b) <-> (exists b, py_bind sv cv F call = Ok b)).
Proof.
  intros special use_code sv cv F call WF. pose proof (bind_equiv_lemma special use_code sv cv F call WF) as E.
  destruct (impl_bind special use_code sv cv F call) as [b1|e1], (py_bind sv cv F call) as [b2|e2];
    simpl in E; try contradiction.
  - split; eauto.
  - split; intros [b H]; discriminate.
Qed.

(* whenever wrapper_render gets as far as  orig_render(self, context, *args, **kwargs),  that call binds what the
   equivalent Python call binds - or Python's own binding refuses it with TypeError and so does the equivalent call *)
Lemma never_other_bindings_lemma : forall special use_code sv cv F call es reg inv args kwargs,
  wfb special F = true ->
  resolve_params call = Ok es ->
  wsplit special es false [] = Ok (reg, inv) ->
  validate_params use_code F reg inv = Ok (args, kwargs) ->
  res_equiv (py_call F (sv :: cv :: args) kwargs) (py_bind sv cv F call).
Proof.
  intros special use_code sv cv F call es reg inv args kwargs WF Hr Hs Hv.
  pose proof (bind_equiv_lemma special use_code sv cv F call WF) as E.
  unfold impl_bind, impl_bind_entries in E. rewrite Hr, Hs, Hv in E. exact E.
Qed.

Lemma nodup_lookup (l : list (str * N)) k v : has_dup_keys l = false -> In (k, v) l -> klookup k l = Some v.
Proof.
  induction l as [|[k' v'] l IH]; simpl; intros H Hin; [contradiction|]. apply orb_false_iff in H as [H1 H2].
  destruct Hin as [E|Hin].
  - inversion E; subst. rewrite str_eqb_refl. reflexivity.
  - destruct (str_eqb k k') eqn:E; [|auto]. apply str_eqb_true in E. subst.
    exfalso. apply kmem_false in H1. apply H1. apply in_map_iff. exists (k', v). auto.
Qed.

Lemma entries_kw_In es k v : In (Some k, v) es -> In (k, v) (entries_kw es).
Proof.
  induction es as [|[[k'|] v'] es IH]; simpl; intro H; [contradiction | |].
  - destruct H as [E|H]; [inversion E; left; reflexivity | right; auto].
  - destruct H as [E|H]; [discriminate | auto].
Qed.

(* a key that is not an identifier reaches render() only inside **kwargs *)
Lemma special_only_varkw_entries : forall special use_code sv cv F es k v b,
  wfb special F = true ->
  In (Some k, v) es -> special k = true ->
  impl_bind_entries special use_code sv cv F es = Ok b ->
  s_vk F <> None /\ ~ In k (all_names F) /\ exists d, b_kw b = Some d /\ klookup k d = Some v.
Proof.
  intros special use_code sv cv F es k v b WF Hin Hsp H.
  pose proof (bind_equiv_entries special use_code sv cv F es WF) as E. rewrite H in E.
  unfold py_bind_entries in E.
  destruct (pos_after_kw es false); [contradiction|].
  destruct (has_dup_keys (entries_kw es)) eqn:Dk; [contradiction|].
  assert (klookup k (entries_kw es) = Some v) as Hl by (apply nodup_lookup; [exact Dk | apply entries_kw_In; exact Hin]).
  assert (~ In k (all_names F)) as Hnot.
  { intro Hn. rewrite (wf_nsp special F WF k Hn) in Hsp. discriminate. }
  assert (klookup k (kw_extra F (entries_kw es)) = Some v) as Hx.
  { rewrite kw_extra_lookup.
    assert (smem k (map pname (s_pk F ++ s_ko F)) = false) as ->; [|exact Hl].
    apply smem_false. intro Hn. apply Hnot. unfold all_names. rewrite map_app, in_app_iff in Hn. destruct Hn as [Hn|Hn].
    - apply in_or_app. left. unfold pos_params. rewrite map_app. apply in_or_app. right. exact Hn.
    - apply in_or_app. right. apply in_or_app. right. apply in_or_app. left. exact Hn. }
  unfold py_call in E.
  destruct ((length (pos_params F) <? length (sv :: cv :: entries_pos es)) && negb (is_some (s_va F))); [contradiction|].
  assert (nonempty (kw_extra F (entries_kw es)) = true) as Hne.
  { apply nonempty_kmem. exists k. unfold kmem. rewrite Hx. reflexivity. }
  rewrite Hne in E. destruct (s_vk F) as [vkn|] eqn:Evk; simpl in E; [|contradiction].
  destruct (bind_pos _ _ _ _); [|contradiction]. destruct (bind_ko _ _); [|contradiction].
  destruct E as [_ [_ E3]]. simpl in E3. split; [discriminate|]. split; [exact Hnot|].
  destruct (b_kw b) as [d|]; [|contradiction]. exists d. split; [reflexivity|]. rewrite (E3 k). exact Hx.
Qed.

Lemma special_only_varkw_lemma : forall special use_code sv cv F call k v b,
  wfb special F = true ->
  In (Some k, v) (resolve call) -> special k = true ->
  impl_bind special use_code sv cv F call = Ok b ->
  s_vk F <> None /\ ~ In k (all_names F) /\ exists d, b_kw b = Some d /\ klookup k d = Some v.
Proof.
  intros special use_code sv cv F call k v b WF Hin Hsp H. unfold impl_bind, resolve_params in H.
  destruct (keys_all_str call); [|discriminate].
  exact (special_only_varkw_entries special use_code sv cv F _ k v b WF Hin Hsp H).
Qed.

(* the S-model binds every parameter exactly once, in signature order *)
Lemma bind_pos_names kws : forall ps npo args r, bind_pos npo ps args kws = Some r -> map fst r = map pname ps.
Proof.
  induction ps as [|p ps IH]; intros npo args r H; simpl in H; [inversion H; reflexivity|].
  destruct (match args with [] => _ | _ :: _ => _ end); [|discriminate].
  destruct (bind_pos (pred npo) ps (tl args) kws) eqn:E; [|discriminate]. inversion H; subst. simpl. f_equal. eauto.
Qed.

Lemma bind_ko_names kws : forall ps r, bind_ko ps kws = Some r -> map fst r = map pname ps.
Proof.
  induction ps as [|p ps IH]; intros r H; simpl in H; [inversion H; reflexivity|].
  destruct (match klookup (pname p) kws with Some _ => _ | None => _ end); [|discriminate].
  destruct (bind_ko ps kws) eqn:E; [|discriminate]. inversion H; subst. simpl. f_equal. eauto.
Qed.

Lemma py_call_total_binding F args kws b : py_call F args kws = Ok b ->
  map fst (b_vals b) = map pname (pos_params F ++ s_ko F) /\
  (forall k, In k (map fst (match b_kw b with Some d => d | None => [] end)) ->
             In k (map fst kws) /\ ~ In k (map pname (s_pk F ++ s_ko F))).
Proof.
  unfold py_call. intro H. destruct (_ && _); [discriminate|]. destruct (_ && _); [discriminate|].
  destruct (bind_pos _ _ _ _) as [a|] eqn:Ea; [|discriminate]. destruct (bind_ko _ _) as [b0|] eqn:Eb; [|discriminate].
  inversion H; subst. simpl. split.
  - rewrite !map_app, (bind_pos_names _ _ _ _ _ Ea), (bind_ko_names _ _ _ Eb). reflexivity.
  - intros k Hk. destruct (is_some (s_vk F)); [|contradiction]. apply kmem_In in Hk. unfold kmem in Hk.
    rewrite kw_extra_lookup in Hk. destruct (smem k (map pname (s_pk F ++ s_ko F))) eqn:E; [discriminate|].
    split; [apply kmem_In; exact Hk | apply smem_false; exact E].
Qed.
