(* Proofs about the flag-extraction step (model: Bind/Flags.v). *)
From DJC Require Import Lib.Base Bind.Model Bind.Proofs Bind.Flags.

(* ---------- identifiers ---------- *)
Lemma ident_chars s : is_identifier s = true ->
  exists c r, s = c :: r /\ is_alpha_ c = true /\ forallb (fun x => is_alpha_ x || is_digit x) r = true.
Proof.
  destruct s as [|c r]; simpl; [discriminate|]. intro H. apply andb_true_iff in H as [H1 H2]. eauto.
Qed.

Lemma not_alpha_46 : is_alpha_ 46%N = false. Proof. reflexivity. Qed.
Lemma not_alpha_34 : is_alpha_ 34%N = false. Proof. reflexivity. Qed.
Lemma not_word_124 : (is_alpha_ 124 || is_digit 124)%N = false. Proof. reflexivity. Qed.

Lemma ident_no_bar w f : is_identifier (w ++ 124%N :: f) = false.
Proof.
  destruct (is_identifier (w ++ 124%N :: f)) eqn:E; [|reflexivity]. exfalso.
  destruct (ident_chars _ E) as [c [r [Hs [Hc Hr]]]].
  destruct w as [|x w]; simpl in Hs; inversion Hs; subst.
  - discriminate.
  - rewrite forallb_app in Hr. apply andb_true_iff in Hr as [_ Hr]. cbn [forallb] in Hr.
    apply andb_true_iff in Hr as [Hr _]. rewrite not_word_124 in Hr. discriminate.
Qed.

(* the serialized text of an attribute is an identifier only for an un-spread bare word *)
Lemma ser_identifier a : wf_attr a = true -> is_identifier (ser a) = true ->
  a_spread a = false /\ exists w, a_form a = VBare w /\ ser a = w.
Proof.
  unfold ser, wf_attr. intros WF H. destruct (a_spread a).
  - simpl in H. discriminate.
  - split; [reflexivity|]. simpl in *. destruct (a_form a) as [w|w f|s|t]; simpl in *.
    + eauto.
    + rewrite ident_no_bar in H. discriminate.
    + discriminate.
    + rewrite H in WF. discriminate.
Qed.

Lemma smem_ident x allowed : forallb is_identifier allowed = true -> smem x allowed = true -> is_identifier x = true.
Proof.
  intros HA Hx. apply smem_In in Hx. rewrite forallb_forall in HA. auto.
Qed.

(* one step of the loop: the test of the code = "is not a flag" of the specification *)
Lemma step_agrees allowed a :
  forallb is_identifier allowed = true -> wf_attr a = true ->
  match flag_word allowed a with
  | Some w => is_some (a_key a) || negb (smem (ser a) allowed) = false /\ a_spread a = false /\ ser a = w
  | None => is_some (a_key a) || negb (smem (ser a) allowed) = true
  end.
Proof.
  intros HA WF. unfold flag_word.
  destruct (smem (ser a) allowed) eqn:Hm.
  - (* the text is a declared flag: then it is an un-spread bare word *)
    destruct (ser_identifier a WF (smem_ident _ _ HA Hm)) as [Hs [w [Hf Hw]]].
    unfold a_key, a_spread in *. rewrite Hf. destruct (a_arg a) as [v|k v|vs|kvs]; try discriminate.
    + rewrite Hw in Hm. rewrite Hm. simpl. auto.
    + simpl. reflexivity.
  - rewrite orb_true_r.
    destruct (a_arg a) as [v|k v|vs|kvs] eqn:Ea; try reflexivity.
    destruct (a_form a) as [w|w f|s|t] eqn:Ef; try reflexivity.
    assert (ser a = w) as Hw by (unfold ser, a_spread; rewrite Ea, Ef; reflexivity).
    rewrite Hw in Hm. rewrite Hm. reflexivity.
Qed.

(* M = S : flags are exactly the key-less, un-spread bare words that the tag declares; the branch
   "a reserved flag cannot be spread" is unreachable *)
Lemma extract_flags_spec allowed : forallb is_identifier allowed = true ->
  forall attrs found, forallb wf_attr attrs = true ->
  extract_flags allowed attrs found = flags_spec allowed attrs found.
Proof.
  intros HA. induction attrs as [|a r IH]; intros found WF; simpl; [reflexivity|].
  simpl in WF. apply andb_true_iff in WF as [Wa Wr].
  pose proof (step_agrees allowed a HA Wa) as S. destruct (flag_word allowed a) as [w|].
  - destruct S as [S1 [S2 S3]]. rewrite S1, S2, S3. destruct (smem w found); [reflexivity | apply IH; exact Wr].
  - rewrite S, (IH found Wr). reflexivity.
Qed.

(* what the specification keeps and what it reports *)
Lemma flags_spec_result allowed : forall attrs found rem fl,
  flags_spec allowed attrs found = Ok (rem, fl) ->
  rem = filter (fun a => negb (is_flag allowed a)) attrs /\
  (forall w, In w fl <-> In w found \/ exists a, In a attrs /\ flag_word allowed a = Some w).
Proof.
  induction attrs as [|a r IH]; intros found rem fl H; simpl in *.
  - inversion H; subst. split; [reflexivity|]. intro w. split; [auto | intros [A|[a [[] _]]]; exact A].
  - unfold is_flag. destruct (flag_word allowed a) as [w0|] eqn:Ew; simpl.
    + destruct (smem w0 found); [discriminate|]. destruct (IH _ _ _ H) as [A B]. split; [exact A|].
      intro w. rewrite B. simpl. split.
      * intros [[E0|C]|[a' [C1 C2]]].
        -- subst. right. exists a. auto.
        -- left. exact C.
        -- right. exists a'. auto.
      * intros [C|[a' [[E0|C1] C2]]].
        -- left. right. exact C.
        -- subst a'. rewrite Ew in C2. inversion C2. left. left. reflexivity.
        -- right. exists a'. auto.
    + destruct (flags_spec allowed r found) as [[rem' fl']|e] eqn:E; [|discriminate]. inversion H; subst.
      destruct (IH _ _ _ E) as [A B]. split; [rewrite A; reflexivity|].
      intro w. rewrite B. split.
      * intros [C|[a' [C1 C2]]]; [left; exact C | right; exists a'; simpl; auto].
      * intros [C|[a' [[E0|C1] C2]]].
        -- left. exact C.
        -- subst a'. rewrite Ew in C2. discriminate.
        -- right. exists a'. auto.
Qed.

Lemma flags_spec_error allowed : forall attrs found e,
  flags_spec allowed attrs found = Err e -> e = OtherError.
Proof.
  induction attrs as [|a r IH]; intros found e H; simpl in *; [discriminate|].
  destruct (flag_word allowed a) as [w0|].
  - destruct (smem w0 found); [inversion H; reflexivity | eauto].
  - destruct (flags_spec allowed r found) as [[rem' fl']|e'] eqn:E; [discriminate|]. inversion H; subst. eauto.
Qed.

(* ---------- the whole tag ---------- *)
Lemma flagged_tag_lemma : forall special use_code sv cv F allowed attrs,
  wfb special F = true -> forallb is_identifier allowed = true -> forallb wf_attr attrs = true ->
  match extract_flags allowed attrs [] with
  | Ok (rem, fl) =>
      rem = filter (fun a => negb (is_flag allowed a)) attrs /\
      (forall w, In w fl <-> exists a, In a attrs /\ flag_word allowed a = Some w) /\
      impl_tag special use_code sv cv F allowed attrs = impl_bind special use_code sv cv F (map a_arg rem) /\
      py_tag sv cv F allowed attrs = py_bind sv cv F (map a_arg rem) /\
      res_equiv (impl_tag special use_code sv cv F allowed attrs) (py_tag sv cv F allowed attrs)
  | Err e =>
      e = OtherError /\ impl_tag special use_code sv cv F allowed attrs = Err OtherError /\
      py_tag sv cv F allowed attrs = Err OtherError
  end.
Proof.
  intros special use_code sv cv F allowed attrs WF HA WA. unfold impl_tag, py_tag.
  rewrite (extract_flags_spec allowed HA attrs [] WA).
  destruct (flags_spec allowed attrs []) as [[rem fl]|e] eqn:E.
  - destruct (flags_spec_result allowed attrs [] rem fl E) as [A B]. split; [exact A|]. split.
    + intro w. rewrite B. split; [intros [[]|C]; exact C | auto].
    + repeat split. apply bind_equiv_lemma. exact WF.
  - rewrite (flags_spec_error allowed attrs [] e E). auto.
Qed.

(* a filtered or spread variable named like a flag stays an argument *)
Lemma flag_named_argument_kept allowed a : forallb is_identifier allowed = true -> wf_attr a = true ->
  (a_spread a = true \/ (exists w f, a_form a = VFiltered w f) \/ (exists s, a_form a = VQuoted s) \/ a_key a <> None) ->
  forall r found, extract_flags allowed (a :: r) found =
    match extract_flags allowed r found with Ok (rem, fl) => Ok (a :: rem, fl) | Err e => Err e end.
Proof.
  intros HA WF H r found. pose proof (step_agrees allowed a HA WF) as S. simpl.
  assert (flag_word allowed a = None) as E.
  { unfold flag_word, a_spread, a_key in *. destruct (a_arg a) as [v|k v|vs|kvs]; try reflexivity.
    destruct H as [H|[[w [f H]]|[[s H]|H]]]; try discriminate; try (rewrite H; reflexivity). exfalso. apply H. reflexivity. }
  rewrite E in S. rewrite S. reflexivity.
Qed.
