(* Proofs for property C07 (model: Conc/Model.v).

   Part A  id-keyed tables are isolated (Lipton-style non-interference): for thread programs that touch only the id-keyed
           tables with their own ids - provider-free renders, template cache disabled - the state of every thread after ANY
           schedule is the state it has after its own steps alone, and the tables agree with the solo run on the thread's keys.
           Induction over the schedule; no bound on threads, program sizes or schedule length.
   Part B  compiled provider-free pages are such programs.
   Part C  lazy class data: first access of .media is isolated for every schedule when re-resolving a path is idempotent.
   Part D  the genuine races: concrete schedules (closed by vm_compute) on which a thread's result differs from its solo
           result, or shared state is left corrupt. *)
From DJC Require Import Lib.Base Conc.Model.
Local Open Scope N_scope.

(* ================================================================================================================ *)
(* association-list facts                                                                                           *)
(* ================================================================================================================ *)
Section TabFacts.
  Context {V : Type}.

  Lemma alookup_aput (k k' : N) (v : V) l :
    alookup k (aput k' v l) = if N.eqb k k' then Some v else alookup k l.
  Proof.
    induction l as [|[a b] l IH]; simpl.
    - destruct (N.eqb k k'); reflexivity.
    - destruct (N.eqb k' a) eqn:E1; simpl.
      + apply N.eqb_eq in E1; subst a. destruct (N.eqb k k'); reflexivity.
      + destruct (N.eqb k a) eqn:E2.
        * destruct (N.eqb k k') eqn:E3; [|reflexivity].
          apply N.eqb_eq in E2, E3. subst. rewrite N.eqb_refl in E1. discriminate.
        * exact IH.
  Qed.

  Lemma alookup_aremove (k k' : N) (l : list (N * V)) :
    alookup k (aremove k' l) = if N.eqb k k' then None else alookup k l.
  Proof.
    induction l as [|[a b] l IH]; simpl.
    - destruct (N.eqb k k'); reflexivity.
    - destruct (N.eqb k' a) eqn:E1.
      + apply N.eqb_eq in E1; subst a. rewrite IH. destruct (N.eqb k k'); reflexivity.
      + simpl. destruct (N.eqb k a) eqn:E2.
        * destruct (N.eqb k k') eqn:E3; [|reflexivity].
          apply N.eqb_eq in E2, E3. subst. rewrite N.eqb_refl in E1. discriminate.
        * exact IH.
  Qed.

  Lemma amem_alookup (k : N) (l : list (N * V)) :
    amem k l = match alookup k l with Some _ => true | None => false end.
  Proof. reflexivity. Qed.
End TabFacts.

Lemma alookup_fold_aput (k : N) (kids : list N) (l : list (N * N)) :
  alookup k (fold_left (fun acc x => aput x 1 acc) kids l) = if mem k kids then Some 1 else alookup k l.
Proof.
  revert l; induction kids as [|x kids IH]; intro l; simpl; [reflexivity|].
  rewrite IH, alookup_aput. unfold mem. simpl.
  destruct (existsb (N.eqb k) kids); [rewrite orb_true_r; reflexivity|].
  rewrite orb_false_r. reflexivity.
Qed.

Lemma mem_false_of_forallb (P : N -> bool) (k : N) (l : list N) :
  forallb P l = true -> P k = false -> mem k l = false.
Proof.
  intros HA HP. unfold mem. induction l as [|x l IH]; simpl in *; [reflexivity|].
  apply andb_true_iff in HA as [Hx Hl]. rewrite (IH Hl), orb_false_r.
  destruct (N.eqb k x) eqn:E; [|reflexivity]. apply N.eqb_eq in E; subst. congruence.
Qed.

(* ================================================================================================================ *)
(* Part A: isolation of the id-keyed tables                                                                         *)
(* ================================================================================================================ *)

(* instructions of a provider-free render with the template cache disabled; P = "this id is one of mine" *)
Definition safe_instr (P : N -> bool) (i : instr) : bool :=
  match i with
  | Raise _ => true
  | RootEnd ids => forallb P ids
  | RegEmpty r [] => P r
  | CctxParent r | CctxPut r | CctxDel r | RendPut r | RendPop r | AttrPop r | UnInAll r
  | PurgeCctx r | PurgeRend r | PurgeAttr r => P r
  | AttrUpd r kids => P r && forallb P kids
  | GHas _ _ | SOff _ | NsHas | NsGet => true
  | _ => false
  end.
Definition safe_code (P : N -> bool) (c : list instr) : bool := forallb (safe_instr P) c.

(* no provider anywhere, no registered reference, template cache disabled and empty, node-subclass table initialised *)
Definition quiet (g : G) : Prop :=
  prov (ps g) = [] /\ allrefs (ps g) = [] /\ lru_disabled (cs g) = true /\ ldict (cs g) = [] /\ amem 0 (ns (ms g)) = true.

Definition agree_on (P : N -> bool) (a b : TS) : Prop :=
  forall k, P k = true ->
    alookup k (cctx a) = alookup k (cctx b) /\ alookup k (rend a) = alookup k (rend b) /\ alookup k (attrs a) = alookup k (attrs b).

Definition untouched_off (P : N -> bool) (a b : TS) : Prop :=
  forall k, P k = false ->
    alookup k (cctx a) = alookup k (cctx b) /\ alookup k (rend a) = alookup k (rend b) /\ alookup k (attrs a) = alookup k (attrs b).

Lemma safe_code_app P a b : safe_code P (a ++ b) = safe_code P a && safe_code P b.
Proof. apply forallb_app. Qed.

Lemma safe_code_parse P n : safe_code P (code_parse n) = true.
Proof. induction n; simpl; auto. Qed.

Lemma safe_code_purge P ids : forallb P ids = true -> safe_code P (code_purge ids) = true.
Proof.
  induction ids as [|r ids IH]; simpl; intro H; [reflexivity|].
  apply andb_true_iff in H as [Hr Hi]. rewrite Hr. simpl. exact (IH Hi).
Qed.

Lemma quiet_with_ts g t : quiet g -> quiet (with_ts g t).
Proof. intros H; exact H. Qed.

(* One safe instruction, executed in a quiet state: it either raises and leaves the state alone, or changes only the
   id-keyed tables, only at keys the thread owns, and pushes safe instructions. *)
Lemma exec_safe_shape P i g :
  quiet g -> safe_instr P i = true ->
  (exists e, exec i g = RRaise e g) \/
  (exists t' push o, exec i g = RNext (with_ts g t') push o /\ safe_code P push = true /\ untouched_off P (ts g) t').
Proof.
  intros (Hprov & Hall & Hoff & Hdict & Hns) Hs.
  assert (Hsame : untouched_off P (ts g) (ts g)) by (intros k _; auto).
  assert (Hid : with_ts g (ts g) = g) by (destruct g; reflexivity).
  destruct i; simpl in Hs; try discriminate.
  - (* Raise *) left. eexists. reflexivity.
  - (* RootEnd *) right. exists (ts g), (code_purge ids), []. simpl. rewrite Hid.
    split; [reflexivity|]. split; [apply safe_code_purge; exact Hs|exact Hsame].
  - (* RegEmpty *) destruct vis; [|discriminate]. right. exists (ts g), [], []. simpl. rewrite Hprov, Hid. auto.
  - (* UnInAll *) right. exists (ts g), [], []. simpl. rewrite Hall, Hid. simpl. auto.
  - (* CctxParent *) simpl. destruct (amem p (cctx (ts g))).
    + right. exists (ts g), [], []. rewrite Hid. auto.
    + left. eexists. reflexivity.
  - (* CctxPut *) right. eexists _, [], []. simpl. split; [reflexivity|]. split; [reflexivity|].
    intros k Hk. simpl. rewrite alookup_aput.
    destruct (N.eqb k r) eqn:E; [apply N.eqb_eq in E; subst; congruence|]. auto.
  - (* CctxDel *) simpl. destruct (amem r (cctx (ts g))).
    + right. eexists _, [], []. split; [reflexivity|]. split; [reflexivity|].
      intros k Hk. simpl. rewrite alookup_aremove.
      destruct (N.eqb k r) eqn:E; [apply N.eqb_eq in E; subst; congruence|]. auto.
    + left. eexists. reflexivity.
  - (* RendPut *) right. eexists _, [], []. simpl. split; [reflexivity|]. split; [reflexivity|].
    intros k Hk. simpl. rewrite alookup_aput.
    destruct (N.eqb k r) eqn:E; [apply N.eqb_eq in E; subst; congruence|]. auto.
  - (* RendPop *) simpl. destruct (amem r (rend (ts g))).
    + right. eexists _, [], []. split; [reflexivity|]. split; [reflexivity|].
      intros k Hk. simpl. rewrite alookup_aremove.
      destruct (N.eqb k r) eqn:E; [apply N.eqb_eq in E; subst; congruence|]. auto.
    + left. eexists. reflexivity.
  - (* AttrPop *) right. eexists _, [], []. simpl. split; [reflexivity|]. split; [reflexivity|].
    intros k Hk. simpl. rewrite alookup_aremove.
    destruct (N.eqb k r) eqn:E; [apply N.eqb_eq in E; subst; congruence|]. auto.
  - (* AttrUpd *) apply andb_true_iff in Hs as [Hr Hk].
    right. eexists _, [], []. simpl. split; [reflexivity|]. split; [reflexivity|].
    intros k HPk. simpl. rewrite alookup_fold_aput, (mem_false_of_forallb P k kids Hk HPk). auto.
  - (* PurgeCctx *) right. eexists _, [], []. simpl. split; [reflexivity|]. split; [reflexivity|].
    intros k Hk. simpl. rewrite alookup_aremove.
    destruct (N.eqb k r) eqn:E; [apply N.eqb_eq in E; subst; congruence|]. auto.
  - (* PurgeRend *) right. eexists _, [], []. simpl. split; [reflexivity|]. split; [reflexivity|].
    intros k Hk. simpl. rewrite alookup_aremove.
    destruct (N.eqb k r) eqn:E; [apply N.eqb_eq in E; subst; congruence|]. auto.
  - (* PurgeAttr *) right. eexists _, [], []. simpl. split; [reflexivity|]. split; [reflexivity|].
    intros k Hk. simpl. rewrite alookup_aremove.
    destruct (N.eqb k r) eqn:E; [apply N.eqb_eq in E; subst; congruence|]. auto.
  - (* GHas *) right. simpl. rewrite Hdict. simpl. eexists (ts g), _, _. rewrite Hid. split; [reflexivity|].
    split; [|exact Hsame]. rewrite safe_code_app, safe_code_parse. reflexivity.
  - (* SOff *) right. simpl. rewrite Hoff. exists (ts g), [], []. rewrite Hid. auto.
  - (* NsHas *) right. simpl. rewrite Hns. exists (ts g), [NsGet], []. rewrite Hid. auto.
  - (* NsGet *) right. simpl. rewrite Hns. exists (ts g), [], []. rewrite Hid. auto.
Qed.

(* The same instruction in two quiet states whose tables agree on the thread's keys: same outcome, same pushes, same
   observations, and the tables still agree. *)
Lemma exec_safe_agree P i g1 g2 :
  quiet g1 -> quiet g2 -> safe_instr P i = true -> agree_on P (ts g1) (ts g2) ->
  (exists e, exec i g1 = RRaise e g1 /\ exec i g2 = RRaise e g2) \/
  (exists t1 t2 push o, exec i g1 = RNext (with_ts g1 t1) push o /\ exec i g2 = RNext (with_ts g2 t2) push o
                        /\ agree_on P t1 t2).
Proof.
  intros (Hp1 & Ha1 & Ho1 & Hd1 & Hn1) (Hp2 & Ha2 & Ho2 & Hd2 & Hn2) Hs Hag.
  assert (Hid1 : with_ts g1 (ts g1) = g1) by (destruct g1; reflexivity).
  assert (Hid2 : with_ts g2 (ts g2) = g2) by (destruct g2; reflexivity).
  destruct i; simpl in Hs; try discriminate.
  - left. eexists. split; reflexivity.
  - (* RootEnd *) right. exists (ts g1), (ts g2), (code_purge ids), []. simpl. rewrite Hid1, Hid2. auto.
  - destruct vis; [|discriminate]. right. exists (ts g1), (ts g2), [], []. simpl. rewrite Hp1, Hp2, Hid1, Hid2. auto.
  - right. exists (ts g1), (ts g2), [], []. simpl. rewrite Ha1, Ha2, Hid1, Hid2. simpl. auto.
  - (* CctxParent *) simpl. unfold amem. destruct (Hag p Hs) as (E & _ & _). rewrite E.
    destruct (alookup p (cctx (ts g2))).
    + right. exists (ts g1), (ts g2), [], []. rewrite Hid1, Hid2. auto.
    + left. eexists. split; reflexivity.
  - (* CctxPut *) right. eexists _, _, [], []. simpl. split; [reflexivity|]. split; [reflexivity|].
    intros k Hk. destruct (Hag k Hk) as (E1 & E2 & E3). simpl. rewrite !alookup_aput, E1. auto.
  - (* CctxDel *) simpl. unfold amem. destruct (Hag r Hs) as (E & _ & _). rewrite E.
    destruct (alookup r (cctx (ts g2))).
    + right. eexists _, _, [], []. split; [reflexivity|]. split; [reflexivity|].
      intros k Hk. destruct (Hag k Hk) as (E1 & E2 & E3). simpl. rewrite !alookup_aremove, E1. auto.
    + left. eexists. split; reflexivity.
  - (* RendPut *) right. eexists _, _, [], []. simpl. split; [reflexivity|]. split; [reflexivity|].
    intros k Hk. destruct (Hag k Hk) as (E1 & E2 & E3). simpl. rewrite !alookup_aput, E2. auto.
  - (* RendPop *) simpl. unfold amem. destruct (Hag r Hs) as (_ & E & _). rewrite E.
    destruct (alookup r (rend (ts g2))).
    + right. eexists _, _, [], []. split; [reflexivity|]. split; [reflexivity|].
      intros k Hk. destruct (Hag k Hk) as (E1 & E2 & E3). simpl. rewrite !alookup_aremove, E2. auto.
    + left. eexists. split; reflexivity.
  - (* AttrPop *) right. eexists _, _, [], []. simpl. split; [reflexivity|]. split; [reflexivity|].
    intros k Hk. destruct (Hag k Hk) as (E1 & E2 & E3). simpl. rewrite !alookup_aremove, E3. auto.
  - (* AttrUpd *) right. eexists _, _, [], []. simpl. split; [reflexivity|]. split; [reflexivity|].
    intros k Hk. destruct (Hag k Hk) as (E1 & E2 & E3). simpl. rewrite !alookup_fold_aput, E3. auto.
  - (* PurgeCctx *) right. eexists _, _, [], []. simpl. split; [reflexivity|]. split; [reflexivity|].
    intros k Hk. destruct (Hag k Hk) as (E1 & E2 & E3). simpl. rewrite !alookup_aremove, E1. auto.
  - (* PurgeRend *) right. eexists _, _, [], []. simpl. split; [reflexivity|]. split; [reflexivity|].
    intros k Hk. destruct (Hag k Hk) as (E1 & E2 & E3). simpl. rewrite !alookup_aremove, E2. auto.
  - (* PurgeAttr *) right. eexists _, _, [], []. simpl. split; [reflexivity|]. split; [reflexivity|].
    intros k Hk. destruct (Hag k Hk) as (E1 & E2 & E3). simpl. rewrite !alookup_aremove, E3. auto.
  - (* GHas *) right. simpl. rewrite Hd1, Hd2. simpl. eexists (ts g1), (ts g2), _, _. rewrite Hid1, Hid2. auto.
  - (* SOff *) right. simpl. rewrite Ho1, Ho2. exists (ts g1), (ts g2), [], []. rewrite Hid1, Hid2. auto.
  - (* NsHas *) right. simpl. rewrite Hn1, Hn2. exists (ts g1), (ts g2), [NsGet], []. rewrite Hid1, Hid2. auto.
  - (* NsGet *) right. simpl. rewrite Hn1, Hn2. exists (ts g1), (ts g2), [], []. rewrite Hid1, Hid2. auto.
Qed.

(* unwinding safe code finds no provide body: the exception runs the roots' `finally` blocks and escapes *)
Lemma unwind_safe P e c : safe_code P c = true ->
  match unwind e c with Some c' => safe_code P c' = true | None => True end.
Proof.
  induction c as [|i c IH]; simpl; intro H; [exact I|].
  apply andb_true_iff in H as [Hi Hc]. destruct i; simpl in Hi; try discriminate; try (apply IH; exact Hc).
  (* RootEnd *)
  match goal with
  | |- context [code_purge ?l] =>
      change (safe_code P (code_purge l ++ Raise e :: c) = true);
      rewrite safe_code_app; simpl; rewrite (safe_code_purge P l Hi); exact Hc
  end.
Qed.

Definition safe_thread (P : N -> bool) (th : thread) : Prop := safe_code P (code th) = true.

Lemma raise_in_safe P e rest o l : safe_code P rest = true -> safe_thread P (raise_in e rest o l).
Proof.
  intro H. unfold raise_in, safe_thread. pose proof (unwind_safe P e rest H) as HU.
  destruct (unwind e rest); simpl; auto.
Qed.

Lemma settle_n_safe P n : forall th, safe_thread P th -> safe_thread P (settle_n n th).
Proof.
  induction n as [|n IH]; intros th H; simpl; [exact H|].
  unfold safe_thread in H. destruct (code th) as [|i rest] eqn:E; [unfold safe_thread; rewrite E; exact H|].
  destruct i; try (unfold safe_thread; rewrite E; exact H); apply IH.
  - apply raise_in_safe. simpl in H. exact H.
  - change (safe_instr P (RootEnd ids) && safe_code P rest = true) in H.
    apply andb_true_iff in H as [Hi Hrest]. simpl in Hi.
    unfold safe_thread. simpl. rewrite safe_code_app, (safe_code_purge P ids Hi), Hrest. reflexivity.
Qed.

Lemma settle_safe P th : safe_thread P th -> safe_thread P (settle th).
Proof. apply settle_n_safe. Qed.

Lemma add_cb_safe P r c : P r = true -> safe_code P c = true -> safe_code P (add_cb r c) = true.
Proof.
  intro Hr. induction c as [|i c IH]; simpl; intro H; [reflexivity|].
  apply andb_true_iff in H as [Hi Hc].
  destruct i; simpl in Hi; try discriminate; simpl;
    try (apply IH; exact Hc); try (rewrite Hi; simpl; apply IH; exact Hc).
  (* RootEnd *) rewrite forallb_app, Hi. simpl. rewrite Hr. exact Hc.
Qed.

Lemma after_instr_safe P i rest : safe_instr P i = true -> safe_code P rest = true -> safe_code P (after_instr i rest) = true.
Proof. intros Hi Hr. destruct i; simpl; auto. apply add_cb_safe; assumption. Qed.

(* one step of a safe thread in a quiet state *)
Lemma step_thread_safe P g th :
  quiet g -> safe_thread P th ->
  let '(g', th') := step_thread g th in
  quiet g' /\ safe_thread P th' /\ untouched_off P (ts g) (ts g') /\ exists t', g' = with_ts g t'.
Proof.
  intros Hq Hs. unfold step_thread. unfold safe_thread in Hs.
  destruct (code th) as [|i rest] eqn:E.
  - split; [exact Hq|]. split; [unfold safe_thread; rewrite E; reflexivity|].
    split; [intros k _; auto|]. exists (ts g). destruct g; reflexivity.
  - simpl in Hs. apply andb_true_iff in Hs as [Hi Hrest].
    destruct (exec_safe_shape P i g Hq Hi) as [[e He] | (t' & push & o & He & Hpush & Hun)]; rewrite He.
    + split; [exact Hq|]. split; [apply settle_safe; apply raise_in_safe; exact Hrest|].
      split; [intros k _; auto|]. exists (ts g). destruct g; reflexivity.
    + split; [apply quiet_with_ts; exact Hq|]. split.
      { apply settle_safe. unfold safe_thread. simpl.
        rewrite safe_code_app, Hpush, (after_instr_safe P i rest Hi Hrest). reflexivity. }
      split; [exact Hun|]. exists t'. reflexivity.
Qed.

(* the same thread stepping in two agreeing quiet states ends in the same thread state *)
Lemma step_thread_agree P g1 g2 th :
  quiet g1 -> quiet g2 -> safe_thread P th -> agree_on P (ts g1) (ts g2) ->
  snd (step_thread g1 th) = snd (step_thread g2 th) /\
  agree_on P (ts (fst (step_thread g1 th))) (ts (fst (step_thread g2 th))).
Proof.
  intros Hq1 Hq2 Hs Hag. unfold step_thread. unfold safe_thread in Hs.
  destruct (code th) as [|i rest] eqn:E; [simpl; auto|].
  simpl in Hs. apply andb_true_iff in Hs as [Hi Hrest].
  destruct (exec_safe_agree P i g1 g2 Hq1 Hq2 Hi Hag) as [(e & H1 & H2) | (t1 & t2 & push & o & H1 & H2 & Hag')];
    rewrite H1, H2; simpl; auto.
Qed.

(* ---------- configurations ---------- *)
Definition disjoint (own : nat -> N -> bool) : Prop :=
  forall t u k, t <> u -> own t k = true -> own u k = false.

Definition safe_config (own : nat -> N -> bool) (c : config) : Prop :=
  quiet (gl c) /\ forall t th, nth_error (ths c) t = Some th -> safe_thread (own t) th.

Lemma nth_error_upd_nth_same {A} (l : list A) n x y :
  nth_error l n = Some y -> nth_error (upd_nth n x l) n = Some x.
Proof. revert n; induction l; intros [|n]; simpl; intros H; try discriminate; auto. Qed.

Lemma nth_error_upd_nth_other {A} (l : list A) n m x :
  n <> m -> nth_error (upd_nth n x l) m = nth_error l m.
Proof.
  revert n m; induction l; intros [|n] [|m]; simpl; intros H; auto; try congruence.
Qed.

Lemma step_safe_config own u c :
  disjoint own -> safe_config own c ->
  safe_config own (step u c) /\
  (forall t, t <> u -> nth_error (ths (step u c)) t = nth_error (ths c) t) /\
  (forall t, t <> u -> untouched_off (fun k => negb (own t k)) (ts (gl c)) (ts (gl (step u c)))).
Proof.
  intros Hd [Hq Hth]. unfold step.
  destruct (nth_error (ths c) u) as [th|] eqn:E.
  - pose proof (step_thread_safe (own u) (gl c) th Hq (Hth u th E)) as H.
    destruct (step_thread (gl c) th) as [g' th'] eqn:Es. destruct H as (Hq' & Hs' & Hun & _).
    simpl. split; [split; [exact Hq'|]|split].
    + intros t th0 Ht. simpl in Ht. destruct (Nat.eq_dec t u) as [->|Hne].
      * rewrite (nth_error_upd_nth_same _ _ _ _ E) in Ht. inversion Ht; subst. exact Hs'.
      * rewrite nth_error_upd_nth_other in Ht by auto. eauto.
    + intros t Hne. simpl. apply nth_error_upd_nth_other. auto.
    + intros t Hne k Hk. simpl. apply Hun. apply negb_false_iff in Hk. exact (Hd t u k Hne Hk).
  - split; [split; assumption|]. split; [auto|]. intros t _ k _. auto.
Qed.

(* relation between the interleaved run (c) and the run in which only thread t moved (d) *)
Definition proj_rel (own : nat -> N -> bool) (t : nat) (c d : config) : Prop :=
  safe_config own c /\ safe_config own d /\
  nth_error (ths c) t = nth_error (ths d) t /\ agree_on (own t) (ts (gl c)) (ts (gl d)).

Lemma proj_rel_step_same own t c d :
  disjoint own -> proj_rel own t c d -> proj_rel own t (step t c) (step t d).
Proof.
  intros Hd (Hc & Hdd & Hth & Hag).
  destruct (step_safe_config own t c Hd Hc) as (Hc' & _ & _).
  destruct (step_safe_config own t d Hd Hdd) as (Hd' & _ & _).
  split; [exact Hc'|]. split; [exact Hd'|].
  unfold step. rewrite <- Hth.
  destruct (nth_error (ths c) t) as [th|] eqn:E; [|rewrite <- Hth in *; auto].
  destruct Hc as [Hqc Hsc]. destruct Hdd as [Hqd Hsd].
  destruct (step_thread_agree (own t) (gl c) (gl d) th Hqc Hqd (Hsc t th E) Hag) as [Hsame Hag'].
  destruct (step_thread (gl c) th) as [g1 th1]. destruct (step_thread (gl d) th) as [g2 th2].
  simpl in *. subst th2. split; [|exact Hag'].
  rewrite (nth_error_upd_nth_same _ _ _ _ E). symmetry in Hth.
  rewrite (nth_error_upd_nth_same _ _ _ _ Hth). reflexivity.
Qed.

Lemma proj_rel_step_other own t u c d :
  disjoint own -> u <> t -> proj_rel own t c d -> proj_rel own t (step u c) d.
Proof.
  intros Hd Hne (Hc & Hdd & Hth & Hag).
  destruct (step_safe_config own u c Hd Hc) as (Hc' & Hkeep & Hun).
  split; [exact Hc'|]. split; [exact Hdd|]. split.
  - rewrite Hkeep by auto. exact Hth.
  - intros k Hk. assert (Hk' : negb (own t k) = false) by (rewrite Hk; reflexivity).
    destruct (Hun t (fun E => Hne (eq_sym E)) k Hk') as (E1 & E2 & E3).
    destruct (Hag k Hk) as (F1 & F2 & F3). rewrite <- E1, <- E2, <- E3. auto.
Qed.

Lemma proj_rel_run own t s : forall c d,
  disjoint own -> proj_rel own t c d -> proj_rel own t (run s c) (run (filter (Nat.eqb t) s) d).
Proof.
  induction s as [|u s IH]; intros c d Hd HR; simpl; [exact HR|].
  destruct (Nat.eqb t u) eqn:E.
  - apply Nat.eqb_eq in E; subst u. simpl. apply IH; [exact Hd|]. apply proj_rel_step_same; assumption.
  - apply Nat.eqb_neq in E. apply IH; [exact Hd|]. apply proj_rel_step_other; auto.
Qed.

(* Main statement of part A. *)
Theorem isolation_lemma :
  forall (own : nat -> N -> bool) (c0 : config), disjoint own -> safe_config own c0 ->
  forall (s : list nat) (t : nat),
    let cf := run s c0 in
    let ct := run (filter (Nat.eqb t) s) c0 in
    nth_error (ths cf) t = nth_error (ths ct) t /\
    forall k, own t k = true ->
      alookup k (cctx (ts (gl cf))) = alookup k (cctx (ts (gl ct))) /\
      alookup k (rend (ts (gl cf))) = alookup k (rend (ts (gl ct))) /\
      alookup k (attrs (ts (gl cf))) = alookup k (attrs (ts (gl ct))).
Proof.
  intros own c0 Hd Hc s t.
  assert (HR : proj_rel own t c0 c0) by (repeat split; try apply Hc; intros k _; auto).
  destruct (proj_rel_run own t s c0 c0 Hd HR) as (_ & _ & Hth & Hag). split; [exact Hth|exact Hag].
Qed.

(* keys that belong to no thread are never written, and everything outside the id-keyed tables is never written *)
Lemma run_safe_config own s : forall c, disjoint own -> safe_config own c -> safe_config own (run s c).
Proof.
  induction s as [|u s IH]; intros c Hd Hc; simpl; [exact Hc|].
  apply IH; [exact Hd|]. apply (step_safe_config own u c Hd Hc).
Qed.

Lemma step_frame own u c :
  disjoint own -> safe_config own c -> exists t', gl (step u c) = with_ts (gl c) t'.
Proof.
  intros Hd [Hq Hth]. unfold step. destruct (nth_error (ths c) u) as [th|] eqn:E.
  - pose proof (step_thread_safe (own u) (gl c) th Hq (Hth u th E)) as H.
    destruct (step_thread (gl c) th) as [g' th']. destruct H as (_ & _ & _ & t' & ->). exists t'. reflexivity.
  - exists (ts (gl c)). destruct (gl c); reflexivity.
Qed.

Theorem frame_lemma :
  forall own c0, disjoint own -> safe_config own c0 -> forall s,
    ps (gl (run s c0)) = ps (gl c0) /\ cs (gl (run s c0)) = cs (gl c0) /\ ms (gl (run s c0)) = ms (gl c0).
Proof.
  intros own c0 Hd Hc s. revert c0 Hc. induction s as [|u s IH]; intros c0 Hc; simpl; [auto|].
  destruct (step_frame own u c0 Hd Hc) as [t' Ht'].
  destruct (IH (step u c0) (proj1 (step_safe_config own u c0 Hd Hc))) as (E1 & E2 & E3).
  rewrite E1, E2, E3, Ht'. auto.
Qed.

Theorem unowned_untouched_lemma :
  forall own c0, disjoint own -> safe_config own c0 -> forall s k, (forall t, own t k = false) ->
    alookup k (cctx (ts (gl (run s c0)))) = alookup k (cctx (ts (gl c0))) /\
    alookup k (rend (ts (gl (run s c0)))) = alookup k (rend (ts (gl c0))) /\
    alookup k (attrs (ts (gl (run s c0)))) = alookup k (attrs (ts (gl c0))).
Proof.
  intros own c0 Hd Hc s k Hk. revert c0 Hc. induction s as [|u s IH]; intros c0 Hc; simpl; [auto|].
  destruct (IH (step u c0) (proj1 (step_safe_config own u c0 Hd Hc))) as (E1 & E2 & E3).
  rewrite E1, E2, E3. clear IH E1 E2 E3.
  destruct Hc as [Hq Hth]. unfold step. destruct (nth_error (ths c0) u) as [th|] eqn:E; [|auto].
  pose proof (step_thread_safe (own u) (gl c0) th Hq (Hth u th E)) as H.
  destruct (step_thread (gl c0) th) as [g' th']. destruct H as (_ & _ & Hun & _). simpl.
  destruct (Hun k (Hk u)) as (F1 & F2 & F3). auto.
Qed.


(* ---------- Lipton-style mover: steps of two different safe threads commute ---------- *)
Definition same_tables (a b : TS) : Prop :=
  forall k, alookup k (cctx a) = alookup k (cctx b) /\ alookup k (rend a) = alookup k (rend b)
            /\ alookup k (attrs a) = alookup k (attrs b).

Lemma nth_error_all_eq {A} (l1 l2 : list A) : (forall n, nth_error l1 n = nth_error l2 n) -> l1 = l2.
Proof.
  revert l2; induction l1 as [|x l1 IH]; intros [|y l2] H; auto.
  - specialize (H O). discriminate.
  - specialize (H O). discriminate.
  - pose proof (H O) as H0. simpl in H0. inversion H0; subst. f_equal. apply IH. intro n. exact (H (S n)).
Qed.

Lemma untouched_by_step own v c k :
  disjoint own -> safe_config own c -> own v k = false ->
  alookup k (cctx (ts (gl (step v c)))) = alookup k (cctx (ts (gl c))) /\
  alookup k (rend (ts (gl (step v c)))) = alookup k (rend (ts (gl c))) /\
  alookup k (attrs (ts (gl (step v c)))) = alookup k (attrs (ts (gl c))).
Proof.
  intros Hd [Hq Hth] Hk. unfold step. destruct (nth_error (ths c) v) as [th|] eqn:E; [|auto].
  pose proof (step_thread_safe (own v) (gl c) th Hq (Hth v th E)) as H.
  destruct (step_thread (gl c) th) as [g' th']. destruct H as (_ & _ & Hun & _). simpl.
  destruct (Hun k Hk) as (F1 & F2 & F3). auto.
Qed.

Theorem commute_lemma :
  forall own c t u, disjoint own -> safe_config own c -> t <> u ->
    ths (step t (step u c)) = ths (step u (step t c)) /\
    same_tables (ts (gl (step t (step u c)))) (ts (gl (step u (step t c)))).
Proof.
  intros own c t u Hd Hc Hne.
  pose proof (isolation_lemma own c Hd Hc [u; t]) as H1.
  pose proof (isolation_lemma own c Hd Hc [t; u]) as H2.
  simpl in H1, H2.
  assert (Etu : Nat.eqb t u = false) by (apply Nat.eqb_neq; exact Hne).
  assert (Eut : Nat.eqb u t = false) by (apply Nat.eqb_neq; auto).
  split.
  - apply nth_error_all_eq. intro n.
    destruct (H1 n) as [A1 _]. destruct (H2 n) as [A2 _]. rewrite A1, A2. clear A1 A2.
    destruct (Nat.eqb n u) eqn:Eu; destruct (Nat.eqb n t) eqn:Et; simpl; try reflexivity.
    apply Nat.eqb_eq in Eu, Et. subst. congruence.
  - intro k. destruct (own t k) eqn:Ot; [|destruct (own u k) eqn:Ou].
    + destruct (H1 t) as [_ A1]. destruct (H2 t) as [_ A2].
      destruct (A1 k Ot) as (a1 & a2 & a3). destruct (A2 k Ot) as (b1 & b2 & b3).
      rewrite a1, a2, a3, b1, b2, b3. rewrite Nat.eqb_refl, Etu. simpl. auto.
    + destruct (H1 u) as [_ A1]. destruct (H2 u) as [_ A2].
      destruct (A1 k Ou) as (a1 & a2 & a3). destruct (A2 k Ou) as (b1 & b2 & b3).
      rewrite a1, a2, a3, b1, b2, b3. rewrite Nat.eqb_refl, Eut. simpl. auto.
    + destruct (step_safe_config own u c Hd Hc) as (Hcu & _ & _).
      destruct (step_safe_config own t c Hd Hc) as (Hct & _ & _).
      destruct (untouched_by_step own t (step u c) k Hd Hcu Ot) as (p1 & p2 & p3).
      destruct (untouched_by_step own u c k Hd Hc Ou) as (q1 & q2 & q3).
      destruct (untouched_by_step own u (step t c) k Hd Hct Ou) as (r1 & r2 & r3).
      destruct (untouched_by_step own t c k Hd Hc Ot) as (s1 & s2 & s3).
      rewrite p1, p2, p3, q1, q2, q3, r1, r2, r3, s1, s2, s3. auto.
Qed.

(* ================================================================================================================ *)
(* Part B: compiled provider-free pages are safe programs                                                           *)
(* ================================================================================================================ *)
Section ItemInd.
  Variable Q : item -> Prop.
  Hypothesis HC : forall rid tpl inj fail body, Forall Q body -> Q (IComp rid tpl inj fail body).
  Hypothesis HP : forall key pid val body, Forall Q body -> Q (IProv key pid val body).
  Fixpoint item_rect' (it : item) : Q it :=
    match it with
    | IComp rid tpl inj fail body =>
        HC rid tpl inj fail body
           ((fix go (l : list item) : Forall Q l :=
               match l with [] => Forall_nil Q | x :: r => Forall_cons x (item_rect' x) (go r) end) body)
    | IProv key pid val body =>
        HP key pid val body
           ((fix go (l : list item) : Forall Q l :=
               match l with [] => Forall_nil Q | x :: r => Forall_cons x (item_rect' x) (go r) end) body)
    end.
End ItemInd.

(* no {% provide %} anywhere; every render id satisfies P.  (inject without a provider, failing get_context_data and
   inline templates are all allowed.) *)
Fixpoint provfree (P : N -> bool) (it : item) : bool :=
  match it with
  | IComp rid _ _ _ body =>
      P rid && (fix go (l : list item) : bool := match l with [] => true | x :: r => provfree P x && go r end) body
  | IProv _ _ _ _ => false
  end.
Definition provfree_list (P : N -> bool) (l : list item) : bool :=
  (fix go (l : list item) : bool := match l with [] => true | x :: r => provfree P x && go r end) l.

Definition parent_ok (P : N -> bool) (parent : option N) : Prop :=
  match parent with Some q => P q = true | None => True end.

Lemma direct_ids_provfree P l : provfree_list P l = true -> forallb P (direct_ids l) = true.
Proof.
  induction l as [|x l IH]; simpl; intro H; [reflexivity|].
  apply andb_true_iff in H as [Hx Hl]. fold (direct_ids l). rewrite forallb_app, (IH Hl), andb_true_r.
  destruct x; simpl in *; [|discriminate]. apply andb_true_iff in Hx as [Hr _]. rewrite Hr. reflexivity.
Qed.

Lemma prep_safe P parent rid tpl inj fail n :
  parent_ok P parent -> P rid = true -> safe_code P (prep parent [] rid tpl inj fail n) = true.
Proof.
  intros Hp Hr. unfold prep. rewrite !safe_code_app. simpl. rewrite Hr. simpl.
  assert (A : safe_code P (match parent with Some q => [CctxParent q] | None => [] end) = true).
  { destruct parent; simpl; [simpl in Hp; rewrite Hp|]; reflexivity. }
  rewrite A. destruct inj, fail, tpl; reflexivity.
Qed.

Local Arguments prep : simpl never.

Lemma gen_safe P it : forall parent, parent_ok P parent -> provfree P it = true ->
  safe_code P (fst (gen parent [] it)) = true /\ safe_code P (snd (gen parent [] it)) = true.
Proof.
  induction it as [rid tpl inj fail body IH | key pid val body IH] using item_rect'; intros parent Hpar Hpf;
    [|discriminate].
  simpl in Hpf. apply andb_true_iff in Hpf as [Hr Hbody]. fold (provfree_list P body) in Hbody.
  simpl.
  (* the children, with this component as parent *)
  set (gs := (fix gens (l : list item) : list instr * list instr :=
                match l with
                | [] => ([], [])
                | x :: r => let '(a, b) := gen (Some rid) [] x in let '(a', b') := gens r in (a ++ a', b ++ b')
                end)).
  assert (Hgs : safe_code P (fst (gs body)) = true /\ safe_code P (snd (gs body)) = true).
  { clear Hpar. induction body as [|x body IHb]; simpl; [auto|].
    inversion IH as [|? ? Hx Hrest]; subst. simpl in Hbody. apply andb_true_iff in Hbody as [Hpx Hpb].
    destruct (Hx (Some rid) Hr Hpx) as [A1 A2]. destruct (IHb Hrest Hpb) as [B1 B2].
    destruct (gen (Some rid) [] x) as [a b]. destruct (gs body) as [a' b']. simpl in *.
    rewrite !safe_code_app, A1, A2, B1, B2. auto. }
  destruct (gs body) as [imm dfr]. simpl in Hgs. destruct Hgs as [Hi Hdf].
  assert (Hproc : safe_code P ([RendPop rid; AttrPop rid] ++ imm ++ [AttrUpd rid (direct_ids body)] ++ dfr ++
                               [CctxDel rid; UnInAll rid]) = true).
  { rewrite !safe_code_app, Hi, Hdf. simpl. rewrite Hr, (direct_ids_provfree P body Hbody). reflexivity. }
  pose proof (prep_safe P parent rid tpl inj fail (length (direct_ids body)) Hpar Hr) as Hprep.
  destruct parent; [simpl; auto|].
  change (safe_code P (prep None [] rid tpl inj fail (length (direct_ids body)) ++
                       ([RendPop rid; AttrPop rid] ++ imm ++ [AttrUpd rid (direct_ids body)] ++ dfr ++
                        [CctxDel rid; UnInAll rid]) ++ [RootEnd []]) = true /\ safe_code P [] = true).
  rewrite safe_code_app, Hprep. rewrite safe_code_app, Hproc. auto.
Qed.

Lemma gens_safe P l : provfree_list P l = true -> safe_code P (fst (gens None [] l)) = true.
Proof.
  induction l as [|x l IH]; simpl; intro H; [reflexivity|].
  apply andb_true_iff in H as [Hx Hl]. destruct (gen_safe P x None I Hx) as [A _].
  destruct (gen None [] x) as [a b]. destruct (gens None [] l) as [a' b']. simpl in *.
  rewrite safe_code_app, A, (IH Hl). reflexivity.
Qed.

Theorem page_code_safe_lemma : forall P page, provfree_list P page = true -> safe_code P (page_code page) = true.
Proof. intros P page H. exact (gens_safe P page H). Qed.

(* the initial configuration of provider-free pages over an empty state with the template cache disabled *)
Theorem provfree_config_safe_lemma :
  forall (own : nat -> N -> bool) (pages : list (list item)) (cap : Z) rnk depths,
    (cap <= 0)%Z ->
    (forall t page, nth_error pages t = Some page -> provfree_list (own t) page = true) ->
    safe_config own (init_config (empty_G (Some cap) rnk depths true) (map TRender pages)).
Proof.
  intros own pages cap rnk depths Hcap Hpages. split.
  - unfold quiet. simpl. repeat split; try reflexivity. apply Z.leb_le. exact Hcap.
  - intros t th Hth. unfold init_config in Hth. simpl in Hth. rewrite !nth_error_map in Hth.
    destruct (nth_error pages t) as [page|] eqn:E; [|discriminate]. simpl in Hth. inversion Hth; subst. clear Hth.
    apply settle_safe. unfold safe_thread. simpl. apply page_code_safe_lemma. exact (Hpages t page E).
Qed.

(* ================================================================================================================ *)
(* Part D: the genuine races - witnesses                                                                            *)
(* ================================================================================================================ *)
(* what thread t returned in configuration c (None: no such thread) *)
Definition thread_result (c : config) (t : nat) : option (option err * list obs) :=
  option_map result (nth_error (ths c) t).
(* ... when it runs alone from c0 (the other threads never move) *)
Definition solo_result (c0 : config) (t : nat) : option (option err * list obs) :=
  thread_result (solo SOLO_FUEL t c0) t.
Definition solo_finished (c0 : config) (t : nat) : bool :=
  match nth_error (ths (solo SOLO_FUEL t c0)) t with Some th => finished th | None => false end.

(* --- F1: managed_provide_cache's except branch diffs the GLOBAL all_reference_ids ---
   thread 0: {% provide p %}{% component c2 %}{% component c3 %}{% endprovide %}, both inject p   (succeeds alone)
   thread 1: {% provide p %}{% component c1002 %}{% endprovide %}, c1002 injects and then raises   (raises Boom alone)
   schedule: 1 runs up to its all_reference_ids.copy(); 0 registers c2; 1 fails and un-registers c2 too; when 0's c2
   finishes it is no longer registered, so its references are never dropped ... and c2's finish deletes the provided
   data early: c3 does not register and its inject raises KeyError. *)
Definition F1_pages : list (list item) :=
  [ [IProv 1 1 1 [IComp 2 (Some 11) (Some 1) false []; IComp 3 (Some 12) (Some 1) false []]];
    [IProv 1 1001 1 [IComp 1002 (Some 10) (Some 1) true []]] ].
Definition F1_c0 : config := init_config (empty_G (Some 0%Z) [2] [] true) (map TRender F1_pages).
Definition F1_sched : list nat := expand [(1, 2); (0, 17); (1, 15); (0, 11)]%nat.

Theorem provide_errorpath_refuted_lemma :
  all_finished (run F1_sched F1_c0) = true /\ solo_finished F1_c0 0 = true /\ solo_finished F1_c0 1 = true /\
  solo_result F1_c0 0 = Some (None, [OInj 1; OTpl 11; OInj 1; OTpl 12]) /\
  thread_result (run F1_sched F1_c0) 0 = Some (Some KeyError, [OInj 1; OTpl 11]) /\
  thread_result (run F1_sched F1_c0) 1 = solo_result F1_c0 1.
Proof. vm_compute. repeat split. Qed.

(* --- F2: unregister_provide_reference iterates a snapshot of the keys and then indexes the live dict ---
   two successful provide + inject renders; thread 1 snapshots [p1, p1001], thread 0 finishes and pops p1, thread 1 indexes
   provide_references[p1]: KeyError, and its own provided data stays behind. *)
Definition F2_pages : list (list item) :=
  [ [IProv 1 1 1 [IComp 2 (Some 10) (Some 1) false []]];
    [IProv 1 1001 1 [IComp 1002 (Some 11) (Some 1) false []]] ].
Definition F2_c0 : config := init_config (empty_G (Some 0%Z) [] [] true) (map TRender F2_pages).
Definition F2_sched : list nat := expand [(0, 19); (1, 19); (0, 12); (1, 10)]%nat.

Theorem unregister_snapshot_refuted_lemma :
  all_finished (run F2_sched F2_c0) = true /\ solo_finished F2_c0 0 = true /\ solo_finished F2_c0 1 = true /\
  solo_result F2_c0 1 = Some (None, [OInj 1; OTpl 11]) /\
  thread_result (run F2_sched F2_c0) 1 = Some (Some KeyError, [OInj 1; OTpl 11]) /\
  thread_result (run F2_sched F2_c0) 0 = solo_result F2_c0 0 /\
  residue (gl (run F2_sched F2_c0)) = [[1001]; [1001]; []; []; []; []] /\
  tables_empty (gl (solo SOLO_FUEL 0 F2_c0)) = true /\ tables_empty (gl (solo SOLO_FUEL 1 F2_c0)) = true.
Proof. vm_compute. repeat split. Qed.

(* --- F3: `if not provide_cache: return` in register_provide_reference looks at ALL threads' providers ---
   thread 0 renders one plain component: no provider anywhere in its page.  Alone it returns at the emptiness test and never
   enters the provide bookkeeping.  With thread 1's provider alive it registers itself, and when it finishes it walks
   thread 1's keys in unregister_provide_reference - where F2 strikes: KeyError for a render that uses no provider. *)
Definition F3_pages : list (list item) :=
  [ [IComp 1 (Some 11) None false []];
    [IProv 1 1001 1 [IComp 1002 (Some 10) (Some 1) false []]] ].
Definition F3_c0 : config := init_config (empty_G (Some 0%Z) [] [] true) (map TRender F3_pages).
Definition F3_sched : list nat := expand [(1, 3); (0, 13); (1, 28); (0, 5)]%nat.

Theorem register_empty_check_refuted_lemma :
  all_finished (run F3_sched F3_c0) = true /\ solo_finished F3_c0 0 = true /\ solo_finished F3_c0 1 = true /\
  solo_result F3_c0 0 = Some (None, [OTpl 11]) /\
  thread_result (run F3_sched F3_c0) 0 = Some (Some KeyError, [OTpl 11]) /\
  thread_result (run F3_sched F3_c0) 1 = solo_result F3_c0 1.
Proof. vm_compute. repeat split. Qed.

(* --- F4: LRUCache.get / set are not synchronised ---
   (a) template cache of size 1 holding template 10.  Thread 0 renders the component with template 10 (a hit), thread 1
       one with template 11 (first compile: evicts 10).  Thread 0 passes `key in self.cache`, thread 1 evicts, thread 0's
       `self.cache[key]` raises KeyError. *)
Definition F4_pages : list (list item) :=
  [ [IComp 1 (Some 10) None false []]; [IComp 1001 (Some 11) None false []] ].
Definition F4a_c0 : config := start (Some 1%Z) [10] [] [] true (map TRender F4_pages).
Definition F4a_sched : list nat := expand [(0, 1); (1, 28); (0, 1)]%nat.

Theorem lru_concurrent_get_refuted_lemma :
  all_finished (run F4a_sched F4a_c0) = true /\ solo_finished F4a_c0 0 = true /\ solo_finished F4a_c0 1 = true /\
  solo_result F4a_c0 0 = Some (None, [OTpl 10]) /\
  thread_result (run F4a_sched F4a_c0) 0 = Some (Some KeyError, []) /\
  thread_result (run F4a_sched F4a_c0) 1 = solo_result F4a_c0 1.
Proof. vm_compute. repeat split. Qed.

(* (b) size 2, both templates cached, two hits: both renders return the right thing, but the linked list has lost an
       entry the dict still holds (the next evictions take the wrong node / raise). *)
Definition F4b_c0 : config := start (Some 2%Z) [10; 11] [] [] true (map TRender F4_pages).
Definition F4b_sched : list nat := expand [(1, 3); (0, 24); (1, 21)]%nat.

Theorem lru_concurrent_corrupt_refuted_lemma :
  all_finished (run F4b_sched F4b_c0) = true /\
  thread_result (run F4b_sched F4b_c0) 0 = solo_result F4b_c0 0 /\
  thread_result (run F4b_sched F4b_c0) 1 = solo_result F4b_c0 1 /\
  lru_consistent (cs (gl F4b_c0)) = true /\
  lru_consistent (cs (gl (solo SOLO_FUEL 0 F4b_c0))) = true /\ lru_consistent (cs (gl (solo SOLO_FUEL 1 F4b_c0))) = true /\
  lru_consistent (cs (gl (run F4b_sched F4b_c0))) = false /\
  walk_fwd (cs (gl (run F4b_sched F4b_c0))) = [11] /\ sortN (map fst (ldict (cs (gl (run F4b_sched F4b_c0))))) = [10; 11].
Proof. vm_compute. repeat split. Qed.

(* --- F5: lazy media resolution runs twice when two threads find `resolved` false ---
   Harmless when resolving a resolved path changes nothing (Part C).  When the component's directory contains the same
   relative path again (depth 2), the second resolution rewrites the path once more: one thread - and every later reader of
   the class - gets dir/dir/file instead of dir/file. *)
Definition F5_c0 : config := init_config (empty_G (Some 128%Z) [] [(1, 2)] true) [TMedia 1; TMedia 1].
Definition F5_sched : list nat := expand [(1, 3); (0, 8); (1, 5)]%nat.

Theorem lazy_media_double_resolve_refuted_lemma :
  all_finished (run F5_sched F5_c0) = true /\
  solo_result F5_c0 0 = Some (None, [OMedia 1]) /\ solo_result F5_c0 1 = Some (None, [OMedia 1]) /\
  thread_result (run F5_sched F5_c0) 0 = Some (None, [OMedia 1]) /\
  thread_result (run F5_sched F5_c0) 1 = Some (None, [OMedia 2]) /\
  alookup 1 (mcache (ms (gl (run F5_sched F5_c0)))) = Some 2.
Proof. vm_compute. repeat split. Qed.

(* ---------- non-vacuity of parts A/B: two provider-free pages (one of them failing below the root), interleaved ---------- *)
Definition NV_pages : list (list item) :=
  [ [IComp 1 (Some 10) None false [IComp 2 (Some 11) None false []; IComp 3 (Some 12) None false []]];
    [IComp 1001 (Some 10) None false [IComp 1002 (Some 11) None false [];
                                      IComp 1003 (Some 12) (Some 1) false []]] ].   (* c1003 injects without a provider *)
Definition NV_own (t : nat) (k : N) : bool := N.eqb (k / 1000) (N.of_nat t).
Definition NV_c0 : config := init_config (empty_G (Some 0%Z) [] [] true) (map TRender NV_pages).
Definition NV_sched : list nat :=
  ([0; 1; 0; 0; 1; 0; 1; 1; 1; 0; 1; 1; 0; 1; 1; 1; 1; 1; 1; 1; 1; 1; 1; 1; 1; 1; 1; 1; 1; 1; 1; 1; 1; 1; 1] ++ repeat 0 60)%nat.

Lemma NV_disjoint : disjoint NV_own.
Proof.
  intros t u k Hne Ht. unfold NV_own in *. apply N.eqb_eq in Ht. apply N.eqb_neq. intro Hu.
  apply Hne. apply Nat2N.inj. congruence.
Qed.

Lemma NV_provfree : forall t page, nth_error NV_pages t = Some page -> provfree_list (NV_own t) page = true.
Proof. intros [|[|t]] page H; simpl in H; inversion H; subst; try reflexivity. destruct t; discriminate. Qed.

Example isolation_premises_satisfiable_example :
  disjoint NV_own /\ safe_config NV_own NV_c0 /\
  all_finished (run NV_sched NV_c0) = true /\
  thread_result (run NV_sched NV_c0) 0 = Some (None, [OTpl 10; OTpl 11; OTpl 12]) /\
  thread_result (run NV_sched NV_c0) 1 = Some (Some KeyError, [OTpl 10; OTpl 11]) /\
  tables_empty (gl (run NV_sched NV_c0)) = true.
Proof.
  split; [exact NV_disjoint|]. split.
  - apply (provfree_config_safe_lemma NV_own NV_pages 0 [] []); [lia|exact NV_provfree].
  - vm_compute. repeat split.
Qed.

(* ================================================================================================================ *)
(* Part C: lazy class data - first access of .media is isolated when re-resolving a resolved path changes nothing     *)
(* ================================================================================================================ *)
Definition dep (g : G) (k : N) : N := aget 0 k (mdepth (ms g)).
Definition pth (g : G) (k : N) : N := aget 0 k (mpath (ms g)).

(* invariant of the class data: paths are unresolved (0) or fully resolved; `resolved` and the media cache only ever
   describe the fully resolved path *)
Definition ginv (g : G) : Prop :=
  (forall k, dep g k <= 1) /\
  (forall k, pth g k = 0 \/ pth g k = dep g k) /\
  (forall k, mem k (mres (ms g)) = true -> pth g k = dep g k) /\
  (forall k v, alookup k (mcache (ms g)) = Some v -> v = dep g k).

(* where a thread can be inside `Comp.media` for class k, and what it knows at that point *)
Inductive tshape (g : G) (k : N) : list instr -> list obs -> Prop :=
| TS0 : tshape g k [McHas k] []
| TS1 : tshape g k [MResolvedQ1 k] []
| TS2 : tshape g k [MResolvedQ2 k; MReadJs k] []
| TS3 : tshape g k [MResolvePaths k; MSetRes k; MReadJs k] []
| TS4 : pth g k = dep g k -> tshape g k [MSetRes k; MReadJs k] []
| TS5 : pth g k = dep g k -> tshape g k [MReadJs k] []
| TS6 : tshape g k [McPut k (dep g k)] []
| TS7 : alookup k (mcache (ms g)) = Some (dep g k) -> tshape g k [McRet k] []
| TS8 : tshape g k [] [OMedia (dep g k)].

(* what other threads' steps may do to the class data *)
Definition mono (g g' : G) : Prop :=
  mdepth (ms g') = mdepth (ms g) /\
  (forall k, pth g k = dep g k -> pth g' k = dep g' k) /\
  (forall k, alookup k (mcache (ms g)) = Some (dep g k) -> alookup k (mcache (ms g')) = Some (dep g' k)).

Lemma mono_refl g : mono g g.
Proof. repeat split; auto. Qed.

Lemma dep_mono g g' k : mono g g' -> dep g' k = dep g k.
Proof. intros (E & _). unfold dep. rewrite E. reflexivity. Qed.

Lemma tshape_mono g g' k c o : mono g g' -> tshape g k c o -> tshape g' k c o.
Proof.
  intros Hm H. pose proof (dep_mono g g' k Hm) as Ed. destruct Hm as (E & Hp & Hc).
  inversion H; subst; try rewrite <- Ed; try constructor; auto.
Qed.

Lemma aget_aput {V} (d : V) k k' v l : aget d k (aput k' v l) = if N.eqb k k' then v else aget d k l.
Proof. unfold aget. rewrite alookup_aput. destruct (N.eqb k k'); reflexivity. Qed.

Lemma mem_sadd k x l : mem k (sadd x l) = N.eqb k x || mem k l.
Proof.
  unfold sadd. destruct (mem x l) eqn:E.
  - destruct (N.eqb k x) eqn:Ek; [apply N.eqb_eq in Ek; subst; rewrite E|]; reflexivity.
  - unfold mem. rewrite existsb_app. simpl. rewrite orb_false_r. apply orb_comm.
Qed.

Lemma resolve_path_fix d p : d <= 1 -> p = 0 \/ p = d -> resolve_path d p = d.
Proof.
  intros Hd [->| ->]; unfold resolve_path.
  - destruct (N.ltb 0 d) eqn:E; [apply N.ltb_lt in E; lia|apply N.ltb_ge in E; lia].
  - rewrite N.ltb_irrefl. reflexivity.
Qed.

(* one step of a thread that is inside .media *)
Lemma media_step g th k :
  ginv g -> failed th = None -> tshape g k (code th) (out th) ->
  ginv (fst (step_thread g th)) /\ mono g (fst (step_thread g th)) /\
  failed (snd (step_thread g th)) = None /\
  tshape (fst (step_thread g th)) k (code (snd (step_thread g th))) (out (snd (step_thread g th))).
Proof.
  intros (Hd & Hp & Hr & Hc) Hf Hs.
  assert (HG : ginv g) by (repeat split; assumption).
  unfold step_thread. remember (code th) as cd eqn:Ec. remember (out th) as ou eqn:Eo.
  destruct Hs as [| | | |Hk|Hk| |Hk|]; simpl.
  - (* McHas *) destruct (amem k (mcache (ms g))) eqn:E; simpl.
    + split; [exact HG|]. split; [apply mono_refl|]. split; [exact Hf|]. apply TS7.
      unfold amem in E. destruct (alookup k (mcache (ms g))) as [v|] eqn:E2; [|discriminate].
      rewrite (Hc k v E2). reflexivity.
    + split; [exact HG|]. split; [apply mono_refl|]. split; [exact Hf|]. apply TS1.
  - (* MResolvedQ1 *) destruct (mem k (mres (ms g))) eqn:E; simpl.
    + split; [exact HG|]. split; [apply mono_refl|]. split; [exact Hf|]. apply TS5. apply Hr. exact E.
    + split; [exact HG|]. split; [apply mono_refl|]. split; [exact Hf|]. apply TS2.
  - (* MResolvedQ2 *) destruct (mem k (mres (ms g))) eqn:E; simpl.
    + split; [exact HG|]. split; [apply mono_refl|]. split; [exact Hf|]. apply TS4. apply Hr. exact E.
    + split; [exact HG|]. split; [apply mono_refl|]. split; [exact Hf|]. apply TS3.
  - (* MResolvePaths *)
    set (g' := with_ms g (set_mpath (ms g) (aput k (resolve_path (aget 0 k (mdepth (ms g))) (aget 0 k (mpath (ms g)))) (mpath (ms g))))).
    assert (Efix : resolve_path (aget 0 k (mdepth (ms g))) (aget 0 k (mpath (ms g))) = dep g k)
      by (apply resolve_path_fix; [apply Hd|apply Hp]).
    assert (Epth : forall j, pth g' j = if N.eqb j k then dep g k else pth g j).
    { intro j. unfold pth, g'. simpl. rewrite aget_aput, Efix. reflexivity. }
    assert (Edep : forall j, dep g' j = dep g j) by reflexivity.
    split; [|split; [|split; [exact Hf|]]].
    + split; [exact Hd|]. split; [|split].
      * intro j. rewrite Epth, Edep. destruct (N.eqb j k) eqn:E; [apply N.eqb_eq in E; subst; auto|apply Hp].
      * intros j Hj. rewrite Epth, Edep. destruct (N.eqb j k) eqn:E; [apply N.eqb_eq in E; subst; auto|apply Hr; exact Hj].
      * exact Hc.
    + split; [reflexivity|]. split; [|auto].
      intros j Hj. rewrite Epth, Edep. destruct (N.eqb j k) eqn:E; [apply N.eqb_eq in E; subst; auto|exact Hj].
    + apply TS4. rewrite Epth, N.eqb_refl. reflexivity.
  - (* MSetRes *)
    split; [|split; [|split; [exact Hf|]]].
    + split; [exact Hd|]. split; [exact Hp|]. split; [|exact Hc].
      intros j Hj. simpl in Hj. rewrite mem_sadd in Hj. apply orb_true_iff in Hj as [E|Hj]; [|apply Hr; exact Hj].
      apply N.eqb_eq in E; subst. exact Hk.
    + repeat split; auto.
    + apply TS5. exact Hk.
  - (* MReadJs *) split; [exact HG|]. split; [apply mono_refl|]. split; [exact Hf|].
    fold (pth g k). rewrite Hk. apply TS6.
  - (* McPut *)
    split; [|split; [|split; [exact Hf|]]].
    + split; [exact Hd|]. split; [exact Hp|]. split; [exact Hr|].
      intros j v Hj. simpl in Hj. rewrite alookup_aput in Hj.
      destruct (N.eqb j k) eqn:E; [apply N.eqb_eq in E; subst; inversion Hj; reflexivity|apply Hc; exact Hj].
    + split; [reflexivity|]. split; [auto|].
      intros j Hj. simpl. rewrite alookup_aput. destruct (N.eqb j k) eqn:E; [apply N.eqb_eq in E; subst; reflexivity|exact Hj].
    + apply TS7. simpl. rewrite alookup_aput, N.eqb_refl. reflexivity.
  - (* McRet *) rewrite Hk. simpl.
    split; [exact HG|]. split; [apply mono_refl|]. split; [exact Hf|]. apply TS8.
  - (* finished *) split; [exact HG|]. split; [apply mono_refl|]. split; [exact Hf|]. rewrite <- Ec, <- Eo. apply TS8.
Qed.

Definition media_config (ks : list N) (c : config) : Prop :=
  ginv (gl c) /\ length (ths c) = length ks /\
  forall t th k, nth_error (ths c) t = Some th -> nth_error ks t = Some k ->
                 failed th = None /\ tshape (gl c) k (code th) (out th).

Lemma length_upd_nth {A} n (x : A) l : length (upd_nth n x l) = length l.
Proof. revert n; induction l; intros [|n]; simpl; auto. Qed.

Lemma media_config_step ks u c : media_config ks c -> media_config ks (step u c).
Proof.
  intros (Hg & Hlen & Hth). unfold step.
  destruct (nth_error (ths c) u) as [th|] eqn:E; [|split; [exact Hg|split; [exact Hlen|exact Hth]]].
  assert (Hk : exists k, nth_error ks u = Some k).
  { destruct (nth_error ks u) eqn:Ek; [eauto|]. apply nth_error_None in Ek.
    assert (u < length (ths c))%nat by (apply nth_error_Some; congruence). lia. }
  destruct Hk as [k Hk]. destruct (Hth u th k E Hk) as [Hf Hs].
  destruct (media_step (gl c) th k Hg Hf Hs) as (Hg' & Hm & Hf' & Hs').
  destruct (step_thread (gl c) th) as [g' th']. simpl in *.
  split; [exact Hg'|]. split; [simpl; rewrite length_upd_nth; exact Hlen|].
  intros t th0 k0 Ht Hk0. simpl in Ht. destruct (Nat.eq_dec t u) as [->|Hne].
  - rewrite (nth_error_upd_nth_same _ _ _ _ E) in Ht. inversion Ht; subst. rewrite Hk in Hk0. inversion Hk0; subst. auto.
  - rewrite nth_error_upd_nth_other in Ht by auto. destruct (Hth t th0 k0 Ht Hk0) as [A B].
    split; [exact A|]. exact (tshape_mono _ _ _ _ _ Hm B).
Qed.

Lemma media_config_run ks s : forall c, media_config ks c -> media_config ks (run s c).
Proof. induction s as [|u s IH]; intros c H; simpl; [exact H|]. apply IH. apply media_config_step. exact H. Qed.

Theorem lazy_media_isolated_lemma :
  forall cap rnk depths nsp (ks : list N),
    (forall k, aget 0 k depths <= 1) ->
    let c0 := init_config (empty_G cap rnk depths nsp) (map TMedia ks) in
    forall (s : list nat) (t : nat) (th : thread) (k : N),
      nth_error (ths (run s c0)) t = Some th -> nth_error ks t = Some k ->
      failed th = None /\
      (finished th = true -> out th = [OMedia (aget 0 k depths)]) /\
      (forall v, alookup k (mcache (ms (gl (run s c0)))) = Some v -> v = aget 0 k depths).
Proof.
  intros cap rnk depths nsp ks Hd c0 s t th k Hth Hk.
  assert (H0 : media_config ks c0).
  { split; [|split].
    - split; [exact Hd|]. split; [intro j; left; reflexivity|]. split; [intros j Hj; discriminate|intros j v Hj; discriminate].
    - unfold c0, init_config. simpl. rewrite !map_length. reflexivity.
    - intros t0 th0 k0 Ht0 Hk0. unfold c0, init_config in Ht0. simpl in Ht0. rewrite !nth_error_map, Hk0 in Ht0.
      simpl in Ht0. inversion Ht0; subst. simpl. split; [reflexivity|apply TS0]. }
  pose proof (media_config_run ks s c0 H0) as (Hg & _ & Hall).
  assert (Edep : forall j, dep (gl (run s c0)) j = aget 0 j depths).
  { intro j. unfold dep.
    assert (Hm : forall s c, mdepth (ms (gl c)) = depths -> media_config ks c -> mdepth (ms (gl (run s c))) = depths).
    { clear. induction s as [|u s IH]; intros c Hc Hmc; simpl; [exact Hc|]. apply IH; [|apply media_config_step; exact Hmc].
      destruct Hmc as (Hg & Hlen & Hth). unfold step. destruct (nth_error (ths c) u) as [th|] eqn:E; [|exact Hc].
      assert (Hk : exists k, nth_error ks u = Some k).
      { destruct (nth_error ks u) eqn:Ek; [eauto|]. apply nth_error_None in Ek.
        assert (u < length (ths c))%nat by (apply nth_error_Some; congruence). lia. }
      destruct Hk as [k Hk]. destruct (Hth u th k E Hk) as [Hf Hs].
      destruct (media_step (gl c) th k Hg Hf Hs) as (_ & (Hm & _) & _).
      destruct (step_thread (gl c) th) as [g' th']. simpl in *. congruence. }
    rewrite (Hm s c0 eq_refl H0). reflexivity. }
  destruct (Hall t th k Hth Hk) as [Hf Hs]. split; [exact Hf|]. split.
  - intro Hfin. unfold finished in Hfin. inversion Hs as [Ec Eo|Ec Eo|Ec Eo|Ec Eo|Hq Ec Eo|Hq Ec Eo|Ec Eo|Hq Ec Eo|Ec Eo];
      rewrite <- Ec in Hfin; try discriminate. rewrite Edep. reflexivity.
  - intros v Hv. destruct Hg as (_ & _ & _ & Hc). rewrite (Hc k v Hv). apply Edep.
Qed.
