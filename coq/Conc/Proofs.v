(* Proofs for property C07 (model: Conc/Model.v).

   Part A  id-keyed tables are isolated (Lipton-style non-interference): for thread programs that touch only the id-keyed
           tables with their own ids - provider-free renders, template cache disabled - the state of every thread after ANY
           schedule is the state it has after its own steps alone, and the tables agree with the solo run on the thread's keys.
           Induction over the schedule; no bound on threads, program sizes or schedule length.
   Part B  compiled provider-free pages are such programs.
   Part C  lazy class data: first access of .media is isolated for every schedule when re-resolving a path is idempotent.
   Part D  the genuine races: concrete schedules (closed by vm_compute) on which a thread's result differs from its solo
           result, or shared state is left corrupt. *)
From DJC Require Import Lib.Base Conc.Model.
Local Open Scope N_scope.

(* ================================================================================================================ *)
(* association-list facts                                                                                           *)
(* ================================================================================================================ *)
Section TabFacts.
  Context {V : Type}.

  Lemma alookup_aput (k k' : N) (v : V) l :
    alookup k (aput k' v l) = if N.eqb k k' then Some v else alookup k l.
  Proof.
    induction l as [|[a b] l IH]; simpl.
    - destruct (N.eqb k k'); reflexivity.
    - destruct (N.eqb k' a) eqn:E1; simpl.
      + apply N.eqb_eq in E1; subst a. destruct (N.eqb k k'); reflexivity.
      + destruct (N.eqb k a) eqn:E2.
        * destruct (N.eqb k k') eqn:E3; [|reflexivity].
          apply N.eqb_eq in E2, E3. subst. rewrite N.eqb_refl in E1. discriminate.
        * exact IH.
  Qed.

  Lemma alookup_aremove (k k' : N) (l : list (N * V)) :
    alookup k (aremove k' l) = if N.eqb k k' then None else alookup k l.
  Proof.
    induction l as [|[a b] l IH]; simpl.
    - destruct (N.eqb k k'); reflexivity.
    - destruct (N.eqb k' a) eqn:E1.
      + apply N.eqb_eq in E1; subst a. rewrite IH. destruct (N.eqb k k'); reflexivity.
      + simpl. destruct (N.eqb k a) eqn:E2.
        * destruct (N.eqb k k') eqn:E3; [|reflexivity].
          apply N.eqb_eq in E2, E3. subst. rewrite N.eqb_refl in E1. discriminate.
        * exact IH.
  Qed.

  Lemma amem_alookup (k : N) (l : list (N * V)) :
    amem k l = match alookup k l with Some _ => true | None => false end.
  Proof. reflexivity. Qed.
End TabFacts.

Lemma alookup_fold_aput (k : N) (kids : list N) (l : list (N * N)) :
  alookup k (fold_left (fun acc x => aput x 1 acc) kids l) = if mem k kids then Some 1 else alookup k l.
Proof.
  revert l; induction kids as [|x kids IH]; intro l; simpl; [reflexivity|].
  rewrite IH, alookup_aput. unfold mem. simpl.
  destruct (existsb (N.eqb k) kids); [rewrite orb_true_r; reflexivity|].
  rewrite orb_false_r. reflexivity.
Qed.

Lemma mem_false_of_forallb (P : N -> bool) (k : N) (l : list N) :
  forallb P l = true -> P k = false -> mem k l = false.
Proof.
  intros HA HP. unfold mem. induction l as [|x l IH]; simpl in *; [reflexivity|].
  apply andb_true_iff in HA as [Hx Hl]. rewrite (IH Hl), orb_false_r.
  destruct (N.eqb k x) eqn:E; [|reflexivity]. apply N.eqb_eq in E; subst. congruence.
Qed.

(* ================================================================================================================ *)
(* Part A: isolation of the id-keyed tables                                                                         *)
(* ================================================================================================================ *)

(* instructions of a provider-free render with the template cache disabled; P = "this id is one of mine" *)
Definition safe_instr (P : N -> bool) (i : instr) : bool :=
  match i with
  | Raise _ => true
  | RegEmpty r [] => P r
  | CctxParent r | CctxPut r | CctxDel r | RendPut r | RendPop r | AttrPop r | UnInAll r => P r
  | AttrUpd r kids => P r && forallb P kids
  | GHas _ _ | SOff _ | NsHas | NsGet => true
  | _ => false
  end.
Definition safe_code (P : N -> bool) (c : list instr) : bool := forallb (safe_instr P) c.

(* no provider anywhere, no registered reference, template cache disabled and empty, node-subclass table initialised *)
Definition quiet (g : G) : Prop :=
  prov (ps g) = [] /\ allrefs (ps g) = [] /\ lru_disabled (cs g) = true /\ ldict (cs g) = [] /\ amem 0 (ns (ms g)) = true.

Definition agree_on (P : N -> bool) (a b : TS) : Prop :=
  forall k, P k = true ->
    alookup k (cctx a) = alookup k (cctx b) /\ alookup k (rend a) = alookup k (rend b) /\ alookup k (attrs a) = alookup k (attrs b).

Definition untouched_off (P : N -> bool) (a b : TS) : Prop :=
  forall k, P k = false ->
    alookup k (cctx a) = alookup k (cctx b) /\ alookup k (rend a) = alookup k (rend b) /\ alookup k (attrs a) = alookup k (attrs b).

Lemma safe_code_app P a b : safe_code P (a ++ b) = safe_code P a && safe_code P b.
Proof. apply forallb_app. Qed.

Lemma safe_code_parse P n : safe_code P (code_parse n) = true.
Proof. induction n; simpl; auto. Qed.

Lemma quiet_with_ts g t : quiet g -> quiet (with_ts g t).
Proof. intros H; exact H. Qed.

(* One safe instruction, executed in a quiet state: it either raises and leaves the state alone, or changes only the
   id-keyed tables, only at keys the thread owns, and pushes safe instructions. *)
Lemma exec_safe_shape P i g :
  quiet g -> safe_instr P i = true ->
  (exists e, exec i g = RRaise e g) \/
  (exists t' push o, exec i g = RNext (with_ts g t') push o /\ safe_code P push = true /\ untouched_off P (ts g) t').
Proof.
  intros (Hprov & Hall & Hoff & Hdict & Hns) Hs.
  assert (Hsame : untouched_off P (ts g) (ts g)) by (intros k _; auto).
  assert (Hid : with_ts g (ts g) = g) by (destruct g; reflexivity).
  destruct i; simpl in Hs; try discriminate.
  - (* Raise *) left. eexists. reflexivity.
  - (* RegEmpty *) destruct vis; [|discriminate]. right. exists (ts g), [], []. simpl. rewrite Hprov, Hid. auto.
  - (* UnInAll *) right. exists (ts g), [], []. simpl. rewrite Hall, Hid. simpl. auto.
  - (* CctxParent *) simpl. destruct (amem p (cctx (ts g))).
    + right. exists (ts g), [], []. rewrite Hid. auto.
    + left. eexists. reflexivity.
  - (* CctxPut *) right. eexists _, [], []. simpl. split; [reflexivity|]. split; [reflexivity|].
    intros k Hk. simpl. rewrite alookup_aput.
    destruct (N.eqb k r) eqn:E; [apply N.eqb_eq in E; subst; congruence|]. auto.
  - (* CctxDel *) simpl. destruct (amem r (cctx (ts g))).
    + right. eexists _, [], []. split; [reflexivity|]. split; [reflexivity|].
      intros k Hk. simpl. rewrite alookup_aremove.
      destruct (N.eqb k r) eqn:E; [apply N.eqb_eq in E; subst; congruence|]. auto.
    + left. eexists. reflexivity.
  - (* RendPut *) right. eexists _, [], []. simpl. split; [reflexivity|]. split; [reflexivity|].
    intros k Hk. simpl. rewrite alookup_aput.
    destruct (N.eqb k r) eqn:E; [apply N.eqb_eq in E; subst; congruence|]. auto.
  - (* RendPop *) simpl. destruct (amem r (rend (ts g))).
    + right. eexists _, [], []. split; [reflexivity|]. split; [reflexivity|].
      intros k Hk. simpl. rewrite alookup_aremove.
      destruct (N.eqb k r) eqn:E; [apply N.eqb_eq in E; subst; congruence|]. auto.
    + left. eexists. reflexivity.
  - (* AttrPop *) right. eexists _, [], []. simpl. split; [reflexivity|]. split; [reflexivity|].
    intros k Hk. simpl. rewrite alookup_aremove.
    destruct (N.eqb k r) eqn:E; [apply N.eqb_eq in E; subst; congruence|]. auto.
  - (* AttrUpd *) apply andb_true_iff in Hs as [Hr Hk].
    right. eexists _, [], []. simpl. split; [reflexivity|]. split; [reflexivity|].
    intros k HPk. simpl. rewrite alookup_fold_aput, (mem_false_of_forallb P k kids Hk HPk). auto.
  - (* GHas *) right. simpl. rewrite Hdict. simpl. eexists (ts g), _, _. rewrite Hid. split; [reflexivity|].
    split; [|exact Hsame]. rewrite safe_code_app, safe_code_parse. reflexivity.
  - (* SOff *) right. simpl. rewrite Hoff. exists (ts g), [], []. rewrite Hid. auto.
  - (* NsHas *) right. simpl. rewrite Hns. exists (ts g), [NsGet], []. rewrite Hid. auto.
  - (* NsGet *) right. simpl. rewrite Hns. exists (ts g), [], []. rewrite Hid. auto.
Qed.

(* The same instruction in two quiet states whose tables agree on the thread's keys: same outcome, same pushes, same
   observations, and the tables still agree. *)
Lemma exec_safe_agree P i g1 g2 :
  quiet g1 -> quiet g2 -> safe_instr P i = true -> agree_on P (ts g1) (ts g2) ->
  (exists e, exec i g1 = RRaise e g1 /\ exec i g2 = RRaise e g2) \/
  (exists t1 t2 push o, exec i g1 = RNext (with_ts g1 t1) push o /\ exec i g2 = RNext (with_ts g2 t2) push o
                        /\ agree_on P t1 t2).
Proof.
  intros (Hp1 & Ha1 & Ho1 & Hd1 & Hn1) (Hp2 & Ha2 & Ho2 & Hd2 & Hn2) Hs Hag.
  assert (Hid1 : with_ts g1 (ts g1) = g1) by (destruct g1; reflexivity).
  assert (Hid2 : with_ts g2 (ts g2) = g2) by (destruct g2; reflexivity).
  destruct i; simpl in Hs; try discriminate.
  - left. eexists. split; reflexivity.
  - destruct vis; [|discriminate]. right. exists (ts g1), (ts g2), [], []. simpl. rewrite Hp1, Hp2, Hid1, Hid2. auto.
  - right. exists (ts g1), (ts g2), [], []. simpl. rewrite Ha1, Ha2, Hid1, Hid2. simpl. auto.
  - (* CctxParent *) simpl. unfold amem. destruct (Hag p Hs) as (E & _ & _). rewrite E.
    destruct (alookup p (cctx (ts g2))).
    + right. exists (ts g1), (ts g2), [], []. rewrite Hid1, Hid2. auto.
    + left. eexists. split; reflexivity.
  - (* CctxPut *) right. eexists _, _, [], []. simpl. split; [reflexivity|]. split; [reflexivity|].
    intros k Hk. destruct (Hag k Hk) as (E1 & E2 & E3). simpl. rewrite !alookup_aput, E1. auto.
  - (* CctxDel *) simpl. unfold amem. destruct (Hag r Hs) as (E & _ & _). rewrite E.
    destruct (alookup r (cctx (ts g2))).
    + right. eexists _, _, [], []. split; [reflexivity|]. split; [reflexivity|].
      intros k Hk. destruct (Hag k Hk) as (E1 & E2 & E3). simpl. rewrite !alookup_aremove, E1. auto.
    + left. eexists. split; reflexivity.
  - (* RendPut *) right. eexists _, _, [], []. simpl. split; [reflexivity|]. split; [reflexivity|].
    intros k Hk. destruct (Hag k Hk) as (E1 & E2 & E3). simpl. rewrite !alookup_aput, E2. auto.
  - (* RendPop *) simpl. unfold amem. destruct (Hag r Hs) as (_ & E & _). rewrite E.
    destruct (alookup r (rend (ts g2))).
    + right. eexists _, _, [], []. split; [reflexivity|]. split; [reflexivity|].
      intros k Hk. destruct (Hag k Hk) as (E1 & E2 & E3). simpl. rewrite !alookup_aremove, E2. auto.
    + left. eexists. split; reflexivity.
  - (* AttrPop *) right. eexists _, _, [], []. simpl. split; [reflexivity|]. split; [reflexivity|].
    intros k Hk. destruct (Hag k Hk) as (E1 & E2 & E3). simpl. rewrite !alookup_aremove, E3. auto.
  - (* AttrUpd *) right. eexists _, _, [], []. simpl. split; [reflexivity|]. split; [reflexivity|].
    intros k Hk. destruct (Hag k Hk) as (E1 & E2 & E3). simpl. rewrite !alookup_fold_aput, E3. auto.
  - (* GHas *) right. simpl. rewrite Hd1, Hd2. simpl. eexists (ts g1), (ts g2), _, _. rewrite Hid1, Hid2. auto.
  - (* SOff *) right. simpl. rewrite Ho1, Ho2. exists (ts g1), (ts g2), [], []. rewrite Hid1, Hid2. auto.
  - (* NsHas *) right. simpl. rewrite Hn1, Hn2. exists (ts g1), (ts g2), [NsGet], []. rewrite Hid1, Hid2. auto.
  - (* NsGet *) right. simpl. rewrite Hn1, Hn2. exists (ts g1), (ts g2), [], []. rewrite Hid1, Hid2. auto.
Qed.

(* unwinding safe code finds no provide body: the exception escapes *)
Lemma unwind_safe P e c : safe_code P c = true -> unwind e c = None.
Proof.
  induction c as [|i c IH]; simpl; intro H; [reflexivity|].
  apply andb_true_iff in H as [Hi Hc]. destruct i; simpl in Hi; try discriminate; auto.
Qed.

Definition safe_thread (P : N -> bool) (th : thread) : Prop := safe_code P (code th) = true.

Lemma raise_in_safe P e rest o l : safe_code P rest = true ->
  raise_in e rest o l = {| code := []; out := o; tr := l; failed := Some e |}.
Proof. intro H. unfold raise_in. rewrite (unwind_safe P e rest H). reflexivity. Qed.

Lemma settle_safe P th : safe_thread P th -> safe_thread P (settle th).
Proof.
  unfold safe_thread, settle. intro H. destruct (code th) as [|i rest] eqn:E; [rewrite E; exact H|].
  destruct i; try (rewrite E; exact H).
  simpl in H. rewrite (raise_in_safe P e rest _ _ H). reflexivity.
Qed.

(* one step of a safe thread in a quiet state *)
Lemma step_thread_safe P g th :
  quiet g -> safe_thread P th ->
  let '(g', th') := step_thread g th in
  quiet g' /\ safe_thread P th' /\ untouched_off P (ts g) (ts g') /\ exists t', g' = with_ts g t'.
Proof.
  intros Hq Hs. unfold step_thread. unfold safe_thread in Hs.
  destruct (code th) as [|i rest] eqn:E.
  - repeat split; auto. + unfold safe_thread. rewrite E. reflexivity. + intros k _; auto.
    + exists (ts g). destruct g; reflexivity.
  - simpl in Hs. apply andb_true_iff in Hs as [Hi Hrest].
    destruct (exec_safe_shape P i g Hq Hi) as [[e He] | (t' & push & o & He & Hpush & Hun)]; rewrite He.
    + repeat split; auto.
      * apply settle_safe. unfold safe_thread. rewrite (raise_in_safe P e rest _ _ Hrest). reflexivity.
      * intros k _; auto.
      * exists (ts g). destruct g; reflexivity.
    + repeat split; auto.
      * apply settle_safe. unfold safe_thread. simpl. rewrite safe_code_app, Hpush, Hrest. reflexivity.
      * exists t'. reflexivity.
Qed.

(* the same thread stepping in two agreeing quiet states ends in the same thread state *)
Lemma step_thread_agree P g1 g2 th :
  quiet g1 -> quiet g2 -> safe_thread P th -> agree_on P (ts g1) (ts g2) ->
  snd (step_thread g1 th) = snd (step_thread g2 th) /\
  agree_on P (ts (fst (step_thread g1 th))) (ts (fst (step_thread g2 th))).
Proof.
  intros Hq1 Hq2 Hs Hag. unfold step_thread. unfold safe_thread in Hs.
  destruct (code th) as [|i rest] eqn:E; [simpl; auto|].
  simpl in Hs. apply andb_true_iff in Hs as [Hi Hrest].
  destruct (exec_safe_agree P i g1 g2 Hq1 Hq2 Hi Hag) as [(e & H1 & H2) | (t1 & t2 & push & o & H1 & H2 & Hag')];
    rewrite H1, H2; simpl; auto.
Qed.

(* ---------- configurations ---------- *)
Definition disjoint (own : nat -> N -> bool) : Prop :=
  forall t u k, t <> u -> own t k = true -> own u k = false.

Definition safe_config (own : nat -> N -> bool) (c : config) : Prop :=
  quiet (gl c) /\ forall t th, nth_error (ths c) t = Some th -> safe_thread (own t) th.

Lemma nth_error_upd_nth_same {A} (l : list A) n x y :
  nth_error l n = Some y -> nth_error (upd_nth n x l) n = Some x.
Proof. revert n; induction l; intros [|n]; simpl; intros H; try discriminate; auto. Qed.

Lemma nth_error_upd_nth_other {A} (l : list A) n m x :
  n <> m -> nth_error (upd_nth n x l) m = nth_error l m.
Proof.
  revert n m; induction l; intros [|n] [|m]; simpl; intros H; auto; try congruence.
Qed.

Lemma step_safe_config own u c :
  disjoint own -> safe_config own c ->
  safe_config own (step u c) /\
  (forall t, t <> u -> nth_error (ths (step u c)) t = nth_error (ths c) t) /\
  (forall t, t <> u -> untouched_off (fun k => negb (own t k)) (ts (gl c)) (ts (gl (step u c)))).
Proof.
  intros Hd [Hq Hth]. unfold step.
  destruct (nth_error (ths c) u) as [th|] eqn:E.
  - pose proof (step_thread_safe (own u) (gl c) th Hq (Hth u th E)) as H.
    destruct (step_thread (gl c) th) as [g' th'] eqn:Es. destruct H as (Hq' & Hs' & Hun & _).
    simpl. split; [split; [exact Hq'|]|split].
    + intros t th0 Ht. destruct (Nat.eq_dec t u) as [->|Hne].
      * rewrite (nth_error_upd_nth_same _ _ _ _ E) in Ht. inversion Ht; subst. exact Hs'.
      * rewrite nth_error_upd_nth_other in Ht by auto. eauto.
    + intros t Hne. apply nth_error_upd_nth_other. auto.
    + intros t Hne k Hk. apply Hun. apply negb_false_iff in Hk. exact (Hd t u k Hne Hk).
  - split; [split; assumption|]. split; [auto|]. intros t _ k _. auto.
Qed.

(* relation between the interleaved run (c) and the run in which only thread t moved (d) *)
Definition proj_rel (own : nat -> N -> bool) (t : nat) (c d : config) : Prop :=
  safe_config own c /\ safe_config own d /\
  nth_error (ths c) t = nth_error (ths d) t /\ agree_on (own t) (ts (gl c)) (ts (gl d)).

Lemma proj_rel_step_same own t c d :
  disjoint own -> proj_rel own t c d -> proj_rel own t (step t c) (step t d).
Proof.
  intros Hd (Hc & Hdd & Hth & Hag).
  destruct (step_safe_config own t c Hd Hc) as (Hc' & _ & _).
  destruct (step_safe_config own t d Hd Hdd) as (Hd' & _ & _).
  split; [exact Hc'|]. split; [exact Hd'|].
  unfold step. rewrite <- Hth.
  destruct (nth_error (ths c) t) as [th|] eqn:E; [|rewrite <- Hth in *; auto].
  destruct Hc as [Hqc Hsc]. destruct Hdd as [Hqd Hsd].
  destruct (step_thread_agree (own t) (gl c) (gl d) th Hqc Hqd (Hsc t th E) Hag) as [Hsame Hag'].
  destruct (step_thread (gl c) th) as [g1 th1]. destruct (step_thread (gl d) th) as [g2 th2].
  simpl in *. subst th2. split; [|exact Hag'].
  rewrite (nth_error_upd_nth_same _ _ _ _ E). symmetry in Hth.
  rewrite (nth_error_upd_nth_same _ _ _ _ Hth). reflexivity.
Qed.

Lemma proj_rel_step_other own t u c d :
  disjoint own -> u <> t -> proj_rel own t c d -> proj_rel own t (step u c) d.
Proof.
  intros Hd Hne (Hc & Hdd & Hth & Hag).
  destruct (step_safe_config own u c Hd Hc) as (Hc' & Hkeep & Hun).
  split; [exact Hc'|]. split; [exact Hdd|]. split.
  - rewrite Hkeep by auto. exact Hth.
  - intros k Hk. assert (Hk' : negb (own t k) = false) by (rewrite Hk; reflexivity).
    destruct (Hun t (fun E => Hne (eq_sym E)) k Hk') as (E1 & E2 & E3).
    destruct (Hag k Hk) as (F1 & F2 & F3). rewrite <- E1, <- E2, <- E3. auto.
Qed.

Lemma proj_rel_run own t s : forall c d,
  disjoint own -> proj_rel own t c d -> proj_rel own t (run s c) (run (filter (Nat.eqb t) s) d).
Proof.
  induction s as [|u s IH]; intros c d Hd HR; simpl; [exact HR|].
  destruct (Nat.eqb t u) eqn:E.
  - apply Nat.eqb_eq in E; subst u. simpl. apply IH; [exact Hd|]. apply proj_rel_step_same; assumption.
  - apply Nat.eqb_neq in E. apply IH; [exact Hd|]. apply proj_rel_step_other; auto.
Qed.

(* Main statement of part A. *)
Theorem isolation_lemma :
  forall (own : nat -> N -> bool) (c0 : config), disjoint own -> safe_config own c0 ->
  forall (s : list nat) (t : nat),
    let cf := run s c0 in
    let ct := run (filter (Nat.eqb t) s) c0 in
    nth_error (ths cf) t = nth_error (ths ct) t /\
    forall k, own t k = true ->
      alookup k (cctx (ts (gl cf))) = alookup k (cctx (ts (gl ct))) /\
      alookup k (rend (ts (gl cf))) = alookup k (rend (ts (gl ct))) /\
      alookup k (attrs (ts (gl cf))) = alookup k (attrs (ts (gl ct))).
Proof.
  intros own c0 Hd Hc s t.
  assert (HR : proj_rel own t c0 c0) by (repeat split; try apply Hc; intros k _; auto).
  destruct (proj_rel_run own t s c0 c0 Hd HR) as (_ & _ & Hth & Hag). split; [exact Hth|exact Hag].
Qed.

(* keys that belong to no thread are never written, and everything outside the id-keyed tables is never written *)
Lemma run_safe_config own s : forall c, disjoint own -> safe_config own c -> safe_config own (run s c).
Proof.
  induction s as [|u s IH]; intros c Hd Hc; simpl; [exact Hc|].
  apply IH; [exact Hd|]. apply (step_safe_config own u c Hd Hc).
Qed.

Lemma step_frame own u c :
  disjoint own -> safe_config own c -> exists t', gl (step u c) = with_ts (gl c) t'.
Proof.
  intros Hd [Hq Hth]. unfold step. destruct (nth_error (ths c) u) as [th|] eqn:E.
  - pose proof (step_thread_safe (own u) (gl c) th Hq (Hth u th E)) as H.
    destruct (step_thread (gl c) th) as [g' th']. destruct H as (_ & _ & _ & t' & ->). exists t'. reflexivity.
  - exists (ts (gl c)). destruct (gl c); reflexivity.
Qed.

Theorem frame_lemma :
  forall own c0, disjoint own -> safe_config own c0 -> forall s,
    ps (gl (run s c0)) = ps (gl c0) /\ cs (gl (run s c0)) = cs (gl c0) /\ ms (gl (run s c0)) = ms (gl c0).
Proof.
  intros own c0 Hd Hc s. revert c0 Hc. induction s as [|u s IH]; intros c0 Hc; simpl; [auto|].
  destruct (step_frame own u c0 Hd Hc) as [t' Ht'].
  destruct (IH (step u c0) (proj1 (step_safe_config own u c0 Hd Hc))) as (E1 & E2 & E3).
  rewrite E1, E2, E3, Ht'. auto.
Qed.

Theorem unowned_untouched_lemma :
  forall own c0, disjoint own -> safe_config own c0 -> forall s k, (forall t, own t k = false) ->
    alookup k (cctx (ts (gl (run s c0)))) = alookup k (cctx (ts (gl c0))) /\
    alookup k (rend (ts (gl (run s c0)))) = alookup k (rend (ts (gl c0))) /\
    alookup k (attrs (ts (gl (run s c0)))) = alookup k (attrs (ts (gl c0))).
Proof.
  intros own c0 Hd Hc s k Hk. revert c0 Hc. induction s as [|u s IH]; intros c0 Hc; simpl; [auto|].
  destruct (IH (step u c0) (proj1 (step_safe_config own u c0 Hd Hc))) as (E1 & E2 & E3).
  rewrite E1, E2, E3. clear IH E1 E2 E3.
  destruct Hc as [Hq Hth]. unfold step. destruct (nth_error (ths c0) u) as [th|] eqn:E; [|auto].
  pose proof (step_thread_safe (own u) (gl c0) th Hq (Hth u th E)) as H.
  destruct (step_thread (gl c0) th) as [g' th']. destruct H as (_ & _ & Hun & _). simpl.
  destruct (Hun k (Hk u)) as (F1 & F2 & F3). auto.
Qed.

