(* Model for property C07 - concurrent renders in different threads do not interfere.

   Shared state `G` = the process-global tables of django_components, as they are NOW (after fixes 9b964de - the provider
   references its own data while its body renders - and 51f6eaa - registration and the context-cache entry come after the
   user code of the prep phase; the root render forgets every id of its own tree in a `finally`):
     perfutil/provide.py    provide_cache / provide_references (insertion-ordered dict of sets) / all_reference_ids
     perfutil/component.py  component_context_cache / component_renderer_cache / child_component_attrs   (id-keyed)
     util/cache.py          LRUCache of cache.py: dict key -> node  +  doubly linked list between two sentinels (pointer level)
     component.py           component_node_subclasses_by_name   (lazy once-only)
     component_media.py     ComponentMedia.resolved / the Media path lists / media_cache   (lazy once-only class data)

   A thread is a continuation: a list of ATOMIC INSTRUCTIONS.  Atomicity assumption (stated, not proved): one source
   line that reads or writes the global state above is one atomic action; everything between two such lines is local to
   the thread and is glued to the preceding action.  Every instruction below except `Raise` is such a line (its name is the
   label of the anchor statement the scheduler harness/sched.py stops at); executing it may push further instructions
   (calls, loop bodies over a snapshot, branches taken on what was read) in front of the continuation, or raise.
   Exceptions unwind the continuation to the innermost `ProvEnd` (= the `except` branch of managed_provide_cache) or
   `RootEnd` (= the `finally` of the root's _render_impl).

   `run : schedule -> config -> config`; a schedule is a list of thread indices; each element lets that thread execute one
   instruction; an element naming a finished thread is a no-op.  Definitions only; proofs are in Conc/Proofs.v. *)
From DJC Require Import Lib.Base.
Local Open Scope N_scope.

(* ---------- sets (lists without duplicates, insertion order) and insertion-ordered dicts ---------- *)
Definition mem (x : N) (l : list N) : bool := existsb (N.eqb x) l.
Definition sadd (x : N) (l : list N) : list N := if mem x l then l else l ++ [x].
Definition srem (x : N) (l : list N) : list N := filter (fun y => negb (N.eqb x y)) l.

Section Tab.
  Context {V : Type}.
  (* d[k] = v : keeps the position of an existing key, appends a new one (Python dict order) *)
  Fixpoint aput (k : N) (v : V) (l : list (N * V)) : list (N * V) :=
    match l with
    | [] => [(k, v)]
    | (k', v') :: r => if N.eqb k k' then (k, v) :: r else (k', v') :: aput k v r
    end.
  Definition aget (d : V) (k : N) (l : list (N * V)) : V :=
    match alookup k l with Some v => v | None => d end.
End Tab.

(* ---------- the shared state ---------- *)
Record lnode := { nkey : N; nval : N; nprev : option N; nnext : option N }.

Record PS := { prov : list (N * N); prefs : list (N * list N); allrefs : list N;
               rank : list N  (* iteration order CPython used for `all - before` sets; constant, see `order_by` *) }.
Record TS := { cctx : list (N * N); rend : list (N * N); attrs : list (N * N) }.
Record CS := { lcap : option Z; ldict : list (N * N); heap : list (N * lnode); nextaddr : N }.
Record MS := { mres : list N; mpath : list (N * N); mcache : list (N * N);
               mdepth : list (N * N)  (* file layout, constant: how many times the relative path re-resolves *);
               ns : list (N * N) }.
Record G := { ps : PS; ts : TS; cs : CS; ms : MS }.

Definition with_ps (g : G) (p : PS) : G := {| ps := p; ts := ts g; cs := cs g; ms := ms g |}.
Definition with_ts (g : G) (t : TS) : G := {| ps := ps g; ts := t; cs := cs g; ms := ms g |}.
Definition with_cs (g : G) (c : CS) : G := {| ps := ps g; ts := ts g; cs := c; ms := ms g |}.
Definition with_ms (g : G) (m : MS) : G := {| ps := ps g; ts := ts g; cs := cs g; ms := m |}.

Definition set_prov (p : PS) v := {| prov := v; prefs := prefs p; allrefs := allrefs p; rank := rank p |}.
Definition set_prefs (p : PS) v := {| prov := prov p; prefs := v; allrefs := allrefs p; rank := rank p |}.
Definition set_allrefs (p : PS) v := {| prov := prov p; prefs := prefs p; allrefs := v; rank := rank p |}.
Definition set_cctx (t : TS) v := {| cctx := v; rend := rend t; attrs := attrs t |}.
Definition set_rend (t : TS) v := {| cctx := cctx t; rend := v; attrs := attrs t |}.
Definition set_attrs (t : TS) v := {| cctx := cctx t; rend := rend t; attrs := v |}.
Definition set_ldict (c : CS) v := {| lcap := lcap c; ldict := v; heap := heap c; nextaddr := nextaddr c |}.
Definition set_heap (c : CS) v := {| lcap := lcap c; ldict := ldict c; heap := v; nextaddr := nextaddr c |}.
Definition set_mres (m : MS) v := {| mres := v; mpath := mpath m; mcache := mcache m; mdepth := mdepth m; ns := ns m |}.
Definition set_mpath (m : MS) v := {| mres := mres m; mpath := v; mcache := mcache m; mdepth := mdepth m; ns := ns m |}.
Definition set_mcache (m : MS) v := {| mres := mres m; mpath := mpath m; mcache := v; mdepth := mdepth m; ns := ns m |}.
Definition set_ns (m : MS) v := {| mres := mres m; mpath := mpath m; mcache := mcache m; mdepth := mdepth m; ns := v |}.

(* LRU heap: address 0 = head sentinel (key 0 = ""), address 1 = tail sentinel; real keys are >= 1 *)
Definition HEAD : N := 0.
Definition TAIL : N := 1.
Definition dummy_node : lnode := {| nkey := 0; nval := 0; nprev := None; nnext := None |}.
Definition node_at (c : CS) (a : N) : lnode := aget dummy_node a (heap c).
Definition upd_node (c : CS) (a : N) (f : lnode -> lnode) : CS := set_heap c (aput a (f (node_at c a)) (heap c)).
Definition nset_prev (v : option N) (n : lnode) := {| nkey := nkey n; nval := nval n; nprev := v; nnext := nnext n |}.
Definition nset_next (v : option N) (n : lnode) := {| nkey := nkey n; nval := nval n; nprev := nprev n; nnext := v |}.
Definition nset_val (v : N) (n : lnode) := {| nkey := nkey n; nval := v; nprev := nprev n; nnext := nnext n |}.

Definition empty_cs (cap : option Z) : CS :=
  {| lcap := cap; ldict := [];
     heap := [(HEAD, {| nkey := 0; nval := 0; nprev := None; nnext := Some TAIL |});
              (TAIL, {| nkey := 0; nval := 0; nprev := Some HEAD; nnext := None |})];
     nextaddr := 2 |}.
Definition empty_G (cap : option Z) (rnk : list N) (depths : list (N * N)) (ns_populated : bool) : G :=
  {| ps := {| prov := []; prefs := []; allrefs := []; rank := rnk |};
     ts := {| cctx := []; rend := []; attrs := [] |};
     cs := empty_cs cap;
     ms := {| mres := []; mpath := []; mcache := []; mdepth := depths; ns := if ns_populated then [(0, 1)] else [] |} |}.

(* ---------- instructions ---------- *)
Inductive err := KeyError | Boom | RuntimeError | AttributeError.
Inductive obs := OInj (v : N) | OTpl (v : N) | OMedia (v : N).

Inductive instr :=
| Raise (e : err)                                   (* local: raise / re-raise; never a scheduling point *)
| RootEnd (ids : list N)                            (* local: the `finally` of the root's _render_impl; ids = keys of the
                                                       tree's post_render_callbacks so far; also a handler mark *)
(* provide.py: ProvideNode.render, set_provided_context_var, get_injected_context_var *)
| ProvPut (pid v : N)                               (* provide_cache[provide_id] = payload *)
| CopyRefs (pid : N) (body : list instr)            (* all_reference_ids_before = all_reference_ids.copy(); then the body *)
| SelfRef (pid : N)                                 (* provide_references.setdefault(provide_id, set()).add(provide_id) *)
| ProvEnd (pid : N) (before : list N)               (* normal exit: first line of cache_cleanup; also the handler mark *)
| Diff (pid : N) (before : list N)                  (* new_reference_ids = all_reference_ids - all_reference_ids_before *)
| CcHasRef (pid : N) | CcDiscard (pid : N) | CcTestEmpty (pid : N) | CcPopRefs (pid : N) | CcPopCache (pid : N)
| CcTestOrphan (pid : N) | CcPopOrphan (pid : N)
| Inject (pid : N)                                  (* return provide_cache[cache_key] *)
(* perfutil/provide.py: register_provide_reference / unregister_provide_reference *)
| RegEmpty (r : N) (vis : list N) | RegAddAll (r : N) (vis : list N)
| RegHas (r k : N) | RegNew (r k : N) | RegAdd (r k : N)
| UnInAll (r : N) | UnRemAll (r : N) | UnKeys (r : N)
| UnIndex (r k : N) | UnRem (r k : N) | UnTestEmpty (r k : N) | UnPopCache (r k : N) | UnPopRefs (r k : N)
(* id-keyed tables *)
| CctxParent (p : N) | CctxPut (r : N) | CctxDel (r : N)
| RendPut (r : N) | RendPop (r : N) | AttrPop (r : N) | AttrUpd (r : N) (kids : list N)
| PurgeCctx (r : N) | PurgeRend (r : N) | PurgeAttr (r : N)   (* the root's finally: table.pop(tree_id, None) *)
(* util/cache.py LRUCache.get / set / _remove / _add_to_front, line by line *)
| GHas (k : N) (ntags : nat) | GNode (k : N) | GRet (a : N)
| SOff (k : N) | SHas (k : N) | SNode (k : N) | SVal (a k : N) | SFull (k : N) | STail (k : N) | SDel (l : N) | SPut (k : N)
| RmPrev (a : N) | RmNext (a : N) (p : option N) | RmSetNext (p : N) (n : option N) | RmSetPrev (n : N) (p : option N)
| AfNext (a : N) | AfPrev (a : N) | AfTest (a : N) | AfLink1 (a : N) | AfLink2 (a : N)
(* component.py ComponentNode.parse: component_node_subclasses_by_name *)
| NsHas | NsPut | NsGet
(* component_media.py: _get_comp_cls_media / _resolve_media *)
| McHas (k : N) | MResolvedQ1 (k : N) | MResolvedQ2 (k : N) | MResolvePaths (k : N) | MSetRes (k : N)
| MReadJs (k : N) | McPut (k v : N) | McRet (k : N).

(* Label of the anchor statement (shared with harness/c07.py, which parses this definition). *)
Definition lbl (i : instr) : N :=
  match i with
  | Raise _ => 0
  | RootEnd _ => 0
  | ProvPut _ _ => 1
  | CopyRefs _ _ => 2
  | SelfRef _ => 3
  | ProvEnd _ _ => 5
  | Diff _ _ => 4
  | CcHasRef _ => 5
  | CcDiscard _ => 6
  | CcTestEmpty _ => 7
  | CcPopRefs _ => 8
  | CcPopCache _ => 9
  | CcTestOrphan _ => 10
  | CcPopOrphan _ => 11
  | Inject _ => 12
  | RegEmpty _ _ => 13
  | RegAddAll _ _ => 14
  | RegHas _ _ => 15
  | RegNew _ _ => 16
  | RegAdd _ _ => 17
  | UnInAll _ => 18
  | UnRemAll _ => 19
  | UnKeys _ => 20
  | UnIndex _ _ => 21
  | UnRem _ _ => 22
  | UnTestEmpty _ _ => 23
  | UnPopCache _ _ => 24
  | UnPopRefs _ _ => 25
  | CctxParent _ => 26
  | CctxPut _ => 27
  | CctxDel _ => 28
  | RendPut _ => 29
  | RendPop _ => 30
  | AttrPop _ => 31
  | AttrUpd _ _ => 32
  | GHas _ _ => 33
  | GNode _ => 34
  | GRet _ => 35
  | SOff _ => 36
  | SHas _ => 37
  | SNode _ => 38
  | SVal _ _ => 39
  | SFull _ => 40
  | STail _ => 41
  | SDel _ => 42
  | SPut _ => 43
  | RmPrev _ => 44
  | RmNext _ _ => 45
  | RmSetNext _ _ => 46
  | RmSetPrev _ _ => 47
  | AfNext _ => 48
  | AfPrev _ => 49
  | AfTest _ => 50
  | AfLink1 _ => 51
  | AfLink2 _ => 52
  | NsHas => 53
  | NsPut => 54
  | NsGet => 55
  | McHas _ => 56
  | MResolvedQ1 _ => 57
  | MResolvedQ2 _ => 58
  | MResolvePaths _ => 59
  | MSetRes _ => 60
  | MReadJs _ => 61
  | McPut _ _ => 62
  | McRet _ => 63
  | PurgeCctx _ => 64
  | PurgeRend _ => 65
  | PurgeAttr _ => 66
  end.

Inductive res :=
| RNext (g : G) (push : list instr) (o : list obs)
| RRaise (e : err) (g : G).

(* iteration order of a freshly built Python set: taken from `rank` (observed), the rest in insertion order *)
Definition order_by (rnk l : list N) : list N :=
  filter (fun r => mem r l) rnk ++ filter (fun r => negb (mem r rnk)) l.

(* code of LRUCache._remove(node) / _add_to_front(node) as called with node address a *)
Definition code_remove (a : N) : list instr := [RmPrev a].
Definition code_addfront (a : N) : list instr := [AfNext a; AfPrev a; AfTest a].
(* ComponentNode.parse for each {% component %} tag of a template being compiled *)
Fixpoint code_parse (ntags : nat) : list instr :=
  match ntags with O => [] | S n => NsHas :: code_parse n end.

(* the root's `finally`: for tree_id in list(post_render_callbacks): pop it from the three tables, unregister it *)
Definition code_purge (ids : list N) : list instr :=
  flat_map (fun r => [PurgeCctx r; PurgeRend r; PurgeAttr r; UnInAll r]) ids.

(* how often the component-relative path still re-resolves: resolve_media_file maps p to dir/p while that file exists *)
Definition resolve_path (depth p : N) : N := if N.ltb p depth then N.succ p else p.

Definition lru_disabled (c : CS) : bool := match lcap c with Some z => Z.leb z 0 | None => false end.
Definition lru_full (c : CS) : bool :=
  match lcap c with Some z => Z.leb z (Z.of_nat (length (ldict c))) | None => false end.

Definition exec (i : instr) (g : G) : res :=
  let p := ps g in let t := ts g in let c := cs g in let m := ms g in
  let nxt := fun push => RNext g push [] in
  let keyerr := RRaise KeyError g in
  match i with
  | Raise e => RRaise e g
  | RootEnd ids => nxt (code_purge ids)
  (* ---- provide ---- *)
  | ProvPut pid v => RNext (with_ps g (set_prov p (aput pid v (prov p)))) [] []
  | CopyRefs pid body => nxt (SelfRef pid :: body ++ [ProvEnd pid (allrefs p)])
  | SelfRef pid => RNext (with_ps g (set_prefs p (aput pid (sadd pid (aget [] pid (prefs p))) (prefs p)))) [] []
  | ProvEnd pid _ | CcHasRef pid =>
      nxt ((if amem pid (prefs p) then [CcDiscard pid] else []) ++ [CcTestEmpty pid])
  | Diff pid before =>
      nxt (map UnInAll (order_by (rank p) (filter (fun r => negb (mem r before)) (allrefs p))))
  | CcDiscard pid =>
      match alookup pid (prefs p) with
      | None => keyerr
      | Some s => RNext (with_ps g (set_prefs p (aput pid (srem pid s) (prefs p)))) [] []
      end
  | CcTestEmpty pid =>
      match alookup pid (prefs p) with
      | Some [] => nxt [CcPopRefs pid; CcPopCache pid]
      | _ => nxt [CcTestOrphan pid]
      end
  | CcPopRefs pid =>
      if amem pid (prefs p) then RNext (with_ps g (set_prefs p (aremove pid (prefs p)))) [] [] else keyerr
  | CcPopCache pid | CcPopOrphan pid =>
      if amem pid (prov p) then RNext (with_ps g (set_prov p (aremove pid (prov p)))) [] [] else keyerr
  | CcTestOrphan pid =>
      nxt (if negb (amem pid (prefs p)) && amem pid (prov p) then [CcPopOrphan pid] else [])
  | Inject pid =>
      match alookup pid (prov p) with Some v => RNext g [] [OInj v] | None => keyerr end
  (* ---- register / unregister ---- *)
  | RegEmpty r vis => match prov p with [] => nxt [] | _ :: _ => nxt [RegAddAll r vis] end
  | RegAddAll r vis => RNext (with_ps g (set_allrefs p (sadd r (allrefs p)))) (map (RegHas r) vis) []
  | RegHas r k => nxt (if amem k (prefs p) then [RegAdd r k] else [RegNew r k; RegAdd r k])
  | RegNew r k => RNext (with_ps g (set_prefs p (aput k [] (prefs p)))) [] []
  | RegAdd r k =>
      match alookup k (prefs p) with
      | None => keyerr
      | Some s => RNext (with_ps g (set_prefs p (aput k (sadd r s) (prefs p)))) [] []
      end
  | UnInAll r => nxt (if mem r (allrefs p) then [UnRemAll r] else [])
  | UnRemAll r =>
      if mem r (allrefs p) then RNext (with_ps g (set_allrefs p (srem r (allrefs p)))) [UnKeys r] [] else keyerr
  | UnKeys r => nxt (map (UnIndex r) (map fst (prefs p)))
  | UnIndex r k =>
      match alookup k (prefs p) with
      | None => keyerr
      | Some s => nxt (if mem r s then [UnRem r k; UnTestEmpty r k] else [])
      end
  | UnRem r k =>
      match alookup k (prefs p) with
      | None => keyerr
      | Some s => if mem r s then RNext (with_ps g (set_prefs p (aput k (srem r s) (prefs p)))) [] [] else keyerr
      end
  | UnTestEmpty r k =>
      match alookup k (prefs p) with
      | None => keyerr
      | Some [] => nxt [UnPopCache r k; UnPopRefs r k]
      | Some _ => nxt []
      end
  | UnPopCache r k =>
      if amem k (prov p) then RNext (with_ps g (set_prov p (aremove k (prov p)))) [] [] else keyerr
  | UnPopRefs r k =>
      if amem k (prefs p) then RNext (with_ps g (set_prefs p (aremove k (prefs p)))) [] [] else keyerr
  (* ---- id-keyed tables ---- *)
  | CctxParent q => if amem q (cctx t) then nxt [] else keyerr
  | CctxPut r => RNext (with_ts g (set_cctx t (aput r 1 (cctx t)))) [] []
  | CctxDel r => if amem r (cctx t) then RNext (with_ts g (set_cctx t (aremove r (cctx t)))) [] [] else keyerr
  | RendPut r => RNext (with_ts g (set_rend t (aput r 1 (rend t)))) [] []
  | RendPop r => if amem r (rend t) then RNext (with_ts g (set_rend t (aremove r (rend t)))) [] [] else keyerr
  | AttrPop r => RNext (with_ts g (set_attrs t (aremove r (attrs t)))) [] []
  | AttrUpd r kids => RNext (with_ts g (set_attrs t (fold_left (fun acc k => aput k 1 acc) kids (attrs t)))) [] []
  | PurgeCctx r => RNext (with_ts g (set_cctx t (aremove r (cctx t)))) [] []
  | PurgeRend r => RNext (with_ts g (set_rend t (aremove r (rend t)))) [] []
  | PurgeAttr r => RNext (with_ts g (set_attrs t (aremove r (attrs t)))) [] []
  (* ---- LRU ---- *)
  | GHas k ntags =>
      if amem k (ldict c) then nxt [GNode k]
      else RNext g (code_parse ntags ++ [SOff k]) [OTpl k]          (* miss: compile (local), then set *)
  | GNode k => match alookup k (ldict c) with
               | None => keyerr
               | Some a => nxt (code_remove a ++ code_addfront a ++ [GRet a])
               end
  | GRet a => RNext g [] [OTpl (nval (node_at c a))]
  | SOff k => nxt (if lru_disabled c then [] else [SHas k])
  | SHas k => nxt (if amem k (ldict c) then [SNode k] else [SFull k])
  | SNode k => match alookup k (ldict c) with
               | None => keyerr
               | Some a => nxt (SVal a k :: code_remove a ++ code_addfront a)
               end
  | SVal a k => RNext (with_cs g (upd_node c a (nset_val k))) [] []
  | SFull k => nxt (if lru_full c then [STail k] else [SPut k])
  | STail k => match nprev (node_at c TAIL) with
               | None => RRaise RuntimeError g
               | Some l => nxt (code_remove l ++ [SDel l; SPut k])
               end
  | SDel l => let key := nkey (node_at c l) in
              if amem key (ldict c) then RNext (with_cs g (set_ldict c (aremove key (ldict c)))) [] [] else keyerr
  | SPut k => let a := nextaddr c in
              let c1 := {| lcap := lcap c; ldict := aput k a (ldict c);
                           heap := aput a {| nkey := k; nval := k; nprev := None; nnext := None |} (heap c);
                           nextaddr := N.succ a |} in
              RNext (with_cs g c1) (code_addfront a) []
  | RmPrev a => nxt [RmNext a (nprev (node_at c a))]
  | RmNext a pv =>
      let nx := nnext (node_at c a) in
      nxt ((match pv with Some pa => [RmSetNext pa nx] | None => [] end) ++
           (match nx with Some na => [RmSetPrev na pv] | None => [] end))
  | RmSetNext pa nx => RNext (with_cs g (upd_node c pa (nset_next nx))) [] []
  | RmSetPrev na pv => RNext (with_cs g (upd_node c na (nset_prev pv))) [] []
  | AfNext a => RNext (with_cs g (upd_node c a (nset_next (nnext (node_at c HEAD))))) [] []
  | AfPrev a => RNext (with_cs g (upd_node c a (nset_prev (Some HEAD)))) [] []
  | AfTest a => nxt (match nnext (node_at c HEAD) with Some _ => [AfLink1 a; AfLink2 a] | None => [] end)
  | AfLink1 a => match nnext (node_at c HEAD) with
                 | None => RRaise AttributeError g
                 | Some h => RNext (with_cs g (upd_node c h (nset_prev (Some a)))) [] []
                 end
  | AfLink2 a => RNext (with_cs g (upd_node c HEAD (nset_next (Some a)))) [] []
  (* ---- component_node_subclasses_by_name ---- *)
  | NsHas => nxt (if amem 0 (ns m) then [NsGet] else [NsPut; NsGet])
  | NsPut => RNext (with_ms g (set_ns m (aput 0 1 (ns m)))) [] []
  | NsGet => if amem 0 (ns m) then nxt [] else keyerr
  (* ---- lazy media ---- *)
  | McHas k => nxt (if amem k (mcache m) then [McRet k] else [MResolvedQ1 k])
  | MResolvedQ1 k => nxt ((if mem k (mres m) then [] else [MResolvedQ2 k]) ++ [MReadJs k])
  | MResolvedQ2 k => nxt (if mem k (mres m) then [MSetRes k] else [MResolvePaths k; MSetRes k])
  | MResolvePaths k =>
      RNext (with_ms g (set_mpath m (aput k (resolve_path (aget 0 k (mdepth m)) (aget 0 k (mpath m))) (mpath m)))) [] []
  | MSetRes k => RNext (with_ms g (set_mres m (sadd k (mres m)))) [] []
  | MReadJs k => nxt [McPut k (aget 0 k (mpath m))]
  | McPut k v => RNext (with_ms g (set_mcache m (aput k v (mcache m)))) [McRet k] []
  | McRet k => match alookup k (mcache m) with Some v => RNext g [] [OMedia v] | None => keyerr end
  end.

(* ---------- threads ---------- *)
Record thread := { code : list instr; out : list obs; tr : list N (* labels executed, newest first *);
                   failed : option err }.

Definition mk_thread (c : list instr) : thread := {| code := c; out := []; tr := []; failed := None |}.

(* unwinding: drop instructions up to the innermost active provide body (its except branch runs, then re-raises) or the
   end of the root render (its finally runs, then the exception goes on) *)
Fixpoint unwind (e : err) (c : list instr) : option (list instr) :=
  match c with
  | [] => None
  | ProvEnd pid before :: r => Some (Diff pid before :: CcHasRef pid :: Raise e :: r)
  | RootEnd ids :: r => Some (code_purge ids ++ Raise e :: r)
  | _ :: r => unwind e r
  end.

Definition raise_in (e : err) (rest : list instr) (o : list obs) (l : list N) : thread :=
  match unwind e rest with
  | Some c => {| code := c; out := o; tr := l; failed := None |}
  | None => {| code := []; out := o; tr := l; failed := Some e |}
  end.

(* local steps (a pending raise, the end of a root render) are executed together with the action before them *)
Fixpoint settle_n (n : nat) (th : thread) : thread :=
  match n with
  | O => th
  | S n' =>
      match code th with
      | Raise e :: rest => settle_n n' (raise_in e rest (out th) (tr th))
      | RootEnd ids :: rest =>
          settle_n n' {| code := code_purge ids ++ rest; out := out th; tr := tr th; failed := failed th |}
      | _ => th
      end
  end.
Definition settle (th : thread) : thread := settle_n (2 * length (code th) + 2) th.

(* `post_render_callbacks[render_id] = on_component_rendered` follows component_context_cache[render_id] = ... without any
   other action in between: the id joins the callbacks of the render tree = the argument of the pending RootEnd *)
Fixpoint add_cb (r : N) (c : list instr) : list instr :=
  match c with
  | [] => []
  | RootEnd ids :: rest => RootEnd (ids ++ [r]) :: rest
  | i :: rest => i :: add_cb r rest
  end.
Definition after_instr (i : instr) (rest : list instr) : list instr :=
  match i with CctxPut r => add_cb r rest | _ => rest end.

Definition step_thread (g : G) (th : thread) : G * thread :=
  match code th with
  | [] => (g, th)
  | i :: rest =>
      match exec i g with
      | RNext g' push o =>
          (g', settle {| code := push ++ after_instr i rest; out := out th ++ o; tr := lbl i :: tr th;
                         failed := failed th |})
      | RRaise e g' => (g', settle (raise_in e rest (out th) (lbl i :: tr th)))
      end
  end.

Record config := { gl : G; ths : list thread }.

Fixpoint upd_nth {A} (n : nat) (x : A) (l : list A) : list A :=
  match l, n with
  | [], _ => []
  | _ :: r, O => x :: r
  | y :: r, S n' => y :: upd_nth n' x r
  end.

Definition step (t : nat) (c : config) : config :=
  match nth_error (ths c) t with
  | None => c
  | Some th => let '(g', th') := step_thread (gl c) th in {| gl := g'; ths := upd_nth t th' (ths c) |}
  end.

Definition run (s : list nat) (c : config) : config := fold_left (fun c t => step t c) s c.

Definition finished (th : thread) : bool := match code th with [] => true | _ :: _ => false end.
Definition all_finished (c : config) : bool := forallb finished (ths c).
(* what a thread returns: the exception that escaped (if any) and what it observed *)
Definition result (th : thread) : option err * list obs := (failed th, out th).

(* ---------- render programs and their compilation to thread code ---------- *)
(* A page is a list of items.  A component: its render id, the cache key of its inline template (None: the template does
   not go through cached_template), the provide key it injects in get_context_data (inject first, then the failure),
   whether get_context_data raises, and the items of its template.  Ids are assumed distinct (6 random characters in
   the implementation). *)
Inductive item :=
| IComp (rid : N) (tpl : option N) (inj : option N) (fail : bool) (body : list item)
| IProv (key pid val : N) (body : list item).

(* render ids of the components whose tags stand directly in a template (through provide blocks) *)
Fixpoint direct_ids_item (it : item) : list N :=
  match it with
  | IComp rid _ _ _ _ => [rid]
  | IProv _ _ _ body =>
      (fix go (l : list item) : list N := match l with [] => [] | x :: r => direct_ids_item x ++ go r end) body
  end.
Definition direct_ids (l : list item) : list N :=
  (fix go (l : list item) : list N := match l with [] => [] | x :: r => direct_ids_item x ++ go r end) l.

(* Component._render_impl up to the placeholder / component_post_render entry (order of the code after fix 51f6eaa:
   parent lookup, user code, template, and only then registration and the context-cache entry) *)
Definition prep (parent : option N) (env : list (N * N)) (rid : N) (tpl : option N) (inj : option N) (fail : bool)
           (ntags : nat) : list instr :=
  (match parent with Some q => [CctxParent q] | None => [] end) ++
  (match inj with
   | None => []
   | Some key => match alookup key env with Some pid => [Inject pid] | None => [Raise KeyError] end
   end) ++
  (if fail then [Raise Boom] else []) ++
  (match tpl with Some k => [GHas k ntags] | None => [] end) ++
  [RegEmpty rid (map snd env); CctxPut rid; RendPut rid].

(* gen parent env item = (code run where the tag stands, code run later by the root's post-render queue) *)
Fixpoint gen (parent : option N) (env : list (N * N)) (it : item) {struct it} : list instr * list instr :=
  match it with
  | IComp rid tpl inj fail body =>
      let '(imm, dfr) :=
        (fix gens (l : list item) : list instr * list instr :=
           match l with
           | [] => ([], [])
           | x :: r => let '(a, b) := gen (Some rid) env x in let '(a', b') := gens r in (a ++ a', b ++ b')
           end) body in
      let proc := [RendPop rid; AttrPop rid] ++ imm ++ [AttrUpd rid (direct_ids body)] ++ dfr ++ [CctxDel rid; UnInAll rid] in
      let pre := prep parent env rid tpl inj fail (length (direct_ids body)) in
      match parent with
      | Some _ => (pre, proc)                 (* nested: placeholder now, rendered by the root's queue *)
      | None => (pre ++ proc ++ [RootEnd []], [])   (* root: runs the queue at once, then forgets its tree *)
      end
  | IProv key pid val body =>
      let env' := aput key pid env in
      let '(imm, dfr) :=
        (fix gens (l : list item) : list instr * list instr :=
           match l with
           | [] => ([], [])
           | x :: r => let '(a, b) := gen parent env' x in let '(a', b') := gens r in (a ++ a', b ++ b')
           end) body in
      ([ProvPut pid val; CopyRefs pid imm], dfr)
  end.

Fixpoint gens (parent : option N) (env : list (N * N)) (l : list item) : list instr * list instr :=
  match l with
  | [] => ([], [])
  | x :: r => let '(a, b) := gen parent env x in let '(a', b') := gens parent env r in (a ++ a', b ++ b')
  end.

(* Template(page).render(Context()) *)
Definition page_code (page : list item) : list instr := fst (gens None [] page).
(* cached_template(k) alone (used to pre-populate the cache) *)
Definition compile_code (k : N) : list instr := [GHas k 0].
(* first access of Comp.media *)
Definition media_code (k : N) : list instr := [McHas k].

Inductive task := TRender (page : list item) | TCompile (k : N) | TMedia (k : N).
Definition task_code (t : task) : list instr :=
  match t with TRender p => page_code p | TCompile k => compile_code k | TMedia k => media_code k end.

Definition init_config (g : G) (tasks : list task) : config :=
  {| gl := g; ths := map (fun t => settle (mk_thread (task_code t))) tasks |}.

(* run one thread alone for at most n actions *)
Definition solo (n : nat) (t : nat) (c : config) : config := run (repeat t n) c.

(* ---------- the property, as decidable predicates on a finished configuration ---------- *)
Definition err_eqb (a b : err) : bool :=
  match a, b with
  | KeyError, KeyError | Boom, Boom | RuntimeError, RuntimeError | AttributeError, AttributeError => true
  | _, _ => false
  end.
Definition obs_eqb (a b : obs) : bool :=
  match a, b with
  | OInj x, OInj y | OTpl x, OTpl y | OMedia x, OMedia y => N.eqb x y
  | _, _ => false
  end.
Definition result_eqb (a b : option err * list obs) : bool :=
  option_eqb err_eqb (fst a) (fst b) && list_eqb obs_eqb (snd a) (snd b).

(* walk of the linked list: keys from head.next forwards (9999 = ran into None, 9998 = longer than the fuel: a cycle) *)
Fixpoint walk (next : lnode -> option N) (stop : N) (c : CS) (fuel : nat) (a : option N) : list N :=
  match fuel with
  | O => [9998]
  | S f => match a with
           | None => [9999]
           | Some x => if N.eqb x stop then [] else nkey (node_at c x) :: walk next stop c f (next (node_at c x))
           end
  end.
Definition walk_fwd (c : CS) : list N := walk nnext TAIL c 12%nat (nnext (node_at c HEAD)).
Definition walk_bwd (c : CS) : list N := walk nprev HEAD c 12%nat (nprev (node_at c TAIL)).

Fixpoint insert_sorted (k : N) (l : list N) : list N :=
  match l with
  | [] => [k]
  | x :: r => if N.leb k x then k :: l else x :: insert_sorted k r
  end.
Definition sortN (l : list N) : list N := fold_right insert_sorted [] l.

(* the linked list, read in both directions, and the dict describe the same entries; not over capacity *)
Definition lru_consistent (c : CS) : bool :=
  let f := walk_fwd c in
  list_eqb N.eqb f (rev (walk_bwd c)) && list_eqb N.eqb (sortN f) (sortN (map fst (ldict c)))
  && negb (existsb (fun k => N.leb 9998 k) f)
  && match lcap c with Some z => Z.leb (Z.of_nat (length (ldict c))) (Z.max 0 z) | None => true end.

(* residue of the id-keyed and provide tables: all keys, sorted *)
Definition residue (g : G) : list (list N) :=
  [sortN (map fst (prov (ps g))); sortN (map fst (prefs (ps g))); sortN (allrefs (ps g));
   sortN (map fst (cctx (ts g))); sortN (map fst (rend (ts g))); sortN (map fst (attrs (ts g)))].
Definition tables_empty (g : G) : bool :=
  forallb (fun l => match l with [] => true | _ :: _ => false end) (residue g).

(* ---------- correspondence cases ---------- *)
(* what the harness observed for one thread: status (0 finished without exception, 1 KeyError, 2 Boom, 3 RuntimeError,
   4 AttributeError), whether the returned value equals the solo value, number of actions executed, the value of a
   media task (path depth), and - for a sample of the cases - the complete label trace *)
Definition tobs := (N * bool * N * option N * option (list N))%type.
Definition status_of (th : thread) : N :=
  match failed th with
  | None => 0 | Some KeyError => 1 | Some Boom => 2 | Some RuntimeError => 3 | Some AttributeError => 4
  end.
Definition media_val (th : thread) : option N :=
  match rev (out th) with OMedia v :: _ => Some v | _ => None end.

Definition expand (segs : list (nat * nat)) : list nat := flat_map (fun tk => repeat (fst tk) (snd tk)) segs.

(* case = configuration (maxsize, template keys compiled beforehand, set-order rank, media layout depths, subclass table
   populated) , tasks, executed schedule as (thread, count) segments, observations *)
Definition c07_case :=
  (option Z * list N * list N * list (N * N) * bool * list task * list (nat * nat)
   * list tobs * list (list N) * (list N * list N * list N) * bool * list (N * bool * N * option N))%type.

Definition SOLO_FUEL : nat := 600%nat.

Definition start (cap : option Z) (pre : list N) (rnk : list N) (depths : list (N * N)) (nsp : bool) (tasks : list task)
  : config :=
  let c0 := solo SOLO_FUEL 0%nat (init_config (empty_G cap rnk depths nsp) (map TCompile pre)) in
  let c1 := fold_left (fun c t => solo SOLO_FUEL t c) (seq 0%nat (length pre)) c0 in
  init_config (gl c1) tasks.

(* what the harness can see of "same as alone": the same exception class, or the same value *)
Definition same_outcome (a b : thread) : bool :=
  option_eqb err_eqb (failed a) (failed b)
  && match failed a with None => list_eqb obs_eqb (out a) (out b) | Some _ => true end.

Definition check_thread (c0 cf : config) (t : nat) (o : tobs) : bool :=
  let '(st, same, steps, mv, labels) := o in
  match nth_error (ths cf) t, nth_error (ths (solo SOLO_FUEL t c0)) t with
  | Some th, Some ths =>
      finished th && N.eqb st (status_of th)
      && Bool.eqb same (same_outcome th ths)
      && N.eqb steps (N.of_nat (length (tr th)))
      && option_eqb N.eqb mv (media_val th)
      && match labels with None => true | Some l => list_eqb N.eqb l (rev (tr th)) end
  | _, _ => false
  end.

Fixpoint check_threads (c0 cf : config) (t : nat) (os : list tobs) : bool :=
  match os with
  | [] => true
  | o :: r => check_thread c0 cf t o && check_threads c0 cf (S t) r
  end.

Definition check_c07 (x : c07_case) : bool :=
  let '(cap, pre, rnk, depths, nsp, tasks, segs, os, resid, lru, nspop, med) := x in
  let c0 := start cap pre rnk depths nsp tasks in
  let cf := run (expand segs) c0 in
  let '(fw, bw, dk) := lru in
  Nat.eqb (length os) (length tasks)
  && check_threads c0 cf 0%nat os
  && list_eqb (list_eqb N.eqb) resid (residue (gl cf))
  && list_eqb N.eqb fw (walk_fwd (cs (gl cf))) && list_eqb N.eqb bw (walk_bwd (cs (gl cf)))
  && list_eqb N.eqb dk (sortN (map fst (ldict (cs (gl cf)))))
  && Bool.eqb nspop (amem 0 (ns (ms (gl cf))))
  && forallb (fun e => let '(k, r, pth, mc) := e in
                       Bool.eqb r (mem k (mres (ms (gl cf)))) && N.eqb pth (aget 0 k (mpath (ms (gl cf))))
                       && option_eqb N.eqb mc (alookup k (mcache (ms (gl cf))))) med.
